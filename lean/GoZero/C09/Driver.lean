/-
C09 — driver: replays an implementation trace through the model (correspondence) and the declarative
matcher (monitor).

Sections  `begin kind=router`:
  route m=<method> p=<pattern> h=<id|nil>   => clean=<path.Clean(pattern)> ok|dup|badmethod|badpath|empty|err:<..>
  req   m=<method> p=<path> n=<repeats>     => clean=<path.Clean(path)> <outcome> [| <outcome>]…   (distinct outcomes, sorted)
      outcome:  h=<id> vars=<k=v,…sorted>  |  405 allow=<methods sorted,>  |  404
Sections  `begin kind=tree` (core/search.Tree directly, raw strings):
  tadd p=<route> h=<id|nil>   => ok|dup|dupslash|notfromroot|empty
  tsearch p=<route> n=<k>     => h=<id> vars=… | none          (distinct outcomes, sorted, ` | `-separated)
-/
import GoZero.Base.Trace
import GoZero.C09.Spec
namespace GoZero.C09

open GoZero

def insertStr (x : String) : List String → List String
  | [] => [x]
  | y :: ys => if x ≤ y then x :: y :: ys else y :: insertStr x ys

def sortStr (l : List String) : List String := l.foldr insertStr []

def fmtVars (ps : List (String × String)) : String :=
  ",".intercalate (sortStr (ps.map fun (k, v) => k ++ "=" ++ v))

def fmtHit (h : H) (ps : Params) : String := s!"h={h} vars={fmtVars (paramMap ps)}"

def fmtOutcome : Outcome → String
  | .handler h ps => fmtHit h ps
  | .notAllowed a => "405 allow=" ++ ",".intercalate (sortStr a)
  | .notFound => "404"

/-- every result some iteration order of the children maps can produce. -/
def nextAll : List String → Node → List (H × Params)
  | [], _ => []
  | t :: rest, n =>
    let via (p : String → Node → List (H × Params)) : List (H × Params) :=
      let l := n.lits.flatMap fun kc => p kc.1 kc.2
      if l.isEmpty then n.vars.flatMap fun kc => p kc.1 kc.2 else l
    match rest with
    | [] =>
      if t = "" ∧ n.item.isSome then n.item.toList.map (fun h => (h, []))
      else via fun k c => if matchTok k t then c.item.toList.map (fun h => hit k t (h, [])) else []
    | _ :: _ =>
      via fun k c => if matchTok k t then (nextAll rest c).map (hit k t) else []

def dedup (l : List String) : List String := (sortStr l).eraseDups

/-- all outcomes of `serve` over all iteration orders. -/
def serveAll (r : Router) (method path : String) : List String :=
  let own : List (H × Params) :=
    match r.trees.lookup method with
    | some root => if rooted path then nextAll (cleanToks path) root else []
    | none => []
  if own.isEmpty then [fmtOutcome (serve r method path)]
  else dedup (own.map fun (h, ps) => fmtHit h ps)

def arg (pfx : String) (toks : List String) : Option String :=
  toks.findSome? fun t => if t.startsWith pfx then some (String.ofList (t.toList.drop pfx.length)) else none

def parseItem (s : String) : Option (Option H) :=
  if s = "nil" then some none else s.toNat?.map some

def splitBar (obs : List String) : List String :=
  let rec go (cur : List String) (acc : List String) : List String → List String
    | [] => (acc ++ [joinSp cur])
    | "|" :: tl => go [] (acc ++ [joinSp cur]) tl
    | t :: tl => go (cur ++ [t]) acc tl
  go [] [] obs

def fmtReg : Except HandleErr Router → String
  | .ok _ => "ok"
  | .error .invalidMethod => "badmethod"
  | .error .invalidPath => "badpath"
  | .error (.tree .dupItem) => "dup"
  | .error (.tree .emptyItem) => "empty"
  | .error (.tree .dupSlash) => "dupslash"
  | .error (.tree .notFromRoot) => "notfromroot"

def fmtSpecReg : Spec.RegVerdict → String
  | .ok => "ok" | .dup => "dup" | .badMethod => "badmethod" | .badPath => "badpath" | .emptyHandler => "empty"

def fmtAdd : Except AddErr Node → String
  | .ok _ => "ok"
  | .error .dupItem => "dup"
  | .error .emptyItem => "empty"
  | .error .dupSlash => "dupslash"
  | .error .notFromRoot => "notfromroot"

/-- the property's verdict on one observed outcome of a request. `none` = fine. -/
def monitorReq (tbl : Spec.Table) (hyp : Bool) (m path : String) (impl : String) : Option String :=
  let toks := if rooted path then some (cleanToks path) else none
  let cs := match toks with | some t => Spec.candidates tbl m t | none => []
  let adm := match toks with | some t => Spec.admissible tbl m t | none => []
  if impl.startsWith "h=" then
    -- dispatched: must be to an admissible route with exactly its bound segments
    let ok := adm.any fun r =>
      let b := Spec.binds r.pats (toks.getD [])
      if Spec.distinctNames r.pats then impl == s!"h={r.h} vars={fmtVars b}"
      else -- repeated name inside one pattern: every delivered pair must be one of the bound ones
        impl.startsWith s!"h={r.h} vars=" &&
          ((String.ofList (impl.toList.drop (s!"h={r.h} vars=".length))).splitOn ",").all fun kv =>
            b.any fun (k, v) => kv == k ++ "=" ++ v
    if ok then
      if hyp && adm.length > 1 then some "hypothesis holds but the preferred match is not unique" else none
    else if cs.isEmpty then some s!"dispatched [{impl}] although no route of method {m} matches"
    else some s!"dispatched [{impl}] but the preferred match is [{",".intercalate (adm.map fun r => s!"h={r.h} vars={fmtVars (Spec.binds r.pats (toks.getD []))}")}]"
  else
    match Spec.expect tbl m toks with
    | .handler r => some s!"not dispatched [{impl}] although route h={r.h} matches"
    | .notAllowed a =>
      let want := "405 allow=" ++ ",".intercalate (sortStr a)
      if impl == want then none else some s!"expected [{want}] got [{impl}]"
    | .notFound => if impl == "404" then none else some s!"expected [404] got [{impl}]"

structure St where
  router : Router := {}
  tbl : Spec.Table := []
  tree : Node := newNode none
  ttbl : Spec.Table := []

def patKind (pats : List String) : String :=
  String.ofList (pats.map fun k => if isVar k then 'v' else if k = "" then 'r' else 'l')

def runSection (r : Report) (s : Section) : Report := Id.run do
  let mut r := r
  let mut st : St := {}
  for l in s.lines do
    r := { r with ops := r.ops + 1 }
    match l.op with
    | "route" :: args =>
      match arg "m=" args, arg "p=" args, (arg "h=" args).bind parseItem with
      | some m, some p, some item =>
        let res := handle st.router m p item
        let (sv, tbl') := Spec.register st.tbl m p item
        let (implClean, implRes) := match l.obs with
          | [c, v] => ((String.ofList (c.toList.drop 6)), v)
          | _ => ("?", joinSp l.obs)
        r := r.addCover ("route-" ++ fmtReg res)
        if rooted p then
          if cleanPath p ≠ implClean then r := r.mismatch s.idx l.idx s!"clean={cleanPath p}" s!"clean={implClean}"
          if cleanPath p ≠ p then r := r.addCover "route-needs-clean"
        if fmtReg res ≠ implRes then r := r.mismatch s.idx l.idx (fmtReg res) implRes
        if fmtSpecReg sv ≠ implRes then
          r := r.violation s.idx l.idx s!"registration of {m} {p}: property demands [{fmtSpecReg sv}] implementation did [{implRes}]"
        match res with
        | .ok router' => st := { st with router := router' }
        | .error _ => pure ()
        st := { st with tbl := tbl' }
        if !(Spec.oneVarPerPosition st.tbl) then r := r.addCover "table-outside-hypothesis"
      | _, _, _ => r := r.mismatch s.idx l.idx "bad-op" (joinSp l.op)
    | "req" :: args =>
      match arg "m=" args, arg "p=" args with
      | some m, some p =>
        let (implClean, outs) := match l.obs with
          | c :: rest => ((String.ofList (c.toList.drop 6)), splitBar rest)
          | [] => ("?", [])
        if rooted p then
          if cleanPath p ≠ implClean then r := r.mismatch s.idx l.idx s!"clean={cleanPath p}" s!"clean={implClean}"
          if cleanPath p ≠ p then r := r.addCover "req-needs-clean"
          if cleanToks p = [""] then r := r.addCover "req-root"
        else r := r.addCover "req-not-rooted"
        let hyp := Spec.oneVarPerPosition st.tbl
        let all := serveAll st.router m p
        let det := fmtOutcome (serve st.router m p)
        -- correspondence
        if outs.isEmpty then r := r.mismatch s.idx l.idx det "no-observation"
        if all.length ≤ 1 then
          if outs ≠ [det] then r := r.mismatch s.idx l.idx det (" | ".intercalate outs)
        else
          r := r.addCover "req-order-dependent"
          if outs.length > 1 then r := r.addCover "req-order-dependent-observed"
          if !(outs.all all.contains) then
            r := r.mismatch s.idx l.idx (" | ".intercalate all) (" | ".intercalate outs)
        if hyp && all.length > 1 then r := r.mismatch s.idx l.idx "deterministic-under-hypothesis" (" | ".intercalate all)
        -- coverage of the model's branches
        match serve st.router m p with
        | .handler h ps =>
          let toks := cleanToks p
          let route := (st.tbl.find? fun x => x.h == h).map (·.pats)
          let kind := patKind (route.getD [])
          let cs := Spec.candidates st.tbl m toks
          r := r.addCover (if ps.isEmpty then "hit-literal-only" else if kind.contains 'l' then "hit-mixed" else "hit-vars-only")
          if cs.length > 1 then r := r.addCover "hit-several-candidates"
          -- backtracking: where the chosen route has a variable, a literal child for the request's token
          -- existed (it is searched first and must have failed)
          let cp := route.getD []
          let backtracked := (List.range cp.length).any fun i =>
            isVar (cp.getD i "") && st.tbl.any fun x =>
              x.method == m && x.pats.take i == cp.take i && x.pats[i]? == toks[i]? && !isVar (x.pats.getD i "")
          if backtracked then r := r.addCover "hit-after-backtrack"
          if !(Spec.distinctNames cp) then r := r.addCover "hit-repeated-name-in-pattern"
        | .notAllowed a => r := r.addCover (if a.length > 1 then "405-several" else "405-one")
        | .notFound => r := r.addCover "404"
        -- monitor on the implementation's own outcomes
        if hyp && outs.length > 1 then
          r := r.violation s.idx l.idx s!"request {m} {p}: dispatch differs between runs [{" | ".intercalate outs}] on a table with one variable name per position"
        for o in outs do
          match monitorReq st.tbl hyp m p o with
          | some msg => r := r.violation s.idx l.idx s!"request {m} {p}: {msg}"
          | none => pure ()
      | _, _ => r := r.mismatch s.idx l.idx "bad-op" (joinSp l.op)
    | "tadd" :: args =>
      match arg "p=" args, (arg "h=" args).bind parseItem with
      | some p, some item =>
        let res := treeAdd st.tree p item
        r := r.addCover ("tadd-" ++ fmtAdd res)
        if fmtAdd res ≠ joinSp l.obs then r := r.mismatch s.idx l.idx (fmtAdd res) (joinSp l.obs)
        match res with
        | .ok t => st := { st with tree := t }
        | .error _ => pure ()
      | _, _ => r := r.mismatch s.idx l.idx "bad-op" (joinSp l.op)
    | "tsearch" :: args =>
      match arg "p=" args with
      | some p =>
        let outs := splitBar l.obs
        let all := if rooted p then dedup ((nextAll (toksOf p) st.tree).map fun (h, ps) => fmtHit h ps) else []
        let det := match treeSearch st.tree p with | some (h, ps) => fmtHit h ps | none => "none"
        r := r.addCover (if det = "none" then "tsearch-none" else "tsearch-hit")
        if all.length ≤ 1 then
          if outs ≠ [det] then r := r.mismatch s.idx l.idx det (" | ".intercalate outs)
        else
          r := r.addCover "tsearch-order-dependent"
          if !(outs.all all.contains) then
            r := r.mismatch s.idx l.idx (" | ".intercalate all) (" | ".intercalate outs)
      | none => r := r.mismatch s.idx l.idx "bad-op" (joinSp l.op)
    | _ => r := r.mismatch s.idx l.idx "bad-op" (joinSp l.op)
  return r

def driver (secs : List Section) : Report := secs.foldl runSection {}

end GoZero.C09
