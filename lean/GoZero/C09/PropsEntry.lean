/-
C09 — property theorems, round 5: the entry points around the core.

* `engine.bindRoutes` / `bindFeaturedRoutes` with the two loops NESTED as in the code (`bindGroups`): equal to the flat
  registration list the earlier theorems speak about (`bind_nested_is_flat`) — a rejection anywhere (not the last
  route of its group, not the last group) aborts the start-up with exactly that route's verdict.
* `Server.Start()` = `handleError(engine.start(router))`: panics with the registration error iff the rule rejects a
  route, reaches the listener iff it rejects none (`start_rejects_iff`, `public_api_start`), for every option list
  (now including `WithRouter`) and `MustNewServer`.
* `pathvar.WithVars` / `pathvar.Vars` and the `len(result.Params) > 0` guard of `ServeHTTP`: the variables the handler
  sees (`delivered_fresh`, `delivered_eq`), also for a request that arrives with variables of an outer router
  (`outer_vars_survive_literal_route`), and the monitor used for such requests is sound (`monitor_ctx_sound`).
-/
import GoZero.C09.PropsApi
import GoZero.C09.Driver
namespace GoZero.C09

open Spec

/-! ### the nested loops of `engine.bindRoutes` -/

theorem bindAll_append (a b : List Reg) : ∀ (r : Router),
    bindAll r (a ++ b) = match (bindAll r a).2 with
      | none => bindAll (bindAll r a).1 b
      | some e => ((bindAll r a).1, some e) := by
  induction a with
  | nil => intro r; rfl
  | cons x a ih =>
    intro r
    obtain ⟨m, p, item⟩ := x
    simp only [List.cons_append, bindAll]
    cases h : handle r m p item with
    | ok r' => simp only [ih r']
    | error e => rfl

/-- **The nested loops are the flat list.**  `bindRoutes` (outer loop over the groups, abort on the first group
that fails) over `bindFeaturedRoutes` (inner loop over the routes of the group, abort on the first route that
fails) registers exactly what the flat loop over all routes in `AddRoutes` order registers, and reports the same
error: the first rejected route ends the start-up wherever it sits. -/
theorem bind_nested_is_flat (gs : List (List Reg)) : ∀ (r : Router), bindGroups r gs = bindAll r gs.flatten := by
  induction gs with
  | nil => intro r; rfl
  | cons g gs ih =>
    intro r
    simp only [bindGroups, List.flatten_cons, bindAll_append]
    cases h : (bindAll r g).2 with
    | none => simp only [ih]
    | some e => rfl

-- a duplicate in the FIRST group, followed by valid routes in the same and in a later group: the start-up error is
-- the duplicate's, nothing after it is bound
example : (bindGroups {} [[("GET", "/a", some 1), ("GET", "/a/", some 2), ("GET", "/b", some 3)], [("GET", "/c", some 4)]]).2
    = some (.tree .dupItem) := by decide +kernel
example : serve (bindGroups {} [[("GET", "/a", some 1), ("GET", "/a/", some 2), ("GET", "/b", some 3)], [("GET", "/c", some 4)]]).1
    "GET" "/c" = .notFound := by decide +kernel

theorem Server.groupRegs_flatten (s : Server) : s.groupRegs.flatten = s.regs := by
  simp only [Server.groupRegs, Server.regs, List.flatMap_def]

theorem Api.groupRegs_flatten (a : Api) : a.groupRegs.flatten = a.regs := by
  simp only [Api.groupRegs, Api.regs, List.flatMap_def]

/-! ### `Server.Start()` -/

/-- `Start` does what `bindRoutes` (flat) does, and panics exactly with its error. -/
theorem start_is_bindRoutes (s : Server) :
    s.start.1 = s.bindRoutes.1 ∧
    s.start.2 = (match s.bindRoutes.2 with | some e => StartResult.panics e | none => .listens) := by
  constructor
  · simp only [Server.start, Server.bindRoutes, bind_nested_is_flat, Server.groupRegs_flatten]
  · simp only [Server.start, Server.bindRoutes, bind_nested_is_flat, Server.groupRegs_flatten]
    cases (bindAll s.router.core s.regs).2 <;> rfl

/-- **`Server.Start()` rejects the registration, for every configuration.**  `NewServer` / `MustNewServer` with ANY
run options (`WithNotFoundHandler`, `WithNotAllowedHandler`, `WithRouter` in any number and order), ANY groups with
any route options, then `Start()`: it reaches the listener iff the registration rule accepts every route; otherwise
it panics with the verdict of the FIRST rejected route (same method + cleaned pattern twice, unsupported method, no
leading '/'), the routes before that one — and no others — are in the router. -/
theorem start_rejects_iff (opts : List RunOpt) (groups : List Group) :
    let s := groups.foldl Server.addRoutes (mustNewServer opts)
    let tbl := (bindTable [] s.regs).1
    Rep s.start.1.router.core tbl ∧ TblOK tbl ∧
    (s.start.2 = .listens ↔ (bindTable [] s.regs).2 = .ok) ∧
    (∀ e, s.start.2 = .panics e → verdictOf (.error e) = (bindTable [] s.regs).2 ∧ (bindTable [] s.regs).2 ≠ .ok ∧
      ∃ pre reg post, s.regs = pre ++ reg :: post ∧ (bindTable [] pre).2 = .ok ∧
        (register (bindTable [] pre).1 reg.1 reg.2.1 reg.2.2).1 = (bindTable [] s.regs).2 ∧
        (bindTable [] s.regs).1 = (bindTable [] pre).1) := by
  intro s tbl
  obtain ⟨h1, h2, h3, _⟩ := server_is_declarative_matcher opts groups "" ""
  obtain ⟨e1, e2⟩ := start_is_bindRoutes s
  have h3' : bindVerdict s.bindRoutes.2 = (bindTable [] s.regs).2 := h3
  refine ⟨by rw [e1]; exact h1, h2, ?_, ?_⟩
  · rw [e2]
    cases hb : s.bindRoutes.2 with
    | none => rw [hb] at h3'; simp only [bindVerdict] at h3'; simp [← h3']
    | some e =>
      rw [hb] at h3'; simp only [bindVerdict] at h3'
      constructor
      · intro h; cases h
      · intro h; rw [h] at h3'; exact absurd h3' (verdictOf_error_ne_ok e)
  · intro e he
    rw [e2] at he
    cases hb : s.bindRoutes.2 with
    | none => rw [hb] at he; cases he
    | some e' =>
      rw [hb] at he h3'
      simp only [StartResult.panics.injEq] at he
      subst he
      simp only [bindVerdict] at h3'
      have hne : (bindTable [] s.regs).2 ≠ .ok := by rw [← h3']; exact verdictOf_error_ne_ok e'
      obtain ⟨pre, reg, post, hs, hp, ht, hr⟩ := bindTable_first_rejection s.regs [] _ rfl hne
      exact ⟨h3', hne, pre, reg, post, hs, hp, hr, ht⟩

theorem mustNewServer_is_newServer : mustNewServer = newServer := rfl

theorem foldl_apply_router (l : List RunOpt) : ∀ (s s' : Server), s.router = s'.router →
    (l.foldl Server.apply s).router = (l.foldl Server.apply s').router := by
  induction l with
  | nil => intro s s' h; exact h
  | cons o l ih =>
    intro s s' h
    simp only [List.foldl_cons]
    apply ih
    cases o <;> simp only [Server.apply, h]

/-- **`WithRouter` resets the router.**  Whatever stands before the last `WithRouter` in the option list — the
engine's not-found wrapper that `NewServer` installs first included — is gone: the router is the one the options
after it build on a fresh router. -/
theorem newServer_withRouter (pre post : List RunOpt) :
    (newServer (pre ++ RunOpt.router :: post)).router = (post.foldl Server.apply {}).router := by
  unfold newServer
  rw [← List.cons_append, List.foldl_append, List.foldl_cons]
  exact foldl_apply_router post _ _ rfl

example : (newServer [.notFound (some 7), .router]).router.notFound = none := by decide
example : (newServer [.router, .notFound (some 7)]).router.notFound = some (.engine (some 7)) := by decide

/-- **`Start()` through the public API with the aliasing the code has**: any history of caller slices and
`AddRoutes` / `AddRoute` calls; `engine.start` reads the groups through their references, nested loops; the result is
the verdict of the registration rule on "every call's options applied to a copy of the routes as written". -/
theorem public_api_start (ops : List ApiOp) :
    let a := ops.foldl Api.step {}
    let written := (pureRun ops).2.flatMap Group.regs
    bindGroups {} a.groupRegs = bindAll {} written ∧
    bindVerdict (bindGroups {} a.groupRegs).2 = (bindTable [] written).2 ∧
    Rep (bindGroups {} a.groupRegs).1 (bindTable [] written).1 := by
  intro a written
  obtain ⟨_, h2, _, _, h5, _⟩ := public_api_is_declarative_matcher [] ops "" ""
  have h2' : a.regs = written := h2
  obtain ⟨r1, _, _⟩ := bindAll_represents written {} [] rep_empty.1 rep_empty.2
  have e : bindGroups {} a.groupRegs = bindAll {} written := by
    rw [bind_nested_is_flat, Api.groupRegs_flatten, h2']
  refine ⟨e, ?_, by rw [e]; exact r1⟩
  rw [e]; rw [h2'] at h5; exact h5

/-! ### pathvar: what the handler sees -/

theorem vars_withVars (c : Ctx) (m : List (String × String)) : (c.withVars m).vars = some m := by
  simp [Ctx.withVars, Ctx.vars]

/-- a context value stored under any OTHER key (a middleware's `context.WithValue`) does not hide the variables. -/
theorem vars_skips_other_keys (c : Ctx) (k : String) (v : CtxVal) (hk : k ≠ pathVarsKey) :
    Ctx.vars ((k, v) :: c) = c.vars := by
  have : (pathVarsKey == k) = false := by
    rw [beq_eq_false_iff_ne]; exact fun h => hk h.symm
  simp only [Ctx.vars, List.lookup, this]

theorem foldl_paramStep_ne_nil (ps : Params) : ∀ (acc : List (String × String)), acc ≠ [] →
    ps.foldl (fun m kv => (m.filter (·.1 != kv.1)) ++ [kv]) acc ≠ [] := by
  induction ps with
  | nil => intro acc h; exact h
  | cons kv ps ih => intro acc _; simp only [List.foldl_cons]; exact ih _ (by simp)

theorem paramMap_eq_nil_iff (ps : Params) : paramMap ps = [] ↔ ps = [] := by
  constructor
  · intro h
    cases ps with
    | nil => rfl
    | cons kv ps =>
      exfalso
      simp only [paramMap, List.foldl_cons] at h
      exact foldl_paramStep_ne_nil ps _ (by simp) h
  · intro h; subst h; rfl

/-- **What the handler sees.**  `ServeHTTP` replaces the variables in the context by the route's when the route
bound some; a route that binds nothing leaves the context as it came. -/
theorem delivered_eq (c : Ctx) (ps : Params) :
    delivered c ps = if ps = [] then c.vars.getD [] else paramMap ps := by
  unfold delivered handlerCtx
  by_cases h : ps = []
  · subst h; simp [paramMap]
  · have hne : paramMap ps ≠ [] := fun e => h ((paramMap_eq_nil_iff ps).mp e)
    have hl : (paramMap ps).length > 0 := List.length_pos_iff.mpr hne
    simp only [hl, if_true, vars_withVars, Option.getD_some, h, if_false]

/-- **A request as net/http delivers it** (no path variables in its context — also when middlewares stored other
values): the handler sees exactly the segments the route bound (`vars_are_bound_segments` says which). -/
theorem delivered_fresh (c : Ctx) (hc : c.vars = none) (ps : Params) : delivered c ps = paramMap ps := by
  rw [delivered_eq]
  by_cases h : ps = []
  · subst h; simp [hc, paramMap]
  · simp only [h, if_false]

/-- witness (as implemented): a request that arrives with variables of an outer router keeps them on a route
without variables — outside the property's quantifier (see `assumptions`), accepted by `monitorObsCtx`. -/
theorem outer_vars_survive_literal_route :
    delivered (Ctx.withVars [] [("x", "outer")]) [] = [("x", "outer")] ∧
    delivered (Ctx.withVars [] [("x", "outer")]) [("id", "7")] = [("id", "7")] := by decide

/-! ### the monitor for requests that arrive with outer variables is sound -/

/-- the canonical observation when the request arrived with context `c`. -/
def obsOfCtx (c : Ctx) : Response → Obs
  | .route h ps => .hit h (delivered c ps)
  | r => obsOf r

theorem sameSet_refl (l : List (String × String)) : sameSet l l = true := by
  simp [sameSet, List.all_eq_true]

/-- **Soundness of `monitorObsCtx`.**  On any router that stores the table, any custom handlers, any incoming
context: what the model does — the route handler called with `handlerCtx c ps` — is accepted. -/
theorem monitor_ctx_sound {pr : PatRouter} {tbl : Table} (hrep : Rep pr.core tbl) (hok : TblOK tbl) (m p : String)
    (c : Ctx) :
    monitorObsCtx tbl (oneVarPerPosition tbl) (customOf pr) m
      (if rooted p then some (cleanToks p) else none) (c.vars.getD []) (obsOfCtx c (pr.serveHTTP m p)) = .ok := by
  have hs := monitor_sound hrep hok m p
  generalize (if rooted p = true then some (cleanToks p) else none) = toks at hs ⊢
  cases hresp : pr.serveHTTP m p with
  | route h ps =>
    rw [hresp] at hs
    simp only [obsOf] at hs
    simp only [obsOfCtx, monitorObsCtx, delivered_eq]
    by_cases hps : ps = []
    · subst hps
      simp only [paramMap, List.foldl_nil] at hs
      simp only [if_true]
      split
      · rfl
      · rename_i hno
        by_cases ho : c.vars.getD [] = []
        · rw [ho] at hno; exact absurd hs hno
        · have : (!(c.vars.getD []).isEmpty && sameSet (c.vars.getD []) (c.vars.getD [])) = true := by
            rw [sameSet_refl]
            cases hh : c.vars.getD [] with
            | nil => exact absurd hh ho
            | cons a b => rfl
          rw [if_pos this]; exact hs
    · simp only [hps, if_false, hs, if_true]
  | customNotAllowed h => rw [hresp] at hs; simpa only [obsOfCtx, monitorObsCtx, obsOf] using hs
  | defaultNotAllowed a => rw [hresp] at hs; simpa only [obsOfCtx, monitorObsCtx, obsOf] using hs
  | defaultNotFound => rw [hresp] at hs; simpa only [obsOfCtx, monitorObsCtx, obsOf] using hs
  | customNotFound nf =>
    rw [hresp] at hs
    simp only [obsOfCtx, obsOf] at hs ⊢
    cases hu : nf.user with
    | none => rw [hu] at hs; simpa only [monitorObsCtx] using hs
    | some h => rw [hu] at hs; simpa only [monitorObsCtx] using hs

-- non-vacuity: a literal route and a variable route, a request with outer variables
example : monitorObsCtx [⟨"GET", ["a"], 1⟩, ⟨"GET", [":id"], 2⟩] true {} "GET" (some ["a"]) [("x", "outer")]
    (.hit 1 [("x", "outer")]) = .ok := by decide
example : monitorObsCtx [⟨"GET", ["a"], 1⟩, ⟨"GET", [":id"], 2⟩] true {} "GET" (some ["b"]) [("x", "outer")]
    (.hit 2 [("x", "outer")]) ≠ .ok := by decide
example : monitorObsCtx [⟨"GET", ["a"], 1⟩, ⟨"GET", [":id"], 2⟩] true {} "GET" (some ["b"]) [("x", "outer")]
    (.hit 2 [("id", "b"), ("x", "outer")]) ≠ .ok := by decide

/-! ### the chain `engine.bindRoute` puts in front of a route handler -/

def Layer.isAuth : Layer → Bool
  | .auth _ _ => true
  | _ => false

theorem runChain_append (auth : Option String) (a b : List Layer) (ha : ∀ l ∈ a, l.isAuth = false ∧ l.stops = false) :
    runChain auth (a ++ b) = (a.map Layer.tag ++ (runChain auth b).1, (runChain auth b).2) := by
  induction a with
  | nil => rfl
  | cons l a ih =>
    obtain ⟨hl, hs⟩ := ha l (List.mem_cons_self ..)
    have ih' := ih fun x hx => ha x (List.mem_cons_of_mem _ hx)
    cases l with
    | auth x y => cases hl
    | chainMw i => simp only [List.cons_append, runChain, hs, ih', List.map_cons]; rfl
    | use k => simp only [List.cons_append, runChain, hs, ih', List.map_cons]; rfl
    | routeMw i => simp only [List.cons_append, runChain, hs, ih', List.map_cons]; rfl

/-- a user middleware that answers itself ends the way down: nothing behind it runs, the handler is not reached. -/
theorem runChain_stops (auth : Option String) (l : Layer) (rest : List Layer) (ha : l.isAuth = false)
    (hs : l.stops = true) : runChain auth (l :: rest) = ([l.tag], .stopped) := by
  cases l with
  | auth x y => cases ha
  | chainMw i => simp only [runChain, hs, if_true]
  | use k => simp only [runChain, hs, if_true]
  | routeMw i => simp only [runChain, hs, if_true]

/-- **The route handler is reached iff the group's own JWT settings accept the token** — whatever custom chain
(`WithChain`), `Server.Use` middlewares and `rest.WithMiddlewares` wrappers surround it, as long as these call `next`
(ids below 900); the custom chain's middlewares run first (also in front of a 401), the `Use` middlewares (in `Use`
order) and then the route's own middlewares run only behind the Authorize handler. -/
theorem chain_reaches_handler_iff (chain : Option Nat) (jwt : Option (String × String)) (uses : List Nat) (nmw : Nat)
    (auth : Option String) (hc : chain.getD 0 < 900) (hu : ∀ k ∈ uses, k < 900) (hn : nmw < 900) :
    (runChain auth (bindChain chain jwt uses nmw)).2 = (if tokenOk jwt auth then .handler else .unauthorized) ∧
    (runChain auth (bindChain chain jwt uses nmw)).1 =
      ((List.range (chain.getD 0)).map fun i => "c" ++ toString (i + 1)) ++
      (if tokenOk jwt auth then uses.map (fun k => "u" ++ toString k) ++ (List.range nmw).map (fun i => toString (i + 1))
       else []) := by
  have hA : ∀ l ∈ (List.range (chain.getD 0)).map (fun i => Layer.chainMw (i + 1)), l.isAuth = false ∧ l.stops = false := by
    intro l hl; simp only [List.mem_map, List.mem_range] at hl; obtain ⟨i, hi, rfl⟩ := hl
    exact ⟨rfl, by simp only [Layer.stops, decide_eq_false_iff_not]; omega⟩
  have hUM : ∀ l ∈ uses.map Layer.use ++ (List.range nmw).map (fun i => Layer.routeMw (i + 1)),
      l.isAuth = false ∧ l.stops = false := by
    intro l hl
    simp only [List.mem_append, List.mem_map, List.mem_range] at hl
    rcases hl with ⟨k, hk, rfl⟩ | ⟨i, hi, rfl⟩
    · exact ⟨rfl, by have := hu k hk; simp only [Layer.stops, decide_eq_false_iff_not]; omega⟩
    · exact ⟨rfl, by simp only [Layer.stops, decide_eq_false_iff_not]; omega⟩
  have hum : runChain auth (uses.map Layer.use ++ (List.range nmw).map (fun i => Layer.routeMw (i + 1))) =
      (uses.map (fun k => "u" ++ toString k) ++ (List.range nmw).map (fun i => toString (i + 1)), .handler) := by
    have := runChain_append auth _ [] hUM
    simp only [List.append_nil] at this
    rw [this]
    simp only [runChain, List.append_nil, List.map_append, List.map_map]
    rfl
  unfold bindChain
  rw [List.append_assoc, List.append_assoc, runChain_append auth _ _ hA]
  simp only [List.map_map]
  cases jwt with
  | none =>
    simp [hum, tokenOk, Function.comp_def, Layer.tag]
  | some ab =>
    obtain ⟨a, b⟩ := ab
    simp only [List.cons_append, List.nil_append, runChain]
    by_cases hok : tokenOk (some (a, b)) auth = true
    · simp [hok, hum, Function.comp_def, Layer.tag]
    · have : tokenOk (some (a, b)) auth = false := by simpa using hok
      simp [this, Function.comp_def, Layer.tag]

/-- **A `Server.Use` middleware that does not call `next` short-circuits every route**: with an accepted token the
middlewares in front of it run (custom chain, the earlier `Use` ones, itself), then NOTHING else — no later
middleware, not the route handler; a rejected token is still answered 401 before any `Use` middleware runs. -/
theorem chain_short_circuit (chain : Option Nat) (jwt : Option (String × String)) (pre post : List Nat) (k nmw : Nat)
    (auth : Option String) (hc : chain.getD 0 < 900) (hp : ∀ x ∈ pre, x < 900) (hk : k ≥ 900) :
    runChain auth (bindChain chain jwt (pre ++ k :: post) nmw) =
      (((List.range (chain.getD 0)).map fun i => "c" ++ toString (i + 1)) ++
        (if tokenOk jwt auth then pre.map (fun x => "u" ++ toString x) ++ ["u" ++ toString k] else []),
       if tokenOk jwt auth then .stopped else .unauthorized) := by
  have hA : ∀ l ∈ (List.range (chain.getD 0)).map (fun i => Layer.chainMw (i + 1)), l.isAuth = false ∧ l.stops = false := by
    intro l hl; simp only [List.mem_map, List.mem_range] at hl; obtain ⟨i, hi, rfl⟩ := hl
    exact ⟨rfl, by simp only [Layer.stops, decide_eq_false_iff_not]; omega⟩
  have hP : ∀ l ∈ pre.map Layer.use, l.isAuth = false ∧ l.stops = false := by
    intro l hl; simp only [List.mem_map] at hl; obtain ⟨x, hx, rfl⟩ := hl
    exact ⟨rfl, by have := hp x hx; simp only [Layer.stops, decide_eq_false_iff_not]; omega⟩
  have hstop : ∀ rest, runChain auth (pre.map Layer.use ++ (Layer.use k :: rest)) =
      (pre.map (fun x => "u" ++ toString x) ++ ["u" ++ toString k], .stopped) := by
    intro rest
    rw [runChain_append auth _ _ hP, runChain_stops auth (.use k) rest rfl (by simp [Layer.stops, hk])]
    simp [Layer.tag, Function.comp_def]
  unfold bindChain
  rw [List.append_assoc, List.append_assoc, runChain_append auth _ _ hA]
  simp only [List.map_map, List.map_append, List.map_cons, List.append_assoc, List.cons_append]
  cases jwt with
  | none => simp [hstop, tokenOk, Function.comp_def, Layer.tag]
  | some ab =>
    obtain ⟨a, b⟩ := ab
    simp only [List.cons_append, List.nil_append, runChain]
    by_cases hok : tokenOk (some (a, b)) auth = true
    · simp [hok, hstop, Function.comp_def, Layer.tag]
    · have : tokenOk (some (a, b)) auth = false := by simpa using hok
      simp [this, Function.comp_def, Layer.tag]

example : runChain (some "s1") (bindChain (some 2) (some ("s2", "s1")) [7] 1) = (["c1", "c2", "u7", "1"], .handler) := by decide
example : runChain (some "zz") (bindChain (some 2) (some ("s2", "s1")) [7] 1) = (["c1", "c2"], .unauthorized) := by decide
example : runChain none (bindChain none none [1, 2] 0) = (["u1", "u2"], .handler) := by decide
example : runChain none (bindChain (some 1) none [1, 901, 2] 3) = (["c1", "u1", "u901"], .stopped) := by decide

/-! ### the driver's enumeration of all iteration orders -/

/-- the `via` of `Driver.nextAll`: all results through the literal children, or — when there is none — through the
variable children. -/
def viaAll (n : Node) (p : String → Node → List (H × Params)) : List (H × Params) :=
  if (n.lits.flatMap fun kc => p kc.1 kc.2).isEmpty then n.vars.flatMap fun kc => p kc.1 kc.2
  else n.lits.flatMap fun kc => p kc.1 kc.2

theorem nextAll_single (t : String) (n : Node) :
    nextAll [t] n = if t = "" ∧ n.item.isSome then n.item.toList.map (fun h => (h, []))
      else viaAll n fun k c => if matchTok k t then c.item.toList.map (fun h => hit k t (h, [])) else [] := by
  simp only [nextAll, viaAll]

theorem nextAll_cons_cons (t r0 : String) (rs : List String) (n : Node) :
    nextAll (t :: r0 :: rs) n =
      viaAll n fun k c => if matchTok k t then (nextAll (r0 :: rs) c).map (hit k t) else [] := by
  simp only [nextAll, viaAll]

theorem forEach_viaAll {n : Node} {p : String → Node → Option (H × Params)} {q : String → Node → List (H × Params)}
    (h1 : ∀ k c r, p k c = some r → r ∈ q k c) (h2 : ∀ k c, p k c = none → q k c = []) :
    (∀ r, forEach n p = some r → r ∈ viaAll n q) ∧ (forEach n p = none → viaAll n q = []) := by
  constructor
  · intro r hr
    unfold viaAll
    rcases forEach_some hr with ⟨kc, hm, hp⟩ | ⟨hl, kc, hm, hp⟩
    · have hmem : r ∈ n.lits.flatMap fun kc => q kc.1 kc.2 := List.mem_flatMap.mpr ⟨kc, hm, h1 _ _ _ hp⟩
      have hne : (n.lits.flatMap fun kc => q kc.1 kc.2).isEmpty = false := by
        cases hh : n.lits.flatMap fun kc => q kc.1 kc.2 with
        | nil => rw [hh] at hmem; cases hmem
        | cons a b => rfl
      simp only [hne]; exact hmem
    · have he : (n.lits.flatMap fun kc => q kc.1 kc.2) = [] := by
        rw [List.flatMap_eq_nil_iff]; intro kc hkc; exact h2 _ _ (hl kc hkc)
      simp only [he, List.isEmpty_nil, if_true]
      exact List.mem_flatMap.mpr ⟨kc, hm, h1 _ _ _ hp⟩
  · intro hn
    obtain ⟨hl, hv⟩ := forEach_none hn
    unfold viaAll
    have he : (n.lits.flatMap fun kc => q kc.1 kc.2) = [] := by
      rw [List.flatMap_eq_nil_iff]; intro kc hkc; exact h2 _ _ (hl kc hkc)
    have hv' : (n.vars.flatMap fun kc => q kc.1 kc.2) = [] := by
      rw [List.flatMap_eq_nil_iff]; intro kc hkc; exact h2 _ _ (hv kc hkc)
    simp only [he, List.isEmpty_nil, if_true, hv']

/-- **The driver's enumeration `nextAll` (every result some iteration order of the children maps can produce — used
for the correspondence check outside the hypothesis) contains what the model's `next` finds, and is empty when `next`
finds nothing**: 'found or not' never depends on the iteration order, and the deterministic model answer is always
one of the outcomes the driver accepts. -/
theorem next_mem_nextAll (toks : List String) : ∀ (n : Node),
    (∀ r, next toks n = some r → r ∈ nextAll toks n) ∧ (next toks n = none → nextAll toks n = []) := by
  induction toks with
  | nil => intro n; exact ⟨fun r h => by simp [next] at h, fun _ => by simp [nextAll]⟩
  | cons t rest ih =>
    intro n
    cases rest with
    | nil =>
      rw [nextAll_single]
      by_cases hc : t = "" ∧ n.item.isSome
      · simp only [next, hc, and_self, if_true]
        obtain ⟨_, hi⟩ := hc
        cases hitem : n.item with
        | none => rw [hitem] at hi; cases hi
        | some h => simp
      · simp only [next, hc, if_false]
        apply forEach_viaAll
        · intro k c r hp
          by_cases hm : matchTok k t = true
          · simp only [hm, if_true] at hp ⊢
            cases hci : c.item with
            | none => rw [hci] at hp; cases hp
            | some h => rw [hci] at hp; simp at hp ⊢; exact hp.symm
          · simp only [hm] at hp; cases hp
        · intro k c hp
          by_cases hm : matchTok k t = true
          · simp only [hm, if_true] at hp ⊢
            cases hci : c.item with
            | none => rfl
            | some h => rw [hci] at hp; cases hp
          · simp only [hm]; rfl
    | cons r0 rs =>
      rw [nextAll_cons_cons, next_cons_cons]
      apply forEach_viaAll
      · intro k c r hp
        by_cases hm : matchTok k t = true
        · simp only [hm, if_true] at hp ⊢
          cases hn : next (r0 :: rs) c with
          | none => rw [hn] at hp; cases hp
          | some x =>
            rw [hn] at hp
            simp only [Option.map_some, Option.some.injEq] at hp
            exact List.mem_map.mpr ⟨x, (ih c).1 x hn, hp⟩
        · simp only [hm] at hp; cases hp
      · intro k c hp
        by_cases hm : matchTok k t = true
        · simp only [hm, if_true] at hp ⊢
          cases hn : next (r0 :: rs) c with
          | none => rw [(ih c).2 hn]; rfl
          | some x => rw [hn] at hp; cases hp
        · simp only [hm]; rfl

example : nextAll ["q", "a"] (.mk none [] [(":x", .mk none [("a", newNode (some 1))] []), (":y", .mk none [] [(":z", newNode (some 2))])])
    = [(1, [("x", "q")]), (2, [("z", "a"), ("y", "q")])] := by decide

/-! ### a call that panics inside an option (`validateSecret`) -/

/-- **A panicking `AddRoutes` / `AddRoute` registers nothing**, and a history with such calls is the history without
them: every theorem about histories (`public_api_is_declarative_matcher`, `public_api_clauses`, `public_api_start`)
applies to the calls that returned. -/
theorem api_panicking_calls_register_nothing (ops : List ApiOp) : ∀ (a : Api),
    ops.foldl Api.stepChecked a = (ops.filter fun op => !op.panics).foldl Api.step a := by
  induction ops with
  | nil => intro a; rfl
  | cons op ops ih =>
    intro a
    simp only [List.foldl_cons, List.filter_cons]
    cases hp : op.panics with
    | true => simp only [Api.stepChecked, hp, if_true, Bool.not_true, Bool.false_eq_true, if_false]; exact ih a
    | false =>
      simp only [Api.stepChecked, hp, Bool.false_eq_true, if_false, Bool.not_false, if_true, List.foldl_cons]
      exact ih _

example : (ApiOp.add 0 [.pfx "/v1", .jwt "short"]).panics = true ∧ (ApiOp.add 0 [.jwtTransition "secret-aaaa" ""]).panics = false := by
  decide

/-! ### the router wrappers: `WithCors` / `WithCorsHeaders` / `WithCustomCors` / `WithFileServer` (as implemented) -/

/-- **When the patRouter is asked, it is asked the request as it came**: every wrapper either answers itself or passes
method and path on unchanged. -/
theorem wrapServe_router (pr : PatRouter) (m p : String) (ws : List Wrapper) (resp : Response)
    (h : wrapServe pr m p ws = .router resp) : resp = pr.serveHTTP m p := by
  induction ws with
  | nil => simp only [wrapServe, SrvResponse.router.injEq] at h; exact h.symm
  | cons w ws ih =>
    cases w with
    | cors =>
      simp only [wrapServe] at h
      split at h
      · cases h
      · exact ih h
    | files d ns =>
      simp only [wrapServe] at h
      split at h
      · cases h
      · exact ih h

/-- a file is served only for a `GET`. -/
theorem canServe_get {d : String} {ns : List String} {m p f : String} (h : canServe d ns m p = some f) : m = "GET" := by
  unfold canServe at h
  split at h
  · rename_i hc; simp only [Bool.and_eq_true, beq_iff_eq] at hc; exact hc.1.1
  · cases h

/-- **The CORS middleware answers exactly the `OPTIONS` requests** of a server with a `corsRouter` (any of `WithCors`,
`WithCorsHeaders`, `WithCustomCors`), wherever it sits among the wrappers (a file server only ever takes `GET`s). -/
theorem wrapServe_preflight_iff (pr : PatRouter) (m p : String) (ws : List Wrapper) :
    wrapServe pr m p ws = .preflight ↔ (m = "OPTIONS" ∧ Wrapper.cors ∈ ws) := by
  induction ws with
  | nil => simp [wrapServe]
  | cons w ws ih =>
    cases w with
    | cors =>
      simp only [wrapServe]
      by_cases hm : m = "OPTIONS"
      · simp [hm]
      · have : (m == "OPTIONS") = false := by simpa using hm
        simp only [this, Bool.false_eq_true, if_false, ih]
        simp [hm]
    | files d ns =>
      simp only [wrapServe]
      cases hc : canServe d ns m p with
      | some f =>
        have hg := canServe_get hc
        simp only [reduceCtorEq, false_iff, not_and]
        intro hm; rw [hg] at hm; exact absurd hm (by decide)
      | none => simp only [ih, List.mem_cons, reduceCtorEq, false_or]

/-- **A file is served exactly when some file server in front can serve it** (a `GET` whose RAW path lies below its
directory and names one of its files) — then no route is asked, also when a `GET` route matches (as implemented). -/
theorem wrapServe_file (pr : PatRouter) (m p f : String) (ws : List Wrapper) (h : wrapServe pr m p ws = .file f) :
    m = "GET" ∧ ∃ d ns, Wrapper.files d ns ∈ ws ∧ canServe d ns m p = some f := by
  induction ws with
  | nil => simp [wrapServe] at h
  | cons w ws ih =>
    cases w with
    | cors =>
      simp only [wrapServe] at h
      split at h
      · cases h
      · obtain ⟨h1, d, ns, hm, hc⟩ := ih h
        exact ⟨h1, d, ns, List.mem_cons_of_mem _ hm, hc⟩
    | files d ns =>
      simp only [wrapServe] at h
      cases hc : canServe d ns m p with
      | some f' =>
        rw [hc] at h
        simp only [SrvResponse.file.injEq] at h
        subst h
        exact ⟨canServe_get hc, d, ns, List.mem_cons_self .., hc⟩
      | none =>
        rw [hc] at h
        obtain ⟨h1, d', ns', hm, hc'⟩ := ih h
        exact ⟨h1, d', ns', List.mem_cons_of_mem _ hm, hc'⟩

/-- without wrappers the server's router is the patRouter. -/
theorem no_wrappers_is_the_router (s : Server) (hc : s.wrappers = []) (m p : String) :
    s.serveHTTP m p = .router (s.router.serveHTTP m p) := by
  simp [Server.serveHTTP, hc, wrapServe]

/-- **witness (as implemented): under `WithCors` an `OPTIONS` request is never dispatched**, whatever routes are
registered; every other method is passed on. -/
theorem cors_preflight_never_dispatches (s : Server) (hc : s.cors = true) (p : String) :
    s.serveHTTP "OPTIONS" p = .preflight := by
  unfold Server.serveHTTP
  rw [wrapServe_preflight_iff]
  exact ⟨rfl, by simpa [Server.cors] using hc⟩

example : (newServer [.cors]).cors = true ∧ (newServer [.cors]).router.notAllowed = some corsNA ∧
    (newServer [.corsHeaders, .router]).cors = false ∧ (newServer [.customCors, .notAllowed (some 8)]).router.notAllowed = some 8 := by
  decide
-- a file shadows a matching GET route; other methods and other names reach the router
example : wrapServe {} "GET" "/static//a" [.files "/static" ["a"]] = .file "a" ∧
    wrapServe {} "POST" "/static/a" [.files "/static/" ["a"]] = .router .defaultNotFound ∧
    wrapServe {} "GET" "/static/a/" [.cors, .files "/static" ["a"]] = .router .defaultNotFound := by decide

/-! ### everything together -/

/-- **rest.Server end to end through its real entry points, for the whole configuration space.**  `NewServer` /
`MustNewServer` with ANY list of run options (`WithNotFoundHandler`, `WithNotAllowedHandler`, `WithRouter`, `WithChain`,
`WithCors`, `WithCorsHeaders`, `WithCustomCors`, `WithFileServer`; any number, any order), ANY groups with any route
options, `Start()` (nested binding loops), then ANY request to `server.router.ServeHTTP`: the CORS middleware answers
it — exactly when a `corsRouter` is in effect and the method is `OPTIONS` —, or a file server in front serves a file
(a `GET` below its directory that names one of its files), or the patRouter is asked THE SAME method and path and the
monitor (hence the declarative matcher, over the routes the registration rule accepted before its first rejection)
accepts its answer. -/
theorem server_start_serve_is_declarative_matcher (opts : List RunOpt) (groups : List Group) (m p : String) :
    let s := groups.foldl Server.addRoutes (mustNewServer opts)
    let tbl := (bindTable [] s.regs).1
    match s.start.1.serveHTTP m p with
    | .preflight => s.start.1.cors = true ∧ m = "OPTIONS"
    | .file f => m = "GET" ∧ ∃ d ns, Wrapper.files d ns ∈ s.start.1.wrappers ∧ canServe d ns m p = some f
    | .router resp =>
      resp = s.start.1.router.serveHTTP m p ∧
      monitorObs tbl (oneVarPerPosition tbl) (customOf s.start.1.router) m
        (if rooted p then some (cleanToks p) else none) (obsOf resp) = .ok := by
  intro s tbl
  obtain ⟨_, _, _, h4⟩ := server_is_declarative_matcher opts groups m p
  have e1 := (start_is_bindRoutes s).1
  have h4' : monitorObs tbl (oneVarPerPosition tbl) (customOf s.bindRoutes.1.router) m
      (if rooted p then some (cleanToks p) else none) (obsOf (s.bindRoutes.1.router.serveHTTP m p)) = .ok := h4
  rw [← e1] at h4'
  cases hr : s.start.1.serveHTTP m p with
  | preflight =>
    have := (wrapServe_preflight_iff _ _ _ _).mp hr
    exact ⟨by simpa [Server.cors] using this.2, this.1⟩
  | file f => exact wrapServe_file _ _ _ _ _ hr
  | router resp =>
    have := wrapServe_router _ _ _ _ _ hr
    subst this
    exact ⟨rfl, h4'⟩

-- non-vacuity: WithCors + an OPTIONS route: the preflight branch; a GET route: the router branch
example : ((([({ routes := [("OPTIONS", "/a", some 1), ("GET", "/a", some 2)] } : Group)].foldl Server.addRoutes
    (mustNewServer [.cors])).start.1.serveHTTP "OPTIONS" "/a") = .preflight) ∧
    ((([({ routes := [("OPTIONS", "/a", some 1), ("GET", "/a", some 2)] } : Group)].foldl Server.addRoutes
    (mustNewServer [.cors])).start.1.serveHTTP "GET" "/a") = .router (.route 2 [])) := by decide +kernel

/-! ### the status of a not-found answer of rest.Server -/

/-- **404 when no route matches, through the engine's wrapper**: whatever `WithNotFoundHandler` handler is installed,
the response status is 404 unless the handler itself wrote a status (then that one) — for every handler that returns;
a handler that panics or calls `runtime.Goexit` before writing leaves net/http's default. -/
theorem engine_notFound_status (own : Option Nat) (returns : Bool) :
    (own = none → returns = true → engineNotFoundStatus own returns = 404) ∧
    (∀ c, own = some c → engineNotFoundStatus own returns = c) ∧
    (own = none → returns = false → engineNotFoundStatus own returns = 200) := by
  refine ⟨?_, ?_, ?_⟩
  · intro h1 h2; subst h1 h2; rfl
  · intro c h; subst h; rfl
  · intro h1 h2; subst h1 h2; rfl

/-- `HeaderOnceResponseWriter`: only the first `WriteHeader` reaches the client. -/
theorem headerOnce_first_wins (c1 c2 : Nat) :
    (headerOnceWrite false c1).2 = some c1 ∧ (headerOnceWrite (headerOnceWrite false c1).1 c2).2 = none := ⟨rfl, rfl⟩

end GoZero.C09
