/-
C09 — helper lemmas, part 3: cleaned token lists, `next`/`add` versus the uniform trie view, uniqueness of
the preferred match under the hypothesis, `paramMap`.
-/
import GoZero.C09.ProofsAdd
namespace GoZero.C09

open Spec

/-- no empty token -/
def NE (l : List String) : Prop := ∀ t ∈ l, t ≠ ""

/-- a cleaned token list: the root `[""]`, or a non-empty list of non-empty tokens. -/
def Clean (l : List String) : Prop := l = [""] ∨ (l ≠ [] ∧ NE l)

/-- the trie key of a cleaned pattern (the root pattern is stored at the root node itself). -/
def wkey (pats : List String) : List String := if pats = [""] then [] else pats

theorem NE_tail {t : String} {l : List String} (h : NE (t :: l)) : NE l :=
  fun x hx => h x (List.mem_cons_of_mem _ hx)

theorem wkey_of_NE {l : List String} (h : NE l) : wkey l = l := by
  unfold wkey
  split
  · rename_i e; subst e; exact absurd rfl (h "" (by simp))
  · rfl

theorem wkey_inj {a b : List String} (ha : Clean a) (hb : Clean b) (h : wkey a = wkey b) : a = b := by
  rcases ha with rfl | ⟨ha0, ha⟩ <;> rcases hb with rfl | ⟨hb0, hb⟩
  · rfl
  · rw [wkey_of_NE hb] at h; simp [wkey] at h; exact (hb0 (by simpa using h.symm)).elim
  · rw [wkey_of_NE ha] at h; simp [wkey] at h; exact (ha0 (by simpa using h)).elim
  · rwa [wkey_of_NE ha, wkey_of_NE hb] at h

/-! ### path.Clean produces cleaned token lists -/

theorem cleanGo_NE (l acc : List String) (h : NE acc) : NE (cleanGo l acc) := by
  induction l generalizing acc with
  | nil => intro t ht; exact h t (by simpa [cleanGo] using ht)
  | cons s rest ih =>
    unfold cleanGo
    split
    · exact ih acc h
    · split
      · apply ih
        intro t ht
        exact h t (List.mem_of_mem_tail ht)
      · rename_i h1 _
        apply ih
        intro t ht
        simp only [List.mem_cons] at ht
        rcases ht with rfl | ht
        · intro e; exact h1 (Or.inl e)
        · exact h t ht

theorem clean_cleanToks (p : String) : Clean (cleanToks p) := by
  unfold cleanToks
  have h := cleanGo_NE (toksOf p) [] (by intro t ht; cases ht)
  split
  · exact Or.inl rfl
  · rename_i hne
    exact Or.inr ⟨fun e => hne e, h⟩

/-! ### `add` and `next` on cleaned token lists -/

theorem add_cons_cons (t r : String) (rs : List String) (n : Node) (h : H) :
    add (t :: r :: rs) n h
      = if t = "" then .error .dupSlash
        else updChild n t fun oc => add (r :: rs) (oc.getD (newNode none)) h := rfl

theorem add_eq_addW (toks : List String) : toks ≠ [] → NE toks → ∀ n h, add toks n h = addW toks n h := by
  induction toks with
  | nil => intro h; exact absurd rfl h
  | cons t rest ih =>
    intro _ hne n h
    have ht : t ≠ "" := hne t (by simp)
    cases rest with
    | nil =>
      simp only [add, ht, if_false, addW]
      congr 1
      funext oc
      cases oc with
      | none => rfl
      | some c => rfl
    | cons r rs =>
      rw [add_cons_cons, if_neg ht]
      show _ = updChild n t fun oc => addW (r :: rs) (oc.getD (newNode none)) h
      congr 1
      funext oc
      exact ih (by simp) (NE_tail hne) _ _

theorem add_root (n : Node) (h : H) : add [""] n h = addW [] n h := by
  simp [add, addW]

theorem add_clean {pats : List String} (hc : Clean pats) (n : Node) (h : H) :
    add pats n h = addW (wkey pats) n h := by
  rcases hc with rfl | ⟨h0, hne⟩
  · simpa [wkey] using add_root n h
  · rw [wkey_of_NE hne]; exact add_eq_addW pats h0 hne n h

theorem next_cons_cons (t r : String) (rs : List String) (n : Node) :
    next (t :: r :: rs) n
      = forEach n fun k c => if matchTok k t then (next (r :: rs) c).map (hit k t) else none := rfl

theorem next_eq_nextW (toks : List String) : toks ≠ [] → NE toks → ∀ n, next toks n = nextW toks n := by
  induction toks with
  | nil => intro h; exact absurd rfl h
  | cons t rest ih =>
    intro _ hne n
    have ht : t ≠ "" := hne t (by simp)
    cases rest with
    | nil =>
      simp only [next, ht, false_and, if_false, nextW]
      congr 1
      funext k c
      split
      · simp [Option.map_map, Function.comp_def]
      · rfl
    | cons r rs =>
      rw [next_cons_cons, nextW]
      congr 1
      funext k c
      rw [ih (by simp) (NE_tail hne)]

theorem next_root (n : Node) :
    next [""] n = match n.item with
      | some h => some (h, [])
      | none => nextW [""] n := by
  cases hi : n.item with
  | some h => simp [next, hi]
  | none =>
    simp only [next, hi, Option.isSome_none, Bool.false_eq_true, and_false, if_false, nextW]
    congr 1
    funext k c
    split
    · simp [Option.map_map, Function.comp_def]
    · rfl

/-! ### uniqueness of the preferred match under the hypothesis -/

theorem prefers_antisymm (a b toks : List String)
    (ha : matchesP a toks = true) (hb : matchesP b toks = true)
    (hab : prefers a b = true) (hba : prefers b a = true)
    (hs : sameVarAfterCommonPrefix a b = true) : a = b := by
  induction toks generalizing a b with
  | nil =>
    rw [matchesP_nil_iff] at ha hb
    rw [ha, hb]
  | cons t ts ih =>
    obtain ⟨k, ks, rfl, hk, hks⟩ := (matchesP_cons_iff _ _ _).mp ha
    obtain ⟨k', ks', rfl, hk', hks'⟩ := (matchesP_cons_iff _ _ _).mp hb
    by_cases e : k = k'
    · subst e
      simp only [prefers, sameVarAfterCommonPrefix, if_true] at hab hba hs
      rw [ih ks ks' hks hks' hab hba hs]
    · have e' : ¬ k' = k := fun x => e x.symm
      simp only [prefers, sameVarAfterCommonPrefix, e, e', if_false] at hab hba hs
      exfalso
      cases hv : isVar k <;> cases hv' : isVar k' <;> simp [hv, hv'] at hab hba hs
      exact e (((matchTok_lit hv).mp hk).trans ((matchTok_lit hv').mp hk').symm)

theorem sameVar_symm (a b : List String) :
    sameVarAfterCommonPrefix a b = sameVarAfterCommonPrefix b a := by
  induction a generalizing b with
  | nil => cases b <;> simp [sameVarAfterCommonPrefix]
  | cons k ks ih =>
    cases b with
    | nil => simp [sameVarAfterCommonPrefix]
    | cons k' ks' =>
      by_cases e : k = k'
      · subst e; simp [sameVarAfterCommonPrefix, ih]
      · have e' : ¬ k' = k := fun x => e x.symm
        simp [sameVarAfterCommonPrefix, e, e', Bool.and_comm]

/-! ### `pathvar.Vars`: the map built from the `addParam` calls -/

theorem paramMap_foldl (ps acc : Params)
    (hd : (ps.map (·.1)).Nodup) (hdis : ∀ kv ∈ ps, ∀ a ∈ acc, a.1 ≠ kv.1) :
    ps.foldl (fun m kv => (m.filter (·.1 != kv.1)) ++ [kv]) acc = acc ++ ps := by
  induction ps generalizing acc with
  | nil => simp
  | cons kv rest ih =>
    simp only [List.map_cons, List.nodup_cons] at hd
    simp only [List.foldl_cons]
    have hf : acc.filter (·.1 != kv.1) = acc := by
      rw [List.filter_eq_self]
      intro a ha
      simpa using hdis kv (by simp) a ha
    rw [hf, ih (acc ++ [kv]) hd.2]
    · simp
    · intro kv' hkv' a ha
      simp only [List.mem_append, List.mem_singleton] at ha
      rcases ha with ha | rfl
      · exact hdis kv' (List.mem_cons_of_mem _ hkv') a ha
      · intro e
        exact hd.1 (List.mem_map.mpr ⟨kv', hkv', e.symm⟩)

theorem nodup_reverse' {α} (l : List α) (h : l.Nodup) : l.reverse.Nodup := by
  unfold List.Nodup at *
  rw [List.pairwise_reverse]
  exact h.imp (fun h => h.symm)

/-- with pairwise distinct names nothing is overwritten: the map is the list of `addParam` calls. -/
theorem paramMap_of_nodup (ps : Params) (hd : (ps.map (·.1)).Nodup) : paramMap ps = ps := by
  unfold paramMap
  rw [paramMap_foldl ps [] hd (by intro _ _ a ha; cases ha)]
  simp

theorem lookup_filter_ne (acc : Params) (k k' : String) (h : k ≠ k') :
    (acc.filter (·.1 != k')).lookup k = acc.lookup k := by
  induction acc with
  | nil => rfl
  | cons a tl ih =>
    obtain ⟨a1, a2⟩ := a
    by_cases e : a1 = k'
    · subst e
      have h1 : (k == a1) = false := by simpa using h
      simp [List.filter_cons, List.lookup, h1, ih]
    · have : ((a1, a2).1 != k') = true := by simpa using e
      rw [List.filter_cons, if_pos this]
      simp only [List.lookup, ih]

theorem lookup_append' (l1 l2 : Params) (k : String) :
    (l1 ++ l2).lookup k = match l1.lookup k with | some v => some v | none => l2.lookup k := by
  induction l1 with
  | nil => rfl
  | cons a tl ih =>
    obtain ⟨a1, a2⟩ := a
    simp only [List.cons_append, List.lookup]
    split <;> simp_all

theorem paramMap_lookup_aux (ps acc : Params) (k : String) :
    (ps.foldl (fun m kv => (m.filter (·.1 != kv.1)) ++ [kv]) acc).lookup k
      = match ps.reverse.lookup k with | some v => some v | none => acc.lookup k := by
  induction ps generalizing acc with
  | nil => simp [List.lookup]
  | cons kv rest ih =>
    obtain ⟨k1, v1⟩ := kv
    simp only [List.foldl_cons, ih, List.reverse_cons, lookup_append']
    cases hr : rest.reverse.lookup k with
    | some v => rfl
    | none =>
      by_cases e : k = k1
      · subst e
        have : (acc.filter (·.1 != k)).lookup k = none := by
          induction acc with
          | nil => rfl
          | cons a tl ih2 =>
            by_cases e2 : a.1 = k
            · simp [List.filter_cons, e2, ih2]
            · have h3 : (a.1 != k) = true := by simpa using e2
              have h4 : (k == a.1) = false := by simpa using fun x => e2 x.symm
              rw [List.filter_cons, if_pos h3]
              obtain ⟨a1, a2⟩ := a
              simp only at h4
              simp [List.lookup, h4, ih2]
        simp [this, List.lookup]
      · have h1 : (k == k1) = false := by simpa using e
        simp [lookup_filter_ne acc k k1 e, List.lookup, h1]
        cases List.lookup k acc <;> rfl

/-- a later `addParam` overwrites: the map holds, for every name, the value of the *last* call. -/
theorem paramMap_lookup (ps : Params) (k : String) : (paramMap ps).lookup k = ps.reverse.lookup k := by
  unfold paramMap
  rw [paramMap_lookup_aux]
  cases ps.reverse.lookup k <;> simp [List.lookup]

end GoZero.C09
