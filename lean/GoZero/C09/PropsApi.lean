/-
C09 — property theorems, round 4: the PUBLIC API of rest.Server (`AddRoutes` / `AddRoute` with any
`RouteOption`s, one caller slice passed any number of times) — route options act on a copy.

The Go code does not copy: `featuredRoutes{routes: rs}` keeps the caller's backing array until a `WithPrefix`
replaces it.  `Api` (Model.lean) has this aliasing; the theorems below show that it is unobservable:
no call writes a method or a path through the alias, so every group reads — at `bindRoutes` time — as the
options applied to the routes AS THE CALLER WROTE THEM, whatever else was registered before or after, and every
caller slice still reads as written.
-/
import GoZero.C09.ProofsApi
namespace GoZero.C09

open Spec

/-! ### the theorems -/

/-- **Registering a group changes nothing else.**  One API call (the caller makes a slice, `AddRoutes` with any
options on any slice — also one that was added before —, `AddRoute`): every caller slice reads as before
(a new slice is appended, none is written), every group registered earlier reads as before, and the only new
group is the options applied to a copy of the routes as the caller wrote them. -/
theorem api_call_frame (a : Api) (hv : a.Valid) (op : ApiOp) :
    (∃ ext, (a.step op).heap = a.heap ++ ext) ∧ (a.step op).Valid ∧
    (a.step op).frs.map (resolve (a.step op).heap) =
      a.frs.map (resolve a.heap) ++
        (pureStep (a.heap, []) op).2.map Group.featured := by
  refine ⟨?_, step_valid a hv op, ?_⟩
  · cases op with
    | slice rs => exact ⟨[rs], rfl⟩
    | add k opts => exact ⟨[], (List.append_nil _).symm⟩
    | addOne r opts => exact ⟨[], (List.append_nil _).symm⟩
  · -- settings of the old groups are kept as well: redo the step on the real old groups
    cases op with
    | slice rs =>
      show a.frs.map (resolve (a.heap ++ [rs])) = a.frs.map (resolve a.heap) ++ [].map Group.featured
      rw [List.map_nil, List.append_nil]
      apply List.map_congr_left
      intro f hfm
      exact resolve_append a.heap rs f (hv f hfm)
    | add k opts =>
      show (a.frs ++ [opts.foldl (aApply a.heap) (if k < a.heap.length then RoutesRef.caller k else RoutesRef.own [], {})]).map (resolve a.heap) = _
      rw [List.map_append, List.map_singleton, resolve_foldl]
      congr 2
      unfold Group.featured resolve
      congr 2
      show deref a.heap (if k < a.heap.length then RoutesRef.caller k else RoutesRef.own []) = a.heap.getD k []
      split
      · rfl
      · simp only [deref, List.getD_eq_getElem?_getD]
        rw [List.getElem?_eq_none (by omega)]; rfl
    | addOne r opts =>
      show (a.frs ++ [opts.foldl (aApply a.heap) (RoutesRef.own [r], {})]).map (resolve a.heap) = _
      rw [List.map_append, List.map_singleton, resolve_foldl]
      rfl

/-- **Any history of API calls**: the caller's slices read exactly as written (in the order they were made),
and the engine's groups — read through their references when `bindRoutes` runs — are, group by group, the
options of that call applied to a copy of the routes as the caller wrote them (`Group.featured`): the same
slice under two prefixes gives two independent groups, a later call never changes an earlier group. -/
theorem api_history_is_pure (ops : List ApiOp) :
    let a := ops.foldl Api.step {}
    a.heap = ops.filterMap sliceOf ∧
    a.frs.map (resolve a.heap) = (pureRun ops).2.map Group.featured ∧
    a.regs = (pureRun ops).2.flatMap Group.regs := by
  intro a
  have h : Reads a (pureRun ops) := reads_run ops {} ([], []) ⟨fun f hf => absurd hf List.not_mem_nil, rfl, rfl⟩
  refine ⟨?_, h.2.2, regs_of_reads h⟩
  rw [h.2.1]
  have := pureRun_slices ops ([], [])
  simpa [pureRun] using this

/-- only `WithPrefix` options touch the routes: whatever `WithJwt` / `WithJwtTransition` / `WithTimeout` /
`WithMaxBytes` / `WithPriority` / `WithSSE` options stand before, between or after them, the routes of the group
are the prefixes applied in order (the later one is the outer one) … -/
def prefixesOf : List RouteOpt → List String
  | [] => []
  | .pfx g :: os => g :: prefixesOf os
  | _ :: os => prefixesOf os

theorem routes_only_prefixes (opts : List RouteOpt) (f : Featured) :
    (opts.foldl Featured.apply f).routes = (prefixesOf opts).foldl (fun rs g => rs.map (prefixReg g)) f.routes ∧
    (opts.foldl Featured.apply f).set = opts.foldl Settings.apply f.set := by
  induction opts generalizing f with
  | nil => exact ⟨rfl, rfl⟩
  | cons o os ih =>
    simp only [List.foldl_cons]
    obtain ⟨h1, h2⟩ := ih (f.apply o)
    rw [h1, h2]
    cases o <;> exact ⟨rfl, rfl⟩

theorem group_routes_only_prefixes (g : Group) :
    g.regs = (prefixesOf g.opts).foldl (fun rs x => rs.map (prefixReg x)) g.routes :=
  (routes_only_prefixes g.opts { routes := g.routes }).1

/-- … and a prefix keeps the number, the order, the methods and the handlers of the routes. -/
theorem group_keeps_methods_handlers (g : Group) :
    g.regs.map (fun r => (r.1, r.2.2)) = g.routes.map (fun r => (r.1, r.2.2)) := by
  rw [group_routes_only_prefixes]
  generalize g.routes = rs
  induction prefixesOf g.opts generalizing rs with
  | nil => rfl
  | cons x xs ih =>
    simp only [List.foldl_cons]
    rw [ih, List.map_map]
    rfl

/-- a group without `WithPrefix` registers the routes exactly as written. -/
theorem group_no_prefix (g : Group) (h : prefixesOf g.opts = []) : g.regs = g.routes := by
  rw [group_routes_only_prefixes, h]; rfl

/-! ### `path.Join` of `WithPrefix` -/

theorem cleanGo_toksOf_cleanPath (x : String) : cleanGo (toksOf (cleanPath x)) [] = cleanGo (toksOf x) [] := by
  rw [toksOf_cleanPath, cleanGo_cleanToks]

/-- the router registers the same route for `path.Join(group, p)` (cleaned by `Join`, cleaned again by `Handle`)
as for the plain concatenation `group/p`. -/
theorem joinGo_handle (r : Router) (m g p : String) (item : Option H) :
    handle r m (joinGo g p) item = handle r m (joinRaw g p) item ∧ rooted (joinGo g p) = rooted (joinRaw g p) := by
  unfold joinGo
  cases hr : rooted (joinRaw g p) with
  | false => simp [hr]
  | true =>
    simp only [if_true]
    exact ⟨(clean_twice_irrelevant r m (joinRaw g p) item hr).1, by rw [rooted_cleanPath]⟩

/-- **`WithPrefix(group)` on a route path**, at the level of the cleaned tokens the router stores: the group's
cleaned tokens, then the elements of the path cleaned on top of them. -/
theorem withPrefix_route_tokens (g p : String) (hg : g ≠ "") (hr : rooted g = true) :
    rooted (joinGo g p) = true ∧
    cleanGo (toksOf (joinGo g p)) [] = cleanGo (splitSlash p.toList []) (cleanGo (toksOf g) []).reverse := by
  obtain ⟨_, h2, h3⟩ := withPrefix_tokens g p hg
  have hrj : rooted (joinRaw g p) = true := by rw [h2, hr]
  unfold joinGo
  simp only [hrj, if_true]
  exact ⟨rooted_cleanPath _, by rw [cleanGo_toksOf_cleanPath, h3]⟩

/-! ### end to end -/

/-- **rest.Server through its public API, end to end.**  `NewServer` with any run options, then any history of
caller slices and `AddRoutes` / `AddRoute` calls with any route options (the same slice as often as one likes),
then `engine.bindRoutes` reading the groups through their references: the caller's slices read as written; the
router stores exactly the routes that the registration rule accepts — before its first rejection — from the list
"every call's options applied to a copy of the routes as written", the start-up error is that rejection; and
every request is then answered as the monitor (hence the declarative matcher) demands. -/
theorem public_api_is_declarative_matcher (ropts : List RunOpt) (ops : List ApiOp) (m p : String) :
    let a := ops.foldl Api.step {}
    let written := (pureRun ops).2.flatMap Group.regs
    let tbl := (bindTable [] written).1
    let pr : PatRouter := { (newServer ropts).router with core := (bindAll {} a.regs).1 }
    a.heap = ops.filterMap sliceOf ∧ a.regs = written ∧
    Rep pr.core tbl ∧ TblOK tbl ∧ bindVerdict (bindAll {} a.regs).2 = (bindTable [] written).2 ∧
    monitorObs tbl (oneVarPerPosition tbl) (customOf pr) m
      (if rooted p then some (cleanToks p) else none) (obsOf (pr.serveHTTP m p)) = .ok := by
  intro a written tbl pr
  obtain ⟨h1, _, h3⟩ := api_history_is_pure ops
  have h3' : a.regs = written := h3
  obtain ⟨r1, r2, r3⟩ := bindAll_represents written {} [] rep_empty.1 rep_empty.2
  have hcore : pr.core = (bindAll {} written).1 := by show (bindAll {} a.regs).1 = _; rw [h3']
  have hrep : Rep pr.core tbl := by rw [hcore]; exact r1
  refine ⟨h1, h3', hrep, r2, by rw [h3']; exact r3, monitor_sound hrep r2 m p⟩

/-- **The clauses of the property, end to end through the public API** (call site `AddRoutes`/`AddRoute` with
options → `featuredRoutes` → `engine.bindRoutes` → `patRouter.Handle` → `Tree.Add`; request → `ServeHTTP` →
`Tree.Search`), for any history of calls, any iteration order of Go's maps, no hypothesis on the table.  With
`tbl` = the routes the registration rule accepts from "options applied to a copy of the routes as written":
(1) dispatch iff a route of the method matches the cleaned path; (2) the chosen route is admissible (literal
before variable at the first differing segment) and the parameters are its bound segments; (3) 405 lists exactly
the other methods with a matching route; (4) 404 iff no route of any method matches. -/
theorem public_api_clauses (ops : List ApiOp) (m p : String) :
    let a := ops.foldl Api.step {}
    let tbl := (bindTable [] ((pureRun ops).2.flatMap Group.regs)).1
    let r := (bindAll {} a.regs).1
    ((∃ h ps, serve r m p = .handler h ps) ↔
      (rooted p = true ∧ ∃ route ∈ tbl, route.method = m ∧ matchesP route.pats (cleanToks p) = true)) ∧
    (∀ h ps, serve r m p = .handler h ps →
      ∃ route ∈ admissible tbl m (cleanToks p), route.h = h ∧ ps = (binds route.pats (cleanToks p)).reverse) ∧
    (∀ al, serve r m p = .notAllowed al →
      candidates tbl m (cleanToks p) = [] ∧ al ≠ [] ∧ al.Nodup ∧
      ∀ x, x ∈ al ↔ (x ≠ m ∧ ∃ route ∈ tbl, route.method = x ∧ matchesP route.pats (cleanToks p) = true)) ∧
    (serve r m p = .notFound ↔
      (rooted p = true → ∀ route ∈ tbl, matchesP route.pats (cleanToks p) = false)) := by
  intro a tbl r
  obtain ⟨_, _, h3⟩ := api_history_is_pure ops
  obtain ⟨r1, r2, _⟩ := bindAll_represents ((pureRun ops).2.flatMap Group.regs) {} [] rep_empty.1 rep_empty.2
  have hrep : Rep r tbl := by
    show Rep (bindAll {} a.regs).1 _
    have : a.regs = (pureRun ops).2.flatMap Group.regs := h3
    rw [this]; exact r1
  exact ⟨dispatch_iff_match hrep r2 m p, fun h ps hs => chosen_is_admissible hrep r2 hs,
    fun al hs => status_405_allow_exact hrep r2 hs, status_404 hrep r2 m p⟩

/-! non-vacuity: one slice added bare, under /v1 and under /v2 nested in /api, with WithJwt on one copy only -/

def exOps : List ApiOp :=
  [.slice [("GET", "/users/:id", some 1), ("POST", "users", some 2)],
   .add 0 [.pfx "/v1"],
   .add 0 [.jwt "secret-aaaa", .pfx "/v2/", .timeout 1500, .pfx "/api"],
   .addOne ("GET", "/health", some 3) [.sse]]

example : ((exOps.foldl Api.step {}).regs.map fun r => (r.1, r.2.1)) =
    [("GET", "/v1/users/:id"), ("POST", "/v1/users"), ("GET", "/api/v2/users/:id"), ("POST", "/api/v2/users"),
     ("GET", "/health")] := by decide +kernel
example : (exOps.foldl Api.step {}).heap = [[("GET", "/users/:id", some 1), ("POST", "users", some 2)]] := by
  decide +kernel
example : ((pureRun exOps).2.map fun g => g.featured.set.jwt) = [none, some ("secret-aaaa", ""), none] := by
  decide +kernel
example : serve (bindAll {} (exOps.foldl Api.step {}).regs).1 "GET" "/api/v2/users/7/" = .handler 1 [("id", "7")] ∧
    serve (bindAll {} (exOps.foldl Api.step {}).regs).1 "GET" "/users/7" = .notFound ∧
    serve (bindAll {} (exOps.foldl Api.step {}).regs).1 "PUT" "/v1/users" = .notAllowed ["POST"] := by decide +kernel
-- WithJwt after WithJwtTransition keeps the previous secret (as implemented: `WithJwt` does not reset it)
example : (({ opts := [.jwtTransition "s1-------" "s0-------", .jwt "s2-------"] } : Group).featured.set.jwt) =
    some ("s2-------", "s0-------") := by decide
-- the aliasing is real in the model: the bare group refers to the caller's slice, the prefixed one owns a copy
example : ((([.slice [("GET", "/a", some 1)], .add 0 [], .add 0 [.pfx "/p"]] : List ApiOp).foldl Api.step {}).frs.map
    fun f => match f.1 with | .caller k => some k | .own _ => none) = [some 0, none] := by decide +kernel

end GoZero.C09
