/-
C18 — the property as executable monitors (core Lean only). They are evaluated by the driver on what the
*implementation* did (ran / status / context / bodies), independently of the model's decision procedure.
-/
import GoZero.C18.Model
namespace GoZero.C18

/-! ## JWT -/

/-- "a token whose HMAC signature verifies under the current or previous secret and whose time claims are
currently valid" -/
def credentialOk {V : Type} (f : TokenFacts V) (now : Int) (secret prev : String) : Bool :=
  f.present && decide (f.segs = 3) && f.hdrOk && f.clmOk
    && (match f.alg with | some a => hmacAlgs.contains a | none => false)
    && (f.sigOk secret || (decide (prev ≠ "") && f.sigOk prev))
    && timeValid f now

/-- "the non-standard claims are what the handler sees" -/
def forwarded {V : Type} (claims : List (String × V)) : List (String × V) :=
  claims.filter fun kv => !["aud", "exp", "jti", "iat", "iss", "nbf", "sub"].contains kv.1

/-- `none` = the observation satisfies the property -/
def jwtMonitor {V : Type} [DecidableEq V] (f : TokenFacts V) (now : Int) (secret prev : String)
    (obs : AuthOut V) : Option String :=
  if obs.ran then
    if !credentialOk f now secret prev then some "jwt: handler ran without a valid credential"
    else if obs.ctx ≠ forwarded f.claims then some "jwt: handler did not see exactly the non-standard claims"
    else none
  else if obs.status ≠ 401 then some s!"jwt: rejected request answered {obs.status}, not 401"
  else none

/-- the converse the gate owes as well (`jwt_handler_runs_iff_valid_credential` is an equivalence): a request whose token
verifies under the current or previous secret and whose time claims are valid is not turned away -/
def jwtCompleteMonitor {V : Type} (f : TokenFacts V) (now : Int) (secret prev : String) (obs : AuthOut V) : Option String :=
  if !obs.ran ∧ credentialOk f now secret prev then
    some s!"jwt: a request with a valid credential (signature under the current or previous secret, time claims valid) was rejected with {obs.status}"
  else none

/-! ## content security -/

/-- "the signature covers exactly the request's timestamp (within tolerance), method, path, query and body
digest under a secret encrypted to a configured key" — path and query are those of the request itself. -/
def csCovers (env : CsEnv) (cfg : CsCfg) (req : CsReq) : Bool :=
  match parseContentSecurity env req with
  | .error _ => false
  | .ok h =>
    match parseInt64 h.timestamp with
    | none => false
    | some seconds =>
      !outsideWindow seconds cfg.tol env.now
        && decide (h.signature = env.hmacB64 h.key (signContent env h.timestamp req.method req.path req.query req.body))

def csMonitor (env : CsEnv) (cfg : CsCfg) (req : CsReq) (obs : Resp) : Option String :=
  if !cfg.strict then none
  else if obs.ran then
    if csCovers env cfg req then none
    else if !gatedMethods.contains req.method then
      some s!"cs: strict handler ran unverified: method {req.method} is not checked"
    else if !req.uri.isEmpty then
      some "cs: strict handler ran on a signature that covers X-Request-Uri, not the request's path/query"
    else some "cs: strict handler ran without a covering signature"
  else if obs.panic then none
  else if !csCovers env cfg req ∧ obs.status < 400 then
    some s!"cs: unverified request answered {obs.status}, not an error status"
  else none

/-- the converse for the signature gate: a request whose signature covers it (a checked method, no X-Request-Uri) is not
refused BY THE GATE. 403 is the gate's own answer; a verified request can still end in 400 further down (a malformed
encrypted body), which is not the gate's verdict. -/
def csCompleteMonitor (env : CsEnv) (cfg : CsCfg) (req : CsReq) (obs : Resp) : Option String :=
  if gatedMethods.contains req.method ∧ req.uri.isEmpty ∧ csCovers env cfg req ∧ !obs.ran ∧ !obs.panic ∧ obs.status = 403 then
    some "cs: a request whose signature covers its timestamp, method, path, query and body under a configured key was refused (403)"
  else none

/-- "covers exactly the request's … body digest": when the handler runs on an unencrypted request, the body it reads
is the body whose digest was signed — all the bytes the request carries, whatever its framing (declared length,
unknown length / chunked, no body). For `type = 1` the body is ciphertext; that is `cryptMonitor`'s business. -/
def csBodyMonitor (env : CsEnv) (cfg : CsCfg) (req : CsReq) (obs : Resp) : Option String :=
  if cfg.strict ∧ obs.ran ∧ csCovers env cfg req then
    match parseContentSecurity env req with
    | .ok h =>
      if h.contentType ≠ 1 ∧ obs.seen ≠ req.body then some "cs: the handler read a body other than the signed one" else none
    | .error _ => none
  else none

/-- the covering clause evaluated on the bytes the handler READ (not on the bytes that were sent): whatever went through the
verifier between "the handler was entered" and "the handler read its body", an unencrypted verified request's handler reads
bytes whose digest the covering signature signs -/
def csReadMonitor (env : CsEnv) (cfg : CsCfg) (req : CsReq) (obs : Resp) : Option String :=
  if cfg.strict ∧ obs.ran ∧ gatedMethods.contains req.method ∧ req.uri.isEmpty then
    match parseContentSecurity env req with
    | .ok h =>
      if h.contentType ≠ 1 ∧ !csCovers env cfg { req with body := obs.seen } then
        some "cs: the handler ran on a body that is not the body the covering signature digests"
      else none
    | .error _ => none
  else none

/-! ## encrypted bodies -/

/-- the client encrypted payload `p` properly: `raw = base64 (E (pad p))` for a whole, non-empty body -/
def properlyEncrypted (C : BlockCipher) (key raw : Bytes) : Option Bytes :=
  match b64Decode (bytesToString raw) with
  | none => none
  | some ct =>
    if ct.isEmpty ∨ ct.length % C.bs ≠ 0 then none
    else
      let pt := (chunks C.bs ct).flatMap (C.dec key)
      match pt.getLast? with
      | none => none
      | some last =>
        let n := last.toNat
        if n = 0 ∨ n > C.bs ∨ n > pt.length then none
        else if (pt.drop (pt.length - n)).all (· = last) then some (pt.take (pt.length - n)) else none

/-- "an encrypted body reaches the handler decrypted and the response is returned encrypted":
`reqPlain` = the payload the client encrypted (when it did so properly), `reply` = what the handler wrote. -/
def cryptMonitor (C : BlockCipher) (key : Bytes) (reqPlain : Option Bytes) (reply : Bytes) (obs : Resp) : Option String :=
  match reqPlain with
  | some p =>
    if !obs.ran then
      some s!"crypt: a properly encrypted payload of {p.length} bytes did not reach the handler (status {obs.status})"
    else if obs.seen ≠ p then some "crypt: the handler did not see the decrypted payload"
    else if reply.isEmpty then (if obs.body.isEmpty then none else some "crypt: empty reply produced a body")
    else if properlyEncrypted C key obs.body = some reply then none
    else some "crypt: the response body is not the encryption of the handler's reply"
  | none =>
    if obs.ran ∧ !reply.isEmpty ∧ obs.status = 200 ∧ properlyEncrypted C key obs.body ≠ some reply then
      some "crypt: the response body is not the encryption of the handler's reply"
    else none

/-- what the framing delivers of the bytes the client sent: a declared length is a promise of exactly that many bytes,
an unknown length (chunked) ends where the client ends it -/
def delivered (cl : Int) (raw : Bytes) : Bytes := if cl > 0 then raw.take cl.toNat else raw

/-- the decryption of a WHOLE body (empty body: nothing to decrypt) -/
def decryptWhole (C : BlockCipher) (key content : Bytes) : Option Bytes :=
  if content.isEmpty then some []
  else match b64Decode (bytesToString content) with
    | none => none
    | some ct => match ecbDecrypt C key ct with
      | .ok p => some p
      | _ => none

/-- "an encrypted body reaches the handler decrypted": the handler saw exactly the decrypted bytes of what the client
sent, or was not called — never a prefix cut at a limit, never the ciphertext itself, whatever the framing. -/
def cryptSeenMonitor (C : BlockCipher) (key : Bytes) (cl : Int) (raw : Bytes) (obs : Resp) : Option String :=
  if cl ≠ 0 ∧ obs.ran ∧ decryptWhole C key (delivered cl raw) ≠ some obs.seen then
    some s!"crypt: the handler ran on {obs.seen.length} bytes that are not the decryption of the whole body the client sent ({(delivered cl raw).length} bytes)"
  else none

/-! ## the gates as bound by rest/engine.go -/

/-- the property at the level of a server built through the public API: `declared` = what the route's options asked for,
`credOk` / `covered` = facts about the request, `obs` = what happened. -/
def restMonitor {V : Type} [DecidableEq V] (o : RouteOpts) (gatedMethod credOk covered : Bool) (claims : List (String × V))
    (uses : Nat) (ran : Bool) (status : Nat) (ctx : List (String × V)) (usesRan : Nat) : Option String :=
  if ran then
    if o.jwt ∧ !credOk then some "rest: the handler of a route registered WithJwt ran without a valid credential"
    else if o.sig ∧ o.sigKeys ∧ o.sigStrict ∧ gatedMethod ∧ !covered then
      some "rest: the handler of a route registered WithSignature (strict) ran without a covering signature"
    else if o.jwt ∧ ctx ≠ forwarded claims then some "rest: the handler of a WithJwt route did not see exactly the non-standard claims"
    else if usesRan ≠ uses then some "rest: the handler ran but not every Server.Use middleware did"
    else none
  else
    if !o.jwt ∧ !(o.sig ∧ o.sigKeys) then
      some s!"rest: a route that declared no gate did not reach its handler (status {status})"
    else if usesRan ≠ 0 then some "rest: a Server.Use middleware ran for a request a gate rejected"
    else none

/-- the converse at the level of a server: a request that carries a valid credential for EVERY gate its route declared
reaches the handler (the other middlewares pass the harness' requests on). `sigEnds` = a failed signature check ends the
request (strict, or a user callback installed). -/
def restCompleteMonitor (o : RouteOpts) (gatedMethod credOk covered sigEnds ran : Bool) (status : Nat) : Option String :=
  if !ran ∧ (!o.jwt ∨ credOk) ∧ (!(o.sig ∧ o.sigKeys ∧ gatedMethod ∧ sigEnds) ∨ covered) then
    some s!"rest: a request with a valid credential for every gate its route declared did not reach the handler (status {status})"
  else none

end GoZero.C18
