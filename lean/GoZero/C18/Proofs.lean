/-
C18 — helper lemmas for Props.lean (core Lean only, no Mathlib needed).
-/
import GoZero.C18.Spec
namespace GoZero.C18

theorem authorize_ran_iff {V : Type} (verify : String → Parsed (List (String × V)))
    (h : Hist) (secret prev : String) (clock : Int) :
    (authorize verify h secret prev clock).2.ran = true ↔
      ∃ c, (parseToken verify h secret prev clock).2 = .tok true (some c) := by
  unfold authorize
  generalize parseToken verify h secret prev clock = r
  rcases r with ⟨h', p⟩
  cases p with
  | err => simp
  | tok v c => cases v <;> cases c <;> simp

/-- the result of `ParseToken` does not depend on the history when the two secrets cannot disagree -/
theorem parseToken_result_independent {C : Type} (verify : String → Parsed C) (h h' : Hist) (secret prev : String)
    (clock clock' : Int)
    (hagree : (verify secret).isErr = false → (verify prev).isErr = false → verify secret = verify prev) :
    (parseToken verify h secret prev clock).2 = (parseToken verify h' secret prev clock').2 := by
  unfold parseToken firstSecond
  by_cases hp : prev.length > 0
  · simp only [hp, if_true]
    cases h1 : (verify secret).isErr <;> cases h2 : (verify prev).isErr <;>
      by_cases hc : h.count secret > h.count prev <;> by_cases hc' : h'.count secret > h'.count prev <;>
      simp [hc, hc', h1, h2] <;> first | exact hagree h1 h2 | exact (hagree h1 h2).symm | skip
    all_goals
      cases hv1 : verify secret <;> cases hv2 : verify prev <;> simp_all [Parsed.isErr]
  · simp [hp]
theorem jwtVerify_cases {V : Type} (f : TokenFacts V) (now : Int) (s : String) :
    (jwtVerify f now s = .tok true (some f.claims) ∧
        f.present = true ∧ f.segs = 3 ∧ f.hdrOk = true ∧ f.clmOk = true ∧
        (∃ a, f.alg = some a ∧ a ∈ hmacAlgs) ∧ f.sigOk s = true ∧ timeValid f now = true)
    ∨ (jwtVerify f now s = .err ∧
        ¬ (f.present = true ∧ f.segs = 3 ∧ f.hdrOk = true ∧ f.clmOk = true ∧
          (∃ a, f.alg = some a ∧ a ∈ hmacAlgs) ∧ f.sigOk s = true ∧ timeValid f now = true)) := by
  unfold jwtVerify
  by_cases h0 : f.present = true ∧ f.segs = 3 ∧ f.hdrOk = true ∧ f.clmOk = true
  · rw [if_pos h0]
    cases ha : f.alg with
    | none => right; simp
    | some a =>
      by_cases h1 : a ∈ hmacAlgs
      · by_cases h2 : f.sigOk s = true
        · by_cases h3 : timeValid f now = true
          · left; simp [h1, h2, h3, h0]
          · right; simp [h1, h2, h3]
        · right; simp [h1, h2]
      · right; simp [h1]
  · rw [if_neg h0]; right
    refine ⟨rfl, ?_⟩
    intro h; exact h0 ⟨h.1, h.2.1, h.2.2.1, h.2.2.2.1⟩

theorem credentialOk_iff {V : Type} (f : TokenFacts V) (now : Int) (secret prev : String) :
    credentialOk f now secret prev = true ↔
      (f.present = true ∧ f.segs = 3 ∧ f.hdrOk = true ∧ f.clmOk = true ∧
        (∃ a, f.alg = some a ∧ a ∈ hmacAlgs) ∧
        (f.sigOk secret = true ∨ (prev ≠ "" ∧ f.sigOk prev = true)) ∧ timeValid f now = true) := by
  unfold credentialOk
  cases ha : f.alg <;> simp [Bool.and_eq_true, and_assoc]

theorem length_pos_iff_ne_empty (s : String) : s.length > 0 ↔ s ≠ "" := by
  rw [Ne, ← String.length_eq_zero_iff]; omega

theorem jwtVerify_isErr_false {V : Type} (f : TokenFacts V) (now : Int) (s : String) :
    (jwtVerify f now s).isErr = false ↔ jwtVerify f now s = .tok true (some f.claims) := by
  rcases jwtVerify_cases f now s with h | h <;> simp [h.1, Parsed.isErr]

/-- under go-zero's use of the library the two secrets can never produce different successful results -/
theorem jwtVerify_agree {V : Type} (f : TokenFacts V) (now : Int) (a b : String)
    (ha : (jwtVerify f now a).isErr = false) (hb : (jwtVerify f now b).isErr = false) :
    jwtVerify f now a = jwtVerify f now b := by
  rw [(jwtVerify_isErr_false f now a).mp ha, (jwtVerify_isErr_false f now b).mp hb]

@[simp] theorem Parsed.isErr_err {C : Type} : (Parsed.err : Parsed C).isErr = true := rfl

/-- `ParseToken` succeeds iff one of the attempts it makes succeeds; which one comes first is irrelevant -/
theorem parseToken_ok_iff {C : Type} (verify : String → Parsed C) (h : Hist) (secret prev : String) (clock : Int) :
    (parseToken verify h secret prev clock).2.isErr = false ↔
      ((verify secret).isErr = false ∨ (prev.length > 0 ∧ (verify prev).isErr = false)) := by
  unfold parseToken firstSecond
  by_cases hp : prev.length > 0
  · simp only [hp, if_true, true_and]
    by_cases hc : h.count secret > h.count prev <;>
      cases h1 : (verify secret).isErr <;> cases h2 : (verify prev).isErr <;> simp [hc, h1, h2]
  · simp [hp]

theorem padLen_bounds (bs len : Nat) (hbs : 0 < bs) : 1 ≤ bs - len % bs ∧ bs - len % bs ≤ bs := by
  have := Nat.mod_lt len hbs
  omega

theorem getLast?_append_replicate (p : Bytes) (n : Nat) (b : UInt8) (hn : 1 ≤ n) :
    (p ++ List.replicate n b).getLast? = some b := by
  obtain ⟨m, rfl⟩ : ∃ m, n = m + 1 := ⟨n - 1, by omega⟩
  rw [List.replicate_succ', ← List.append_assoc, List.getLast?_append]
  simp

theorem verificationFailure_strict (inner : Inner) (body : Bytes) :
    (verificationFailure true inner body).ran = false := rfl

theorem pathQuery_no_uri (env : CsEnv) (req : CsReq) (hu : req.uri = "") :
    pathQuery env req = (req.path, req.query) := by
  unfold pathQuery; simp [hu]

/-- what `VerifySignature = pass` means -/
theorem verifySignature_pass (env : CsEnv) (tol : Int) (req : CsReq) (h : CsHeader)
    (hv : verifySignature env tol req h = 0) :
    ∃ s, parseInt64 h.timestamp = some s ∧ outsideWindow s tol env.now = false ∧
      h.signature = env.hmacB64 h.key
        (signContent env h.timestamp req.method (pathQuery env req).1 (pathQuery env req).2 req.body) := by
  unfold verifySignature at hv
  cases hp : parseInt64 h.timestamp with
  | none => simp [hp] at hv
  | some s =>
    simp only [hp] at hv
    by_cases hw : outsideWindow s tol env.now = true
    · simp [hw] at hv
    · simp only [hw] at hv
      refine ⟨s, rfl, by simpa using hw, ?_⟩
      by_cases hs : h.signature = env.hmacB64 h.key
          (signContent env h.timestamp req.method (pathQuery env req).1 (pathQuery env req).2 req.body)
      · exact hs
      · simp [hs] at hv

theorem contentSecurity_strict_ran (C : BlockCipher) (env : CsEnv) (cfg : CsCfg) (req : CsReq) (inner : Inner)
    (hs : cfg.strict = true) (hg : gatedMethods.contains req.method = true)
    (hran : (contentSecurity C env cfg req inner).ran = true) :
    ∃ h, parseContentSecurity env req = .ok h ∧ verifySignature env cfg.tol req h = 0 := by
  unfold contentSecurity at hran
  rw [if_pos hg] at hran
  cases hp : parseContentSecurity env req with
  | error e => simp [hp, hs, verificationFailure] at hran
  | ok h =>
    simp only [hp] at hran
    by_cases hv : verifySignature env cfg.tol req h = 0
    · exact ⟨h, rfl, hv⟩
    · simp [hv, hs, verificationFailure] at hran

theorem b64Val_b64Char : ∀ n, n < 64 → b64Val (b64Char n) = some n := by decide

theorem b64Char_ne_pad : ∀ n, n < 64 → b64Char n ≠ '=' := by decide

theorem b64DecodeChars_encode (b : Bytes) : b64DecodeChars (b64EncodeChars b) = some b := by
  induction b using b64EncodeChars.induct with
  | case1 => rfl
  | case2 a =>
    have ha := a.toNat_lt
    have h0 : a.toNat / 4 < 64 := by omega
    have h1 : a.toNat % 4 * 16 < 64 := by omega
    simp only [b64EncodeChars, b64DecodeChars, b64Val_b64Char _ h0, b64Val_b64Char _ h1]
    simp
    apply UInt8.toNat_inj.mp
    simp [UInt8.toNat_add, UInt8.toNat_mul]
    omega
  | case3 a b =>
    have ha := a.toNat_lt
    have hb := b.toNat_lt
    have h0 : a.toNat / 4 < 64 := by omega
    have h1 : a.toNat % 4 * 16 + b.toNat / 16 < 64 := by omega
    have h2 : b.toNat % 16 * 4 < 64 := by omega
    simp only [b64EncodeChars, b64DecodeChars, b64Val_b64Char _ h0, b64Val_b64Char _ h1, b64Val_b64Char _ h2]
    simp [b64Char_ne_pad _ h2]
    refine ⟨?_, ?_⟩ <;> (apply UInt8.toNat_inj.mp; simp [UInt8.toNat_add, UInt8.toNat_mul]; omega)
  | case4 a b c rest ih =>
    have ha := a.toNat_lt
    have hb := b.toNat_lt
    have hc := c.toNat_lt
    have h0 : a.toNat / 4 < 64 := by omega
    have h1 : a.toNat % 4 * 16 + b.toNat / 16 < 64 := by omega
    have h2 : b.toNat % 16 * 4 + c.toNat / 64 < 64 := by omega
    have h3 : c.toNat % 64 < 64 := by omega
    simp only [b64EncodeChars, b64DecodeChars, b64Val_b64Char _ h0, b64Val_b64Char _ h1, b64Val_b64Char _ h2,
      b64Val_b64Char _ h3, ih]
    simp [b64Char_ne_pad _ h3]
    refine ⟨?_, ?_, ?_⟩ <;> (apply UInt8.toNat_inj.mp; simp [UInt8.toNat_add, UInt8.toNat_mul]; omega)


/-- a successful `ParseToken` returns the result of one of its two attempts -/
theorem parseToken_result_is_attempt {C : Type} (verify : String → Parsed C) (h : Hist) (secret prev : String)
    (clock : Int) (hok : (parseToken verify h secret prev clock).2.isErr = false) :
    (parseToken verify h secret prev clock).2 = verify secret ∨ (parseToken verify h secret prev clock).2 = verify prev := by
  unfold parseToken firstSecond at hok ⊢
  by_cases hp : prev.length > 0
  · simp only [hp, if_true] at hok ⊢
    by_cases hc : h.count secret > h.count prev <;>
      cases h1 : (verify secret).isErr <;> cases h2 : (verify prev).isErr <;> simp [hc, h1, h2] at hok ⊢
  · simp [hp]


/-! ### ECB blocks -/

theorem chunksAux_cons_eq (n fuel : Nat) (x : UInt8) (xs : Bytes) :
    chunksAux n (fuel + 1) (x :: xs) = (x :: xs).take n :: chunksAux n fuel ((x :: xs).drop n) := rfl

theorem chunksAux_succ (n : Nat) (hn : 0 < n) : ∀ (fuel : Nat) (l : Bytes), l.length ≤ fuel →
    chunksAux n (fuel + 1) l = chunksAux n fuel l := by
  intro fuel
  induction fuel with
  | zero =>
    intro l hl
    have : l = [] := List.length_eq_zero_iff.mp (by omega)
    subst this; rfl
  | succ f ih =>
    intro l hl
    cases l with
    | nil => rfl
    | cons x xs =>
      have hd : ((x :: xs).drop n).length ≤ f := by
        simp only [List.length_drop, List.length_cons] at hl ⊢; omega
      rw [chunksAux_cons_eq n (f + 1), chunksAux_cons_eq n f, ih _ hd]

theorem chunksAux_stable (n : Nat) (hn : 0 < n) (l : Bytes) : ∀ (d : Nat),
    chunksAux n (l.length + d) l = chunksAux n l.length l := by
  intro d
  induction d with
  | zero => rfl
  | succ d ih => rw [← Nat.add_assoc, chunksAux_succ n hn _ l (by omega), ih]

theorem chunks_cons (n : Nat) (hn : 0 < n) (blk rest : Bytes) (hb : blk.length = n) :
    chunks n (blk ++ rest) = blk :: chunks n rest := by
  unfold chunks
  have hne : (blk ++ rest).isEmpty = false := by
    cases blk with
    | nil => simp at hb; omega
    | cons => rfl
  obtain ⟨m, hm⟩ : ∃ m, (blk ++ rest).length = m + 1 := ⟨n - 1 + rest.length, by simp [hb]; omega⟩
  rw [hm, chunksAux]
  simp only [hne, Bool.false_eq_true, if_false]
  have ht : (blk ++ rest).take n = blk := by rw [← hb]; exact List.take_left'  rfl
  have hd : (blk ++ rest).drop n = rest := by rw [← hb]; exact List.drop_left' rfl
  rw [ht, hd]
  congr 1
  have hm' : m = rest.length + (n - 1) := by simp [hb] at hm; omega
  rw [hm']
  exact chunksAux_stable n hn rest (n - 1)

/-- a block cipher: length preserving on blocks, `dec` undoes `enc` -/
def BlockCipher.Sound (C : BlockCipher) (key : Bytes) : Prop :=
  ∀ blk : Bytes, blk.length = C.bs → (C.enc key blk).length = C.bs ∧ C.dec key (C.enc key blk) = blk

theorem cryptBlocks_round_trip (C : BlockCipher) (key : Bytes) (hs : C.Sound key) (hbs : 0 < C.bs) :
    ∀ (k : Nat) (src : Bytes), src.length = k * C.bs →
      ((chunks C.bs src).flatMap (C.enc key)).length = k * C.bs ∧
      (chunks C.bs ((chunks C.bs src).flatMap (C.enc key))).flatMap (C.dec key) = src := by
  intro k
  induction k with
  | zero =>
    intro src h
    have : src = [] := List.length_eq_zero_iff.mp (by simpa using h)
    subst this
    simp [chunks, chunksAux]
  | succ k ih =>
    intro src h
    have hsplit : src = src.take C.bs ++ src.drop C.bs := (List.take_append_drop _ _).symm
    have hl : (src.take C.bs).length = C.bs := by
      rw [List.length_take, h, Nat.succ_mul]; omega
    have hr : (src.drop C.bs).length = k * C.bs := by
      rw [List.length_drop, h, Nat.succ_mul]; omega
    obtain ⟨e1, e2⟩ := hs _ hl
    obtain ⟨i1, i2⟩ := ih _ hr
    rw [hsplit, chunks_cons _ hbs _ _ hl]
    simp only [List.flatMap_cons]
    rw [chunks_cons _ hbs _ _ e1]
    simp only [List.flatMap_cons, List.length_append]
    rw [e2, i2, e1, i1, Nat.succ_mul]
    exact ⟨by omega, rfl⟩

theorem pad_length (bs : Nat) (hbs : 0 < bs) (p : Bytes) : ∃ k, (pad bs p).length = k * bs := by
  unfold pad
  have := Nat.mod_lt p.length hbs
  refine ⟨p.length / bs + 1, ?_⟩
  simp only [List.length_append, List.length_replicate]
  have := Nat.div_add_mod p.length bs
  rw [Nat.add_mul, Nat.one_mul, Nat.mul_comm]
  omega


/-! ### base64 text as bytes -/

/-- every character of a base64 text is `=` or one of the 64 alphabet characters -/
theorem b64EncodeChars_mem (b : Bytes) : ∀ c ∈ b64EncodeChars b, c = '=' ∨ ∃ n, n < 64 ∧ c = b64Char n := by
  induction b using b64EncodeChars.induct with
  | case1 => intro c h; simp [b64EncodeChars] at h
  | case2 a =>
    have ha := a.toNat_lt
    intro c h
    simp only [b64EncodeChars, List.mem_cons, List.not_mem_nil, or_false] at h
    rcases h with h | h | h | h
    · right; exact ⟨_, by omega, h⟩
    · right; exact ⟨_, by omega, h⟩
    · left; exact h
    · left; exact h
  | case3 a b =>
    have ha := a.toNat_lt
    have hb := b.toNat_lt
    intro c h
    simp only [b64EncodeChars, List.mem_cons, List.not_mem_nil, or_false] at h
    rcases h with h | h | h | h
    · right; exact ⟨_, by omega, h⟩
    · right; exact ⟨_, by omega, h⟩
    · right; exact ⟨_, by omega, h⟩
    · left; exact h
  | case4 a b c rest ih =>
    have ha := a.toNat_lt
    have hb := b.toNat_lt
    have hc := c.toNat_lt
    intro x h
    simp only [b64EncodeChars, List.mem_cons] at h
    rcases h with h | h | h | h | h
    · right; exact ⟨_, by omega, h⟩
    · right; exact ⟨_, by omega, h⟩
    · right; exact ⟨_, by omega, h⟩
    · right; exact ⟨_, by omega, h⟩
    · exact ih x h

theorem b64Char_props : ∀ n, n < 64 → (b64Char n).toNat < 128 ∧ b64Char n ≠ '\r' ∧ b64Char n ≠ '\n' := by decide

theorem b64EncodeChars_ascii (b : Bytes) : ∀ c ∈ b64EncodeChars b, c.toNat < 128 ∧ c ≠ '\r' ∧ c ≠ '\n' := by
  intro c h
  rcases b64EncodeChars_mem b c h with h | ⟨n, hn, h⟩
  · subst h; decide
  · subst h; exact b64Char_props n hn

theorem map_eq_self {α : Type} (f : α → α) : ∀ l : List α, (∀ x ∈ l, f x = x) → l.map f = l := by
  intro l
  induction l with
  | nil => intro _; rfl
  | cons a t ih =>
    intro h
    simp only [List.map_cons]
    rw [h a (by simp), ih (fun x hx => h x (by simp [hx]))]

/-- base64 text survives the conversion to bytes (the request/response body) and back to text -/
theorem bytesToString_asciiBytes_b64 (b : Bytes) : bytesToString (asciiBytes (b64Encode b)) = b64Encode b := by
  unfold bytesToString asciiBytes b64Encode
  rw [String.toList_ofList, List.map_map]
  congr 1
  apply map_eq_self
  intro c hc
  have h := (b64EncodeChars_ascii b c hc).1
  simp only [Function.comp]
  rw [UInt8.toNat_ofNat', Nat.mod_eq_of_lt (by omega)]
  exact Char.ofNat_toNat c

/-- `base64.StdEncoding.DecodeString (EncodeToString b) = b` on text (no character of the encoding is a line break) -/
theorem b64Decode_encode (b : Bytes) : b64Decode (b64Encode b) = some b := by
  unfold b64Decode b64Encode
  rw [String.toList_ofList]
  have : (b64EncodeChars b).filter (fun c => decide (c ≠ '\r' ∧ c ≠ '\n')) = b64EncodeChars b := by
    apply List.filter_eq_self.mpr
    intro c hc
    have h := b64EncodeChars_ascii b c hc
    simp [h.2.1, h.2.2]
  rw [this]
  exact b64DecodeChars_encode b

theorem b64EncodeChars_ne_nil (b : Bytes) (h : b ≠ []) : b64EncodeChars b ≠ [] := by
  match b, h with
  | [a], _ => simp [b64EncodeChars]
  | [a, b], _ => simp [b64EncodeChars]
  | a :: b :: c :: rest, _ => simp [b64EncodeChars]

theorem asciiBytes_b64_length (b : Bytes) : (asciiBytes (b64Encode b)).length = (b64EncodeChars b).length := by
  unfold asciiBytes b64Encode
  rw [String.toList_ofList, List.length_map]


/-! ### the cryption handler on base64 text -/

theorem ecbDecrypt_nil_not_ok (C : BlockCipher) (key p : Bytes) : ecbDecrypt C key [] ≠ .ok p := by
  unfold ecbDecrypt
  by_cases hk : C.keyOk key = true
  · rw [if_pos hk]
    have : cryptBlocks (C.dec key) C.bs [] = [] := by
      unfold cryptBlocks; simp [chunks, chunksAux]
    rw [this]
    simp [unpad]
  · rw [if_neg hk]; simp

/-- what the cryption handler does with the text of a ciphertext -/
theorem decryptAndServe_b64 (C : BlockCipher) (key ct p : Bytes) (inner : Inner)
    (hd : ecbDecrypt C key ct = .ok p) :
    decryptAndServe C key (asciiBytes (b64Encode ct)) inner = flushResp C key p (inner p) := by
  unfold decryptAndServe
  rw [bytesToString_asciiBytes_b64, b64Decode_encode]
  simp only [hd]


end GoZero.C18
