/-
C18 — SHA-256 and HMAC-SHA256 (FIPS 180-4 / RFC 2104), executable, core Lean only.
Used by the *driver* to instantiate the abstract `hmac`/`digest` parameters of the model, so that the
signed content (which pieces, in which order, with which separator) is computed by the model itself and
compared with what the real code accepts. No theorem depends on these definitions: every theorem in
`Props.lean` quantifies over an arbitrary MAC / digest function.
-/
import GoZero.C18.Model
namespace GoZero.C18

namespace Sha256

def k : Array UInt32 := #[
  0x428a2f98, 0x71374491, 0xb5c0fbcf, 0xe9b5dba5, 0x3956c25b, 0x59f111f1, 0x923f82a4, 0xab1c5ed5,
  0xd807aa98, 0x12835b01, 0x243185be, 0x550c7dc3, 0x72be5d74, 0x80deb1fe, 0x9bdc06a7, 0xc19bf174,
  0xe49b69c1, 0xefbe4786, 0x0fc19dc6, 0x240ca1cc, 0x2de92c6f, 0x4a7484aa, 0x5cb0a9dc, 0x76f988da,
  0x983e5152, 0xa831c66d, 0xb00327c8, 0xbf597fc7, 0xc6e00bf3, 0xd5a79147, 0x06ca6351, 0x14292967,
  0x27b70a85, 0x2e1b2138, 0x4d2c6dfc, 0x53380d13, 0x650a7354, 0x766a0abb, 0x81c2c92e, 0x92722c85,
  0xa2bfe8a1, 0xa81a664b, 0xc24b8b70, 0xc76c51a3, 0xd192e819, 0xd6990624, 0xf40e3585, 0x106aa070,
  0x19a4c116, 0x1e376c08, 0x2748774c, 0x34b0bcb5, 0x391c0cb3, 0x4ed8aa4a, 0x5b9cca4f, 0x682e6ff3,
  0x748f82ee, 0x78a5636f, 0x84c87814, 0x8cc70208, 0x90befffa, 0xa4506ceb, 0xbef9a3f7, 0xc67178f2]

def h0 : Array UInt32 := #[0x6a09e667, 0xbb67ae85, 0x3c6ef372, 0xa54ff53a, 0x510e527f, 0x9b05688c, 0x1f83d9ab, 0x5be0cd19]

@[inline] def rotr (x : UInt32) (n : UInt32) : UInt32 := (x >>> n) ||| (x <<< (32 - n))

def be32 (x : UInt32) : Bytes :=
  [(x >>> 24).toUInt8, (x >>> 16).toUInt8, (x >>> 8).toUInt8, x.toUInt8]

def be64 (n : Nat) : Bytes :=
  (List.range 8).map fun i => UInt8.ofNat ((n >>> (8 * (7 - i))) % 256)

/-- message ‖ 0x80 ‖ 0…0 ‖ bit length (64-bit big endian), a multiple of 64 bytes -/
def padMsg (m : Bytes) : Bytes :=
  let l := m.length
  let z := (64 - (l + 9) % 64) % 64
  m ++ [0x80] ++ List.replicate z 0 ++ be64 (8 * l)

def word (b : Array UInt8) (i : Nat) : UInt32 :=
  (b[i]!.toUInt32 <<< 24) ||| (b[i+1]!.toUInt32 <<< 16) ||| (b[i+2]!.toUInt32 <<< 8) ||| b[i+3]!.toUInt32

def compress (h : Array UInt32) (blk : Array UInt8) (off : Nat) : Array UInt32 := Id.run do
  let mut w : Array UInt32 := Array.replicate 64 0
  for i in [0:16] do
    w := w.set! i (word blk (off + 4 * i))
  for i in [16:64] do
    let s0 := rotr w[i-15]! 7 ^^^ rotr w[i-15]! 18 ^^^ (w[i-15]! >>> 3)
    let s1 := rotr w[i-2]! 17 ^^^ rotr w[i-2]! 19 ^^^ (w[i-2]! >>> 10)
    w := w.set! i (w[i-16]! + s0 + w[i-7]! + s1)
  let mut a := h[0]!; let mut b := h[1]!; let mut c := h[2]!; let mut d := h[3]!
  let mut e := h[4]!; let mut f := h[5]!; let mut g := h[6]!; let mut hh := h[7]!
  for i in [0:64] do
    let s1 := rotr e 6 ^^^ rotr e 11 ^^^ rotr e 25
    let ch := (e &&& f) ^^^ ((~~~ e) &&& g)
    let t1 := hh + s1 + ch + k[i]! + w[i]!
    let s0 := rotr a 2 ^^^ rotr a 13 ^^^ rotr a 22
    let mj := (a &&& b) ^^^ (a &&& c) ^^^ (b &&& c)
    let t2 := s0 + mj
    hh := g; g := f; f := e; e := d + t1; d := c; c := b; b := a; a := t1 + t2
  return #[h[0]! + a, h[1]! + b, h[2]! + c, h[3]! + d, h[4]! + e, h[5]! + f, h[6]! + g, h[7]! + hh]

def sum (m : Bytes) : Bytes := Id.run do
  let p := (padMsg m).toArray
  let mut h := h0
  for j in [0:p.size / 64] do
    h := compress h p (64 * j)
  return h.toList.flatMap be32

end Sha256

/-- HMAC-SHA256 (RFC 2104), block size 64. -/
def hmacSha256 (key msg : Bytes) : Bytes :=
  let k0 := if key.length > 64 then Sha256.sum key else key
  let kp := k0 ++ List.replicate (64 - k0.length) 0
  let ipad := kp.map (· ^^^ 0x36)
  let opad := kp.map (· ^^^ 0x5c)
  Sha256.sum (opad ++ Sha256.sum (ipad ++ msg))

end GoZero.C18
