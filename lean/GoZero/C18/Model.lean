/-
C18 — executable model of go-zero's authentication gates (core Lean only).

  JWT            rest/handler/authhandler.go (Authorize), rest/token/tokenparser.go (ParseToken + history)
                 over an abstract `verify`; `jwtVerify` is the decision table of golang-jwt/v4 as go-zero calls it
  content sec.   rest/handler/contentsecurityhandler.go, rest/internal/security/contentsecurity.go,
                 httpx.ParseHeader — concrete; RSA / HMAC / SHA-256 / url.Parse are parameters (`CsEnv`)
  cryption       rest/handler/cryptionhandler.go, core/codec/aesecb.go — base64 and PKCS padding concrete
                 (`List UInt8`), the block cipher a parameter (`BlockCipher`)
  rsa chunking   core/codec/rsa.go rsaBase.crypt

Text is `String`, binary data `Bytes`.
-/
namespace GoZero.C18

abbrev Bytes := List UInt8

/-! ## small text helpers -/

def hexDigit (n : Nat) : Char := if n < 10 then Char.ofNat (48 + n) else Char.ofNat (87 + n)

/-- lower-case hex, as Go's `fmt.Sprintf("%x", …)` -/
def toHex (b : Bytes) : String :=
  String.ofList (b.flatMap fun x => [hexDigit (x.toNat / 16), hexDigit (x.toNat % 16)])

def isSpace (c : Char) : Bool := c = ' ' || c = '\t' || c = '\n' || c = '\r'

def trimChars (l : List Char) : List Char :=
  ((l.dropWhile isSpace).reverse.dropWhile isSpace).reverse

/-- `strings.Split(s, sep)` for a one-character separator -/
def splitChar (sep : Char) : List Char → List (List Char)
  | [] => [[]]
  | c :: cs =>
    match splitChar sep cs with
    | [] => [[]]          -- unreachable
    | h :: t => if c = sep then [] :: h :: t else (c :: h) :: t

/-- `strings.SplitN(field, "=", 2)` when it yields two pieces -/
def cutEq : List Char → Option (List Char × List Char)
  | [] => none
  | c :: cs => if c = '=' then some ([], cs) else (cutEq cs).map fun (a, b) => (c :: a, b)

/-- `httpx.ParseHeader`: `;`-separated `k=v` fields, trimmed, fields without `=` skipped, last one wins. -/
def parseHeaderFields (s : String) : List (String × String) :=
  ((splitChar ';' s.toList).map trimChars).filterMap fun f =>
    if f.isEmpty then none else (cutEq f).map fun (k, v) => (String.ofList k, String.ofList v)

/-- map lookup after `ret[k] = v` in order (last assignment wins); missing key = "" -/
def attr (fields : List (String × String)) (k : String) : String :=
  match fields.reverse.find? (·.1 = k) with
  | some (_, v) => v
  | none => ""

def digitVal (c : Char) : Option Nat :=
  if '0' ≤ c ∧ c ≤ '9' then some (c.toNat - 48) else none

def parseDigits : List Char → Option Nat
  | [] => none
  | cs => cs.foldl (fun acc c => do let a ← acc; let d ← digitVal c; pure (a * 10 + d)) (some 0)

/-- `strconv.ParseInt(s, 10, 64)` / `strconv.Atoi` on a 64-bit platform: optional sign, decimal digits, int64 range -/
def parseInt64 (s : String) : Option Int :=
  let go (neg : Bool) (ds : List Char) : Option Int := do
    let n ← parseDigits ds
    let v : Int := if neg then - (n : Int) else n
    if v < -9223372036854775808 ∨ v > 9223372036854775807 then none else some v
  match s.toList with
  | '-' :: ds => go true ds
  | '+' :: ds => go false ds
  | ds => go false ds

/-! ## base64 (Go `base64.StdEncoding`) -/

def b64Alphabet : List Char :=
  ['A','B','C','D','E','F','G','H','I','J','K','L','M','N','O','P','Q','R','S','T','U','V','W','X','Y','Z',
   'a','b','c','d','e','f','g','h','i','j','k','l','m','n','o','p','q','r','s','t','u','v','w','x','y','z',
   '0','1','2','3','4','5','6','7','8','9','+','/']

def b64Char (n : Nat) : Char := b64Alphabet.getD n 'A'

def b64Val (c : Char) : Option Nat :=
  if 'A' ≤ c ∧ c ≤ 'Z' then some (c.toNat - 65)
  else if 'a' ≤ c ∧ c ≤ 'z' then some (c.toNat - 71)
  else if '0' ≤ c ∧ c ≤ '9' then some (c.toNat + 4)
  else if c = '+' then some 62
  else if c = '/' then some 63
  else none

def b64EncodeChars : Bytes → List Char
  | [] => []
  | [a] => [b64Char (a.toNat / 4), b64Char (a.toNat % 4 * 16), '=', '=']
  | [a, b] => [b64Char (a.toNat / 4), b64Char (a.toNat % 4 * 16 + b.toNat / 16), b64Char (b.toNat % 16 * 4), '=']
  | a :: b :: c :: rest =>
    b64Char (a.toNat / 4) :: b64Char (a.toNat % 4 * 16 + b.toNat / 16)
      :: b64Char (b.toNat % 16 * 4 + c.toNat / 64) :: b64Char (c.toNat % 64) :: b64EncodeChars rest

/-- `base64.StdEncoding.EncodeToString` -/
def b64Encode (b : Bytes) : String := String.ofList (b64EncodeChars b)

/-- quanta of four characters; `=` padding only at the very end; trailing bits are not checked
(Go's decoder is not strict) -/
def b64DecodeChars : List Char → Option Bytes
  | [] => some []
  | a :: b :: c :: d :: rest =>
    if d = '=' then
      if !rest.isEmpty then none
      else if c = '=' then do
        let va ← b64Val a; let vb ← b64Val b
        pure [UInt8.ofNat (va * 4 + vb / 16)]
      else do
        let va ← b64Val a; let vb ← b64Val b; let vc ← b64Val c
        pure [UInt8.ofNat (va * 4 + vb / 16), UInt8.ofNat (vb % 16 * 16 + vc / 4)]
    else do
      let va ← b64Val a; let vb ← b64Val b; let vc ← b64Val c; let vd ← b64Val d
      let r ← b64DecodeChars rest
      pure (UInt8.ofNat (va * 4 + vb / 16) :: UInt8.ofNat (vb % 16 * 16 + vc / 4) :: UInt8.ofNat (vc % 4 * 64 + vd) :: r)
  | _ => none

/-- `base64.StdEncoding.DecodeString`: carriage returns and line feeds are skipped anywhere -/
def b64Decode (s : String) : Option Bytes :=
  b64DecodeChars (s.toList.filter fun c => c ≠ '\r' ∧ c ≠ '\n')

/-! ## PKCS padding (core/codec/aesecb.go) -/

/-- `pkcs5Padding`: `padding := blockSize - len%blockSize`, `padding` bytes of value `byte(padding)` -/
def pad (bs : Nat) (p : Bytes) : Bytes :=
  p ++ List.replicate (bs - p.length % bs) (UInt8.ofNat (bs - p.length % bs))

inductive Unpad where
  | panic                      -- `src[length-1]` with `length = 0`: index out of range (pinned code only)
  | errPaddingSize
  | ok (p : Bytes)
  deriving Repr, DecidableEq

/-- `pkcs5Unpadding` (after fixes/C18-unpad-empty.patch): empty input is an error; reads the last byte,
rejects `unpadding > length || unpadding > blockSize`, keeps `src[:length-unpadding]`
(the padding bytes themselves are not inspected) -/
def unpad (bs : Nat) (s : Bytes) : Unpad :=
  match s.getLast? with
  | none => .errPaddingSize
  | some last =>
    if last.toNat > s.length ∨ last.toNat > bs then .errPaddingSize
    else .ok (s.take (s.length - last.toNat))

/-- `pkcs5Unpadding` as pinned before the fix: `src[length-1]` panics on empty input and
`unpadding >= length` rejects a block that consists of padding only. Kept for the witness theorems. -/
def unpadPinned (bs : Nat) (s : Bytes) : Unpad :=
  match s.getLast? with
  | none => .panic
  | some last =>
    if last.toNat ≥ s.length ∨ last.toNat > bs then .errPaddingSize
    else .ok (s.take (s.length - last.toNat))

/-! ## ECB over an abstract block cipher -/

structure BlockCipher where
  bs    : Nat                          -- block size (AES: 16)
  keyOk : Bytes → Bool                 -- `aes.NewCipher` accepts the key (16/24/32 bytes)
  enc   : Bytes → Bytes → Bytes        -- key, block ↦ block
  dec   : Bytes → Bytes → Bytes

def chunksAux (n : Nat) : Nat → Bytes → List Bytes
  | 0, _ => []
  | fuel + 1, l => if l.isEmpty then [] else l.take n :: chunksAux n fuel (l.drop n)

/-- consecutive blocks of `n` bytes -/
def chunks (n : Nat) (l : Bytes) : List Bytes := chunksAux n l.length l

/-- `CryptBlocks`: input that is not a whole number of blocks is only logged — `dst` stays all zero -/
def cryptBlocks (f : Bytes → Bytes) (bs : Nat) (src : Bytes) : Bytes :=
  if src.length % bs ≠ 0 then List.replicate src.length 0 else (chunks bs src).flatMap f

/-- `codec.EcbEncrypt` -/
def ecbEncrypt (C : BlockCipher) (key src : Bytes) : Option Bytes :=
  if C.keyOk key then some (cryptBlocks (C.enc key) C.bs (pad C.bs src)) else none

inductive Decrypted where
  | keyErr | panic | padErr
  | ok (p : Bytes)
  deriving Repr, DecidableEq

/-- `codec.EcbDecrypt` -/
def ecbDecrypt (C : BlockCipher) (key src : Bytes) : Decrypted :=
  if C.keyOk key then
    match unpad C.bs (cryptBlocks (C.dec key) C.bs src) with
    | .panic => .panic
    | .errPaddingSize => .padErr
    | .ok p => .ok p
  else .keyErr

/-! ## what a wrapped handler does, and what the client gets back -/

/-- text ↔ bytes for ASCII text (base64 bodies) -/
def asciiBytes (s : String) : Bytes := s.toList.map fun c => UInt8.ofNat c.toNat

def bytesToString (b : Bytes) : String := String.ofList (b.map fun x => Char.ofNat x.toNat)


/-- the wrapped (user) handler: the body it reads ↦ the bytes it writes -/
abbrev Inner := Bytes → Bytes

structure Resp where
  ran    : Bool            -- the wrapped handler was called
  seen   : Bytes := []     -- request body the wrapped handler read
  status : Nat             -- status code the client sees
  body   : Bytes := []     -- response body the client sees
  panic  : Bool := false   -- the middleware panicked (net/http's recover / RecoverHandler territory)
  deriving Repr, DecidableEq

def plainNext (inner : Inner) (body : Bytes) : Resp :=
  { ran := true, seen := body, status := 200, body := inner body }

/-- `cryptionResponseWriter.flush` after the wrapped handler wrote `out` -/
def flushResp (C : BlockCipher) (key : Bytes) (seen out : Bytes) : Resp :=
  if out.isEmpty then { ran := true, seen := seen, status := 200 }
  else match ecbEncrypt C key out with
    | none => { ran := true, seen := seen, status := 500 }
    | some ct => { ran := true, seen := seen, status := 200, body := asciiBytes (b64Encode ct) }

/-- `flush` when the underlying writer takes only the first `n` bytes of the encrypted reply (a write error, or a short
write): both branches only LOG — no retry, no other write, no status — so the client sees that prefix of the base64
ciphertext and nothing else -/
def writtenPrefix (n : Nat) (r : Resp) : Resp := { r with body := r.body.take n }

/-- `maxBytes` of rest/handler/cryptionhandler.go: the cap for a body of unknown length when no limit is configured -/
def maxBytes : Int := 1048576

/-- the tail of `decryptBody` and of the handler: base64, `EcbDecrypt`, the wrapped handler on the plaintext -/
def decryptAndServe (C : BlockCipher) (key : Bytes) (content : Bytes) (inner : Inner) : Resp :=
  match b64Decode (bytesToString content) with
  | none => { ran := false, status := 400 }
  | some ct =>
    match ecbDecrypt C key ct with
    | .ok p => flushResp C key p (inner p)
    | .panic => { ran := false, status := 0, panic := true }
    | _ => { ran := false, status := 400 }

/-- `LimitCryptionHandler(limitBytes, key)(next)` (after fixes/C18-chunked-body.patch).
`cl` is `r.ContentLength` — the framing of the request: `> 0` a declared length, `0` no body, `-1` unknown length
(`Transfer-Encoding: chunked`) — and `raw` the bytes `r.Body` yields.
  * `cl = 0`: nothing to decrypt, the wrapped handler gets the request as it is;
  * `cl > 0`: exactly `cl` bytes are read (`io.ReadFull`), a shorter body is an error;
  * `cl < 0`: everything is read, up to `limitBytes` (`maxBytes` when no limit is set); a longer body is an error, an empty
    one is passed on as it is. -/
def cryptionHandler (C : BlockCipher) (limit : Int) (key : Bytes) (cl : Int) (raw : Bytes) (inner : Inner) : Resp :=
  if cl = 0 then flushResp C key raw (inner raw)
  else if limit > 0 ∧ cl > limit then { ran := false, status := 400 }
  else if cl > 0 then
    if (raw.length : Int) < cl then { ran := false, status := 400 }          -- io.ReadFull: unexpected EOF
    else decryptAndServe C key (raw.take cl.toNat) inner
  else if (raw.length : Int) > (if limit > 0 then limit else maxBytes) then { ran := false, status := 400 }
  else if raw.isEmpty then flushResp C key [] (inner [])
  else decryptAndServe C key raw inner

/-- `LimitCryptionHandler` as pinned before the fix: every `ContentLength <= 0` — a chunked body included — went to the
wrapped handler undecrypted. Kept for the witness theorem `chunked_body_not_decrypted_pinned`. -/
def cryptionHandlerPinned (C : BlockCipher) (limit : Int) (key : Bytes) (cl : Int) (raw : Bytes) (inner : Inner) : Resp :=
  if cl ≤ 0 then flushResp C key raw (inner raw)
  else if limit > 0 ∧ cl > limit then { ran := false, status := 400 }
  else if (raw.length : Int) < cl then { ran := false, status := 400 }
  else decryptAndServe C key (raw.take cl.toNat) inner

/-! ## content security -/

inductive RsaRes where
  | noKey                 -- fingerprint not in the configured decrypters
  | err                   -- base64 / RSA decryption failed
  | ok (plain : String)
  deriving Repr, DecidableEq

/-- primitives the model does not define -/
structure CsEnv where
  rsa       : String → String → RsaRes        -- fingerprint, `secret` field ↦ decrypted text
  hmacB64   : Bytes → String → String         -- `codec.HmacBase64`
  sha256Hex : Bytes → String                  -- `fmt.Sprintf("%x", sha256(body))`
  urlParse  : String → Option (String × String)  -- `url.Parse` ↦ (Path, RawQuery)
  now       : Int                             -- `time.Now().Unix()`

structure CsCfg where
  strict : Bool
  tol    : Int          -- `int64(tolerance.Seconds())`
  limit  : Int          -- limitBytes

structure CsReq where
  method : String
  path   : String                 -- r.URL.Path
  query  : String                 -- r.URL.RawQuery
  uri    : String                 -- X-Request-Uri header ("" = absent)
  headers : List String           -- the values of X-Content-Security in the order net/http stored them ([] = absent)
  cl     : Int                    -- r.ContentLength: > 0 declared length, 0 no body, -1 unknown length (chunked)
  body   : Bytes                  -- the bytes r.Body yields (all of them, whatever `cl` says)

structure CsHeader where
  key         : Bytes
  timestamp   : String
  contentType : Int
  signature   : String
  deriving Repr, DecidableEq

inductive CsParseErr where
  | invalidHeader | invalidPublicKey | invalidSecret | invalidKey | invalidContentType
  deriving Repr, DecidableEq

/-- `r.Header.Get`: the first value, "" when the header is absent -/
def headerGet (vs : List String) : String := vs.headD ""

/-- the three fields `ParseContentSecurity` takes from the header: fingerprint, secret, signature
(`httpx.ParseHeader` on the first header value; a repeated field: the last one wins; names are case sensitive) -/
def headerTriple (req : CsReq) : String × String × String :=
  let attrs := parseHeaderFields (headerGet req.headers)
  (attr attrs "key", attr attrs "secret", attr attrs "signature")

/-- `security.ParseContentSecurity` -/
def parseContentSecurity (env : CsEnv) (req : CsReq) : Except CsParseErr CsHeader :=
  let hd := headerTriple req
  if hd.1.isEmpty ∨ hd.2.1.isEmpty ∨ hd.2.2.isEmpty then .error .invalidHeader
  else match env.rsa hd.1 hd.2.1 with
    | .noKey => .error .invalidPublicKey
    | .err => .error .invalidSecret
    | .ok plain =>
      let attrs := parseHeaderFields plain
      match b64Decode (attr attrs "key") with
      | none => .error .invalidKey
      | some key =>
        match parseInt64 (attr attrs "type") with
        | none => .error .invalidContentType
        | some ct => .ok { key := key, timestamp := attr attrs "time", contentType := ct, signature := hd.2.2 }

/-- `getPathQuery`: a parsable X-Request-Uri replaces path and query of the request -/
def pathQuery (env : CsEnv) (req : CsReq) : String × String :=
  if req.uri.isEmpty then (req.path, req.query)
  else match env.urlParse req.uri with
    | none => (req.path, req.query)
    | some pq => pq

/-- `computeBodySignature`: `r.Body` is duplicated (`iox.DupReadCloser`), one copy is read to its end into SHA-256, the
other copy is what the next reader gets. Everything `r.Body` yields is hashed — `r.ContentLength` is not consulted,
so a declared length, an unknown length (chunked) and "no body" are all treated alike. -/
def bodySignature (env : CsEnv) (body : Bytes) : String := env.sha256Hex body

/-- the text that is signed: timestamp, method, path, query, hex digest of the body, joined by line feeds -/
def signContent (env : CsEnv) (ts method path query : String) (body : Bytes) : String :=
  "\n".intercalate [ts, method, path, query, bodySignature env body]

/-- the time window of `VerifySignature` -/
def outsideWindow (seconds tol now : Int) : Bool :=
  decide (seconds + tol < now) || decide (now + tol < seconds)

/-- `security.VerifySignature`: 0 pass, 1 invalid header, 2 wrong time, 3 invalid token -/
def verifySignature (env : CsEnv) (tol : Int) (req : CsReq) (h : CsHeader) : Nat :=
  match parseInt64 h.timestamp with
  | none => 1
  | some seconds =>
    if outsideWindow seconds tol env.now then 2
    else
      let pq := pathQuery env req
      if h.signature = env.hmacB64 h.key (signContent env h.timestamp req.method pq.1 pq.2 req.body) then 0 else 3

/-- the methods `LimitContentSecurityHandler` looks at -/
def gatedMethods : List String := ["DELETE", "GET", "POST", "PUT"]

/-- `handleVerificationFailure` -/
def verificationFailure (strict : Bool) (inner : Inner) (body : Bytes) : Resp :=
  if strict then { ran := false, status := 403 } else plainNext inner body

/-- `LimitContentSecurityHandler(limit, decrypters, tolerance, strict)(next)` with the default callback
(after fixes/C18-chunked-body.patch: `r.ContentLength != 0 && header.Encrypted()`) -/
def contentSecurity (C : BlockCipher) (env : CsEnv) (cfg : CsCfg) (req : CsReq) (inner : Inner) : Resp :=
  if gatedMethods.contains req.method then
    match parseContentSecurity env req with
    | .error _ => verificationFailure cfg.strict inner req.body
    | .ok h =>
      if verifySignature env cfg.tol req h ≠ 0 then verificationFailure cfg.strict inner req.body
      else if req.cl ≠ 0 ∧ h.contentType = 1 then cryptionHandler C cfg.limit h.key req.cl req.body inner
      else plainNext inner req.body
  else plainNext inner req.body

/-- the two checks of the gate failed (for a method it looks at): the header does not parse or the signature does not verify -/
def csVerificationFails (env : CsEnv) (cfg : CsCfg) (req : CsReq) : Bool :=
  gatedMethods.contains req.method &&
    (match parseContentSecurity env req with
     | .error _ => true
     | .ok h => verifySignature env cfg.tol req h != 0)

/-- `LimitContentSecurityHandler(limit, decrypters, tolerance, strict, callbacks...)` with USER callbacks that answer the
request themselves (`st` = the status they leave: 200 when they write nothing): the default `handleVerificationFailure` is
NOT installed, so a failed verification ends with the callbacks — strict or not — and the handler is not called -/
def contentSecurityWithCallbacks (C : BlockCipher) (env : CsEnv) (cfg : CsCfg) (req : CsReq) (inner : Inner) (st : Nat) : Resp :=
  if csVerificationFails env cfg req then { ran := false, status := st } else contentSecurity C env cfg req inner

/-! ## who owns the bytes behind `r.Body` after `computeBodySignature` (several requests in flight) -/

namespace Own

/-- what happens to the memory behind request bodies: request `r` goes through `computeBodySignature` with the bytes `body`
(digested, and kept for the readers that follow), or the handler of request `r` reads its body -/
inductive Ev where
  | verify (r : Nat) (body : Bytes)
  | read (r : Nat)

/-- `bufs` = the buffers ever handed out, `owner r` = the buffer `r.Body` of request `r` reads from -/
structure St where
  bufs  : List Bytes := []
  owner : Nat → Option Nat := fun _ => none

/-- the code that exists: `iox.DupReadCloser` declares a NEW `bytes.Buffer` in every call (`var buf bytes.Buffer`); the copy
of the body lives there and nothing else ever writes it -/
def stepFresh (st : St) : Ev → St
  | .verify r body => { bufs := st.bufs ++ [body], owner := fun x => if x = r then some st.bufs.length else st.owner x }
  | .read _ => st

/-- a WRONG variant (the shape of seeded change C18-9): one buffer taken from a pool and put back when
`computeBodySignature` returns — the next call gets the same memory -/
def stepPooled (st : St) : Ev → St
  | .verify r body => { bufs := [body], owner := fun x => if x = r then some 0 else st.owner x }
  | .read _ => st

/-- what the handler of request `r` reads -/
def readOf (st : St) (r : Nat) : Option Bytes := (st.owner r).bind fun i => st.bufs[i]?

end Own

/-! ## JWT -/

/-- what `doParseToken` returned -/
inductive Parsed (C : Type) where
  | err
  | tok (valid : Bool) (claims : Option C)     -- `claims = none`: not a `jwt.MapClaims`
  deriving Repr, DecidableEq

/-- `TokenParser`: success counts per secret, and the reset clock -/
structure Hist where
  counts        : List (String × Nat) := []
  resetTime     : Int := 0
  resetDuration : Int := 86400000000000
  deriving Repr, DecidableEq

def Hist.count (h : Hist) (s : String) : Nat :=
  match h.counts.find? (·.1 = s) with
  | some (_, n) => n
  | none => 0

/-- `incrementCount` at clock reading `clock` (`timex.Now()`); `resetTime` is never moved -/
def Hist.increment (h : Hist) (s : String) (clock : Int) : Hist :=
  let cs := if h.resetTime + h.resetDuration < clock then [] else h.counts
  let cs' := if cs.any (·.1 = s) then cs.map (fun (k, n) => if k = s then (k, n + 1) else (k, n)) else cs ++ [(s, 1)]
  { h with counts := cs' }

/-- which secret `ParseToken` tries first -/
def firstSecond (h : Hist) (secret prev : String) : String × String :=
  if h.count secret > h.count prev then (secret, prev) else (prev, secret)

def Parsed.isErr {C : Type} : Parsed C → Bool
  | .err => true
  | _ => false

/-- `TokenParser.ParseToken` over an abstract `verify` (= `doParseToken` for a secret) -/
def parseToken {C : Type} (verify : String → Parsed C) (h : Hist) (secret prev : String) (clock : Int) :
    Hist × Parsed C :=
  if prev.length > 0 then
    let fs := firstSecond h secret prev
    if (verify fs.1).isErr then
      if (verify fs.2).isErr then (h, .err)
      else (h.increment fs.2 clock, verify fs.2)
    else (h.increment fs.1 clock, verify fs.1)
  else (h, verify secret)

/-! ### `ParseToken`'s retry structure -/

/-- the two attempts of the rotation path: the SAME full verification (`verify` = `doParseToken`: signature and claims),
first with one secret and — only when that fails — with the other -/
def attempts {C : Type} (verify : String → Parsed C) (first second : String) : Parsed C :=
  if (verify first).isErr then verify second else verify first

/-- the calls of the attempts, typed: (kind, the secret the call is given); `err s` = `doParseToken(r, s)` failed -/
def attemptCalls (first second : String) (err : String → Bool) : List (String × String) :=
  ("parse", first) ::
    (if err first then
       ("parse", second) :: (if err second then [("return-err", "")] else [("incr", second), ("return-token", "")])
     else [("incr", first), ("return-token", "")])

/-- `TokenParser.ParseToken` as a typed call list: with a previous secret the two counters are loaded, the secret whose
counter leads is tried first, the other one second — by a call of the same `doParseToken` — and the counter of the secret
that verified is incremented; without a previous secret there is one call and no counter -/
def parseTokenCalls (secret prev : String) (hasPrev currentLeads : Bool) (err : String → Bool) : List (String × String) :=
  if hasPrev then
    ("load", secret) :: ("load", prev) ::
      attemptCalls (if currentLeads then secret else prev) (if currentLeads then prev else secret) err
  else ("parse", secret) :: (if err secret then [("return-err", "")] else [("return-token", "")])

/-- A WRONG variant, kept as a witness of what the property demands (the shape of seeded change C18-8): the second attempt
re-checks only the signature (`sigOnly`) of the already decoded token and marks it valid, skipping the claims -/
def attemptsSignatureOnlyFallback {C : Type} (verify sigOnly : String → Parsed C) (first second : String) : Parsed C :=
  if (verify first).isErr then sigOnly second else verify first

/-! ## concurrency on `TokenParser.history`: several requests inside `ParseToken` (rotation path) at once -/

namespace Conc

/-- where a request is inside `ParseToken` / `incrementCount`; every constructor is one access to the shared map (or the
two verifications, which touch no shared state) -/
inductive Pc (C : Type) where
  | loadCur                                                  -- about to `loadCount(secret)`
  | loadPrev (c : Nat)                                       -- about to `loadCount(prevSecret)`
  | parse (c p : Nat)                                        -- the attempts, ordered by the two values READ
  | incrReset (s : String) (r : Parsed C)                    -- `incrementCount`: the reset test and the clearing
  | incrLoad (s : String) (r : Parsed C)                     -- `history.Load(secret)`
  | incrWrite (s : String) (r : Parsed C) (present : Bool)   -- `atomic.AddUint64` on the loaded cell / `history.Store`
  | done (r : Parsed C)
  deriving DecidableEq

/-- one request: its own verification function (its own token) and the parser's secret pair -/
structure Req (C : Type) where
  verify : String → Parsed C
  secret : String
  prev   : String

structure St (C : Type) where
  counts : List (String × Nat)     -- the shared `history`
  pcs    : List (Pc C)             -- thread `t` is at `pcs[t]`

def countOf (cs : List (String × Nat)) (s : String) : Nat :=
  match cs.find? (·.1 = s) with
  | some (_, n) => n
  | none => 0

/-- `atomic.AddUint64` on a cell that was loaded earlier: lost when the entry has been deleted meanwhile -/
def bump (cs : List (String × Nat)) (s : String) : List (String × Nat) :=
  cs.map fun kn => if kn.1 = s then (kn.1, kn.2 + 1) else kn

/-- `history.Store(secret, &1)`: overwrites whatever another request stored meanwhile -/
def store (cs : List (String × Nat)) (s : String) : List (String × Nat) :=
  cs.filter (fun kn => kn.1 ≠ s) ++ [(s, 1)]

/-- one step of one request; `expired` = what its clock reading makes of the reset test -/
def stepPc {C : Type} (req : Req C) (expired : Bool) (cs : List (String × Nat)) : Pc C → List (String × Nat) × Pc C
  | .loadCur => (cs, .loadPrev (countOf cs req.secret))
  | .loadPrev c => (cs, .parse c (countOf cs req.prev))
  | .parse c p =>
    if (req.verify (if c > p then req.secret else req.prev)).isErr then
      if (req.verify (if c > p then req.prev else req.secret)).isErr then (cs, .done .err)
      else (cs, .incrReset (if c > p then req.prev else req.secret) (req.verify (if c > p then req.prev else req.secret)))
    else (cs, .incrReset (if c > p then req.secret else req.prev) (req.verify (if c > p then req.secret else req.prev)))
  | .incrReset s r => (if expired then [] else cs, .incrLoad s r)
  | .incrLoad s r => (cs, .incrWrite s r (cs.any (·.1 = s)))
  | .incrWrite s r present => (if present then bump cs s else store cs s, .done r)
  | .done r => (cs, .done r)

/-- the accesses of `incrementCount` to the shared map, in order: the clock is read, the map is cleared when the reset
time has passed (`Range` deleting every key), the secret's cell is loaded, and it is incremented atomically when it was
there, stored afresh otherwise — the steps `incrReset`, `incrLoad`, `incrWrite` of `stepPc` -/
def incrAccesses (expired present : Bool) : List String :=
  ["timex.Now()"] ++ (if expired then ["tp.history.Range [clear]"] else []) ++
    ["tp.history.Load(secret)", if present then "atomic.AddUint64(value.(*uint64), 1)" else "tp.history.Store(secret, &count)"]

/-- `loadCount`: one `Load`; the counter's value when it is there, 0 otherwise (`countOf`) -/
def loadAccesses (present : Bool) : List String :=
  ["tp.history.Load(secret)", if present then "return *value.(*uint64)" else "return 0"]

/-- the scheduler lets thread `t` take one step -/
def step {C : Type} (reqs : List (Req C)) (st : St C) (t : Nat) (expired : Bool) : St C :=
  match reqs[t]?, st.pcs[t]? with
  | some req, some pc => { counts := (stepPc req expired st.counts pc).1, pcs := st.pcs.set t (stepPc req expired st.counts pc).2 }
  | _, _ => st

/-- a schedule: which thread steps next, and what its clock reading says about the reset -/
def run {C : Type} (reqs : List (Req C)) (st : St C) : List (Nat × Bool) → St C
  | [] => st
  | te :: rest => run reqs (step reqs st te.1 te.2) rest

def init {C : Type} (n : Nat) (counts : List (String × Nat)) : St C := { counts := counts, pcs := List.replicate n .loadCur }

end Conc

/-- the registered claim names `Authorize` does not forward -/
def standardClaims : List String := ["aud", "exp", "jti", "iat", "iss", "nbf", "sub"]

structure AuthOut (V : Type) where
  ran    : Bool
  status : Nat
  ctx    : List (String × V)      -- context values added for the wrapped handler
  deriving Repr, DecidableEq

/-- `Authorize(secret, WithPrevSecret(prev))(next)` without callback -/
def authorize {V : Type} (verify : String → Parsed (List (String × V))) (h : Hist) (secret prev : String)
    (clock : Int) : Hist × AuthOut V :=
  let r := parseToken verify h secret prev clock
  match r.2 with
  | .err => (r.1, { ran := false, status := 401, ctx := [] })
  | .tok false _ => (r.1, { ran := false, status := 401, ctx := [] })
  | .tok true none => (r.1, { ran := false, status := 401, ctx := [] })
  | .tok true (some claims) =>
    (r.1, { ran := true, status := 200, ctx := claims.filter fun kv => !standardClaims.contains kv.1 })

/-! ### the option list of `Authorize` (rest/handler/authhandler.go: `for _, opt := range opts { opt(&authOpts) }`) -/

/-- `AuthorizeOption`: `WithPrevSecret(s)` / `WithUnauthorizedCallback(cb)` (`present` = a non-nil callback) -/
inductive AuthOption where
  | prevSecret (s : String)
  | callback (present : Bool)
  deriving Repr, DecidableEq

/-- `AuthorizeOptions` -/
structure AuthOpts where
  prev     : String := ""
  callback : Bool := false
  deriving Repr, DecidableEq

/-- one option applied: each option ASSIGNS its field (`opts.PrevSecret = secret`, `opts.Callback = callback`) -/
def AuthOption.apply (o : AuthOpts) : AuthOption → AuthOpts
  | .prevSecret s => { o with prev := s }
  | .callback present => { o with callback := present }

/-- the options in force after the loop: for each field the LAST option that sets it wins -/
def authOptions (opts : List AuthOption) : AuthOpts := opts.foldl AuthOption.apply {}

/-- `Authorize(secret, opts...)(next)` -/
def authorizeWith {V : Type} (verify : String → Parsed (List (String × V))) (h : Hist) (secret : String)
    (opts : List AuthOption) (clock : Int) : Hist × AuthOut V :=
  authorize verify h secret (authOptions opts).prev clock

/-- `unauthorized`: the callback (when there is one) goes first and writes through a header-once writer, then 401 is
written: the client sees the callback's status when it set one (`some st`; an implicit 200 when it only wrote a body),
otherwise 401 -/
def unauthorizedStatus (callbackWrote : Option Nat) : Nat := callbackWrote.getD 401

/-! ### the decision table of golang-jwt/v4 as configured by go-zero (key = `[]byte(secret)`, JSON numbers) -/

inductive TimeClaim where
  | absent
  | at (t : Int)      -- a JSON number, truncated to seconds
  | bad               -- present but not a number
  deriving Repr, DecidableEq

/-- facts about one Authorization header, established independently of go-zero -/
structure TokenFacts (V : Type) where
  present : Bool                 -- the header carries a value
  segs    : Nat                  -- number of `.`-separated segments (after stripping `Bearer `)
  hdrOk   : Bool                 -- segment 1 is base64url of a JSON object
  clmOk   : Bool                 -- segment 2 is base64url of a JSON object
  alg     : Option String        -- header `alg` when it is a string
  sigOk   : String → Bool        -- segment 3 is the HMAC (hash named by `alg`) of `seg1.seg2` under this secret
  exp     : TimeClaim
  nbf     : TimeClaim
  iat     : TimeClaim
  claims  : List (String × V)

def hmacAlgs : List String := ["HS256", "HS384", "HS512"]

def expOk (c : TimeClaim) (now : Int) : Bool :=
  match c with
  | .absent => true
  | .at t => decide (now < t)
  | .bad => false

def notBeforeOk (c : TimeClaim) (now : Int) : Bool :=
  match c with
  | .absent => true
  | .at t => decide (t ≤ now)
  | .bad => false

def timeValid {V : Type} (f : TokenFacts V) (now : Int) : Bool :=
  expOk f.exp now && notBeforeOk f.iat now && notBeforeOk f.nbf now

/-- `request.ParseFromRequest(r, AuthorizationHeaderExtractor, key = []byte(secret))` -/
def jwtVerify {V : Type} (f : TokenFacts V) (now : Int) (secret : String) : Parsed (List (String × V)) :=
  if f.present ∧ f.segs = 3 ∧ f.hdrOk ∧ f.clmOk then
    match f.alg with
    | none => .err
    | some a =>
      if hmacAlgs.contains a then
        if f.sigOk secret then
          if timeValid f now then .tok true (some f.claims) else .err
        else .err
      else .err          -- `none` wants a special key value, RS*/ES*/PS*/EdDSA a public key: []byte is rejected
  else .err

/-! ## the limit decision of `decryptBody`, statement by statement -/

/-- `io.ReadAll(io.LimitReader(r.Body, max))`: at most `max` bytes of what the body yields -/
def limitRead (max : Int) (raw : Bytes) : Bytes := raw.take max.toNat

/-- `n, _ := io.ReadFull(r.Body, make([]byte, 1)); n > 0` after `max` bytes were consumed: the body has more -/
def probeMore (max : Int) (raw : Bytes) : Bool := !(raw.drop max.toNat).isEmpty

/-- `int64(len(content)) == max`: the limit is used up -/
def limitUsedUp (len max : Int) : Bool := decide (len = max)

/-- the unknown-length branch: read up to `max`, and when the limit is used up probe for one more byte;
`none` = `errContentLengthExceeded` -/
def readUnknown (max : Int) (raw : Bytes) : Option Bytes :=
  if limitUsedUp (limitRead max raw).length max && probeMore max raw then none else some (limitRead max raw)

/-- the declared-length branch: `io.ReadFull(r.Body, make([]byte, r.ContentLength))`; `none` = unexpected EOF -/
def readDeclared (cl : Int) (raw : Bytes) : Option Bytes :=
  if (raw.length : Int) < cl then none else some (raw.take cl.toNat)

/-- `max := limitBytes; if max <= 0 { max = maxBytes }` -/
def unknownCap (limit : Int) : Int := if limit ≤ 0 then maxBytes else limit

/-- `decryptBody`'s reading of the body: `none` = an error (400) -/
def readBody (limit cl : Int) (raw : Bytes) : Option Bytes :=
  if limit > 0 ∧ cl > limit then none
  else if cl > 0 then readDeclared cl raw
  else readUnknown (unknownCap limit) raw

/-- whether `decryptBody` reads a body at all depends on LENGTHS only (`len` = the number of bytes `r.Body` yields):
a declared length over a configured limit, a declared length the body does not fill, an unknown-length body over the cap
(`limitBytes`, or `maxBytes` = 1 MiB when none is configured) are refused. NOTE: with no limit configured a DECLARED length
is not capped at all. -/
def readAdmits (limit cl : Int) (len : Nat) : Bool :=
  if limit > 0 ∧ cl > limit then false
  else if cl > 0 then decide ((len : Int) ≥ cl)
  else decide ((len : Int) ≤ unknownCap limit)

/-- `LimitCryptionHandler` written over `readBody` (proven equal to `cryptionHandler`: `cryptionHandler_eq_viaRead`) -/
def cryptionHandlerViaRead (C : BlockCipher) (limit : Int) (key : Bytes) (cl : Int) (raw : Bytes) (inner : Inner) : Resp :=
  if cl = 0 then flushResp C key raw (inner raw)
  else match readBody limit cl raw with
    | none => { ran := false, status := 400 }
    | some content => if content.isEmpty then flushResp C key [] (inner []) else decryptAndServe C key content inner

/-! ## rest/engine.go and rest/server.go: which middlewares are bound in front of a route's handler -/

/-- `RestConf.Middlewares`: the eleven switches, in the order `buildChainWithNativeMiddlewares` consults them -/
structure MwConf where
  trace : Bool
  log : Bool
  prometheus : Bool
  maxConns : Bool
  breaker : Bool
  shedding : Bool
  timeout : Bool
  recover : Bool
  metrics : Bool
  maxBytes : Bool
  gunzip : Bool
  deriving Repr, DecidableEq

/-- the switch and the handler each `if ng.conf.Middlewares.X { chn = chn.Append(handler.Y…) }` appends -/
def nativeTable (m : MwConf) : List (Bool × String) :=
  [(m.trace, "handler.TraceHandler"), (m.log, "ng.getLogHandler"), (m.prometheus, "handler.PrometheusHandler"),
   (m.maxConns, "handler.MaxConnsHandler"), (m.breaker, "handler.BreakerHandler"), (m.shedding, "handler.SheddingHandler"),
   (m.timeout, "handler.TimeoutHandler"), (m.recover, "handler.RecoverHandler"), (m.metrics, "handler.MetricHandler"),
   (m.maxBytes, "handler.MaxBytesHandler"), (m.gunzip, "handler.GunzipHandler")]

/-- `buildChainWithNativeMiddlewares` -/
def nativeChain (m : MwConf) : List String :=
  (nativeTable m).filterMap fun e => if e.1 then some e.2 else none

/-- what the route options leave in `featuredRoutes` as far as the gates are concerned -/
structure RouteOpts where
  jwt       : Bool := false     -- fr.jwt.enabled
  prev      : Bool := false     -- len(fr.jwt.prevSecret) > 0
  sig       : Bool := false     -- fr.signature.enabled
  sigKeys   : Bool := false     -- len(fr.signature.PrivateKeys) > 0
  sigStrict : Bool := false     -- fr.signature.Strict
  deriving Repr, DecidableEq

/-- the route options of rest/server.go that touch the gates (everything else leaves `RouteOpts` alone) -/
inductive RouteOption where
  | withJwt                               -- WithJwt(secret)
  | withJwtTransition (prevEmpty : Bool)  -- WithJwtTransition(secret, prevSecret)
  | withSignature (strict keys : Bool)    -- WithSignature(SignatureConf{Strict, PrivateKeys})
  | other                                 -- WithPrefix / WithPriority / WithMaxBytes / WithTimeout / WithSSE
  deriving Repr, DecidableEq

/-- one option applied to the group (`opt(&r)` in `AddRoutes`). `WithJwt` does not touch `prevSecret`: one set by an
earlier `WithJwtTransition` stays in force. -/
def RouteOption.apply (o : RouteOpts) : RouteOption → RouteOpts
  | .withJwt => { o with jwt := true }
  | .withJwtTransition prevEmpty => { o with jwt := true, prev := !prevEmpty }
  | .withSignature strict keys => { o with sig := true, sigStrict := strict, sigKeys := keys }
  | .other => o

/-- `AddRoutes(rs, opts...)` -/
def applyOptions (opts : List RouteOption) : RouteOpts := opts.foldl RouteOption.apply {}

def authorizeName : String := "handler.Authorize"
def contentSecurityName : String := "handler.LimitContentSecurityHandler"

/-- `engine.signatureVerifier`: `none` = `ErrSignatureConfig` (strict without keys), otherwise what it does to a chain -/
def signatureVerifier (o : RouteOpts) : Option (List String → List String) :=
  if !o.sig then some id
  else if !o.sigKeys then (if o.sigStrict then none else some id)
  else some (· ++ [contentSecurityName])

/-- `engine.appendAuthHandler`: `Authorize` when jwt is enabled, then the verifier -/
def appendAuthHandler (o : RouteOpts) (verifier : List String → List String) (chn : List String) : List String :=
  verifier (if o.jwt then chn ++ [authorizeName] else chn)

/-- `engine.bindRoute`: the user's chain (`WithChain`) or the native one, ALWAYS followed by the auth handlers, then the
`Server.Use` middlewares. `none`: `bindFeaturedRoutes` returned the verifier's error, nothing of the group is bound. -/
def bindRoute (custom : Option (List String)) (m : MwConf) (o : RouteOpts) (uses : List String) : Option (List String) :=
  match signatureVerifier o with
  | none => none
  | some v => some (appendAuthHandler o v (custom.getD (nativeChain m)) ++ uses)

/-- the result of serving a request through a chain of middlewares that either pass the request on (`none`) or answer
it themselves (`some status`) -/
structure ChainRun where
  saw    : List String     -- the middlewares that saw the request, in order
  ran    : Bool            -- the route's handler was called
  status : Nat
  deriving Repr, DecidableEq

def runChain (verdict : String → Option Nat) : List String → ChainRun
  | [] => { saw := [], ran := true, status := 200 }
  | n :: rest =>
    match verdict n with
    | some st => { saw := [n], ran := false, status := st }
    | none => let r := runChain verdict rest; { r with saw := n :: r.saw }

/-- the two gates' verdicts on a request; every other middleware passes the request on -/
def gateVerdict (auth cs : Option Nat) (n : String) : Option Nat :=
  if n = authorizeName then auth else if n = contentSecurityName then cs else none

/-- `Authorize`'s verdict from its model outcome -/
def authVerdict {V : Type} (out : AuthOut V) : Option Nat := if out.ran then none else some out.status

/-- the content-security gate's verdict. With a user `UnsignedCallback` the default `handleVerificationFailure` is NOT
installed: a failed verification ends the request with whatever the callback wrote (200 when it wrote nothing), strict
or not. -/
def csGateVerdict (strict userCallback gatedMethod covered : Bool) : Option Nat :=
  if !gatedMethod || covered then none
  else if userCallback then some 200
  else if strict then some 403 else none

/-- what a request to a bound route ends in, as the rest harness observes it -/
structure RestObs (V : Type) where
  ran     : Bool                  -- the route's handler was called
  status  : Nat
  ctx     : List (String × V)     -- the context values the handler saw (jwt routes)
  usesRan : Nat                   -- how many `Server.Use` middlewares saw the request
  deriving Repr, DecidableEq

/-- serving a request through the chain `bindRoute` bound: the two gates decide (`authOut` = `Authorize`'s outcome, `cs` =
the content-security gate's verdict), every other middleware passes the request on -/
def restServe {V : Type} (o : RouteOpts) (uses chn : List String) (authOut : AuthOut V) (cs : Option Nat) : RestObs V :=
  { ran := (runChain (gateVerdict (authVerdict authOut) cs) chn).ran,
    status := (runChain (gateVerdict (authVerdict authOut) cs) chn).status,
    ctx := if (runChain (gateVerdict (authVerdict authOut) cs) chn).ran && o.jwt then authOut.ctx else [],
    usesRan := ((runChain (gateVerdict (authVerdict authOut) cs) chn).saw.filter fun n => uses.contains n).length }

/-! ## the decrypters of ONE route group (rest/engine.go `signatureVerifier`, the loop over `signature.PrivateKeys`) -/

/-- `PrivateKeyConf`: (Fingerprint, KeyFile) -/
abbrev KeyConf := String × String

/-- the loop of `signatureVerifier`: a map made FRESH for this group (`make(map[string]codec.RsaDecrypter)`), then one
`decrypters[key.Fingerprint] = NewRsaDecrypter(key.KeyFile)` per configured key, in order; `none` = a key file could not
be loaded. The map is an association list in assignment order (`decrypterOf`: the last assignment wins). Nothing of the
engine or of another group goes into it. -/
def loadDecrypters {D : Type} (load : String → Option D) (keys : List KeyConf) : Option (List (String × D)) :=
  keys.foldl (fun acc k => acc.bind fun m => (load k.2).map fun d => m ++ [(k.1, d)]) (some [])

/-- `decrypters[fingerprint]` -/
def decrypterOf {D : Type} (m : List (String × D)) (fp : String) : Option D :=
  (m.reverse.find? (·.1 = fp)).map (·.2)

/-- the `rsa` parameter of `CsEnv` for a gate that was handed the map `m`:
`decrypter, ok := decrypters[fingerprint]; if !ok → ErrInvalidPublicKey; decrypter.DecryptBase64(secret)` -/
def groupRsa {D : Type} (dec : D → String → Option String) (m : List (String × D)) (fp secret : String) : RsaRes :=
  match decrypterOf m fp with
  | none => .noKey
  | some d => match dec d secret with
    | none => .err
    | some plain => .ok plain

/-- why `bindFeaturedRoutes` binds nothing of a group -/
inductive BindErr where
  | signatureConfig      -- ErrSignatureConfig: strict without keys
  | keyFile              -- a configured key file could not be loaded
  deriving Repr, DecidableEq

/-- `signatureVerifier` with the key loading: the decision list first, then — only for a group that gets the gate — the
loop over the group's keys; any failure means NO route of the group is bound (fail closed) -/
def verifierFor {D : Type} (load : String → Option D) (o : RouteOpts) (keys : List KeyConf) :
    Except BindErr (List String → List String) :=
  match signatureVerifier o with
  | none => .error .signatureConfig
  | some v =>
    if o.sig && o.sigKeys then
      match loadDecrypters load keys with
      | none => .error .keyFile
      | some _ => .ok v
    else .ok v

/-! ## RSA chunking (core/codec/rsa.go `rsaBase.crypt`) -/

def mapChunks (f : Bytes → Option Bytes) : List Bytes → Option Bytes
  | [] => some []
  | c :: cs => do let x ← f c; let r ← mapChunks f cs; pure (x ++ r)

/-- `rsaBase.crypt`: the input is cut into pieces of `bytesLimit` bytes, each handed to `cryptFn` -/
def rsaCrypt (limit : Nat) (f : Bytes → Option Bytes) (input : Bytes) : Option Bytes :=
  mapChunks f (chunks limit input)

end GoZero.C18
