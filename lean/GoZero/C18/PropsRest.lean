/-
C18 — property theorems about the wiring of the gates (rest/engine.go, rest/server.go) and about the limit decision of
`decryptBody`.

wiring    bindRoute_chain, jwt_gate_in_every_chain, signature_gate_in_every_chain,
          strict_signature_without_keys_binds_nothing, no_jwt_gate_unless_declared, no_signature_gate_unless_declared,
          jwt_option_enables_the_gate, signature_option_enables_the_gate, withJwt_keeps_previous_secret,
          runChain_ran_iff, runChain_stops_at_first_rejecting,
          rest_jwt_route_runs_only_with_valid_credential, rest_signed_route_runs_only_with_covering_signature,
          rest_use_middlewares_are_behind_the_gates
limit     readUnknown_never_truncates, readUnknown_none_iff, readDeclared_exact, readBody_whole_or_error,
          cryptionHandler_eq_viaRead, crypt_handler_sees_decryption_of_whole_body, crypt_seen_monitor_sound,
          cs_encrypted_handler_sees_decryption_of_whole_body
-/
import GoZero.C18.Props
namespace GoZero.C18

/-! ## chains -/

/-- the handler at the end of a chain runs iff every middleware in front of it passes the request on -/
theorem runChain_ran_iff (v : String → Option Nat) (chn : List String) :
    (runChain v chn).ran = true ↔ ∀ n ∈ chn, v n = none := by
  induction chn with
  | nil => simp [runChain]
  | cons a t ih =>
    unfold runChain
    cases h : v a with
    | some st => simp [h]
    | none => simp [h, ih]

/-- a request that does not reach the handler was answered by one of the middlewares of the chain, with its status -/
theorem runChain_rejected_by_member (v : String → Option Nat) (chn : List String)
    (h : (runChain v chn).ran = false) : ∃ n ∈ chn, v n = some (runChain v chn).status := by
  induction chn with
  | nil => simp [runChain] at h
  | cons a t ih =>
    unfold runChain at h ⊢
    cases hv : v a with
    | some st => exact ⟨a, by simp, by simp [hv]⟩
    | none =>
      simp only [hv] at h ⊢
      obtain ⟨n, hn, hs⟩ := ih h
      exact ⟨n, by simp [hn], hs⟩

/-- the first middleware that answers ends the request: nothing behind it sees the request -/
theorem runChain_stops_at_first_rejecting (v : String → Option Nat) (pre : List String) (g : String) (post : List String)
    (st : Nat) (hpre : ∀ n ∈ pre, v n = none) (hg : v g = some st) :
    runChain v (pre ++ g :: post) = { saw := pre ++ [g], ran := false, status := st } := by
  induction pre with
  | nil => simp [runChain, hg]
  | cons a t ih =>
    have ha : v a = none := hpre a (by simp)
    have := ih (fun n hn => hpre n (by simp [hn]))
    simp only [List.cons_append, runChain, ha, this]

/-- when everything passes, every middleware saw the request -/
theorem runChain_all_pass (v : String → Option Nat) (chn : List String) (h : ∀ n ∈ chn, v n = none) :
    runChain v chn = { saw := chn, ran := true, status := 200 } := by
  induction chn with
  | nil => rfl
  | cons a t ih =>
    have ha : v a = none := h a (by simp)
    have := ih (fun n hn => h n (by simp [hn]))
    simp only [runChain, ha, this]

/-! ## what `bindRoute` binds, for every configuration -/

/-- the gates a group of routes gets -/
def gatesOf (o : RouteOpts) : List String :=
  (if o.jwt then [authorizeName] else []) ++ (if o.sig ∧ o.sigKeys then [contentSecurityName] else [])

/-- `bindRoute` for EVERY base chain (the user's `WithChain` chain, or the native one under every setting of
`RestConf.Middlewares`), every list of `Server.Use` middlewares and every option set: base ++ gates ++ uses, or nothing
at all when the signature configuration is refused -/
theorem bindRoute_chain (custom : Option (List String)) (m : MwConf) (o : RouteOpts) (uses chn : List String)
    (h : bindRoute custom m o uses = some chn) :
    chn = custom.getD (nativeChain m) ++ gatesOf o ++ uses := by
  unfold bindRoute signatureVerifier at h
  unfold gatesOf
  cases hs : o.sig <;> cases hk : o.sigKeys <;> cases hst : o.sigStrict <;> cases hj : o.jwt <;>
    simp [hs, hk, hst, hj, appendAuthHandler] at h ⊢ <;> exact h.symm

theorem bindRoute_none_iff (custom : Option (List String)) (m : MwConf) (o : RouteOpts) (uses : List String) :
    bindRoute custom m o uses = none ↔ (o.sig = true ∧ o.sigKeys = false ∧ o.sigStrict = true) := by
  unfold bindRoute signatureVerifier
  cases hs : o.sig <;> cases hk : o.sigKeys <;> cases hst : o.sigStrict <;> simp

/-- jwt enabled ⇒ `Authorize` is in the chain — with the native chain and with a user-supplied one alike -/
theorem jwt_gate_in_every_chain (custom : Option (List String)) (m : MwConf) (o : RouteOpts) (uses chn : List String)
    (hj : o.jwt = true) (h : bindRoute custom m o uses = some chn) : authorizeName ∈ chn := by
  rw [bindRoute_chain custom m o uses chn h]
  simp [gatesOf, hj]

/-- signature enabled with keys ⇒ `LimitContentSecurityHandler` is in the chain, for every configuration -/
theorem signature_gate_in_every_chain (custom : Option (List String)) (m : MwConf) (o : RouteOpts) (uses chn : List String)
    (hs : o.sig = true) (hk : o.sigKeys = true) (h : bindRoute custom m o uses = some chn) : contentSecurityName ∈ chn := by
  rw [bindRoute_chain custom m o uses chn h]
  simp [gatesOf, hs, hk]

/-- strict signature checking without a key is refused: no route of the group is bound at all -/
theorem strict_signature_without_keys_binds_nothing (custom : Option (List String)) (m : MwConf) (o : RouteOpts)
    (uses : List String) (hs : o.sig = true) (hk : o.sigKeys = false) (hst : o.sigStrict = true) :
    bindRoute custom m o uses = none := (bindRoute_none_iff custom m o uses).mpr ⟨hs, hk, hst⟩

/-- the gates are present on EXACTLY the routes that declared them: none is added to a route that did not ask for it
(unless the user's own chain / middlewares contain it) -/
theorem no_jwt_gate_unless_declared (custom : Option (List String)) (m : MwConf) (o : RouteOpts) (uses chn : List String)
    (hj : o.jwt = false) (hbase : authorizeName ∉ custom.getD (nativeChain m)) (huses : authorizeName ∉ uses)
    (h : bindRoute custom m o uses = some chn) : authorizeName ∉ chn := by
  rw [bindRoute_chain custom m o uses chn h]
  have hne : authorizeName ≠ contentSecurityName := by decide
  simp only [gatesOf, hj, List.mem_append, not_or]
  refine ⟨⟨hbase, ?_⟩, huses⟩
  by_cases hc : o.sig = true ∧ o.sigKeys = true <;> simp [hc, hne]

theorem no_signature_gate_unless_declared (custom : Option (List String)) (m : MwConf) (o : RouteOpts) (uses chn : List String)
    (hs : ¬ (o.sig = true ∧ o.sigKeys = true)) (hbase : contentSecurityName ∉ custom.getD (nativeChain m))
    (huses : contentSecurityName ∉ uses) (h : bindRoute custom m o uses = some chn) : contentSecurityName ∉ chn := by
  rw [bindRoute_chain custom m o uses chn h]
  have hne : contentSecurityName ≠ authorizeName := by decide
  simp only [gatesOf, hs, List.mem_append, not_or]
  refine ⟨⟨hbase, ?_⟩, huses⟩
  by_cases hj : o.jwt = true <;> simp [hj, hne]

/-- the native chain never contains a gate by itself, whatever `RestConf.Middlewares` says -/
theorem nativeChain_has_no_gate (m : MwConf) : authorizeName ∉ nativeChain m ∧ contentSecurityName ∉ nativeChain m := by
  have key : ∀ n ∈ nativeChain m, n ∈ (nativeTable m).map (·.2) := by
    intro n hn
    unfold nativeChain at hn
    simp only [List.mem_filterMap] at hn
    obtain ⟨e, he, hv⟩ := hn
    by_cases h1 : e.1 = true
    · simp [h1] at hv; exact List.mem_map.mpr ⟨e, he, hv⟩
    · simp [h1] at hv
  constructor <;> intro h <;> have := key _ h <;> simp [nativeTable, authorizeName, contentSecurityName] at this

/-! ### the route options (rest/server.go) -/

theorem apply_jwt_monotone (o : RouteOpts) (opts : List RouteOption) (h : o.jwt = true) :
    (opts.foldl RouteOption.apply o).jwt = true := by
  induction opts generalizing o with
  | nil => exact h
  | cons a t ih => exact ih _ (by cases a <;> simp [RouteOption.apply, h])

/-- `WithJwt` / `WithJwtTransition` anywhere in the option list enables the gate; no later option switches it off -/
theorem jwt_option_enables_the_gate (opts : List RouteOption)
    (h : RouteOption.withJwt ∈ opts ∨ ∃ b, RouteOption.withJwtTransition b ∈ opts) : (applyOptions opts).jwt = true := by
  unfold applyOptions
  generalize ({} : RouteOpts) = o
  induction opts generalizing o with
  | nil => rcases h with h | ⟨_, h⟩ <;> simp at h
  | cons a t ih =>
    simp only [List.foldl_cons]
    by_cases ha : a = .withJwt ∨ ∃ b, a = .withJwtTransition b
    · apply apply_jwt_monotone
      rcases ha with ha | ⟨b, ha⟩ <;> subst ha <;> rfl
    · apply ih
      rcases h with h | ⟨b, h⟩
      · left; simp only [List.mem_cons] at h
        rcases h with h | h
        · exact absurd (Or.inl h.symm) ha
        · exact h
      · right; simp only [List.mem_cons] at h
        rcases h with h | h
        · exact absurd (Or.inr ⟨b, h.symm⟩) ha
        · exact ⟨b, h⟩

theorem apply_sig_monotone (o : RouteOpts) (opts : List RouteOption) (h : o.sig = true) :
    (opts.foldl RouteOption.apply o).sig = true := by
  induction opts generalizing o with
  | nil => exact h
  | cons a t ih => exact ih _ (by cases a <;> simp [RouteOption.apply, h])

/-- `WithSignature` anywhere in the option list enables signature checking -/
theorem signature_option_enables_the_gate (opts : List RouteOption)
    (h : ∃ s k, RouteOption.withSignature s k ∈ opts) : (applyOptions opts).sig = true := by
  unfold applyOptions
  generalize ({} : RouteOpts) = o
  induction opts generalizing o with
  | nil => obtain ⟨_, _, h⟩ := h; simp at h
  | cons a t ih =>
    simp only [List.foldl_cons]
    by_cases ha : ∃ s k, a = .withSignature s k
    · apply apply_sig_monotone
      obtain ⟨s, k, ha⟩ := ha; subst ha; rfl
    · apply ih
      obtain ⟨s, k, h⟩ := h
      simp only [List.mem_cons] at h
      rcases h with h | h
      · exact absurd ⟨s, k, h.symm⟩ ha
      · exact ⟨s, k, h⟩

/-- state that persists between options: `WithJwt` after `WithJwtTransition` keeps the previous secret in force -/
theorem withJwt_keeps_previous_secret (o : RouteOpts) : (RouteOption.apply o .withJwt).prev = o.prev := rfl

example : applyOptions [.withJwtTransition false, .other, .withJwt] = { jwt := true, prev := true } := by decide
example : applyOptions [.withJwt, .withSignature true true] = { jwt := true, sig := true, sigKeys := true, sigStrict := true } := by decide

/-! ## end to end: server options → bound chain → gates → handler -/

/-- the verdict of the content-security gate from its model outcome -/
def respVerdict (r : Resp) : Option Nat := if r.ran then none else some r.status

/-- A route registered `WithJwt` / `WithJwtTransition` (anywhere among its options), on a server with ANY base chain
(`WithChain` or native, any `RestConf.Middlewares`), any `Server.Use` middlewares and any other route options: the
handler runs only if the request carries a valid credential — whatever the other middlewares and the signature gate
decide. (call site → wrapper → core: `AddRoutes` options, `bindRoute`, `Authorize`, `ParseToken`, golang-jwt's table) -/
theorem rest_jwt_route_runs_only_with_valid_credential {V : Type} (custom : Option (List String)) (m : MwConf)
    (opts : List RouteOption) (uses chn : List String) (f : TokenFacts V) (now : Int) (h : Hist) (secret prev : String)
    (clock : Int) (others : String → Option Nat)
    (hopt : RouteOption.withJwt ∈ opts ∨ ∃ b, RouteOption.withJwtTransition b ∈ opts)
    (hb : bindRoute custom m (applyOptions opts) uses = some chn)
    (hran : (runChain (fun n => if n = authorizeName then authVerdict (authorize (jwtVerify f now) h secret prev clock).2
                                else others n) chn).ran = true) :
    credentialOk f now secret prev = true := by
  have hin := jwt_gate_in_every_chain custom m _ uses chn (jwt_option_enables_the_gate opts hopt) hb
  have := (runChain_ran_iff _ chn).mp hran authorizeName hin
  simp only [if_true, authVerdict] at this
  rw [← jwt_handler_runs_iff_valid_credential f now h secret prev clock]
  by_cases hr : (authorize (jwtVerify f now) h secret prev clock).2.ran = true
  · exact hr
  · simp [hr] at this

/-- A route registered `WithSignature` (strict, with keys), on a server with any base chain and any middlewares: for the
methods the handler checks and without X-Request-Uri the handler runs only if the signature covers the request. -/
theorem rest_signed_route_runs_only_with_covering_signature (custom : Option (List String)) (m : MwConf)
    (opts : List RouteOption) (uses chn : List String) (C : BlockCipher) (env : CsEnv) (cfg : CsCfg) (req : CsReq)
    (inner : Inner) (others : String → Option Nat)
    (hs : (applyOptions opts).sig = true) (hk : (applyOptions opts).sigKeys = true)
    (hstrict : cfg.strict = true) (hg : gatedMethods.contains req.method = true) (hu : req.uri = "")
    (hb : bindRoute custom m (applyOptions opts) uses = some chn)
    (hran : (runChain (fun n => if n = contentSecurityName then respVerdict (contentSecurity C env cfg req inner)
                                else others n) chn).ran = true) :
    csCovers env cfg req = true := by
  have hin := signature_gate_in_every_chain custom m _ uses chn hs hk hb
  have := (runChain_ran_iff _ chn).mp hran contentSecurityName hin
  simp only [if_true, respVerdict] at this
  apply cs_runs_only_if_signature_covers_request C env cfg req inner hstrict hg hu
  by_cases hr : (contentSecurity C env cfg req inner).ran = true
  · exact hr
  · simp [hr] at this

/-- the `Server.Use` middlewares are behind the gates: when a gate answers the request, none of them sees it
(base chain passing; `g` the first gate that rejects) -/
theorem rest_use_middlewares_are_behind_the_gates (custom : Option (List String)) (m : MwConf) (o : RouteOpts)
    (uses chn : List String) (v : String → Option Nat)
    (hb : bindRoute custom m o uses = some chn)
    (hbase : ∀ n ∈ custom.getD (nativeChain m), v n = none)
    (hrej : ∃ g ∈ gatesOf o, v g ≠ none) :
    (runChain v chn).ran = false ∧ ∀ u ∈ (runChain v chn).saw, u ∈ custom.getD (nativeChain m) ++ gatesOf o := by
  rw [bindRoute_chain custom m o uses chn hb]
  generalize custom.getD (nativeChain m) = base at hbase
  -- split the gates at the first one that rejects
  obtain ⟨g, hg, hv⟩ := hrej
  have : ∃ pre x post st, gatesOf o = pre ++ x :: post ∧ (∀ n ∈ pre, v n = none) ∧ v x = some st := by
    generalize gatesOf o = gs at hg
    induction gs with
    | nil => simp at hg
    | cons a t ih =>
      cases ha : v a with
      | some st => exact ⟨[], a, t, st, rfl, by simp, ha⟩
      | none =>
        have hg' : g ∈ t := by
          simp only [List.mem_cons] at hg
          rcases hg with hg | hg
          · subst hg; exact absurd ha hv
          · exact hg
        obtain ⟨pre, x, post, st, e, hp, hx⟩ := ih hg'
        exact ⟨a :: pre, x, post, st, by simp [e], by
          intro n hn
          simp only [List.mem_cons] at hn
          rcases hn with hn | hn
          · subst hn; exact ha
          · exact hp n hn, hx⟩
  obtain ⟨pre, x, post, st, e, hp, hx⟩ := this
  have hrun := runChain_stops_at_first_rejecting v (base ++ pre) x (post ++ uses) st
    (by intro n hn; simp only [List.mem_append] at hn; rcases hn with hn | hn; exact hbase n hn; exact hp n hn) hx
  have e2 : base ++ gatesOf o ++ uses = (base ++ pre) ++ x :: (post ++ uses) := by rw [e]; simp
  rw [e2, hrun]
  refine ⟨rfl, ?_⟩
  intro u hu
  rw [e]
  simp only [List.mem_append, List.mem_singleton] at hu
  simp only [List.mem_append, List.mem_cons]
  rcases hu with (hu | hu) | hu
  · exact Or.inl hu
  · exact Or.inr (Or.inl hu)
  · exact Or.inr (Or.inr (Or.inl hu))

/-! ### non-vacuity -/

private def allOn : MwConf := ⟨true, true, true, true, true, true, true, true, true, true, true⟩

example : bindRoute none allOn (applyOptions [.withJwt]) ["use0"] =
    some (nativeChain allOn ++ [authorizeName] ++ ["use0"]) := by decide
/-- a user-supplied (here: empty) chain still gets both gates, jwt first -/
example : bindRoute (some []) allOn (applyOptions [.withSignature true true, .withJwt]) ["use0"] =
    some [authorizeName, contentSecurityName, "use0"] := by decide
example : bindRoute (some ["cm0"]) allOn (applyOptions [.other]) [] = some ["cm0"] := by decide
example : bindRoute (some []) allOn (applyOptions [.withSignature true false]) [] = none := by decide
example : runChain (gateVerdict (some 401) none) ["cm0", authorizeName, contentSecurityName, "use0"] =
    { saw := ["cm0", authorizeName], ran := false, status := 401 } := by decide
example : runChain (gateVerdict none none) ["cm0", authorizeName, "use0"] =
    { saw := ["cm0", authorizeName, "use0"], ran := true, status := 200 } := by decide

/-! ## the limit decision of `decryptBody` -/

theorem take_eq_self_of_length_le (l : Bytes) (n : Nat) (h : l.length ≤ n) : l.take n = l :=
  List.take_of_length_le h

/-- the unknown-length branch hands on the WHOLE body or fails: what `io.LimitReader` cut off is noticed by the probe -/
theorem readUnknown_never_truncates (max : Int) (raw c : Bytes) (hmax : 0 < max)
    (h : readUnknown max raw = some c) : c = raw := by
  unfold readUnknown limitUsedUp probeMore limitRead at h
  by_cases hlen : raw.length ≤ max.toNat
  · have : raw.take max.toNat = raw := List.take_of_length_le hlen
    rw [this] at h
    by_cases hc : (decide ((raw.length : Int) = max) && !(raw.drop max.toNat).isEmpty) = true
    · rw [if_pos hc] at h; exact absurd h (by simp)
    · rw [if_neg hc] at h; exact (Option.some.inj h).symm
  · exfalso
    have h1 : (raw.take max.toNat).length = max.toNat := by
      rw [List.length_take]; omega
    have h2 : (raw.drop max.toNat).isEmpty = false := by
      cases hd : raw.drop max.toNat with
      | nil =>
        have := congrArg List.length hd
        simp only [List.length_drop, List.length_nil] at this
        omega
      | cons => rfl
    have h3 : (((raw.take max.toNat).length : Nat) : Int) = max := by rw [h1]; omega
    have hc : (decide ((((raw.take max.toNat).length : Nat) : Int) = max) && !(raw.drop max.toNat).isEmpty) = true := by
      rw [h3, h2]; simp
    rw [if_pos hc] at h
    exact absurd h (by simp)

/-- … and it fails exactly for a body longer than the cap -/
theorem readUnknown_none_iff (max : Int) (raw : Bytes) (hmax : 0 < max) :
    readUnknown max raw = none ↔ (raw.length : Int) > max := by
  unfold readUnknown limitUsedUp probeMore limitRead
  by_cases hlen : raw.length ≤ max.toNat
  · have ht : raw.take max.toNat = raw := List.take_of_length_le hlen
    have hd : raw.drop max.toNat = [] := List.drop_of_length_le hlen
    rw [ht, hd]
    simp
    omega
  · have h1 : (raw.take max.toNat).length = max.toNat := by
      rw [List.length_take]; omega
    have h2 : (raw.drop max.toNat).isEmpty = false := by
      cases hd : raw.drop max.toNat with
      | nil =>
        have := congrArg List.length hd
        simp only [List.length_drop, List.length_nil] at this
        omega
      | cons => rfl
    have h3 : (((raw.take max.toNat).length : Nat) : Int) = max := by rw [h1]; omega
    have hc : (decide ((((raw.take max.toNat).length : Nat) : Int) = max) && !(raw.drop max.toNat).isEmpty) = true := by
      rw [h3, h2]; simp
    rw [if_pos hc]
    simp only [true_iff]
    omega

/-- the declared-length branch hands on exactly the promised bytes or fails -/
theorem readDeclared_exact (cl : Int) (raw c : Bytes) (h : readDeclared cl raw = some c) :
    c = raw.take cl.toNat ∧ (cl ≥ 0 → (c.length : Int) = cl) := by
  unfold readDeclared at h
  by_cases hs : (raw.length : Int) < cl
  · rw [if_pos hs] at h; exact absurd h (by simp)
  · rw [if_neg hs] at h
    have := (Option.some.inj h).symm
    subst this
    refine ⟨rfl, fun hc => ?_⟩
    rw [List.length_take]; omega

theorem unknownCap_pos (limit : Int) : 0 < unknownCap limit := by
  unfold unknownCap maxBytes
  by_cases h : limit ≤ 0 <;> simp [h] <;> omega

theorem unknownCap_eq (limit : Int) : unknownCap limit = (if limit > 0 then limit else maxBytes) := by
  unfold unknownCap
  by_cases h : limit ≤ 0
  · have : ¬ limit > 0 := by omega
    simp [h, this]
  · have : limit > 0 := by omega
    simp [h, this]

/-- both branches together: what `decryptBody` goes on to decode is exactly what the framing delivers of the client's
body — all of it — or the request is refused; it is never a prefix cut at the limit -/
theorem readBody_whole_or_error (limit cl : Int) (raw c : Bytes)
    (h : readBody limit cl raw = some c) : c = delivered cl raw := by
  unfold readBody at h
  unfold delivered
  by_cases h1 : limit > 0 ∧ cl > limit
  · rw [if_pos h1] at h; exact absurd h (by simp)
  · rw [if_neg h1] at h
    by_cases h2 : cl > 0
    · rw [if_pos h2] at h ⊢
      exact (readDeclared_exact cl raw c h).1
    · rw [if_neg h2] at h ⊢
      exact readUnknown_never_truncates _ raw c (unknownCap_pos limit) h

/-- the handler model used everywhere else is the statement-by-statement one -/
theorem cryptionHandler_eq_viaRead (C : BlockCipher) (limit : Int) (key : Bytes) (cl : Int) (raw : Bytes) (inner : Inner) :
    cryptionHandler C limit key cl raw inner = cryptionHandlerViaRead C limit key cl raw inner := by
  unfold cryptionHandler cryptionHandlerViaRead readBody
  by_cases h0 : cl = 0
  · simp [h0]
  · rw [if_neg h0, if_neg h0]
    by_cases h1 : limit > 0 ∧ cl > limit
    · simp [h1]
    · rw [if_neg h1, if_neg h1]
      by_cases h2 : cl > 0
      · rw [if_pos h2, if_pos h2]
        unfold readDeclared
        by_cases h3 : (raw.length : Int) < cl
        · simp [h3]
        · rw [if_neg h3, if_neg h3]
          have hne : (raw.take cl.toNat).isEmpty = false := by
            cases ht : raw.take cl.toNat with
            | nil =>
              have := congrArg List.length ht
              simp only [List.length_take, List.length_nil] at this
              omega
            | cons => rfl
          simp [hne]
      · rw [if_neg h2, if_neg h2]
        have hpos := unknownCap_pos limit
        rw [← unknownCap_eq]
        by_cases h3 : (raw.length : Int) > unknownCap limit
        · rw [if_pos h3, (readUnknown_none_iff _ raw hpos).mpr h3]
        · rw [if_neg h3]
          cases hr : readUnknown (unknownCap limit) raw with
          | none => exact absurd ((readUnknown_none_iff _ raw hpos).mp hr) h3
          | some c =>
            have := readUnknown_never_truncates _ raw c hpos hr
            subst this
            rfl

theorem flushResp_ran_seen (C : BlockCipher) (key seen out : Bytes) :
    (flushResp C key seen out).ran = true ∧ (flushResp C key seen out).seen = seen := by
  unfold flushResp
  by_cases h : out.isEmpty = true
  · simp [h]
  · simp only [h]
    cases ecbEncrypt C key out <;> simp

theorem decryptAndServe_ran (C : BlockCipher) (key content : Bytes) (inner : Inner)
    (h : (decryptAndServe C key content inner).ran = true) :
    ∃ ct, b64Decode (bytesToString content) = some ct ∧ ecbDecrypt C key ct = .ok (decryptAndServe C key content inner).seen := by
  unfold decryptAndServe at h ⊢
  cases hb : b64Decode (bytesToString content) with
  | none => simp [hb] at h
  | some ct =>
    simp only [hb] at h ⊢
    cases hd : ecbDecrypt C key ct with
    | ok p =>
      refine ⟨ct, rfl, ?_⟩
      simp only [hd, (flushResp_ran_seen C key p (inner p)).2]
    | keyErr => simp [hd] at h
    | panic => simp [hd] at h
    | padErr => simp [hd] at h

/-- "an encrypted body reaches the handler decrypted", as a safety statement for EVERY body, limit, key and framing
(declared length, chunked, declared-but-short): whenever the handler behind `LimitCryptionHandler` runs on a request with a
body, what it reads is the decryption of the WHOLE body the client sent — never of a prefix cut at the limit. -/
theorem crypt_handler_sees_decryption_of_whole_body (C : BlockCipher) (limit : Int) (key : Bytes) (cl : Int) (raw : Bytes)
    (inner : Inner) (hcl : cl ≠ 0) (hran : (cryptionHandler C limit key cl raw inner).ran = true) :
    decryptWhole C key (delivered cl raw) = some (cryptionHandler C limit key cl raw inner).seen := by
  rw [cryptionHandler_eq_viaRead] at hran ⊢
  unfold cryptionHandlerViaRead at hran ⊢
  rw [if_neg hcl] at hran ⊢
  cases hr : readBody limit cl raw with
  | none => simp [hr] at hran
  | some c =>
    have hc := readBody_whole_or_error limit cl raw c hr
    subst hc
    simp only [hr] at hran ⊢
    unfold decryptWhole
    by_cases he : (delivered cl raw).isEmpty = true
    · simp [he, (flushResp_ran_seen C key [] (inner [])).2]
    · simp only [he] at hran ⊢
      obtain ⟨ct, h1, h2⟩ := decryptAndServe_ran C key _ inner hran
      simp [h1, h2]

/-- the monitor clause never fires on the model -/
theorem crypt_seen_monitor_sound (C : BlockCipher) (limit : Int) (key : Bytes) (cl : Int) (raw : Bytes) (inner : Inner) :
    cryptSeenMonitor C key cl raw (cryptionHandler C limit key cl raw inner) = none := by
  unfold cryptSeenMonitor
  by_cases h : cl ≠ 0 ∧ (cryptionHandler C limit key cl raw inner).ran = true
  · have := crypt_handler_sees_decryption_of_whole_body C limit key cl raw inner h.1 h.2
    simp [this]
  · have : ¬ (cl ≠ 0 ∧ (cryptionHandler C limit key cl raw inner).ran = true ∧
        decryptWhole C key (delivered cl raw) ≠ some (cryptionHandler C limit key cl raw inner).seen) := fun hh => h ⟨hh.1, hh.2.1⟩
    rw [if_neg this]

/-- the same through the content-security handler: a verified request marked encrypted, whatever its framing -/
theorem cs_encrypted_handler_sees_decryption_of_whole_body (C : BlockCipher) (env : CsEnv) (cfg : CsCfg) (req : CsReq)
    (inner : Inner) (h : CsHeader) (hg : gatedMethods.contains req.method = true)
    (hp : parseContentSecurity env req = .ok h) (hv : verifySignature env cfg.tol req h = 0)
    (ht : h.contentType = 1) (hcl : req.cl ≠ 0) (hran : (contentSecurity C env cfg req inner).ran = true) :
    decryptWhole C h.key (delivered req.cl req.body) = some (contentSecurity C env cfg req inner).seen := by
  rw [cs_encrypted_goes_to_cryption C env cfg req inner h hg hp hv ht hcl] at hran ⊢
  exact crypt_handler_sees_decryption_of_whole_body C cfg.limit h.key req.cl req.body inner hcl hran

private def exC2 : BlockCipher := { bs := 16, keyOk := fun _ => true, enc := fun _ b => b, dec := fun _ b => b }
private def exRaw2 : Bytes := asciiBytes (b64Encode (pad 16 [1, 2, 3]))

/-- limit 24 = the length of the text: accepted whole; limit 20: refused, not cut -/
example : readUnknown 24 exRaw2 = some exRaw2 := by decide
example : readUnknown 20 exRaw2 = none := by decide
example : readUnknown 23 exRaw2 = none := by decide
example : readUnknown 25 exRaw2 = some exRaw2 := by decide
example : (cryptionHandler exC2 24 [] (-1) exRaw2 (fun _ => [])).seen = [1, 2, 3] := by decide
example : cryptSeenMonitor exC2 [] (-1) exRaw2 { ran := true, seen := [1, 2], status := 200 } ≠ none := by decide
example : cryptSeenMonitor exC2 [] (-1) exRaw2 { ran := true, seen := [1, 2, 3], status := 200 } = none := by decide

end GoZero.C18
