/-
C18 — property theorems of round 5e: the body a verified request's handler reads is its own.

ownership   Own.fresh_keeps_verified_body, Own.handler_reads_its_verified_body, Own.pooled_buffer_swaps_bodies (witness),
            cs_read_monitor_sound
-/
import GoZero.C18.PropsR5c
namespace GoZero.C18

namespace Own

/-- request `r` owns a buffer that holds `b` -/
def Holds (st : St) (r : Nat) (b : Bytes) : Prop := ∃ n, st.owner r = some n ∧ st.bufs[n]? = some b

/-- one more event of ANOTHER request (or a read of anybody) leaves what `r` owns untouched: buffers are only ever added -/
theorem stepFresh_keeps (st : St) (r : Nat) (b : Bytes) (e : Ev) (he : ∀ body, e ≠ .verify r body) (h : Holds st r b) :
    Holds (stepFresh st e) r b := by
  obtain ⟨n, ho, hb⟩ := h
  cases e with
  | read r' => exact ⟨n, ho, hb⟩
  | verify r' body =>
    have hne : r ≠ r' := fun e' => he body (by rw [e'])
    refine ⟨n, ?_, ?_⟩
    · simp [stepFresh, hne, ho]
    · have hlt : n < st.bufs.length := by
        rcases Nat.lt_or_ge n st.bufs.length with hlt | hge
        · exact hlt
        · rw [List.getElem?_eq_none hge] at hb; exact absurd hb (by simp)
      simp only [stepFresh]
      rw [List.getElem?_append_left hlt]
      exact hb

theorem fresh_keeps_verified_body (st : St) (r : Nat) (b : Bytes) (post : List Ev)
    (hpost : ∀ e ∈ post, ∀ body, e ≠ .verify r body) (h : Holds st r b) :
    Holds (post.foldl stepFresh st) r b := by
  induction post generalizing st with
  | nil => exact h
  | cons e t ih =>
    exact ih _ (fun e' he' => hpost e' (by simp [he'])) (stepFresh_keeps st r b e (hpost e (by simp)) h)

/-- THE BODY THE HANDLER READS IS THE VERIFIED BODY, whatever other requests do in between: for every history `pre`, every
sequence `post` of verifications of OTHER requests (valid, forged, other routes — each digests its body) and reads, the
handler of request `r`, verified with body `b`, reads exactly `b` -/
theorem handler_reads_its_verified_body (pre post : List Ev) (r : Nat) (b : Bytes)
    (hpost : ∀ e ∈ post, ∀ body, e ≠ .verify r body) :
    readOf ((pre ++ [Ev.verify r b] ++ post).foldl stepFresh {}) r = some b := by
  rw [List.foldl_append, List.foldl_append]
  have h0 : Holds ([Ev.verify r b].foldl stepFresh (pre.foldl stepFresh {})) r b := by
    refine ⟨(pre.foldl stepFresh {}).bufs.length, by simp [stepFresh], ?_⟩
    simp [stepFresh]
  obtain ⟨n, ho, hb⟩ := fresh_keeps_verified_body _ r b post hpost h0
  unfold readOf
  rw [ho]
  exact hb

/-- witness (seeded C18-9): with a pooled buffer a FORGED request that merely goes through the verifier swaps the payload
of a verified one -/
theorem pooled_buffer_swaps_bodies :
    readOf ([Ev.verify 0 [1, 2, 3], Ev.verify 1 [9, 9, 9]].foldl stepPooled {}) 0 = some [9, 9, 9] ∧
    readOf ([Ev.verify 0 [1, 2, 3], Ev.verify 1 [9, 9, 9]].foldl stepFresh {}) 0 = some [1, 2, 3] := by decide

end Own

/-- the read-side monitor never fires on the model: the handler of an unencrypted verified request reads the signed bytes -/
theorem cs_read_monitor_sound (C : BlockCipher) (env : CsEnv) (cfg : CsCfg) (req : CsReq) (inner : Inner) :
    csReadMonitor env cfg req (contentSecurity C env cfg req inner) = none := by
  unfold csReadMonitor
  by_cases hc : cfg.strict = true ∧ (contentSecurity C env cfg req inner).ran = true ∧
      gatedMethods.contains req.method = true ∧ req.uri.isEmpty = true
  · rw [if_pos hc]
    have hu : req.uri = "" := by simpa using hc.2.2.2
    obtain ⟨h, hp, hcov, hseen⟩ := cs_handler_reads_signed_body C env cfg req inner hc.1 hc.2.2.1 hu hc.2.1
    simp only [hp]
    by_cases ht : h.contentType = 1
    · simp [ht]
    · have : ({ req with body := (contentSecurity C env cfg req inner).seen } : CsReq) = req := by
        rw [hseen ht]
      simp [this, hcov]
  · rw [if_neg hc]

end GoZero.C18
