/-
C18 — property theorems (and non-vacuity examples). Helper lemmas live in Proofs.lean.
-/
import GoZero.C18.Spec
namespace GoZero.C18

/-- The wrapped handler runs only if `doParseToken` succeeded (valid token with map claims) under the current
or the previous secret — whatever the history counters are. -/
theorem handler_runs_only_if_verified {V : Type} (verify : String → Parsed (List (String × V)))
    (h : Hist) (secret prev : String) (clock : Int)
    (hran : (authorize verify h secret prev clock).2.ran = true) :
    (∃ c, verify secret = .tok true (some c)) ∨ (prev.length > 0 ∧ ∃ c, verify prev = .tok true (some c)) := by
  unfold authorize parseToken firstSecond at hran
  by_cases hp : prev.length > 0
  · simp only [hp, if_true] at hran
    by_cases hc : h.count secret > h.count prev
    · simp only [hc, if_true] at hran
      cases h1 : verify secret with
      | err =>
        cases h2 : verify prev with
        | err => simp [h1, h2, Parsed.isErr] at hran
        | tok v c =>
          right; refine ⟨hp, ?_⟩
          cases v <;> cases c <;> simp [h1, h2, Parsed.isErr] at hran ⊢
      | tok v c =>
        left
        cases v <;> cases c <;> simp [h1, Parsed.isErr] at hran ⊢
    · simp only [hc, if_false] at hran
      cases h2 : verify prev with
      | err =>
        cases h1 : verify secret with
        | err => simp [h1, h2, Parsed.isErr] at hran
        | tok v c =>
          left
          cases v <;> cases c <;> simp [h1, h2, Parsed.isErr] at hran ⊢
      | tok v c =>
        right; refine ⟨hp, ?_⟩
        cases v <;> cases c <;> simp [h2, Parsed.isErr] at hran ⊢
  · simp only [hp, if_false] at hran
    left
    cases h1 : verify secret with
    | err => simp [h1] at hran
    | tok v c => cases v <;> cases c <;> simp [h1] at hran ⊢

end GoZero.C18
