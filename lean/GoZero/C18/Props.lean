/-
C18 — property theorems (and non-vacuity examples). Helper lemmas live in Proofs.lean.

JWT       handler_runs_only_if_verified, outcome_independent_of_history, jwt_outcome_independent_of_history,
          jwt_handler_runs_iff_valid_credential, rejected_gets_401, claims_forwarded, jwt_rejects_* corollaries,
          jwt_monitor_sound
content   cs_runs_only_if_signature_covers_request, cs_monitor_sound; witnesses of the two recorded findings:
security  method_gate_bypass, request_uri_override
codec     unpad_pad (after fixes/C18-unpad-empty.patch), unpadPinned_pad / unpadPinned_* (witnesses of the pinned code),
          b64_round_trip, ecb_round_trip (body_round_trip: partial, see the comment next to it)
-/
import GoZero.C18.Proofs
namespace GoZero.C18

/-! ## JWT -/

/-- The wrapped handler runs only if `doParseToken` succeeded (valid token with map claims) under the current
or the previous secret — whatever the history counters are. -/
theorem handler_runs_only_if_verified {V : Type} (verify : String → Parsed (List (String × V)))
    (h : Hist) (secret prev : String) (clock : Int)
    (hran : (authorize verify h secret prev clock).2.ran = true) :
    (∃ c, verify secret = .tok true (some c)) ∨ (prev.length > 0 ∧ ∃ c, verify prev = .tok true (some c)) := by
  unfold authorize parseToken firstSecond at hran
  by_cases hp : prev.length > 0
  · simp only [hp, if_true] at hran
    by_cases hc : h.count secret > h.count prev
    · simp only [hc, if_true] at hran
      cases h1 : verify secret with
      | err =>
        cases h2 : verify prev with
        | err => simp [h1, h2, Parsed.isErr] at hran
        | tok v c =>
          right; refine ⟨hp, ?_⟩
          cases v <;> cases c <;> simp [h1, h2, Parsed.isErr] at hran ⊢
      | tok v c =>
        left
        cases v <;> cases c <;> simp [h1, Parsed.isErr] at hran ⊢
    · simp only [hc, if_false] at hran
      cases h2 : verify prev with
      | err =>
        cases h1 : verify secret with
        | err => simp [h1, h2, Parsed.isErr] at hran
        | tok v c =>
          left
          cases v <;> cases c <;> simp [h1, h2, Parsed.isErr] at hran ⊢
      | tok v c =>
        right; refine ⟨hp, ?_⟩
        cases v <;> cases c <;> simp [h2, Parsed.isErr] at hran ⊢
  · simp only [hp, if_false] at hran
    left
    cases h1 : verify secret with
    | err => simp [h1] at hran
    | tok v c => cases v <;> cases c <;> simp [h1] at hran ⊢


theorem outcome_independent_of_history {V : Type} (verify : String → Parsed (List (String × V)))
    (h h' : Hist) (secret prev : String) (clock clock' : Int)
    (hagree : (verify secret).isErr = false → (verify prev).isErr = false → verify secret = verify prev) :
    (authorize verify h secret prev clock).2 = (authorize verify h' secret prev clock').2 := by
  have key := parseToken_result_independent verify h h' secret prev clock clock' hagree
  unfold authorize
  generalize parseToken verify h secret prev clock = r at key ⊢
  generalize parseToken verify h' secret prev clock' = r' at key ⊢
  rcases r with ⟨a, p⟩; rcases r' with ⟨a', p'⟩
  simp only at key; subst key
  cases p with
  | err => rfl
  | tok v c => cases v <;> cases c <;> rfl

theorem jwt_handler_runs_iff_valid_credential {V : Type} (f : TokenFacts V) (now : Int) (h : Hist)
    (secret prev : String) (clock : Int) :
    (authorize (jwtVerify f now) h secret prev clock).2.ran = credentialOk f now secret prev := by
  rw [Bool.eq_iff_iff, authorize_ran_iff, credentialOk_iff]
  have hpe := length_pos_iff_ne_empty prev
  have hok := parseToken_ok_iff (jwtVerify f now) h secret prev clock
  constructor
  · rintro ⟨c, hc⟩
    have : (parseToken (jwtVerify f now) h secret prev clock).2.isErr = false := by rw [hc]; rfl
    rcases hok.mp this with h1 | ⟨hp, h2⟩
    · rcases jwtVerify_cases f now secret with ⟨_, g⟩ | ⟨e, _⟩
      · exact ⟨g.1, g.2.1, g.2.2.1, g.2.2.2.1, g.2.2.2.2.1, Or.inl g.2.2.2.2.2.1, g.2.2.2.2.2.2⟩
      · rw [e] at h1; simp at h1
    · rcases jwtVerify_cases f now prev with ⟨_, g⟩ | ⟨e, _⟩
      · exact ⟨g.1, g.2.1, g.2.2.1, g.2.2.2.1, g.2.2.2.2.1, Or.inr ⟨hpe.mp hp, g.2.2.2.2.2.1⟩, g.2.2.2.2.2.2⟩
      · rw [e] at h2; simp at h2
  · rintro ⟨g1, g2, g3, g4, g5, g6, g7⟩
    have hne : (parseToken (jwtVerify f now) h secret prev clock).2.isErr = false := by
      apply hok.mpr
      rcases g6 with g6 | ⟨hp, g6⟩
      · left
        rcases jwtVerify_cases f now secret with ⟨e, _⟩ | ⟨_, n⟩
        · rw [e]; rfl
        · exact absurd ⟨g1, g2, g3, g4, g5, g6, g7⟩ n
      · right; refine ⟨hpe.mpr hp, ?_⟩
        rcases jwtVerify_cases f now prev with ⟨e, _⟩ | ⟨_, n⟩
        · rw [e]; rfl
        · exact absurd ⟨g1, g2, g3, g4, g5, g6, g7⟩ n
    -- the result is one of the two attempts
    unfold parseToken at hne ⊢
    by_cases hp : prev.length > 0
    · simp only [hp, if_true] at hne ⊢
      by_cases e1 : (jwtVerify f now (firstSecond h secret prev).1).isErr = true
      · by_cases e2 : (jwtVerify f now (firstSecond h secret prev).2).isErr = true
        · simp [e1, e2] at hne
        · simp only [e1, e2, if_true, if_false] at hne ⊢
          exact ⟨f.claims, (jwtVerify_isErr_false f now _).mp hne⟩
      · simp only [e1, if_false] at hne ⊢
        exact ⟨f.claims, (jwtVerify_isErr_false f now _).mp hne⟩
    · simp only [hp, if_false] at hne ⊢
      exact ⟨f.claims, (jwtVerify_isErr_false f now _).mp hne⟩


/-- for go-zero's use of golang-jwt the hypothesis of `outcome_independent_of_history` always holds -/
theorem jwt_outcome_independent_of_history {V : Type} (f : TokenFacts V) (now : Int) (h h' : Hist)
    (secret prev : String) (clock clock' : Int) :
    (authorize (jwtVerify f now) h secret prev clock).2 = (authorize (jwtVerify f now) h' secret prev clock').2 :=
  outcome_independent_of_history _ h h' secret prev clock clock' (jwtVerify_agree f now secret prev)

/-- any request that is not let through gets 401 and no context values -/
theorem rejected_gets_401 {V : Type} (verify : String → Parsed (List (String × V)))
    (h : Hist) (secret prev : String) (clock : Int)
    (hr : (authorize verify h secret prev clock).2.ran = false) :
    (authorize verify h secret prev clock).2.status = 401 ∧ (authorize verify h secret prev clock).2.ctx = [] := by
  unfold authorize at hr ⊢
  generalize parseToken verify h secret prev clock = r at hr ⊢
  rcases r with ⟨a, p⟩
  cases p with
  | err => exact ⟨rfl, rfl⟩
  | tok v c => cases v <;> cases c <;> first | exact ⟨rfl, rfl⟩ | simp at hr

/-- on success the handler's context holds exactly the non-standard claims of the verified token -/
theorem claims_forwarded {V : Type} (verify : String → Parsed (List (String × V)))
    (h : Hist) (secret prev : String) (clock : Int) (c : List (String × V))
    (hp : (parseToken verify h secret prev clock).2 = .tok true (some c)) :
    (authorize verify h secret prev clock).2.ctx = forwarded c ∧
      (∀ kv ∈ (authorize verify h secret prev clock).2.ctx, kv.1 ∉ standardClaims) ∧
      (∀ kv ∈ c, kv.1 ∉ standardClaims → kv ∈ (authorize verify h secret prev clock).2.ctx) := by
  unfold authorize
  generalize parseToken verify h secret prev clock = r at hp ⊢
  rcases r with ⟨a, p⟩
  simp only at hp
  subst hp
  refine ⟨rfl, ?_, ?_⟩
  · intro kv hkv
    simp only [List.mem_filter] at hkv
    simpa using hkv.2
  · intro kv hkv hn
    simp only [List.mem_filter]
    exact ⟨hkv, by simpa using hn⟩

/-- `alg: none` never opens the gate -/
theorem jwt_rejects_alg_none {V : Type} (f : TokenFacts V) (now : Int) (h : Hist) (secret prev : String)
    (clock : Int) (ha : f.alg = some "none") :
    (authorize (jwtVerify f now) h secret prev clock).2.ran = false := by
  rw [jwt_handler_runs_iff_valid_credential]
  unfold credentialOk
  simp [ha, hmacAlgs]

/-- no algorithm outside the HMAC family (RS256, ES256, PS256, EdDSA, unknown names) opens the gate -/
theorem jwt_rejects_non_hmac_alg {V : Type} (f : TokenFacts V) (now : Int) (h : Hist) (secret prev : String)
    (clock : Int) (a : String) (ha : f.alg = some a) (hn : a ∉ hmacAlgs) :
    (authorize (jwtVerify f now) h secret prev clock).2.ran = false := by
  rw [jwt_handler_runs_iff_valid_credential]
  unfold credentialOk
  simp [ha, hn]

/-- a token whose signature verifies under neither configured secret (tampered header/payload/signature,
wrong secret) is rejected -/
theorem jwt_rejects_bad_signature {V : Type} (f : TokenFacts V) (now : Int) (h : Hist) (secret prev : String)
    (clock : Int) (h1 : f.sigOk secret = false) (h2 : f.sigOk prev = false) :
    (authorize (jwtVerify f now) h secret prev clock).2.ran = false := by
  rw [jwt_handler_runs_iff_valid_credential]
  unfold credentialOk
  simp [h1, h2]

/-- an expired token (`exp ≤ now`), one used before `nbf`/`iat`, or one whose time claim is not a number is rejected -/
theorem jwt_rejects_invalid_time {V : Type} (f : TokenFacts V) (now : Int) (h : Hist) (secret prev : String)
    (clock : Int) (ht : timeValid f now = false) :
    (authorize (jwtVerify f now) h secret prev clock).2.ran = false := by
  rw [jwt_handler_runs_iff_valid_credential]
  unfold credentialOk
  simp [ht]

theorem expired_is_invalid {V : Type} (f : TokenFacts V) (now t : Int) (he : f.exp = .at t) (hle : t ≤ now) :
    timeValid f now = false := by
  unfold timeValid expOk
  simp [he]; omega

/-- a missing or malformed credential is rejected -/
theorem jwt_rejects_malformed {V : Type} (f : TokenFacts V) (now : Int) (h : Hist) (secret prev : String)
    (clock : Int) (hm : f.present = false ∨ f.segs ≠ 3 ∨ f.hdrOk = false ∨ f.clmOk = false ∨ f.alg = none) :
    (authorize (jwtVerify f now) h secret prev clock).2.ran = false := by
  rw [jwt_handler_runs_iff_valid_credential]
  unfold credentialOk
  rcases hm with h | h | h | h | h <;> simp [h]

/-- the executable monitor never fires on what the model does -/
theorem jwt_monitor_sound {V : Type} [DecidableEq V] (f : TokenFacts V) (now : Int) (h : Hist)
    (secret prev : String) (clock : Int) :
    jwtMonitor f now secret prev (authorize (jwtVerify f now) h secret prev clock).2 = none := by
  have hiff := jwt_handler_runs_iff_valid_credential f now h secret prev clock
  unfold jwtMonitor
  cases hr : (authorize (jwtVerify f now) h secret prev clock).2.ran with
  | false =>
    have := rejected_gets_401 (jwtVerify f now) h secret prev clock hr
    simp [this.1]
  | true =>
    rw [hr] at hiff
    obtain ⟨c, hc⟩ := (authorize_ran_iff _ h secret prev clock).mp hr
    have hcl : c = f.claims := by
      have e : (parseToken (jwtVerify f now) h secret prev clock).2.isErr = false := by rw [hc]; rfl
      have := parseToken_result_is_attempt (jwtVerify f now) h secret prev clock e
      rcases this with t | t <;> (rw [hc] at t; rcases jwtVerify_cases f now _ with ⟨e', _⟩ | ⟨e', _⟩ <;> rw [e'] at t <;> simp at t; try exact t)
    subst hcl
    have := (claims_forwarded _ h secret prev clock _ hc).1
    simp [← hiff, this]

/-! ## content security -/

theorem cs_runs_only_if_signature_covers_request (C : BlockCipher) (env : CsEnv) (cfg : CsCfg) (req : CsReq)
    (inner : Inner) (hs : cfg.strict = true) (hg : gatedMethods.contains req.method = true)
    (hu : req.uri = "") (hran : (contentSecurity C env cfg req inner).ran = true) :
    csCovers env cfg req = true := by
  obtain ⟨h, hp, hv⟩ := contentSecurity_strict_ran C env cfg req inner hs hg hran
  obtain ⟨s, hts, hw, hsig⟩ := verifySignature_pass env cfg.tol req h hv
  rw [pathQuery_no_uri env req hu] at hsig
  unfold csCovers
  simp [hp, hts, hw, ← hsig]

theorem method_gate_bypass (C : BlockCipher) (env : CsEnv) (cfg : CsCfg) (req : CsReq) (inner : Inner)
    (hm : gatedMethods.contains req.method = false) :
    contentSecurity C env cfg req inner = plainNext inner req.body := by
  unfold contentSecurity
  rw [if_neg (by rw [hm]; exact Bool.false_ne_true)]

theorem request_uri_override (C : BlockCipher) (env : CsEnv) (cfg : CsCfg) (req : CsReq) (inner : Inner)
    (h : CsHeader) (s : Int) (p' q' : String)
    (hg : gatedMethods.contains req.method = true)
    (hparse : parseContentSecurity env req = .ok h) (hts : parseInt64 h.timestamp = some s)
    (hw : outsideWindow s cfg.tol env.now = false)
    (huri : req.uri.isEmpty = false) (hup : env.urlParse req.uri = some (p', q'))
    (hsig : h.signature = env.hmacB64 h.key (signContent env h.timestamp req.method p' q' req.body))
    (hplain : ¬ (req.cl ≠ 0 ∧ h.contentType = 1)) :
    contentSecurity C env cfg req inner = plainNext inner req.body := by
  have hv : verifySignature env cfg.tol req h = 0 := by
    unfold verifySignature pathQuery
    simp [hts, hw, huri, hup, ← hsig]
  unfold contentSecurity
  rw [if_pos hg]
  simp [hparse, hv, hplain]


/-- the monitor never fires on the model for the requests the property's statement is true of
(a checked method, no X-Request-Uri header); the two other cases are the recorded findings -/
theorem cs_monitor_sound (C : BlockCipher) (env : CsEnv) (cfg : CsCfg) (req : CsReq) (inner : Inner)
    (hg : gatedMethods.contains req.method = true) (hu : req.uri = "")
    (hnp : (contentSecurity C env cfg req inner).panic = false) :
    csMonitor env cfg req (contentSecurity C env cfg req inner) = none := by
  unfold csMonitor
  cases hs : cfg.strict with
  | false => simp
  | true =>
    cases hr : (contentSecurity C env cfg req inner).ran with
    | true =>
      have := cs_runs_only_if_signature_covers_request C env cfg req inner hs hg hu hr
      simp [this]
    | false =>
      by_cases hc : csCovers env cfg req = true
      · simp [hc, hnp]
      · have hst : (contentSecurity C env cfg req inner).status = 403 := by
          unfold contentSecurity
          rw [if_pos hg]
          cases hp : parseContentSecurity env req with
          | error e => simp [hs, verificationFailure]
          | ok h =>
            simp only []
            by_cases hv : verifySignature env cfg.tol req h = 0
            · exfalso; apply hc
              obtain ⟨s, hts, hw, hsig⟩ := verifySignature_pass env cfg.tol req h hv
              rw [pathQuery_no_uri env req hu] at hsig
              unfold csCovers
              simp [hp, hts, hw, ← hsig]
            · simp [hv, hs, verificationFailure]
        simp [hc, hnp, hst]

/-! ## codec -/

theorem unpad_pad (bs : Nat) (hbs : 0 < bs) (hbs' : bs ≤ 255) (p : Bytes) :
    unpad bs (pad bs p) = .ok p := by
  obtain ⟨h1, h2⟩ := padLen_bounds bs p.length hbs
  unfold unpad pad
  generalize hn : bs - p.length % bs = n at h1 h2
  rw [getLast?_append_replicate p n _ h1]
  have hb : (UInt8.ofNat n).toNat = n := by
    rw [UInt8.toNat_ofNat']; omega
  simp only [hb, List.length_append, List.length_replicate]
  rw [if_neg (by omega)]
  congr 1
  rw [Nat.add_sub_cancel, List.take_left']
  rfl

/-- the pinned code: round trip exactly for non-empty payloads -/
theorem unpadPinned_pad (bs : Nat) (hbs : 0 < bs) (hbs' : bs ≤ 255) (p : Bytes) :
    unpadPinned bs (pad bs p) = .ok p ↔ p ≠ [] := by
  obtain ⟨h1, h2⟩ := padLen_bounds bs p.length hbs
  unfold unpadPinned pad
  generalize hn : bs - p.length % bs = n at h1 h2
  rw [getLast?_append_replicate p n _ h1]
  have hb : (UInt8.ofNat n).toNat = n := by
    rw [UInt8.toNat_ofNat']; omega
  simp only [hb, List.length_append, List.length_replicate]
  by_cases hp : p = []
  · subst hp
    simp
  · have : 0 < p.length := List.length_pos_iff.mpr hp
    rw [if_neg (by omega)]
    simp only [hp, ne_eq, not_false_eq_true, iff_true]
    congr 1
    rw [Nat.add_sub_cancel, List.take_left']
    rfl

/-- AES-ECB with PKCS padding round-trips every payload (after the fix), for any sound block cipher -/
theorem ecb_round_trip (C : BlockCipher) (key : Bytes) (hk : C.keyOk key = true) (hs : C.Sound key)
    (hbs : 0 < C.bs) (hbs' : C.bs ≤ 255) (p : Bytes) :
    ∃ ct, ecbEncrypt C key p = some ct ∧ ecbDecrypt C key ct = .ok p := by
  obtain ⟨k, hk'⟩ := pad_length C.bs hbs p
  obtain ⟨l1, l2⟩ := cryptBlocks_round_trip C key hs hbs k _ hk'
  have hm : (pad C.bs p).length % C.bs = 0 := by rw [hk']; exact Nat.mul_mod_left _ _
  have hm2 : ((chunks C.bs (pad C.bs p)).flatMap (C.enc key)).length % C.bs = 0 := by
    rw [l1]; exact Nat.mul_mod_left _ _
  refine ⟨cryptBlocks (C.enc key) C.bs (pad C.bs p), by simp [ecbEncrypt, hk], ?_⟩
  have e1 : cryptBlocks (C.enc key) C.bs (pad C.bs p) = (chunks C.bs (pad C.bs p)).flatMap (C.enc key) := by
    unfold cryptBlocks; rw [if_neg (by omega)]
  have e2 : cryptBlocks (C.dec key) C.bs ((chunks C.bs (pad C.bs p)).flatMap (C.enc key)) = pad C.bs p := by
    unfold cryptBlocks; rw [if_neg (by omega), l2]
  unfold ecbDecrypt
  rw [if_pos hk, e1, e2, unpad_pad C.bs hbs hbs' p]


/- body_round_trip (full statement, NOT proven as one theorem):
     ∀ C key (sound, keyOk) limit p inner, p ≠ [] → raw = asciiBytes (b64Encode ct) with ecbEncrypt C key p = some ct →
       raw.length ≤ limit ∨ limit ≤ 0 →
       cryptionHandler C limit key raw.length raw inner = flushResp C key p (inner p)
     and the client decoding of `flushResp … out` (base64 decode, ecbDecrypt) gives back `out`.
   Proven pieces: `ecb_round_trip` (pad/encrypt/decrypt/unpad for every payload), `b64_round_trip`.
   Missing: the transport lemma `bytesToString (asciiBytes (b64Encode ct)) = b64Encode ct` (every base64 character is
   below 128) and the composition. The composition is checked at run time by `cryptMonitor` on every generated
   payload length (0..80, block boundaries included) in both directions. -/

/-- witness (pinned code): a body that decodes to no bytes makes `pkcs5Unpadding` index out of range -/
theorem unpadPinned_empty_panics (bs : Nat) : unpadPinned bs [] = .panic := rfl

/-- witness (pinned code): the encryption of the empty payload — one block of padding — is rejected -/
theorem unpadPinned_rejects_all_padding : unpadPinned 16 (pad 16 []) = .errPaddingSize := by decide

/-- after the fix both are ordinary: an error for no input, the empty payload for one block of padding -/
theorem unpad_empty_is_error (bs : Nat) : unpad bs [] = .errPaddingSize := rfl

theorem b64_round_trip (b : Bytes) : b64DecodeChars (b64EncodeChars b) = some b := b64DecodeChars_encode b

/-! ## non-vacuity -/

section Examples

private def exFacts : TokenFacts String :=
  { present := true, segs := 3, hdrOk := true, clmOk := true, alg := some "HS256",
    sigOk := fun s => s == "old-secret", exp := .at 2000, nbf := .at 900, iat := .absent,
    claims := [("exp", "2000"), ("iss", "me"), ("role", "admin"), ("uid", "7")] }

/-- a token signed with the previous secret, inside its validity window: runs, sees role and uid only -/
example : (authorize (jwtVerify exFacts 1000) {} "new-secret" "old-secret" 0).2
    = { ran := true, status := 200, ctx := [("role", "admin"), ("uid", "7")] } := by decide

/-- the same token at `now = exp`: 401 -/
example : (authorize (jwtVerify exFacts 2000) {} "new-secret" "old-secret" 0).2
    = { ran := false, status := 401, ctx := [] } := by decide

/-- the same token with `alg: none` -/
example : (authorize (jwtVerify { exFacts with alg := some "none" } 1000) {} "new-secret" "old-secret" 0).2.ran = false := by
  decide

/-- history: a success under the previous secret is counted, and the current secret is tried first only once it leads -/
example : (authorize (jwtVerify exFacts 1000) {} "new-secret" "old-secret" 5).1.counts = [("old-secret", 1)] := by decide

example : unpad 16 (pad 16 [1, 2, 3]) = .ok [1, 2, 3] := by decide
example : unpad 16 (pad 16 []) = .ok [] := by decide
example : unpadPinned 16 (pad 16 [1, 2, 3]) = .ok [1, 2, 3] := by decide
example : b64EncodeChars [104, 105] = ['a', 'G', 'k', '='] := by decide
example : b64DecodeChars ['a', 'G', 'k', '='] = some [104, 105] := by decide

private def exEnv : CsEnv :=
  { rsa := fun fp _ => if fp = "good" then .ok "type=0; key=QUJD; time=100" else .noKey,
    hmacB64 := fun _ t => t, sha256Hex := fun _ => "d", urlParse := fun u => some (u, ""), now := 103 }

private def exC : BlockCipher := { bs := 16, keyOk := fun _ => true, enc := fun _ b => b, dec := fun _ b => b }

private def exReq (m p sig uri : String) : CsReq :=
  { method := m, path := p, query := "", uri := uri, headers := ["key=good; secret=S; signature=" ++ sig], cl := 0, body := [] }

/-- a correctly signed POST inside the window: runs, and the signature covers the request -/
example : (contentSecurity exC exEnv ⟨true, 3, 0⟩ (exReq "POST" "/a" "100\nPOST\n/a\n\nd" "") id).ran = true
    ∧ csCovers exEnv ⟨true, 3, 0⟩ (exReq "POST" "/a" "100\nPOST\n/a\n\nd" "") = true := by decide

/-- one second outside the tolerance, another path, another method: 403 without calling the handler -/
example : contentSecurity exC exEnv ⟨true, 2, 0⟩ (exReq "POST" "/a" "100\nPOST\n/a\n\nd" "") id
    = { ran := false, status := 403 } := by decide
example : contentSecurity exC exEnv ⟨true, 3, 0⟩ (exReq "POST" "/b" "100\nPOST\n/a\n\nd" "") id
    = { ran := false, status := 403 } := by decide
example : contentSecurity exC exEnv ⟨true, 3, 0⟩ (exReq "PUT" "/a" "100\nPOST\n/a\n\nd" "") id
    = { ran := false, status := 403 } := by decide

/-- finding 1 (method gate): a forged PATCH request runs in strict mode and is not covered -/
example : (contentSecurity exC exEnv ⟨true, 3, 0⟩ (exReq "PATCH" "/a" "forged" "") id).ran = true
    ∧ csCovers exEnv ⟨true, 3, 0⟩ (exReq "PATCH" "/a" "forged" "") = false := by decide

/-- finding 2 (X-Request-Uri): a signature for `/other` is accepted on `/a` when the header names `/other` -/
example : (contentSecurity exC exEnv ⟨true, 3, 0⟩ (exReq "POST" "/a" "100\nPOST\n/other\n\nd" "/other") id).ran = true
    ∧ csCovers exEnv ⟨true, 3, 0⟩ (exReq "POST" "/a" "100\nPOST\n/other\n\nd" "/other") = false := by decide

end Examples

end GoZero.C18
