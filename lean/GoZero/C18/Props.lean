/-
C18 — property theorems (and non-vacuity examples). Helper lemmas live in Proofs.lean.

JWT       handler_runs_only_if_verified, outcome_independent_of_history, jwt_outcome_independent_of_history,
          jwt_handler_runs_iff_valid_credential, rejected_gets_401, claims_forwarded, jwt_rejects_* corollaries,
          jwt_monitor_sound; history_unchanged_on_failure, history_counts_the_verifying_secret, history_reset
content   cs_runs_only_if_signature_covers_request, cs_monitor_sound; witnesses of the two recorded findings:
security  method_gate_bypass, request_uri_override
codec     unpad_pad (after fixes/C18-unpad-empty.patch), unpadPinned_pad / unpadPinned_* (witnesses of the pinned code),
          b64_round_trip, ecb_round_trip, body_round_trip, reply_round_trip
framing   verifySignature_ignores_content_length, csCovers_ignores_content_length, cs_handler_reads_signed_body,
          cs_body_monitor_sound, crypt_monitor_sound, crypt_monitor_sound_on_handler, properlyEncrypted_of_encrypt,
          cs_encrypted_goes_to_cryption, cs_encrypted_body_round_trip (after
          fixes/C18-chunked-body.patch), chunked_body_not_decrypted_pinned (witness of the pinned code)
-/
import GoZero.C18.Proofs
namespace GoZero.C18

/-! ## JWT -/

/-- The wrapped handler runs only if `doParseToken` succeeded (valid token with map claims) under the current
or the previous secret — whatever the history counters are. -/
theorem handler_runs_only_if_verified {V : Type} (verify : String → Parsed (List (String × V)))
    (h : Hist) (secret prev : String) (clock : Int)
    (hran : (authorize verify h secret prev clock).2.ran = true) :
    (∃ c, verify secret = .tok true (some c)) ∨ (prev.length > 0 ∧ ∃ c, verify prev = .tok true (some c)) := by
  unfold authorize parseToken firstSecond at hran
  by_cases hp : prev.length > 0
  · simp only [hp, if_true] at hran
    by_cases hc : h.count secret > h.count prev
    · simp only [hc, if_true] at hran
      cases h1 : verify secret with
      | err =>
        cases h2 : verify prev with
        | err => simp [h1, h2, Parsed.isErr] at hran
        | tok v c =>
          right; refine ⟨hp, ?_⟩
          cases v <;> cases c <;> simp [h1, h2, Parsed.isErr] at hran ⊢
      | tok v c =>
        left
        cases v <;> cases c <;> simp [h1, Parsed.isErr] at hran ⊢
    · simp only [hc, if_false] at hran
      cases h2 : verify prev with
      | err =>
        cases h1 : verify secret with
        | err => simp [h1, h2, Parsed.isErr] at hran
        | tok v c =>
          left
          cases v <;> cases c <;> simp [h1, h2, Parsed.isErr] at hran ⊢
      | tok v c =>
        right; refine ⟨hp, ?_⟩
        cases v <;> cases c <;> simp [h2, Parsed.isErr] at hran ⊢
  · simp only [hp, if_false] at hran
    left
    cases h1 : verify secret with
    | err => simp [h1] at hran
    | tok v c => cases v <;> cases c <;> simp [h1] at hran ⊢


theorem outcome_independent_of_history {V : Type} (verify : String → Parsed (List (String × V)))
    (h h' : Hist) (secret prev : String) (clock clock' : Int)
    (hagree : (verify secret).isErr = false → (verify prev).isErr = false → verify secret = verify prev) :
    (authorize verify h secret prev clock).2 = (authorize verify h' secret prev clock').2 := by
  have key := parseToken_result_independent verify h h' secret prev clock clock' hagree
  unfold authorize
  generalize parseToken verify h secret prev clock = r at key ⊢
  generalize parseToken verify h' secret prev clock' = r' at key ⊢
  rcases r with ⟨a, p⟩; rcases r' with ⟨a', p'⟩
  simp only at key; subst key
  cases p with
  | err => rfl
  | tok v c => cases v <;> cases c <;> rfl

theorem jwt_handler_runs_iff_valid_credential {V : Type} (f : TokenFacts V) (now : Int) (h : Hist)
    (secret prev : String) (clock : Int) :
    (authorize (jwtVerify f now) h secret prev clock).2.ran = credentialOk f now secret prev := by
  rw [Bool.eq_iff_iff, authorize_ran_iff, credentialOk_iff]
  have hpe := length_pos_iff_ne_empty prev
  have hok := parseToken_ok_iff (jwtVerify f now) h secret prev clock
  constructor
  · rintro ⟨c, hc⟩
    have : (parseToken (jwtVerify f now) h secret prev clock).2.isErr = false := by rw [hc]; rfl
    rcases hok.mp this with h1 | ⟨hp, h2⟩
    · rcases jwtVerify_cases f now secret with ⟨_, g⟩ | ⟨e, _⟩
      · exact ⟨g.1, g.2.1, g.2.2.1, g.2.2.2.1, g.2.2.2.2.1, Or.inl g.2.2.2.2.2.1, g.2.2.2.2.2.2⟩
      · rw [e] at h1; simp at h1
    · rcases jwtVerify_cases f now prev with ⟨_, g⟩ | ⟨e, _⟩
      · exact ⟨g.1, g.2.1, g.2.2.1, g.2.2.2.1, g.2.2.2.2.1, Or.inr ⟨hpe.mp hp, g.2.2.2.2.2.1⟩, g.2.2.2.2.2.2⟩
      · rw [e] at h2; simp at h2
  · rintro ⟨g1, g2, g3, g4, g5, g6, g7⟩
    have hne : (parseToken (jwtVerify f now) h secret prev clock).2.isErr = false := by
      apply hok.mpr
      rcases g6 with g6 | ⟨hp, g6⟩
      · left
        rcases jwtVerify_cases f now secret with ⟨e, _⟩ | ⟨_, n⟩
        · rw [e]; rfl
        · exact absurd ⟨g1, g2, g3, g4, g5, g6, g7⟩ n
      · right; refine ⟨hpe.mpr hp, ?_⟩
        rcases jwtVerify_cases f now prev with ⟨e, _⟩ | ⟨_, n⟩
        · rw [e]; rfl
        · exact absurd ⟨g1, g2, g3, g4, g5, g6, g7⟩ n
    -- the result is one of the two attempts
    unfold parseToken at hne ⊢
    by_cases hp : prev.length > 0
    · simp only [hp, if_true] at hne ⊢
      by_cases e1 : (jwtVerify f now (firstSecond h secret prev).1).isErr = true
      · by_cases e2 : (jwtVerify f now (firstSecond h secret prev).2).isErr = true
        · simp [e1, e2] at hne
        · simp only [e1, e2, if_true, if_false] at hne ⊢
          exact ⟨f.claims, (jwtVerify_isErr_false f now _).mp hne⟩
      · simp only [e1, if_false] at hne ⊢
        exact ⟨f.claims, (jwtVerify_isErr_false f now _).mp hne⟩
    · simp only [hp, if_false] at hne ⊢
      exact ⟨f.claims, (jwtVerify_isErr_false f now _).mp hne⟩


/-- for go-zero's use of golang-jwt the hypothesis of `outcome_independent_of_history` always holds -/
theorem jwt_outcome_independent_of_history {V : Type} (f : TokenFacts V) (now : Int) (h h' : Hist)
    (secret prev : String) (clock clock' : Int) :
    (authorize (jwtVerify f now) h secret prev clock).2 = (authorize (jwtVerify f now) h' secret prev clock').2 :=
  outcome_independent_of_history _ h h' secret prev clock clock' (jwtVerify_agree f now secret prev)

/-- any request that is not let through gets 401 and no context values -/
theorem rejected_gets_401 {V : Type} (verify : String → Parsed (List (String × V)))
    (h : Hist) (secret prev : String) (clock : Int)
    (hr : (authorize verify h secret prev clock).2.ran = false) :
    (authorize verify h secret prev clock).2.status = 401 ∧ (authorize verify h secret prev clock).2.ctx = [] := by
  unfold authorize at hr ⊢
  generalize parseToken verify h secret prev clock = r at hr ⊢
  rcases r with ⟨a, p⟩
  cases p with
  | err => exact ⟨rfl, rfl⟩
  | tok v c => cases v <;> cases c <;> first | exact ⟨rfl, rfl⟩ | simp at hr

/-- on success the handler's context holds exactly the non-standard claims of the verified token -/
theorem claims_forwarded {V : Type} (verify : String → Parsed (List (String × V)))
    (h : Hist) (secret prev : String) (clock : Int) (c : List (String × V))
    (hp : (parseToken verify h secret prev clock).2 = .tok true (some c)) :
    (authorize verify h secret prev clock).2.ctx = forwarded c ∧
      (∀ kv ∈ (authorize verify h secret prev clock).2.ctx, kv.1 ∉ standardClaims) ∧
      (∀ kv ∈ c, kv.1 ∉ standardClaims → kv ∈ (authorize verify h secret prev clock).2.ctx) := by
  unfold authorize
  generalize parseToken verify h secret prev clock = r at hp ⊢
  rcases r with ⟨a, p⟩
  simp only at hp
  subst hp
  refine ⟨rfl, ?_, ?_⟩
  · intro kv hkv
    simp only [List.mem_filter] at hkv
    simpa using hkv.2
  · intro kv hkv hn
    simp only [List.mem_filter]
    exact ⟨hkv, by simpa using hn⟩

/-- `alg: none` never opens the gate -/
theorem jwt_rejects_alg_none {V : Type} (f : TokenFacts V) (now : Int) (h : Hist) (secret prev : String)
    (clock : Int) (ha : f.alg = some "none") :
    (authorize (jwtVerify f now) h secret prev clock).2.ran = false := by
  rw [jwt_handler_runs_iff_valid_credential]
  unfold credentialOk
  simp [ha, hmacAlgs]

/-- no algorithm outside the HMAC family (RS256, ES256, PS256, EdDSA, unknown names) opens the gate -/
theorem jwt_rejects_non_hmac_alg {V : Type} (f : TokenFacts V) (now : Int) (h : Hist) (secret prev : String)
    (clock : Int) (a : String) (ha : f.alg = some a) (hn : a ∉ hmacAlgs) :
    (authorize (jwtVerify f now) h secret prev clock).2.ran = false := by
  rw [jwt_handler_runs_iff_valid_credential]
  unfold credentialOk
  simp [ha, hn]

/-- a token whose signature verifies under neither configured secret (tampered header/payload/signature,
wrong secret) is rejected -/
theorem jwt_rejects_bad_signature {V : Type} (f : TokenFacts V) (now : Int) (h : Hist) (secret prev : String)
    (clock : Int) (h1 : f.sigOk secret = false) (h2 : f.sigOk prev = false) :
    (authorize (jwtVerify f now) h secret prev clock).2.ran = false := by
  rw [jwt_handler_runs_iff_valid_credential]
  unfold credentialOk
  simp [h1, h2]

/-- an expired token (`exp ≤ now`), one used before `nbf`/`iat`, or one whose time claim is not a number is rejected -/
theorem jwt_rejects_invalid_time {V : Type} (f : TokenFacts V) (now : Int) (h : Hist) (secret prev : String)
    (clock : Int) (ht : timeValid f now = false) :
    (authorize (jwtVerify f now) h secret prev clock).2.ran = false := by
  rw [jwt_handler_runs_iff_valid_credential]
  unfold credentialOk
  simp [ht]

theorem expired_is_invalid {V : Type} (f : TokenFacts V) (now t : Int) (he : f.exp = .at t) (hle : t ≤ now) :
    timeValid f now = false := by
  unfold timeValid expOk
  simp [he]; omega

/-- a missing or malformed credential is rejected -/
theorem jwt_rejects_malformed {V : Type} (f : TokenFacts V) (now : Int) (h : Hist) (secret prev : String)
    (clock : Int) (hm : f.present = false ∨ f.segs ≠ 3 ∨ f.hdrOk = false ∨ f.clmOk = false ∨ f.alg = none) :
    (authorize (jwtVerify f now) h secret prev clock).2.ran = false := by
  rw [jwt_handler_runs_iff_valid_credential]
  unfold credentialOk
  rcases hm with h | h | h | h | h <;> simp [h]

/-- the executable monitor never fires on what the model does -/
theorem jwt_monitor_sound {V : Type} [DecidableEq V] (f : TokenFacts V) (now : Int) (h : Hist)
    (secret prev : String) (clock : Int) :
    jwtMonitor f now secret prev (authorize (jwtVerify f now) h secret prev clock).2 = none := by
  have hiff := jwt_handler_runs_iff_valid_credential f now h secret prev clock
  unfold jwtMonitor
  cases hr : (authorize (jwtVerify f now) h secret prev clock).2.ran with
  | false =>
    have := rejected_gets_401 (jwtVerify f now) h secret prev clock hr
    simp [this.1]
  | true =>
    rw [hr] at hiff
    obtain ⟨c, hc⟩ := (authorize_ran_iff _ h secret prev clock).mp hr
    have hcl : c = f.claims := by
      have e : (parseToken (jwtVerify f now) h secret prev clock).2.isErr = false := by rw [hc]; rfl
      have := parseToken_result_is_attempt (jwtVerify f now) h secret prev clock e
      rcases this with t | t <;> (rw [hc] at t; rcases jwtVerify_cases f now _ with ⟨e', _⟩ | ⟨e', _⟩ <;> rw [e'] at t <;> simp at t; try exact t)
    subst hcl
    have := (claims_forwarded _ h secret prev clock _ hc).1
    simp [← hiff, this]

/-! ### TokenParser.history -/

/-- `TokenParser.history` changes only when a token verified: a rejected request leaves the counters alone -/
theorem history_unchanged_on_failure {C : Type} (verify : String → Parsed C) (h : Hist) (secret prev : String)
    (clock : Int) (he : (parseToken verify h secret prev clock).2.isErr = true) :
    (parseToken verify h secret prev clock).1 = h := by
  unfold parseToken at he ⊢
  by_cases hp : prev.length > 0
  · simp only [hp, if_true] at he ⊢
    by_cases e1 : (verify (firstSecond h secret prev).1).isErr = true
    · by_cases e2 : (verify (firstSecond h secret prev).2).isErr = true
      · simp [e1, e2]
      · simp [e1, e2] at he
    · simp [e1] at he
  · simp [hp]

/-- on success with a previous secret configured, exactly the counter of a secret under which the token verified is
incremented (after the reset test) -/
theorem history_counts_the_verifying_secret {C : Type} (verify : String → Parsed C) (h : Hist) (secret prev : String)
    (clock : Int) (hp : prev.length > 0) (hok : (parseToken verify h secret prev clock).2.isErr = false) :
    ∃ x, (x = secret ∨ x = prev) ∧ (verify x).isErr = false ∧
      (parseToken verify h secret prev clock).1 = h.increment x clock ∧
      (parseToken verify h secret prev clock).2 = verify x := by
  unfold parseToken at hok ⊢
  simp only [hp, if_true] at hok ⊢
  have hfs : ((firstSecond h secret prev).1 = secret ∧ (firstSecond h secret prev).2 = prev) ∨
      ((firstSecond h secret prev).1 = prev ∧ (firstSecond h secret prev).2 = secret) := by
    unfold firstSecond
    by_cases hc : h.count secret > h.count prev <;> simp [hc]
  by_cases e1 : (verify (firstSecond h secret prev).1).isErr = true
  · by_cases e2 : (verify (firstSecond h secret prev).2).isErr = true
    · simp [e1, e2] at hok
    · simp only [e1, e2, if_true]
      refine ⟨(firstSecond h secret prev).2, ?_, by simpa using e2, rfl, rfl⟩
      rcases hfs with ⟨_, b⟩ | ⟨_, b⟩ <;> simp [b]
  · simp only [e1]
    refine ⟨(firstSecond h secret prev).1, ?_, by simpa using e1, rfl, rfl⟩
    rcases hfs with ⟨a, _⟩ | ⟨a, _⟩ <;> simp [a]

/-- after the reset time every success starts the counters afresh: only the secret just counted is present -/
theorem history_reset (h : Hist) (s : String) (clock : Int) (hexp : h.resetTime + h.resetDuration < clock) :
    (h.increment s clock).counts = [(s, 1)] := by
  unfold Hist.increment
  simp [hexp]

example : (parseToken (fun s => if s = "old" then Parsed.tok true (some ()) else .err) {} "new" "old" 5).1.counts
    = [("old", 1)] := by decide
example : (parseToken (fun _ => (Parsed.err : Parsed Unit)) { counts := [("old", 3)] } "new" "old" 5).1.counts
    = [("old", 3)] := by decide

/-! ## content security -/

theorem cs_runs_only_if_signature_covers_request (C : BlockCipher) (env : CsEnv) (cfg : CsCfg) (req : CsReq)
    (inner : Inner) (hs : cfg.strict = true) (hg : gatedMethods.contains req.method = true)
    (hu : req.uri = "") (hran : (contentSecurity C env cfg req inner).ran = true) :
    csCovers env cfg req = true := by
  obtain ⟨h, hp, hv⟩ := contentSecurity_strict_ran C env cfg req inner hs hg hran
  obtain ⟨s, hts, hw, hsig⟩ := verifySignature_pass env cfg.tol req h hv
  rw [pathQuery_no_uri env req hu] at hsig
  unfold csCovers
  simp [hp, hts, hw, ← hsig]

theorem method_gate_bypass (C : BlockCipher) (env : CsEnv) (cfg : CsCfg) (req : CsReq) (inner : Inner)
    (hm : gatedMethods.contains req.method = false) :
    contentSecurity C env cfg req inner = plainNext inner req.body := by
  unfold contentSecurity
  rw [if_neg (by rw [hm]; exact Bool.false_ne_true)]

theorem request_uri_override (C : BlockCipher) (env : CsEnv) (cfg : CsCfg) (req : CsReq) (inner : Inner)
    (h : CsHeader) (s : Int) (p' q' : String)
    (hg : gatedMethods.contains req.method = true)
    (hparse : parseContentSecurity env req = .ok h) (hts : parseInt64 h.timestamp = some s)
    (hw : outsideWindow s cfg.tol env.now = false)
    (huri : req.uri.isEmpty = false) (hup : env.urlParse req.uri = some (p', q'))
    (hsig : h.signature = env.hmacB64 h.key (signContent env h.timestamp req.method p' q' req.body))
    (hplain : ¬ (req.cl ≠ 0 ∧ h.contentType = 1)) :
    contentSecurity C env cfg req inner = plainNext inner req.body := by
  have hv : verifySignature env cfg.tol req h = 0 := by
    unfold verifySignature pathQuery
    simp [hts, hw, huri, hup, ← hsig]
  unfold contentSecurity
  rw [if_pos hg]
  simp [hparse, hv, hplain]


/-- the monitor never fires on the model for the requests the property's statement is true of
(a checked method, no X-Request-Uri header); the two other cases are the recorded findings -/
theorem cs_monitor_sound (C : BlockCipher) (env : CsEnv) (cfg : CsCfg) (req : CsReq) (inner : Inner)
    (hg : gatedMethods.contains req.method = true) (hu : req.uri = "")
    (hnp : (contentSecurity C env cfg req inner).panic = false) :
    csMonitor env cfg req (contentSecurity C env cfg req inner) = none := by
  unfold csMonitor
  cases hs : cfg.strict with
  | false => simp
  | true =>
    cases hr : (contentSecurity C env cfg req inner).ran with
    | true =>
      have := cs_runs_only_if_signature_covers_request C env cfg req inner hs hg hu hr
      simp [this]
    | false =>
      by_cases hc : csCovers env cfg req = true
      · simp [hc, hnp]
      · have hst : (contentSecurity C env cfg req inner).status = 403 := by
          unfold contentSecurity
          rw [if_pos hg]
          cases hp : parseContentSecurity env req with
          | error e => simp [hs, verificationFailure]
          | ok h =>
            simp only []
            by_cases hv : verifySignature env cfg.tol req h = 0
            · exfalso; apply hc
              obtain ⟨s, hts, hw, hsig⟩ := verifySignature_pass env cfg.tol req h hv
              rw [pathQuery_no_uri env req hu] at hsig
              unfold csCovers
              simp [hp, hts, hw, ← hsig]
            · simp [hv, hs, verificationFailure]
        simp [hc, hnp, hst]

/-! ## codec -/

theorem unpad_pad (bs : Nat) (hbs : 0 < bs) (hbs' : bs ≤ 255) (p : Bytes) :
    unpad bs (pad bs p) = .ok p := by
  obtain ⟨h1, h2⟩ := padLen_bounds bs p.length hbs
  unfold unpad pad
  generalize hn : bs - p.length % bs = n at h1 h2
  rw [getLast?_append_replicate p n _ h1]
  have hb : (UInt8.ofNat n).toNat = n := by
    rw [UInt8.toNat_ofNat']; omega
  simp only [hb, List.length_append, List.length_replicate]
  rw [if_neg (by omega)]
  congr 1
  rw [Nat.add_sub_cancel, List.take_left']
  rfl

/-- the pinned code: round trip exactly for non-empty payloads -/
theorem unpadPinned_pad (bs : Nat) (hbs : 0 < bs) (hbs' : bs ≤ 255) (p : Bytes) :
    unpadPinned bs (pad bs p) = .ok p ↔ p ≠ [] := by
  obtain ⟨h1, h2⟩ := padLen_bounds bs p.length hbs
  unfold unpadPinned pad
  generalize hn : bs - p.length % bs = n at h1 h2
  rw [getLast?_append_replicate p n _ h1]
  have hb : (UInt8.ofNat n).toNat = n := by
    rw [UInt8.toNat_ofNat']; omega
  simp only [hb, List.length_append, List.length_replicate]
  by_cases hp : p = []
  · subst hp
    simp
  · have : 0 < p.length := List.length_pos_iff.mpr hp
    rw [if_neg (by omega)]
    simp only [hp, ne_eq, not_false_eq_true, iff_true]
    congr 1
    rw [Nat.add_sub_cancel, List.take_left']
    rfl

/-- AES-ECB with PKCS padding round-trips every payload (after the fix), for any sound block cipher -/
theorem ecb_round_trip (C : BlockCipher) (key : Bytes) (hk : C.keyOk key = true) (hs : C.Sound key)
    (hbs : 0 < C.bs) (hbs' : C.bs ≤ 255) (p : Bytes) :
    ∃ ct, ecbEncrypt C key p = some ct ∧ ecbDecrypt C key ct = .ok p := by
  obtain ⟨k, hk'⟩ := pad_length C.bs hbs p
  obtain ⟨l1, l2⟩ := cryptBlocks_round_trip C key hs hbs k _ hk'
  have hm : (pad C.bs p).length % C.bs = 0 := by rw [hk']; exact Nat.mul_mod_left _ _
  have hm2 : ((chunks C.bs (pad C.bs p)).flatMap (C.enc key)).length % C.bs = 0 := by
    rw [l1]; exact Nat.mul_mod_left _ _
  refine ⟨cryptBlocks (C.enc key) C.bs (pad C.bs p), by simp [ecbEncrypt, hk], ?_⟩
  have e1 : cryptBlocks (C.enc key) C.bs (pad C.bs p) = (chunks C.bs (pad C.bs p)).flatMap (C.enc key) := by
    unfold cryptBlocks; rw [if_neg (by omega)]
  have e2 : cryptBlocks (C.dec key) C.bs ((chunks C.bs (pad C.bs p)).flatMap (C.enc key)) = pad C.bs p := by
    unfold cryptBlocks; rw [if_neg (by omega), l2]
  unfold ecbDecrypt
  rw [if_pos hk, e1, e2, unpad_pad C.bs hbs hbs' p]


/-- "an encrypted body reaches the handler decrypted … round-tripping any payload": for EVERY payload `p` (the empty one
included) the text `base64 (E (pad p))`, sent as the body with its length declared (`cl = length`, within the limit) or
with unknown length (`cl = -1`, chunked; within the limit or `maxBytes`), makes the cryption handler call the wrapped
handler on exactly `p`, and what the client gets is `flushResp` of the handler's reply (see `reply_round_trip`). -/
theorem body_round_trip (C : BlockCipher) (key : Bytes) (hk : C.keyOk key = true) (hs : C.Sound key)
    (hbs : 0 < C.bs) (hbs' : C.bs ≤ 255) (limit : Int) (p : Bytes) (inner : Inner) :
    ∃ ct, ecbEncrypt C key p = some ct ∧
      (¬ (limit > 0 ∧ ((asciiBytes (b64Encode ct)).length : Int) > limit) →
        cryptionHandler C limit key (asciiBytes (b64Encode ct)).length (asciiBytes (b64Encode ct)) inner
          = flushResp C key p (inner p)) ∧
      (((asciiBytes (b64Encode ct)).length : Int) ≤ (if limit > 0 then limit else maxBytes) →
        cryptionHandler C limit key (-1) (asciiBytes (b64Encode ct)) inner = flushResp C key p (inner p)) := by
  obtain ⟨ct, he, hd⟩ := ecb_round_trip C key hk hs hbs hbs' p
  refine ⟨ct, he, ?_, ?_⟩
  all_goals
    have hne : ct ≠ [] := by
      intro h; subst h; exact ecbDecrypt_nil_not_ok C key p hd
    have hlen : 0 < (asciiBytes (b64Encode ct)).length := by
      rw [asciiBytes_b64_length]
      exact List.length_pos_iff.mpr (b64EncodeChars_ne_nil ct hne)
  · intro hl
    generalize hraw : asciiBytes (b64Encode ct) = raw at hl hlen
    unfold cryptionHandler
    have h0 : ¬ ((raw.length : Int) = 0) := by omega
    have h1 : (raw.length : Int) > 0 := by omega
    rw [if_neg h0, if_neg hl, if_pos h1, if_neg (by omega)]
    have : raw.take (raw.length : Int).toNat = raw := by simp
    rw [this, ← hraw]
    exact decryptAndServe_b64 C key ct p inner hd
  · intro hl
    generalize hraw : asciiBytes (b64Encode ct) = raw at hl hlen
    unfold cryptionHandler
    have hne' : raw.isEmpty = false := by
      cases raw with
      | nil => simp at hlen
      | cons => rfl
    rw [if_neg (by omega), if_neg (by omega), if_neg (by omega), if_neg (by omega)]
    simp only [hne', Bool.false_eq_true, if_false]
    rw [← hraw]
    exact decryptAndServe_b64 C key ct p inner hd

/-- "the response is returned encrypted": what the client receives for a non-empty reply `out` is the base64 text of
a ciphertext that decrypts to `out` (and an empty reply stays empty). -/
theorem reply_round_trip (C : BlockCipher) (key : Bytes) (hk : C.keyOk key = true) (hs : C.Sound key)
    (hbs : 0 < C.bs) (hbs' : C.bs ≤ 255) (seen out : Bytes) (hne : out ≠ []) :
    ∃ ct, (flushResp C key seen out) = { ran := true, seen := seen, status := 200, body := asciiBytes (b64Encode ct) } ∧
      b64Decode (bytesToString (flushResp C key seen out).body) = some ct ∧ ecbDecrypt C key ct = .ok out := by
  obtain ⟨ct, he, hd⟩ := ecb_round_trip C key hk hs hbs hbs' out
  have hemp : out.isEmpty = false := by
    cases out with
    | nil => exact absurd rfl hne
    | cons => rfl
  have hf : flushResp C key seen out = { ran := true, seen := seen, status := 200, body := asciiBytes (b64Encode ct) } := by
    unfold flushResp
    simp [hemp, he]
  refine ⟨ct, hf, ?_, hd⟩
  rw [hf]
  simp only
  rw [bytesToString_asciiBytes_b64, b64Decode_encode]

theorem flushResp_empty (C : BlockCipher) (key seen : Bytes) :
    flushResp C key seen [] = { ran := true, seen := seen, status := 200 } := by
  unfold flushResp; simp

/-! ### framing -/

/-- the signature check reads the body, never `r.ContentLength`: the same bytes verify alike whether they come with a
declared length, with unknown length (chunked) or with a wrong length -/
theorem verifySignature_ignores_content_length (env : CsEnv) (tol : Int) (req : CsReq) (h : CsHeader) (c : Int) :
    verifySignature env tol { req with cl := c } h = verifySignature env tol req h := rfl

theorem csCovers_ignores_content_length (env : CsEnv) (cfg : CsCfg) (req : CsReq) (c : Int) :
    csCovers env cfg { req with cl := c } = csCovers env cfg req := rfl

/-- strict mode, a checked method, no X-Request-Uri: whenever the handler runs on a request that is not marked
encrypted, it reads exactly the bytes whose digest the signature covers — for every framing -/
theorem cs_handler_reads_signed_body (C : BlockCipher) (env : CsEnv) (cfg : CsCfg) (req : CsReq) (inner : Inner)
    (hs : cfg.strict = true) (hg : gatedMethods.contains req.method = true) (hu : req.uri = "")
    (hran : (contentSecurity C env cfg req inner).ran = true) :
    ∃ h, parseContentSecurity env req = .ok h ∧ csCovers env cfg req = true ∧
      (h.contentType ≠ 1 → (contentSecurity C env cfg req inner).seen = req.body) := by
  obtain ⟨h, hp, hv⟩ := contentSecurity_strict_ran C env cfg req inner hs hg hran
  refine ⟨h, hp, cs_runs_only_if_signature_covers_request C env cfg req inner hs hg hu hran, ?_⟩
  intro ht
  unfold contentSecurity
  rw [if_pos hg]
  simp [hp, hv, ht, plainNext]

theorem cs_body_monitor_sound (C : BlockCipher) (env : CsEnv) (cfg : CsCfg) (req : CsReq) (inner : Inner)
    (hg : gatedMethods.contains req.method = true) (hu : req.uri = "") :
    csBodyMonitor env cfg req (contentSecurity C env cfg req inner) = none := by
  unfold csBodyMonitor
  by_cases hc : cfg.strict = true ∧ (contentSecurity C env cfg req inner).ran = true ∧ csCovers env cfg req = true
  · rw [if_pos hc]
    obtain ⟨h, hp, _, hseen⟩ := cs_handler_reads_signed_body C env cfg req inner hc.1 hg hu hc.2.1
    rw [hp]
    simp only
    by_cases ht : h.contentType = 1
    · simp [ht]
    · simp [ht, hseen ht]
  · rw [if_neg hc]

/-- a verified request marked encrypted is handed to the cryption handler for EVERY framing with a body
(`ContentLength ≠ 0`), a chunked one included -/
theorem cs_encrypted_goes_to_cryption (C : BlockCipher) (env : CsEnv) (cfg : CsCfg) (req : CsReq) (inner : Inner)
    (h : CsHeader) (hg : gatedMethods.contains req.method = true)
    (hp : parseContentSecurity env req = .ok h) (hv : verifySignature env cfg.tol req h = 0)
    (ht : h.contentType = 1) (hcl : req.cl ≠ 0) :
    contentSecurity C env cfg req inner = cryptionHandler C cfg.limit h.key req.cl req.body inner := by
  unfold contentSecurity
  rw [if_pos hg]
  simp [hp, hv, ht, hcl]

/-- the whole path: a verified, encrypted body — sent with its length or chunked — reaches the handler as the
payload the client encrypted -/
theorem cs_encrypted_body_round_trip (C : BlockCipher) (env : CsEnv) (cfg : CsCfg) (req : CsReq) (inner : Inner)
    (h : CsHeader) (hg : gatedMethods.contains req.method = true)
    (hp : parseContentSecurity env req = .ok h) (hv : verifySignature env cfg.tol req h = 0)
    (ht : h.contentType = 1)
    (hk : C.keyOk h.key = true) (hs : C.Sound h.key) (hbs : 0 < C.bs) (hbs' : C.bs ≤ 255)
    (p ct : Bytes) (he : ecbEncrypt C h.key p = some ct) (hbody : req.body = asciiBytes (b64Encode ct))
    (hfr : (req.cl = req.body.length ∧ ¬ (cfg.limit > 0 ∧ req.cl > cfg.limit)) ∨
           (req.cl = -1 ∧ (req.body.length : Int) ≤ (if cfg.limit > 0 then cfg.limit else maxBytes))) :
    contentSecurity C env cfg req inner = flushResp C h.key p (inner p) := by
  obtain ⟨ct', he', h1, h2⟩ := body_round_trip C h.key hk hs hbs hbs' cfg.limit p inner
  have : ct' = ct := by rw [he] at he'; exact (Option.some.inj he').symm
  subst this
  have hd : ecbDecrypt C h.key ct' = .ok p := by
    obtain ⟨c2, e2, d2⟩ := ecb_round_trip C h.key hk hs hbs hbs' p
    rw [he] at e2; cases e2; exact d2
  have hne : ct' ≠ [] := by
    intro hh; subst hh; exact ecbDecrypt_nil_not_ok C h.key p hd
  have hlen : 0 < req.body.length := by
    rw [hbody, asciiBytes_b64_length]
    exact List.length_pos_iff.mpr (b64EncodeChars_ne_nil ct' hne)
  rcases hfr with ⟨hcl, hlim⟩ | ⟨hcl, hlim⟩
  · rw [cs_encrypted_goes_to_cryption C env cfg req inner h hg hp hv ht (by omega), hcl, hbody]
    apply h1
    rw [← hbody, ← hcl]; exact hlim
  · rw [cs_encrypted_goes_to_cryption C env cfg req inner h hg hp hv ht (by omega), hcl, hbody]
    apply h2
    rw [← hbody]; exact hlim

/-- the monitor's notion of "the client encrypted `p` properly" holds of what a client computes -/
theorem properlyEncrypted_of_encrypt (C : BlockCipher) (key : Bytes) (hk : C.keyOk key = true) (hs : C.Sound key)
    (hbs : 0 < C.bs) (hbs' : C.bs ≤ 255) (p ct : Bytes) (he : ecbEncrypt C key p = some ct) :
    properlyEncrypted C key (asciiBytes (b64Encode ct)) = some p := by
  obtain ⟨k, hk'⟩ := pad_length C.bs hbs p
  obtain ⟨l1, l2⟩ := cryptBlocks_round_trip C key hs hbs k _ hk'
  obtain ⟨h1, h2⟩ := padLen_bounds C.bs p.length hbs
  have hm : (pad C.bs p).length % C.bs = 0 := by rw [hk']; exact Nat.mul_mod_left _ _
  have hct : ct = (chunks C.bs (pad C.bs p)).flatMap (C.enc key) := by
    unfold ecbEncrypt at he
    rw [if_pos hk] at he
    unfold cryptBlocks at he
    rw [if_neg (by omega)] at he
    exact (Option.some.inj he).symm
  have hkpos : 0 < k := by
    rcases Nat.eq_zero_or_pos k with h0 | h0
    · subst h0
      unfold pad at hk'
      simp only [List.length_append, List.length_replicate] at hk'
      omega
    · exact h0
  have hctlen : ct.length = k * C.bs := by rw [hct]; exact l1
  have hctpos : 0 < ct.length := by rw [hctlen]; exact Nat.mul_pos hkpos hbs
  unfold properlyEncrypted
  rw [bytesToString_asciiBytes_b64, b64Decode_encode]
  simp only
  have hne : ct.isEmpty = false := by
    cases ct with
    | nil => simp at hctpos
    | cons => rfl
  have hmod : ct.length % C.bs = 0 := by rw [hctlen]; exact Nat.mul_mod_left _ _
  rw [if_neg (by simp [hne, hmod])]
  rw [hct, l2]
  unfold pad
  generalize hn : C.bs - p.length % C.bs = n at h1 h2
  rw [getLast?_append_replicate p n _ h1]
  have hb : (UInt8.ofNat n).toNat = n := by
    rw [UInt8.toNat_ofNat']; omega
  simp only [hb, List.length_append, List.length_replicate]
  rw [if_neg (by omega)]
  have e1 : p.length + n - n = p.length := by omega
  rw [e1, List.drop_left' rfl, List.take_left' rfl]
  simp

/-- the cryption monitor never fires on what the model answers to a properly encrypted payload -/
theorem crypt_monitor_sound (C : BlockCipher) (key : Bytes) (hk : C.keyOk key = true) (hs : C.Sound key)
    (hbs : 0 < C.bs) (hbs' : C.bs ≤ 255) (p reply : Bytes) :
    cryptMonitor C key (some p) reply (flushResp C key p reply) = none := by
  unfold cryptMonitor
  cases hr : reply with
  | nil => simp [flushResp]
  | cons a t =>
    obtain ⟨ct, he, _⟩ := ecb_round_trip C key hk hs hbs hbs' (a :: t)
    have hpe := properlyEncrypted_of_encrypt C key hk hs hbs hbs' (a :: t) ct he
    simp [flushResp, he, hpe]

/-- … under both framings of the request: declared length and unknown length (chunked) -/
theorem crypt_monitor_sound_on_handler (C : BlockCipher) (key : Bytes) (hk : C.keyOk key = true) (hs : C.Sound key)
    (hbs : 0 < C.bs) (hbs' : C.bs ≤ 255) (limit : Int) (p ct : Bytes) (inner : Inner)
    (he : ecbEncrypt C key p = some ct) (cl : Int)
    (hfr : (cl = (asciiBytes (b64Encode ct)).length ∧ ¬ (limit > 0 ∧ cl > limit)) ∨
           (cl = -1 ∧ ((asciiBytes (b64Encode ct)).length : Int) ≤ (if limit > 0 then limit else maxBytes))) :
    cryptMonitor C key (properlyEncrypted C key (asciiBytes (b64Encode ct))) (inner p)
      (cryptionHandler C limit key cl (asciiBytes (b64Encode ct)) inner) = none := by
  rw [properlyEncrypted_of_encrypt C key hk hs hbs hbs' p ct he]
  obtain ⟨ct', he', h1, h2⟩ := body_round_trip C key hk hs hbs hbs' limit p inner
  have : ct' = ct := by rw [he] at he'; exact (Option.some.inj he').symm
  subst this
  rcases hfr with ⟨hcl, hlim⟩ | ⟨hcl, hlim⟩
  · rw [hcl, h1 (by rw [← hcl]; exact hlim)]
    exact crypt_monitor_sound C key hk hs hbs hbs' p (inner p)
  · rw [hcl, h2 hlim]
    exact crypt_monitor_sound C key hk hs hbs hbs' p (inner p)

/-- witness (pinned code): with `ContentLength = -1` (chunked) the handler got the ciphertext text as it was sent -/
theorem chunked_body_not_decrypted_pinned (C : BlockCipher) (limit : Int) (key raw : Bytes) (inner : Inner) :
    cryptionHandlerPinned C limit key (-1) raw inner = flushResp C key raw (inner raw) := by
  unfold cryptionHandlerPinned
  rw [if_pos (by omega)]

/-- witness (pinned code): a body that decodes to no bytes makes `pkcs5Unpadding` index out of range -/
theorem unpadPinned_empty_panics (bs : Nat) : unpadPinned bs [] = .panic := rfl

/-- witness (pinned code): the encryption of the empty payload — one block of padding — is rejected -/
theorem unpadPinned_rejects_all_padding : unpadPinned 16 (pad 16 []) = .errPaddingSize := by decide

/-- after the fix both are ordinary: an error for no input, the empty payload for one block of padding -/
theorem unpad_empty_is_error (bs : Nat) : unpad bs [] = .errPaddingSize := rfl

theorem b64_round_trip (b : Bytes) : b64DecodeChars (b64EncodeChars b) = some b := b64DecodeChars_encode b

/-! ## non-vacuity -/

section Examples

private def exFacts : TokenFacts String :=
  { present := true, segs := 3, hdrOk := true, clmOk := true, alg := some "HS256",
    sigOk := fun s => s == "old-secret", exp := .at 2000, nbf := .at 900, iat := .absent,
    claims := [("exp", "2000"), ("iss", "me"), ("role", "admin"), ("uid", "7")] }

/-- a token signed with the previous secret, inside its validity window: runs, sees role and uid only -/
example : (authorize (jwtVerify exFacts 1000) {} "new-secret" "old-secret" 0).2
    = { ran := true, status := 200, ctx := [("role", "admin"), ("uid", "7")] } := by decide

/-- the same token at `now = exp`: 401 -/
example : (authorize (jwtVerify exFacts 2000) {} "new-secret" "old-secret" 0).2
    = { ran := false, status := 401, ctx := [] } := by decide

/-- the same token with `alg: none` -/
example : (authorize (jwtVerify { exFacts with alg := some "none" } 1000) {} "new-secret" "old-secret" 0).2.ran = false := by
  decide

/-- history: a success under the previous secret is counted, and the current secret is tried first only once it leads -/
example : (authorize (jwtVerify exFacts 1000) {} "new-secret" "old-secret" 5).1.counts = [("old-secret", 1)] := by decide

example : unpad 16 (pad 16 [1, 2, 3]) = .ok [1, 2, 3] := by decide
example : unpad 16 (pad 16 []) = .ok [] := by decide
example : unpadPinned 16 (pad 16 [1, 2, 3]) = .ok [1, 2, 3] := by decide
example : b64EncodeChars [104, 105] = ['a', 'G', 'k', '='] := by decide
example : b64DecodeChars ['a', 'G', 'k', '='] = some [104, 105] := by decide

private def exEnv : CsEnv :=
  { rsa := fun fp _ => if fp = "good" then .ok "type=0; key=QUJD; time=100" else .noKey,
    hmacB64 := fun _ t => t, sha256Hex := fun _ => "d", urlParse := fun u => some (u, ""), now := 103 }

private def exC : BlockCipher := { bs := 16, keyOk := fun _ => true, enc := fun _ b => b, dec := fun _ b => b }

private def exReq (m p sig uri : String) : CsReq :=
  { method := m, path := p, query := "", uri := uri, headers := ["key=good; secret=S; signature=" ++ sig], cl := 0, body := [] }

/-- a correctly signed POST inside the window: runs, and the signature covers the request -/
example : (contentSecurity exC exEnv ⟨true, 3, 0⟩ (exReq "POST" "/a" "100\nPOST\n/a\n\nd" "") id).ran = true
    ∧ csCovers exEnv ⟨true, 3, 0⟩ (exReq "POST" "/a" "100\nPOST\n/a\n\nd" "") = true := by decide

/-- one second outside the tolerance, another path, another method: 403 without calling the handler -/
example : contentSecurity exC exEnv ⟨true, 2, 0⟩ (exReq "POST" "/a" "100\nPOST\n/a\n\nd" "") id
    = { ran := false, status := 403 } := by decide
example : contentSecurity exC exEnv ⟨true, 3, 0⟩ (exReq "POST" "/b" "100\nPOST\n/a\n\nd" "") id
    = { ran := false, status := 403 } := by decide
example : contentSecurity exC exEnv ⟨true, 3, 0⟩ (exReq "PUT" "/a" "100\nPOST\n/a\n\nd" "") id
    = { ran := false, status := 403 } := by decide

/-- finding 1 (method gate): a forged PATCH request runs in strict mode and is not covered -/
example : (contentSecurity exC exEnv ⟨true, 3, 0⟩ (exReq "PATCH" "/a" "forged" "") id).ran = true
    ∧ csCovers exEnv ⟨true, 3, 0⟩ (exReq "PATCH" "/a" "forged" "") = false := by decide

/-- finding 2 (X-Request-Uri): a signature for `/other` is accepted on `/a` when the header names `/other` -/
example : (contentSecurity exC exEnv ⟨true, 3, 0⟩ (exReq "POST" "/a" "100\nPOST\n/other\n\nd" "/other") id).ran = true
    ∧ csCovers exEnv ⟨true, 3, 0⟩ (exReq "POST" "/a" "100\nPOST\n/other\n\nd" "/other") = false := by decide

/-- the identity "cipher" satisfies the hypotheses of the round-trip theorems -/
example : exC.Sound [] := fun _ h => ⟨h, rfl⟩

private def exRaw : Bytes := asciiBytes (b64Encode (pad 16 [1, 2, 3]))

/-- a chunked encrypted body (`ContentLength = -1`): the fixed handler hands the payload on, the pinned one the text -/
example : (cryptionHandler exC 0 [] (-1) exRaw (fun _ => [])).seen = [1, 2, 3] := by decide
example : (cryptionHandlerPinned exC 0 [] (-1) exRaw (fun _ => [])).seen = exRaw := by decide
example : cryptMonitor exC [] (some [1, 2, 3]) [] (cryptionHandlerPinned exC 0 [] (-1) exRaw (fun _ => []))
    = some "crypt: the handler did not see the decrypted payload" := by decide
example : cryptMonitor exC [] (some [1, 2, 3]) [] (cryptionHandler exC 0 [] (-1) exRaw (fun _ => [])) = none := by decide
/-- declared length, no body, a body longer than the limit -/
example : (cryptionHandler exC 0 [] 24 exRaw (fun _ => [])).seen = [1, 2, 3] := by decide
example : (cryptionHandler exC 0 [] 0 [] (fun _ => [7])).body = asciiBytes (b64Encode (pad 16 [7])) := by decide
example : cryptionHandler exC 20 [] (-1) exRaw (fun _ => []) = { ran := false, status := 400 } := by decide
example : cryptionHandler exC 24 [] (-1) exRaw (fun _ => []) = { ran := true, seen := [1, 2, 3], status := 200 } := by decide

end Examples

end GoZero.C18
