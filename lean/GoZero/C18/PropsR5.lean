/-
C18 — property theorems of round 5.

decrypters per group   loadDecrypters_fingerprints, foreign_fingerprint_has_no_decrypter, decrypterOf_last_wins,
                       decrypters_of_a_group_ignore_the_other_groups, cs_rejects_fingerprint_of_another_group,
                       rest_signed_route_rejects_key_of_another_group
options                authOptions_prev_last_wins, authOptions_callback_irrelevant, authOptions_no_prev,
                       authorize_with_options_runs_iff, overridden_prev_secret_is_refused
user callbacks         contentSecurity_strictness_only_matters_on_failure, cs_with_callbacks_runs_only_if_signature_covers_request
both gates             rest_route_behind_both_gates_needs_both
fail closed            unloadable_key_binds_nothing, loadDecrypters_fails_on_any_unloadable_key, verifierFor_ok
rest monitor           rest_monitor_sound, authorize_ctx_forwarded
converse               cs_complete_monitor_sound, csCovers_verifies, cryptionHandler_not_403, jwt_complete_monitor_sound, jwt_valid_credential_runs_handler, rest_valid_request_reaches_handler
-/
import GoZero.C18.PropsRest
namespace GoZero.C18

/-! ## the decrypters of a route group -/

def ldStep {D : Type} (load : String → Option D) (acc : Option (List (String × D))) (k : KeyConf) :
    Option (List (String × D)) :=
  acc.bind fun m => (load k.2).map fun d => m ++ [(k.1, d)]

theorem loadDecrypters_eq {D : Type} (load : String → Option D) (keys : List KeyConf) :
    loadDecrypters load keys = keys.foldl (ldStep load) (some []) := rfl

theorem loadDecrypters_failed_stays_failed {D : Type} (load : String → Option D) (keys : List KeyConf) :
    keys.foldl (ldStep load) none = none := by
  induction keys with
  | nil => rfl
  | cons k ks ih => simpa [List.foldl, ldStep] using ih

theorem loadDecrypters_fingerprints_from {D : Type} (load : String → Option D) (keys : List KeyConf) (m0 m : List (String × D))
    (h : keys.foldl (ldStep load) (some m0) = some m) : m.map (·.1) = m0.map (·.1) ++ keys.map (·.1) := by
  induction keys generalizing m0 with
  | nil => simp at h; subst h; simp
  | cons k ks ih =>
    simp only [List.foldl_cons] at h
    cases hl : load k.2 with
    | none =>
      have : ldStep load (some m0) k = none := by simp [ldStep, hl]
      rw [this, loadDecrypters_failed_stays_failed] at h
      exact absurd h (by simp)
    | some d =>
      have : ldStep load (some m0) k = some (m0 ++ [(k.1, d)]) := by simp [ldStep, hl]
      rw [this] at h
      rw [ih _ h]
      simp

/-- the map a group's gate is handed has exactly one entry per key of the group's OWN list, in order: nothing else
(nothing of the engine, nothing of another group) is in it -/
theorem loadDecrypters_fingerprints {D : Type} (load : String → Option D) (keys : List KeyConf) (m : List (String × D))
    (h : loadDecrypters load keys = some m) : m.map (·.1) = keys.map (·.1) := by
  rw [loadDecrypters_eq] at h
  simpa using loadDecrypters_fingerprints_from load keys [] m h

/-- a fingerprint the group did not configure has no decrypter — whichever other group of the server configured it -/
theorem foreign_fingerprint_has_no_decrypter {D : Type} (load : String → Option D) (keys : List KeyConf)
    (m : List (String × D)) (fp : String) (hfp : fp ∉ keys.map (·.1)) (h : loadDecrypters load keys = some m) :
    decrypterOf m fp = none := by
  have hm := loadDecrypters_fingerprints load keys m h
  unfold decrypterOf
  have : m.reverse.find? (·.1 = fp) = none := by
    rw [List.find?_eq_none]
    intro x hx hxe
    apply hfp
    rw [← hm]
    have hx' : x ∈ m := by simpa using hx
    have : x.1 = fp := by simpa using hxe
    rw [← this]
    exact List.mem_map.mpr ⟨x, hx', rfl⟩
  rw [this]; rfl

/-- a fingerprint configured twice: the later key file is the one in force -/
theorem decrypterOf_last_wins {D : Type} (m : List (String × D)) (fp : String) (d : D) :
    decrypterOf (m ++ [(fp, d)]) fp = some d := by
  simp [decrypterOf]

/-- the decrypters of every group of a server: each loaded from ITS OWN key list -/
def serverDecrypters {D : Type} (load : String → Option D) (groups : List (List KeyConf)) :
    List (Option (List (String × D))) := groups.map (loadDecrypters load)

/-- non-interference: what group `i` verifies against does not depend on which other groups the server has, nor on
their keys, nor on the order in which they were added -/
theorem decrypters_of_a_group_ignore_the_other_groups {D : Type} (load : String → Option D)
    (gs1 gs2 : List (List KeyConf)) (i j : Nat) (h : gs1[i]? = gs2[j]?) :
    (serverDecrypters load gs1)[i]? = (serverDecrypters load gs2)[j]? := by
  simp [serverDecrypters, h]

/-- the gate of a group, strict, for a method it checks: a header whose fingerprint is not one of the GROUP's own is
refused with 403 and the handler does not run — for every secret, signature, body and framing, and whatever RSA does -/
theorem cs_rejects_fingerprint_of_another_group {D : Type} (C : BlockCipher) (env : CsEnv) (cfg : CsCfg) (req : CsReq)
    (inner : Inner) (load : String → Option D) (dec : D → String → Option String) (keys : List KeyConf)
    (m : List (String × D)) (hload : loadDecrypters load keys = some m) (henv : env.rsa = groupRsa dec m)
    (hstrict : cfg.strict = true) (hg : gatedMethods.contains req.method = true)
    (hfp : (headerTriple req).1 ∉ keys.map (·.1)) :
    contentSecurity C env cfg req inner = { ran := false, status := 403 } := by
  have hno := foreign_fingerprint_has_no_decrypter load keys m _ hfp hload
  have hp : ∃ e, parseContentSecurity env req = .error e := by
    unfold parseContentSecurity
    simp only []
    by_cases h : (headerTriple req).1.isEmpty = true ∨ (headerTriple req).2.1.isEmpty = true ∨ (headerTriple req).2.2.isEmpty = true
    · exact ⟨_, if_pos h⟩
    · rw [if_neg h, henv]
      simp only [groupRsa, hno]
      exact ⟨_, rfl⟩
  obtain ⟨e, he⟩ := hp
  unfold contentSecurity
  rw [if_pos hg, he]
  simp [verificationFailure, hstrict]

/-- END TO END, for a server with ANY groups: a route of group `i` registered `WithSignature` (strict, with keys) — any base
chain, any middlewares, any other options — does not run its handler for a request whose header names a fingerprint that
is not among group `i`'s own keys, even when another group `j` of the same server configured exactly that key. -/
theorem rest_signed_route_rejects_key_of_another_group {D : Type} (custom : Option (List String)) (mw : MwConf)
    (opts : List RouteOption) (uses chn : List String) (C : BlockCipher) (env : CsEnv) (cfg : CsCfg) (req : CsReq)
    (inner : Inner) (others : String → Option Nat) (load : String → Option D) (dec : D → String → Option String)
    (groups : List (List KeyConf)) (i : Nat) (keys : List KeyConf) (m : List (String × D))
    (hi : groups[i]? = some keys) (hload : (serverDecrypters load groups)[i]? = some (some m))
    (henv : env.rsa = groupRsa dec m)
    (hs : (applyOptions opts).sig = true) (hk : (applyOptions opts).sigKeys = true)
    (hstrict : cfg.strict = true) (hg : gatedMethods.contains req.method = true)
    (hfp : (headerTriple req).1 ∉ keys.map (·.1))
    (hb : bindRoute custom mw (applyOptions opts) uses = some chn) :
    (runChain (fun n => if n = contentSecurityName then respVerdict (contentSecurity C env cfg req inner)
                        else others n) chn).ran = false := by
  have hl : loadDecrypters load keys = some m := by
    simp only [serverDecrypters, List.getElem?_map, hi, Option.map_some] at hload
    exact Option.some.inj hload
  have hrej := cs_rejects_fingerprint_of_another_group C env cfg req inner load dec keys m hl henv hstrict hg hfp
  have hin := signature_gate_in_every_chain custom mw _ uses chn hs hk hb
  cases hr : (runChain (fun n => if n = contentSecurityName then respVerdict (contentSecurity C env cfg req inner)
                        else others n) chn).ran with
  | false => rfl
  | true =>
    have := (runChain_ran_iff _ chn).mp hr contentSecurityName hin
    simp [respVerdict, hrej] at this

/-! ## the option list of `Authorize`: for EVERY list of options -/

/-- the last `WithPrevSecret` wins, whatever came before it -/
theorem authOptions_prev_last_wins (opts : List AuthOption) (s : String) :
    (authOptions (opts ++ [.prevSecret s])).prev = s := by
  simp [authOptions, List.foldl_append, AuthOption.apply]

/-- a callback option — wherever it stands in the list — does not touch the previous secret -/
theorem authOptions_callback_irrelevant (pre post : List AuthOption) (b : Bool) :
    (authOptions (pre ++ .callback b :: post)).prev = (authOptions (pre ++ post)).prev := by
  unfold authOptions
  rw [List.foldl_append, List.foldl_append, List.foldl_cons]
  generalize List.foldl AuthOption.apply {} pre = o
  have key : ∀ (l : List AuthOption) (o1 o2 : AuthOpts), o1.prev = o2.prev →
      (l.foldl AuthOption.apply o1).prev = (l.foldl AuthOption.apply o2).prev := by
    intro l
    induction l with
    | nil => intro o1 o2 h; exact h
    | cons a t ih =>
      intro o1 o2 h
      simp only [List.foldl_cons]
      apply ih
      cases a <;> simp [AuthOption.apply, h]
  exact key post _ _ rfl

/-- without any `WithPrevSecret` no previous secret is in force -/
theorem authOptions_no_prev (opts : List AuthOption) (h : ∀ o ∈ opts, ∃ b, o = .callback b) :
    (authOptions opts).prev = "" := by
  unfold authOptions
  have key : ∀ (l : List AuthOption) (o : AuthOpts), (∀ x ∈ l, ∃ b, x = .callback b) → (l.foldl AuthOption.apply o).prev = o.prev := by
    intro l
    induction l with
    | nil => intro o _; rfl
    | cons a t ih =>
      intro o hl
      simp only [List.foldl_cons]
      rw [ih _ (fun x hx => hl x (by simp [hx]))]
      obtain ⟨b, hb⟩ := hl a (by simp)
      subst hb; rfl
  exact key opts {} h

/-- J1 over the WHOLE constructor space: `Authorize(secret, opts...)` with ANY option list runs the handler exactly for a
credential that is valid under `secret` or under the previous secret IN FORCE after the options were applied -/
theorem authorize_with_options_runs_iff {V : Type} (f : TokenFacts V) (now : Int) (h : Hist) (secret : String)
    (opts : List AuthOption) (clock : Int) :
    (authorizeWith (jwtVerify f now) h secret opts clock).2.ran = credentialOk f now secret (authOptions opts).prev := by
  unfold authorizeWith
  exact jwt_handler_runs_iff_valid_credential f now h secret _ clock

/-- a secret named by an OVERRIDDEN `WithPrevSecret` is worth nothing: a token that verifies only under it is refused -/
theorem overridden_prev_secret_is_refused {V : Type} (f : TokenFacts V) (now : Int) (h : Hist) (secret disc prev : String)
    (pre : List AuthOption) (clock : Int) (h1 : f.sigOk secret = false) (h2 : f.sigOk prev = false) :
    (authorizeWith (jwtVerify f now) h secret (pre ++ [.prevSecret disc, .prevSecret prev]) clock).2.ran = false := by
  rw [authorize_with_options_runs_iff]
  have : (authOptions (pre ++ [.prevSecret disc, .prevSecret prev])).prev = prev := by
    have := authOptions_prev_last_wins (pre ++ [.prevSecret disc]) prev
    simpa using this
  rw [this]
  simp [credentialOk, h1, h2]

/-- a rejected request is answered 401 unless the user's callback answered first -/
theorem unauthorized_default_401 : unauthorizedStatus none = 401 := rfl

example : authOptions [.prevSecret "a", .callback true, .prevSecret "b"] = { prev := "b", callback := true } := by decide
example : authOptions [.callback false] = { prev := "", callback := false } := by decide

/-! ## the converse direction: valid credentials reach the handler -/

/-- the completeness monitor never fires on what the model does: the gate turns away ONLY requests without a valid
credential (for every token, time, history, secret pair and clock) -/
theorem jwt_complete_monitor_sound {V : Type} (f : TokenFacts V) (now : Int) (h : Hist) (secret prev : String) (clock : Int) :
    jwtCompleteMonitor f now secret prev (authorize (jwtVerify f now) h secret prev clock).2 = none := by
  have hiff := jwt_handler_runs_iff_valid_credential f now h secret prev clock
  unfold jwtCompleteMonitor
  rw [← hiff]
  cases (authorize (jwtVerify f now) h secret prev clock).2.ran <;> simp

/-- a valid credential is accepted whatever the history counters say and whichever of the two secrets signed it:
`Authorize(secret, WithPrevSecret(prev))` runs the handler for every token that is valid under `secret` or under a
non-empty `prev` -/
theorem jwt_valid_credential_runs_handler {V : Type} (f : TokenFacts V) (now : Int) (h : Hist) (secret prev : String)
    (clock : Int) (hc : credentialOk f now secret prev = true) :
    (authorize (jwtVerify f now) h secret prev clock).2.ran = true := by
  rw [jwt_handler_runs_iff_valid_credential]; exact hc

/-- a covering signature passes both steps of the gate -/
theorem csCovers_verifies (env : CsEnv) (cfg : CsCfg) (req : CsReq) (hu : req.uri = "")
    (hc : csCovers env cfg req = true) :
    ∃ h, parseContentSecurity env req = .ok h ∧ verifySignature env cfg.tol req h = 0 := by
  unfold csCovers at hc
  cases hp : parseContentSecurity env req with
  | error e => simp [hp] at hc
  | ok h =>
    simp only [hp] at hc
    cases hts : parseInt64 h.timestamp with
    | none => simp [hts] at hc
    | some s =>
      simp only [hts, Bool.and_eq_true, Bool.not_eq_true', decide_eq_true_eq] at hc
      refine ⟨h, rfl, ?_⟩
      unfold verifySignature
      simp only [hts, hc.1, pathQuery_no_uri env req hu]
      simp [← hc.2]

theorem decryptAndServe_not_403 (C : BlockCipher) (key content : Bytes) (inner : Inner)
    (h : (decryptAndServe C key content inner).ran = false) : (decryptAndServe C key content inner).status ≠ 403 := by
  unfold decryptAndServe at h ⊢
  cases hb : b64Decode (bytesToString content) with
  | none => simp
  | some ct =>
    simp only [hb] at h ⊢
    cases hd : ecbDecrypt C key ct with
    | ok p =>
      simp only [hd] at h
      rw [(flushResp_ran_seen C key p (inner p)).1] at h
      exact absurd h (by simp)
    | keyErr => simp
    | panic => simp
    | padErr => simp

/-- `LimitCryptionHandler` never answers 403: when it does not call the handler the answer is 400 (or a panic) -/
theorem cryptionHandler_not_403 (C : BlockCipher) (limit : Int) (key : Bytes) (cl : Int) (raw : Bytes) (inner : Inner)
    (h : (cryptionHandler C limit key cl raw inner).ran = false) : (cryptionHandler C limit key cl raw inner).status ≠ 403 := by
  rw [cryptionHandler_eq_viaRead] at h ⊢
  unfold cryptionHandlerViaRead at h ⊢
  by_cases h0 : cl = 0
  · rw [if_pos h0] at h
    rw [(flushResp_ran_seen C key raw (inner raw)).1] at h
    exact absurd h (by simp)
  · rw [if_neg h0] at h ⊢
    cases hr : readBody limit cl raw with
    | none => simp
    | some c =>
      simp only [hr] at h ⊢
      by_cases he : c.isEmpty = true
      · rw [if_pos he] at h
        rw [(flushResp_ran_seen C key [] (inner [])).1] at h
        exact absurd h (by simp)
      · rw [if_neg he] at h ⊢
        exact decryptAndServe_not_403 C key c inner h

/-- the completeness monitor of the signature gate never fires on the model: a request whose signature covers it is
never refused with 403 — for every configuration (strict or not), framing, body, key and cipher -/
theorem cs_complete_monitor_sound (C : BlockCipher) (env : CsEnv) (cfg : CsCfg) (req : CsReq) (inner : Inner) :
    csCompleteMonitor env cfg req (contentSecurity C env cfg req inner) = none := by
  unfold csCompleteMonitor
  apply if_neg
  rintro ⟨hg, hu, hc, hran, _, hst⟩
  have hu' : req.uri = "" := by simpa using hu
  have hran' : (contentSecurity C env cfg req inner).ran = false := by simpa using hran
  obtain ⟨h, hp, hv⟩ := csCovers_verifies env cfg req hu' hc
  unfold contentSecurity at hran' hst
  rw [if_pos hg] at hran' hst
  simp only [hp, hv, ne_eq, not_true_eq_false, if_false] at hran' hst
  by_cases he : req.cl ≠ 0 ∧ h.contentType = 1
  · rw [if_pos he] at hran' hst
    exact cryptionHandler_not_403 C cfg.limit h.key req.cl req.body inner hran' hst
  · rw [if_neg he] at hran'
    simp [plainNext] at hran'

/-- at the level of a server, for EVERY base chain, `Use` list and option set: when every middleware of the base chain,
every gate the route declared and every `Use` middleware passes the request on, the route's handler runs -/
theorem rest_valid_request_reaches_handler (custom : Option (List String)) (m : MwConf) (o : RouteOpts)
    (uses chn : List String) (v : String → Option Nat) (hb : bindRoute custom m o uses = some chn)
    (hbase : ∀ n ∈ custom.getD (nativeChain m), v n = none) (hgates : ∀ g ∈ gatesOf o, v g = none)
    (huses : ∀ n ∈ uses, v n = none) : (runChain v chn).ran = true := by
  rw [bindRoute_chain custom m o uses chn hb]
  apply (runChain_ran_iff v _).mpr
  intro n hn
  simp only [List.mem_append] at hn
  rcases hn with (hn | hn) | hn
  · exact hbase n hn
  · exact hgates n hn
  · exact huses n hn

private def exValidFacts : TokenFacts String :=
  { present := true, segs := 3, hdrOk := true, clmOk := true, alg := some "HS256", sigOk := fun s => s = "k",
    exp := .at 10, nbf := .absent, iat := .absent, claims := [] }

/-- the monitor clause fires on a rejected valid token and is silent on an accepted one -/
example : jwtCompleteMonitor exValidFacts 5 "k" "" { ran := false, status := 401, ctx := [] } ≠ none := by decide
example : jwtCompleteMonitor exValidFacts 5 "k" "" { ran := true, status := 200, ctx := [] } = none := by decide
example : restCompleteMonitor { jwt := true } true true false true false 401 ≠ none := by decide
example : restCompleteMonitor { jwt := true } true false false true false 401 = none := by decide

/-! ## `restMonitor` is silent on the model -/

theorem filter_mem_nil (l uses : List String) (h : ∀ n ∈ l, n ∉ uses) : l.filter (fun n => uses.contains n) = [] := by
  rw [List.filter_eq_nil_iff]
  intro n hn
  simpa using h n hn

theorem filter_mem_self (uses : List String) : uses.filter (fun n => uses.contains n) = uses := by
  rw [List.filter_eq_self]
  intro n hn
  simpa using hn

theorem gatesOf_not_in_uses (o : RouteOpts) (uses : List String) (hu1 : authorizeName ∉ uses) (hu2 : contentSecurityName ∉ uses) :
    ∀ n ∈ gatesOf o, n ∉ uses := by
  intro n hn
  unfold gatesOf at hn
  simp only [List.mem_append] at hn
  rcases hn with hn | hn
  · by_cases hj : o.jwt = true
    · simp [hj] at hn; subst hn; exact hu1
    · simp [hj] at hn
  · by_cases hs : o.sig = true ∧ o.sigKeys = true
    · simp [hs] at hn; subst hn; exact hu2
    · simp [hs] at hn

/-- the model's context on an accepted request is what the monitor demands -/
theorem authorize_ctx_forwarded {V : Type} [DecidableEq V] (f : TokenFacts V) (now : Int) (h : Hist) (secret prev : String)
    (clock : Int) (hr : (authorize (jwtVerify f now) h secret prev clock).2.ran = true) :
    (authorize (jwtVerify f now) h secret prev clock).2.ctx = forwarded f.claims := by
  have hm := jwt_monitor_sound f now h secret prev clock
  have hc : credentialOk f now secret prev = true := by
    rw [← jwt_handler_runs_iff_valid_credential f now h secret prev clock]; exact hr
  unfold jwtMonitor at hm
  simp only [hr, hc, if_true, Bool.not_true, Bool.false_eq_true, if_false] at hm
  by_cases he : (authorize (jwtVerify f now) h secret prev clock).2.ctx = forwarded f.claims
  · exact he
  · simp [he] at hm

/-- `restMonitor` never fires on the model: for EVERY base chain (user chain or native one under every switch setting),
`Use` list, option set, token, clock, history and signature verdict (default callbacks) -/
theorem rest_monitor_sound {V : Type} [DecidableEq V] (custom : Option (List String)) (m : MwConf) (o : RouteOpts)
    (uses chn : List String) (f : TokenFacts V) (now : Int) (h : Hist) (secret prev : String) (clock : Int)
    (gated covered : Bool)
    (hb : bindRoute custom m o uses = some chn)
    (hbase : ∀ n ∈ custom.getD (nativeChain m), n ≠ authorizeName ∧ n ≠ contentSecurityName ∧ n ∉ uses)
    (hu1 : authorizeName ∉ uses) (hu2 : contentSecurityName ∉ uses) :
    restMonitor o gated (credentialOk f now secret prev) covered f.claims uses.length
      (restServe o uses chn (authorize (jwtVerify f now) h secret prev clock).2 (csGateVerdict o.sigStrict false gated covered)).ran
      (restServe o uses chn (authorize (jwtVerify f now) h secret prev clock).2 (csGateVerdict o.sigStrict false gated covered)).status
      (restServe o uses chn (authorize (jwtVerify f now) h secret prev clock).2 (csGateVerdict o.sigStrict false gated covered)).ctx
      (restServe o uses chn (authorize (jwtVerify f now) h secret prev clock).2 (csGateVerdict o.sigStrict false gated covered)).usesRan
      = none := by
  generalize hout : (authorize (jwtVerify f now) h secret prev clock).2 = out
  generalize hcs : csGateVerdict o.sigStrict false gated covered = cs
  have hne : contentSecurityName ≠ authorizeName := by decide
  have hvbase : ∀ n ∈ custom.getD (nativeChain m), gateVerdict (authVerdict out) cs n = none := by
    intro n hn; obtain ⟨h1, h2, _⟩ := hbase n hn; simp [gateVerdict, h1, h2]
  have hvuses : ∀ n ∈ uses, gateVerdict (authVerdict out) cs n = none := by
    intro n hn
    have h1 : n ≠ authorizeName := fun e => hu1 (e ▸ hn)
    have h2 : n ≠ contentSecurityName := fun e => hu2 (e ▸ hn)
    simp [gateVerdict, h1, h2]
  have hchn := bindRoute_chain custom m o uses chn hb
  have hcred : out.ran = credentialOk f now secret prev := by
    rw [← hout]; exact jwt_handler_runs_iff_valid_credential f now h secret prev clock
  by_cases hall : ∀ g ∈ gatesOf o, gateVerdict (authVerdict out) cs g = none
  · have hrun : runChain (gateVerdict (authVerdict out) cs) chn = { saw := chn, ran := true, status := 200 } := by
      apply runChain_all_pass
      intro n hn; rw [hchn] at hn; simp only [List.mem_append] at hn
      rcases hn with (hn | hn) | hn
      · exact hvbase n hn
      · exact hall n hn
      · exact hvuses n hn
    have hfilter : (chn.filter fun n => uses.contains n) = uses := by
      rw [hchn, List.filter_append, List.filter_append,
        filter_mem_nil _ uses (fun n hn => (hbase n hn).2.2),
        filter_mem_nil _ uses (gatesOf_not_in_uses o uses hu1 hu2), filter_mem_self]
      simp
    unfold restServe restMonitor
    simp only [hrun, hfilter, if_true, Bool.true_and]
    -- the jwt gate passed ⇒ the credential is valid and the context is the forwarded claims
    have hj : o.jwt = true → out.ran = true := by
      intro hj
      have := hall authorizeName (by simp [gatesOf, hj])
      simp only [gateVerdict, if_true, authVerdict] at this
      by_cases hr : out.ran = true
      · exact hr
      · simp [hr] at this
    have hs : (o.sig = true ∧ o.sigKeys = true) → cs = none := by
      intro hs
      have := hall contentSecurityName (by simp [gatesOf, hs])
      simpa [gateVerdict, hne] using this
    by_cases hjwt : o.jwt = true
    · have hr := hj hjwt
      have hctx : out.ctx = forwarded f.claims := by
        rw [← hout] at hr ⊢; exact authorize_ctx_forwarded f now h secret prev clock hr
      have hc : credentialOk f now secret prev = true := by rw [← hcred]; exact hr
      by_cases hsig : o.sig = true ∧ o.sigKeys = true ∧ o.sigStrict = true ∧ gated = true ∧ covered = false
      · exfalso
        have := hs ⟨hsig.1, hsig.2.1⟩
        rw [← hcs] at this
        simp [csGateVerdict, hsig.2.2.1, hsig.2.2.2.1, hsig.2.2.2.2] at this
      · simp [hjwt, hc, hctx]
        intro a b c d
        cases covered <;> simp_all
    · have hjf : o.jwt = false := by simpa using hjwt
      by_cases hsig : o.sig = true ∧ o.sigKeys = true ∧ o.sigStrict = true ∧ gated = true ∧ covered = false
      · exfalso
        have := hs ⟨hsig.1, hsig.2.1⟩
        rw [← hcs] at this
        simp [csGateVerdict, hsig.2.2.1, hsig.2.2.2.1, hsig.2.2.2.2] at this
      · simp [hjf]
        intro a b c d
        cases covered <;> simp_all
  · -- a gate answers the request
    have hrej : ∃ g ∈ gatesOf o, gateVerdict (authVerdict out) cs g ≠ none := by
      simpa using hall
    obtain ⟨hran, hsaw⟩ := rest_use_middlewares_are_behind_the_gates custom m o uses chn _ hb hvbase hrej
    have hfilter : ((runChain (gateVerdict (authVerdict out) cs) chn).saw.filter fun n => uses.contains n) = [] := by
      apply filter_mem_nil
      intro n hn
      have := hsaw n hn
      simp only [List.mem_append] at this
      rcases this with this | this
      · exact (hbase n this).2.2
      · exact gatesOf_not_in_uses o uses hu1 hu2 n this
    unfold restServe restMonitor
    simp only [hran, hfilter, Bool.false_eq_true, if_false, List.length_nil]
    have hg : ¬ (o.jwt = false ∧ ¬ (o.sig = true ∧ o.sigKeys = true)) := by
      rintro ⟨h1, h2⟩
      obtain ⟨g, hg, _⟩ := hrej
      simp [gatesOf, h1, h2] at hg
    by_cases h1 : o.jwt = true
    · simp [h1]
    · have h1' : o.jwt = false := by simpa using h1
      have h2 : o.sig = true ∧ o.sigKeys = true := by
        by_cases h2 : o.sig = true ∧ o.sigKeys = true
        · exact h2
        · exact absurd ⟨h1', h2⟩ hg
      simp [h1', h2.1, h2.2]

/-- a jwt route behind a user chain: a rejected request stops at the gate, no `Use` middleware sees it -/
example : restServe (V := String) { jwt := true } ["use0"] ["cm0", authorizeName, "use0"] { ran := false, status := 401, ctx := [] } none =
    { ran := false, status := 401, ctx := [], usesRan := 0 } := by decide
example : restServe (V := String) { jwt := true } ["use0"] ["cm0", authorizeName, "use0"] { ran := true, status := 200, ctx := [("uid", "1")] } none =
    { ran := true, status := 200, ctx := [("uid", "1")], usesRan := 1 } := by decide

/-! ## user callbacks of the signature gate -/

/-- when the two checks pass, strictness plays no part: the gate does the same in strict and in loose mode -/
theorem contentSecurity_strictness_only_matters_on_failure (C : BlockCipher) (env : CsEnv) (cfg : CsCfg) (req : CsReq)
    (inner : Inner) (b : Bool) (h : csVerificationFails env cfg req = false) :
    contentSecurity C env { cfg with strict := b } req inner = contentSecurity C env cfg req inner := by
  unfold csVerificationFails at h
  unfold contentSecurity
  by_cases hg : gatedMethods.contains req.method = true
  · rw [if_pos hg, if_pos hg]
    simp only [hg, Bool.true_and] at h
    cases hp : parseContentSecurity env req with
    | error e => simp [hp] at h
    | ok hd =>
      simp only [hp] at h
      have hv : verifySignature env cfg.tol req hd = 0 := by simpa using h
      simp [hv]
  · rw [if_neg hg, if_neg hg]

/-- with user callbacks (which replace the default one) the handler runs only when both checks passed — in strict AND in
loose mode; for a checked method without X-Request-Uri that means: only with a covering signature -/
theorem cs_with_callbacks_runs_only_if_signature_covers_request (C : BlockCipher) (env : CsEnv) (cfg : CsCfg) (req : CsReq)
    (inner : Inner) (st : Nat) (hg : gatedMethods.contains req.method = true) (hu : req.uri = "")
    (hran : (contentSecurityWithCallbacks C env cfg req inner st).ran = true) : csCovers env cfg req = true := by
  unfold contentSecurityWithCallbacks at hran
  by_cases hf : csVerificationFails env cfg req = true
  · rw [if_pos hf] at hran; exact absurd hran (by simp)
  · rw [if_neg hf] at hran
    have hf' : csVerificationFails env cfg req = false := by simpa using hf
    rw [← contentSecurity_strictness_only_matters_on_failure C env cfg req inner true hf'] at hran
    have hcov := cs_runs_only_if_signature_covers_request C env { cfg with strict := true } req inner rfl hg hu hran
    unfold csCovers at hcov ⊢
    exact hcov

/-! ## a route behind BOTH gates -/

/-- END TO END over the whole configuration space: a route registered with a jwt option AND `WithSignature` (strict, with
keys) — any order of the options, any other options, any base chain (`WithChain` or native under every switch setting), any
`Server.Use` middlewares — runs its handler only for a request that carries BOTH a valid token and a signature that covers
it (checked method, no X-Request-Uri). -/
theorem rest_route_behind_both_gates_needs_both {V : Type} (custom : Option (List String)) (m : MwConf)
    (opts : List RouteOption) (uses chn : List String) (f : TokenFacts V) (now : Int) (h : Hist) (secret prev : String)
    (clock : Int) (C : BlockCipher) (env : CsEnv) (cfg : CsCfg) (req : CsReq) (inner : Inner) (others : String → Option Nat)
    (hopt : RouteOption.withJwt ∈ opts ∨ ∃ b, RouteOption.withJwtTransition b ∈ opts)
    (hs : (applyOptions opts).sig = true) (hk : (applyOptions opts).sigKeys = true)
    (hstrict : cfg.strict = true) (hg : gatedMethods.contains req.method = true) (hu : req.uri = "")
    (hb : bindRoute custom m (applyOptions opts) uses = some chn)
    (hran : (runChain (fun n => if n = authorizeName then authVerdict (authorize (jwtVerify f now) h secret prev clock).2
                                else if n = contentSecurityName then respVerdict (contentSecurity C env cfg req inner)
                                else others n) chn).ran = true) :
    credentialOk f now secret prev = true ∧ csCovers env cfg req = true := by
  constructor
  · exact rest_jwt_route_runs_only_with_valid_credential custom m opts uses chn f now h secret prev clock
      (fun n => if n = contentSecurityName then respVerdict (contentSecurity C env cfg req inner) else others n) hopt hb hran
  · have hne : contentSecurityName ≠ authorizeName := by decide
    have hfun : (fun n => if n = authorizeName then authVerdict (authorize (jwtVerify f now) h secret prev clock).2
                          else if n = contentSecurityName then respVerdict (contentSecurity C env cfg req inner)
                          else others n)
        = (fun n => if n = contentSecurityName then respVerdict (contentSecurity C env cfg req inner)
                    else (fun k => if k = authorizeName then authVerdict (authorize (jwtVerify f now) h secret prev clock).2
                                   else others k) n) := by
      funext n
      by_cases h1 : n = contentSecurityName
      · subst h1; simp [hne]
      · simp [h1]
    rw [hfun] at hran
    exact rest_signed_route_runs_only_with_covering_signature custom m opts uses chn C env cfg req inner _ hs hk hstrict hg hu hb hran

example : bindRoute (some ["cm0"]) ⟨true, true, true, true, true, true, true, true, true, true, true⟩
    (applyOptions [.withSignature true true, .other, .withJwtTransition false]) ["use0"] =
    some ["cm0", authorizeName, contentSecurityName, "use0"] := by decide

/-! ## configuration errors fail closed -/

/-- a group whose signature setting cannot be realised — strict without keys, or a key file that cannot be loaded — gets
NO verifier: `bindFeaturedRoutes` returns the error and binds none of its routes (they answer 404, never the handler) -/
theorem unloadable_key_binds_nothing {D : Type} (load : String → Option D) (o : RouteOpts) (keys : List KeyConf)
    (hs : o.sig = true) (hk : o.sigKeys = true) (hl : loadDecrypters load keys = none) :
    ∃ e, verifierFor load o keys = .error e := by
  unfold verifierFor
  cases hv : signatureVerifier o with
  | none => exact ⟨_, rfl⟩
  | some v => simp [hs, hk, hl]

/-- one unloadable file among the keys is enough, wherever it stands in the list -/
theorem loadDecrypters_fails_on_any_unloadable_key {D : Type} (load : String → Option D) (pre post : List KeyConf)
    (k : KeyConf) (hk : load k.2 = none) : loadDecrypters load (pre ++ k :: post) = none := by
  rw [loadDecrypters_eq, List.foldl_append, List.foldl_cons]
  cases hp : List.foldl (ldStep load) (some []) pre with
  | none => simp [ldStep, loadDecrypters_failed_stays_failed]
  | some m => simp [ldStep, hk, loadDecrypters_failed_stays_failed]

/-- when a verifier IS returned for a group with keys, every key was loaded and the gate is the one the decision list chose -/
theorem verifierFor_ok {D : Type} (load : String → Option D) (o : RouteOpts) (keys : List KeyConf)
    (v : List String → List String) (h : verifierFor load o keys = .ok v) :
    signatureVerifier o = some v ∧ (o.sig = true → o.sigKeys = true → (loadDecrypters load keys).isSome = true) := by
  unfold verifierFor at h
  cases hv : signatureVerifier o with
  | none => simp [hv] at h
  | some v' =>
    simp only [hv] at h
    by_cases hc : (o.sig && o.sigKeys) = true
    · rw [if_pos hc] at h
      cases hl : loadDecrypters load keys with
      | none => simp [hl] at h
      | some m =>
        simp only [hl] at h
        injection h with h
        exact ⟨by rw [h], fun _ _ => rfl⟩
    · rw [if_neg hc] at h
      injection h with h
      refine ⟨by rw [h], fun h1 h2 => ?_⟩
      simp [h1, h2] at hc

example : (verifierFor (fun f => if f = "missing" then none else some f) { sig := true, sigKeys := true, sigStrict := true } [("good", "missing")]).isOk = false := by decide

/-! ### non-vacuity -/

/-- two groups with their own keys; the fingerprint of the second is unknown to the first -/
example : (serverDecrypters (fun f => some f) [[("good", "k1")], [("alt", "k2")]]) =
    [some [("good", "k1")], some [("alt", "k2")]] := by decide
example : decrypterOf [("good", "k1")] "alt" = none := by decide
example : decrypterOf [("good", "k2"), ("good", "k1")] "good" = some "k1" := by decide
example : loadDecrypters (fun f => if f = "missing" then none else some f) [("a", "k1"), ("b", "missing")] = none := by decide

end GoZero.C18
