/-
C18 — Tie: what the extractor read from the go-zero working tree *now* equals what the model was written against.
-/
import GoZero.Extracted.C18
import GoZero.C18.Model
namespace GoZero.C18.Tie
open GoZero.C18
open GoZero.Extracted.C18

theorem extraction_clean : extractionErrors = [] := by decide

end GoZero.C18.Tie
