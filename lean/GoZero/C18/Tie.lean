/-
C18 — Tie: what the extractor read from the go-zero working tree *now* equals what the model was written against.
A failing obligation here means the code moved away from the model (or the fix in fixes/ is not applied).
-/
import GoZero.Extracted.C18
import GoZero.C18.Model
namespace GoZero.C18.Tie
open GoZero.C18
open GoZero.Extracted.C18

theorem extraction_clean : extractionErrors = [] := by decide

/-! ### constants -/

/-- the seven registered claim names `Authorize` drops are the model's `standardClaims` -/
theorem tie_standardClaims :
    [jwtAudience, jwtExpire, jwtId, jwtIssueAt, jwtIssuer, jwtNotBefore, jwtSubject] = standardClaims := by decide

theorem tie_resetDuration : claimHistoryResetDuration = ({} : Hist).resetDuration := by decide

/-- 24 h, the property's number -/
theorem tie_resetDuration_24h : claimHistoryResetDuration = 24 * 3600 * 1000000000 := by decide

theorem tie_headerNames : contentSecurityHeader = "X-Content-Security" ∧ httpxContentSecurity = "X-Content-Security"
    ∧ requestUriHeader = "X-Request-Uri" := by decide

/-- the field names `parseContentSecurity` looks up -/
theorem tie_fieldNames : keyField = "key" ∧ secretField = "secret" ∧ signatureField = "signature"
    ∧ timeField = "time" ∧ typeField = "type" := by decide

theorem tie_cryptionType : cryptionType = 1 := by decide

/-- the codes `verifySignature` returns -/
theorem tie_codes : codeSignaturePass = 0 ∧ codeSignatureInvalidHeader = 1 ∧ codeSignatureWrongTime = 2
    ∧ codeSignatureInvalidToken = 3 := by decide

theorem tie_maxBytes : maxBytes = 1048576 := by decide

/-! ### translated conditions and arithmetic -/

/-- `seconds+toleranceSeconds < now || now+toleranceSeconds < seconds` is the model's window, and the window is
`|now − seconds| ≤ tolerance` -/
theorem tie_outsideWindow (s t n : Int) : Extracted.C18.outsideWindow s t n = GoZero.C18.outsideWindow s t n := rfl

theorem window_is_tolerance (s t n : Int) :
    GoZero.C18.outsideWindow s t n = false ↔ (n - s ≤ t ∧ s - n ≤ t) := by
  unfold GoZero.C18.outsideWindow
  simp only [Bool.or_eq_false_iff, decide_eq_false_iff_not]
  omega

/-- the rejection test of `pkcs5Unpadding` is the one in the model's `unpad` -/
theorem tie_unpadRejects (u len bs : Nat) :
    unpadRejects u len bs = decide (u > len ∨ u > bs) := by
  unfold unpadRejects
  simp only [Bool.decide_or]
  congr 1 <;> simp

theorem tie_unpadKeep (len u : Nat) (h : u ≤ len) : unpadKeep len u = ((len - u : Nat) : Int) := by
  unfold unpadKeep; omega

/-- `padding := blockSize - len%blockSize` is the model's pad length -/
theorem tie_padLen (bs len : Nat) (hbs : 0 < bs) : padLen bs len = ((bs - len % bs : Nat) : Int) := by
  unfold padLen
  rw [Int.tmod_eq_emod_of_nonneg (by omega)]
  have h := Nat.le_of_lt (Nat.mod_lt len hbs)
  have e : ((len : Int) % (bs : Int)) = ((len % bs : Nat) : Int) := by norm_cast
  rw [e]; omega

theorem tie_lengthExceeded (limit cl : Int) : lengthExceeded limit cl = decide (limit > 0 ∧ cl > limit) := by
  unfold lengthExceeded
  simp [Bool.decide_and]

/-- `count > prevCount` chooses the current secret first — the model's `firstSecond` -/
theorem tie_currentFirst (h : Hist) (secret prev : String) :
    firstSecond h secret prev =
      if currentFirst (h.count secret) (h.count prev) then (secret, prev) else (prev, secret) := by
  unfold firstSecond currentFirst
  by_cases hc : h.count secret > h.count prev
  · have : ((h.count secret : Nat) : Int) > ((h.count prev : Nat) : Int) := by omega
    simp [hc, this]
  · have : ¬ ((h.count secret : Nat) : Int) > ((h.count prev : Nat) : Int) := by omega
    simp [hc, this]

theorem tie_historyExpired (rt rd now : Int) : historyExpired rt rd now = decide (rt + rd < now) := rfl

/-! ### statement skeletons -/

/-- `Authorize`: ParseToken → on error / `!tok.Valid` / claims not a map: `unauthorized` and return; the switch that drops the seven registered claim names; `next.ServeHTTP` last -/
theorem tie_authorizeShape : authorizeShape =
    ["range opts {", "call opt", "}", "call token.NewTokenParser", "func{", "func{", "call parser.ParseToken",
     "if err != nil {", "call unauthorized", "return", "}", "if !tok.Valid {", "call unauthorized", "return",
     "}", "if !ok {", "call unauthorized", "return", "}", "call r.Context", "range claims {", "switch k {",
     "case jwtAudience, jwtExpire, jwtId, jwtIssueAt, jwtIssuer, jwtNotBefore, jwtSubject:", "default:",
     "call context.WithValue", "}", "}", "call r.WithContext", "call next.ServeHTTP", "}",
     "call http.HandlerFunc", "return", "}", "return"] := by decide

/-- `unauthorized`: callback first, then `WriteHeader` (401) on the header-once writer -/
theorem tie_unauthorizedShape : unauthorizedShape =
    ["call response.NewHeaderOnceResponseWriter", "if err != nil {", "call err.Error", "call detailAuthLog",
     "}", "else{", "call detailAuthLog", "}", "if callback != nil {", "call callback", "}",
     "call writer.WriteHeader"] := by decide

/-- `ParseToken`: two counts, the first/second choice, second attempt only after the first failed, increment of the one that succeeded; single attempt without previous secret -/
theorem tie_parseTokenShape : parseTokenShape =
    ["if len(prevSecret) > 0 {", "call tp.loadCount", "call tp.loadCount", "if count > prevCount {", "}",
     "else{", "}", "call tp.doParseToken", "if err != nil {", "call tp.doParseToken", "if err != nil {",
     "return", "}", "call tp.incrementCount", "}", "else{", "call tp.incrementCount", "}", "}", "else{",
     "call tp.doParseToken", "if err != nil {", "return", "}", "}", "return"] := by decide

/-- `doParseToken`: `request.ParseFromRequest` with the key function returning the secret bytes and go-zero's parser -/
theorem tie_doParseTokenShape : doParseTokenShape =
    ["func{", "call ?", "return", "}", "call request.WithParser", "call request.ParseFromRequest", "return"] := by decide

/-- `newParser`: `jwt.NewParser(jwt.WithJSONNumber())` — no option that skips claims validation or restricts nothing -/
theorem tie_newParserShape : newParserShape =
    ["call jwt.WithJSONNumber", "call jwt.NewParser", "return"] := by decide

/-- `incrementCount`: reset test, delete-all, then add or store -/
theorem tie_incrementCountShape : incrementCountShape =
    ["call timex.Now", "if tp.resetTime+tp.resetDuration < now {", "func{", "call tp.history.Delete", "return",
     "}", "call tp.history.Range", "}", "call tp.history.Load", "if ok {", "call atomic.AddUint64", "}",
     "else{", "call tp.history.Store", "}"] := by decide

/-- `LimitContentSecurityHandler`: the method switch (DELETE, GET, POST, PUT), parse → verify → cryption (any request
with a body, `ContentLength != 0`, after fixes/C18-chunked-body.patch) or next; `default:` calls next -/
theorem tie_contentSecurityShape : contentSecurityShape =
    ["if len(callbacks) == 0 {", "}", "func{", "func{", "switch r.Method {",
     "case http.MethodDelete, http.MethodGet, http.MethodPost, http.MethodPut:",
     "call security.ParseContentSecurity", "if err != nil {", "call r.Context", "call r.Header.Get",
     "call err.Error", "call logc.Errorf", "call executeCallbacks", "}", "else{",
     "call security.VerifySignature", "if code != httpx.CodeSignaturePass {", "call r.Context",
     "call r.Header.Get", "call logc.Errorf", "call executeCallbacks", "}", "else{",
     "if r.ContentLength != 0 && header.Encrypted() {", "call ?",
     "call LimitCryptionHandler(limitBytes, header.Key)(next).ServeHTTP", "}", "else{", "call next.ServeHTTP",
     "}", "}", "}", "default:", "call next.ServeHTTP", "}", "}", "call http.HandlerFunc", "return", "}",
     "return"] := by decide

/-- `executeCallbacks` -/
theorem tie_executeCallbacksShape : executeCallbacksShape =
    ["range callbacks {", "call callback", "}"] := by decide

/-- `handleVerificationFailure`: strict ⇒ `WriteHeader` (403) and nothing else -/
theorem tie_verificationFailureShape : verificationFailureShape =
    ["if strict {", "call w.WriteHeader", "}", "else{", "call next.ServeHTTP", "}"] := by decide

/-- `ParseContentSecurity`: empty-field test, decrypter lookup, decrypt, second ParseHeader, key decoding, Atoi -/
theorem tie_parseContentSecurityShape : parseContentSecurityShape =
    ["call r.Header.Get", "call httpx.ParseHeader",
     "if len(fingerprint) == 0 || len(secret) == 0 || len(signature) == 0 {", "return", "}", "if !ok {",
     "return", "}", "call decrypter.DecryptBase64", "if err != nil {", "return", "}", "call httpx.ParseHeader",
     "call base64.StdEncoding.DecodeString", "if err != nil {", "return", "}", "if err != nil {", "return",
     "}", "return"] := by decide

/-- `VerifySignature`: ParseInt, window, getPathQuery, body digest, HmacBase64, comparison -/
theorem tie_verifySignatureShape : verifySignatureShape =
    ["if err != nil {", "return", "}", "call tolerance.Seconds",
     "if seconds+toleranceSeconds < now || now+toleranceSeconds < seconds {", "return", "}",
     "call getPathQuery", "call computeBodySignature", "call codec.HmacBase64",
     "if securityHeader.Signature == actualSignature {", "return", "}", "call r.Context", "call logc.Infof",
     "return"] := by decide

/-- `computeBodySignature`: duplicate the body, hash one copy, put the other back -/
theorem tie_bodySignatureShape : bodySignatureShape =
    ["call iox.DupReadCloser", "store r.Body", "call sha256.New", "call io.Copy", "store r.Body",
     "call sha.Sum", "return"] := by decide

/-- `computeBodySignature` does not branch at all — in particular not on `r.ContentLength`, `r.Body == nil` or the
method: whatever `r.Body` yields is hashed (the model's `bodySignature` takes the body bytes only) -/
def isBranch (st : String) : Bool :=
  (st.toList.take 3 == "if ".toList) || (st.toList.take 7 == "switch ".toList) || st == "else{"

theorem tie_bodySignature_unconditional : bodySignatureShape.all (fun st => !isBranch st) = true := by decide

/-- it returns the lower-case hex text of the digest -/
theorem tie_bodySignatureReturns : bodySignatureReturns = ["fmt.Sprintf(\"%x\", sha.Sum(nil))"] := by decide

/-- `iox.DupReadCloser`: a tee of the body into a buffer, and that buffer — both readers yield the same bytes, one
after the other (the hash reads the tee to its end first) -/
theorem tie_dupReadCloser : dupReadCloserShape = ["call io.TeeReader", "call io.NopCloser", "call io.NopCloser", "return"]
    ∧ dupReadCloserReturns = ["io.NopCloser(tee), io.NopCloser(&buf)"] := by decide

/-- `ContentSecurityHeader.Encrypted` is `ContentType == CryptionType` (= 1, `tie_cryptionType`) -/
theorem tie_encryptedReturns : encryptedReturns = ["h.ContentType == httpx.CryptionType"] := by decide

/-- `httpx.ParseHeader`: fields separated by `;`, empty ones skipped, those that do not split into two at the first
`=` skipped, assignment into the map in order (the last one wins) -/
theorem tie_parseHeaderShape : parseHeaderShape =
    ["range fields {", "if len(field) == 0 {", "continue", "}", "if len(kv) != tokensInAttribute {", "continue", "}",
     "mapset ret", "}", "return"] ∧ headerSeparator = ";" ∧ tokensInAttribute = 2 := by decide

/-- `TokenParser.loadCount`: the stored counter, 0 for an unknown secret -/
theorem tie_loadCountShape : loadCountShape = ["call tp.history.Load", "if ok {", "return", "}", "return"] := by decide

/-- what `getPathQuery` returns on its three paths: the request's own path/query twice, the header's once -/
theorem tie_getPathQueryReturns : getPathQueryReturns =
    ["r.URL.Path, r.URL.RawQuery", "r.URL.Path, r.URL.RawQuery", "uri.Path, uri.RawQuery"] := by decide

/-- `getPathQuery`: header empty or unparsable ⇒ the request's own path/query -/
theorem tie_getPathQueryShape : getPathQueryShape =
    ["call r.Header.Get", "if len(requestUri) == 0 {", "return", "}", "call url.Parse", "if err != nil {",
     "return", "}", "return"] := by decide

/-- `LimitCryptionHandler` (after fixes/C18-chunked-body.patch): deferred flush; `ContentLength == 0` ⇒ next;
decrypt error ⇒ 400 and return; next -/
theorem tie_cryptionShape : cryptionShape =
    ["func{", "func{", "defer{", "call r.Context", "call cw.flush", "}", "if r.ContentLength == 0 {",
     "call next.ServeHTTP", "return", "}", "call decryptBody", "if err != nil {", "call w.WriteHeader",
     "return", "}", "call next.ServeHTTP", "}", "call http.HandlerFunc", "return", "}", "return"] := by decide

/-- `decryptBody` (after the fix): limit test; a declared length is read in full, an unknown one up to the limit
(`maxBytes` without one) with a probe for more; nothing read ⇒ nothing to decrypt; base64, EcbDecrypt, replace body -/
theorem tie_decryptBodyShape : decryptBodyShape =
    ["if limitBytes > 0 && r.ContentLength > limitBytes {", "return", "}", "if r.ContentLength > 0 {",
     "call io.ReadFull", "}", "else{", "if max <= 0 {", "}", "call io.LimitReader", "call io.ReadAll",
     "if err == nil && int64(len(content)) == max {", "call io.ReadFull", "if n > 0 {", "}", "}", "}",
     "if err != nil {", "return", "}", "if len(content) == 0 {", "return", "}",
     "call base64.StdEncoding.DecodeString", "if err != nil {", "return", "}",
     "call codec.EcbDecrypt", "if err != nil {", "return", "}", "call buf.Write", "call io.NopCloser",
     "store r.Body", "return"] := by decide

/-- the three framing tests are the model's: `cl = 0` no body, `cl > 0` declared length, otherwise unknown length
with the cap `if limit > 0 then limit else maxBytes` -/
theorem tie_noBodyGate (cl : Int) : noBodyGate cl = decide (cl = 0) := rfl

theorem tie_declaredLength (cl : Int) : declaredLength cl = decide (cl > 0) := rfl

theorem tie_noLimitConfigured (limit : Int) :
    (if noLimitConfigured limit then GoZero.C18.maxBytes else limit) = (if limit > 0 then limit else GoZero.C18.maxBytes) := by
  unfold noLimitConfigured
  by_cases h : limit > 0
  · have : ¬ limit ≤ 0 := by omega
    simp [h, this]
  · have : limit ≤ 0 := by omega
    simp [h, this]

theorem tie_maxBytes_model : Extracted.C18.maxBytes = GoZero.C18.maxBytes := by decide

/-- `flush`: nothing for an empty buffer; EcbEncrypt error ⇒ 500; base64; write -/
theorem tie_flushShape : flushShape =
    ["if w.buf.Len() == 0 {", "return", "}", "call w.buf.Bytes", "call codec.EcbEncrypt", "if err != nil {",
     "call w.WriteHeader", "return", "}", "call base64.StdEncoding.EncodeToString", "call io.WriteString",
     "if err != nil {", "call logc.Errorf", "}", "else{", "if n < len(body) {", "call logc.Errorf", "}", "}"] := by decide

/-- `cryptionResponseWriter.Write` buffers -/
theorem tie_cwWriteShape : cwWriteShape =
    ["call w.buf.Write", "return"] := by decide

/-- `EcbEncrypt`: NewCipher, pad, CryptBlocks -/
theorem tie_ecbEncryptShape : ecbEncryptShape =
    ["call aes.NewCipher", "if err != nil {", "return", "}", "call block.BlockSize", "call pkcs5Padding",
     "call NewECBEncrypter", "call encrypter.CryptBlocks", "return"] := by decide

/-- `EcbDecrypt`: NewCipher, CryptBlocks, unpad -/
theorem tie_ecbDecryptShape : ecbDecryptShape =
    ["call aes.NewCipher", "if err != nil {", "return", "}", "call NewECBDecrypter",
     "call decrypter.CryptBlocks", "call decrypter.BlockSize", "call pkcs5Unpadding", "return"] := by decide

/-- `pkcs5Padding` -/
theorem tie_pkcs5PaddingShape : pkcs5PaddingShape =
    ["call byte", "call bytes.Repeat", "return"] := by decide

/-- `pkcs5Unpadding` (after fixes/C18-unpad-empty.patch): empty input ⇒ error; the rejection test; the slice -/
theorem tie_pkcs5UnpaddingShape : pkcs5UnpaddingShape =
    ["if length == 0 {", "return", "}", "if unpadding > length || unpadding > blockSize {", "return", "}",
     "return"] := by decide

/-- `Hmac` -/
theorem tie_hmacShape : hmacShape =
    ["call hmac.New", "call io.WriteString", "call h.Sum", "return"] := by decide

/-- `HmacBase64` -/
theorem tie_hmacBase64Shape : hmacBase64Shape =
    ["call Hmac", "call base64.StdEncoding.EncodeToString", "return"] := by decide

/-- `rsaBase.crypt`: pieces of `bytesLimit` bytes -/
theorem tie_rsaCryptShape : rsaCryptShape =
    ["for i*r.bytesLimit < inputLen {", "if r.bytesLimit*(i+1) > inputLen {", "}", "else{", "}",
     "call cryptFn", "if err != nil {", "return", "}", "}", "return"] := by decide

/-- `DecryptBase64` -/
theorem tie_rsaDecryptBase64Shape : rsaDecryptBase64Shape =
    ["if len(input) == 0 {", "return", "}", "call base64.StdEncoding.DecodeString", "if err != nil {",
     "return", "}", "call r.Decrypt", "return"] := by decide

/-- `engine.appendAuthHandler`: jwt enabled ⇒ `Authorize` (with the previous secret when configured) appended; then the signature verifier -/
theorem tie_appendAuthHandlerShape : appendAuthHandlerShape =
    ["if fr.jwt.enabled {", "if len(fr.jwt.prevSecret) == 0 {", "call handler.WithUnauthorizedCallback",
     "call handler.Authorize", "call chn.Append", "}", "else{", "call handler.WithPrevSecret",
     "call handler.WithUnauthorizedCallback", "call handler.Authorize", "call chn.Append", "}", "}",
     "call verifier", "return"] := by decide

/-- `engine.signatureVerifier`: strict without keys is a configuration error; otherwise `LimitContentSecurityHandler` with the route's strictness -/
theorem tie_signatureVerifierShape : signatureVerifierShape =
    ["if !signature.enabled {", "func{", "return", "}", "return", "}", "if len(signature.PrivateKeys) == 0 {",
     "if signature.Strict {", "return", "}", "func{", "return", "}", "return", "}",
     "range signature.PrivateKeys {", "call codec.NewRsaDecrypter", "if err != nil {", "return", "}",
     "mapset decrypters", "}", "func{", "if ng.unsignedCallback == nil {",
     "call handler.LimitContentSecurityHandler", "call chn.Append", "return", "}",
     "call handler.LimitContentSecurityHandler", "call chn.Append", "return", "}", "return"] := by decide

/-- the signed text: timestamp, method, path, query, body digest, joined by line feeds -/
theorem tie_signContentParts : signContentParts =
    ["securityHeader.Timestamp", "r.Method", "reqPath", "reqQuery", "computeBodySignature(r)", "sep=\"\\n\""] := by decide

end GoZero.C18.Tie
