/-
C18 — Tie, round 4: the wiring of the gates (rest/engine.go, rest/server.go) and the limit decision of `decryptBody`,
TRANSLATED from the working tree into Lean functions and proven equal to the model's definitions for all arguments;
the arguments forwarded along the property's path.
-/
import GoZero.Extracted.C18
import GoZero.C18.Model
namespace GoZero.C18.TieRest
open GoZero.C18
open GoZero.Extracted.C18

/-! ### rest/engine.go -/

/-- `buildChainWithNativeMiddlewares` consults the eleven switches of `RestConf.Middlewares` in the model's order and
appends the model's handler for each — and does nothing else (the extractor refuses any other statement) -/
theorem tie_nativeTable (m : MwConf) :
    List.zip [m.trace, m.log, m.prometheus, m.maxConns, m.breaker, m.shedding, m.timeout, m.recover, m.metrics, m.maxBytes, m.gunzip]
      nativeHandlers = nativeTable m := rfl

theorem tie_nativeSwitches : nativeSwitches =
    ["Trace", "Log", "Prometheus", "MaxConns", "Breaker", "Shedding", "Timeout", "Recover", "Metrics", "MaxBytes", "Gunzip"] := by decide

/-- no native middleware is a gate -/
theorem tie_nativeHandlers_no_gate : authorizeName ∉ nativeHandlers ∧ contentSecurityName ∉ nativeHandlers := by decide

/-- `bindRoute`, statement by statement, for EVERY user chain, native chain, auth step and `Use` list: the user's chain or
the native one, then — unconditionally — the auth handlers, then the `Use` middlewares. (A change that makes the auth
step conditional on the default chain, or puts it behind the `Use` middlewares, breaks this.) -/
theorem tie_bindRouteChain (custom : Option (List String)) (native : List String) (auth : List String → List String)
    (uses : List String) :
    bindRouteChain custom native auth uses = some (auth (custom.getD native) ++ uses) := by
  unfold bindRouteChain
  cases custom <;> simp

/-- the translated `bindRoute` with the model's pieces plugged in is the model's `bindRoute` -/
theorem tie_bindRoute_model (custom : Option (List String)) (m : MwConf) (o : RouteOpts) (uses : List String)
    (v : List String → List String) (hv : signatureVerifier o = some v) :
    bindRouteChain custom (nativeChain m) (GoZero.C18.appendAuthHandler o v) uses = GoZero.C18.bindRoute custom m o uses := by
  rw [tie_bindRouteChain]
  unfold GoZero.C18.bindRoute
  rw [hv]

/-- after the assembly: the chain wraps the ROUTE's handler and is registered under the ROUTE's method and path -/
theorem tie_bindRouteTail : bindRouteTail =
    ["handle := chn.ThenFunc(route.Handler)", "return router.Handle(route.Method, route.Path, handle)"] := by decide

/-- the name under which the model knows an appended middleware: its constructor -/
def ctorName (call : String) : String := String.ofList (call.toList.takeWhile (· ≠ '('))

/-- `appendAuthHandler`: jwt enabled ⇒ `handler.Authorize(…)` appended (with or without the previous secret), then the
verifier — for every chain and verifier -/
theorem tie_appendAuth (o : RouteOpts) (v : List String → List String) (chn : List String) :
    (appendAuth o.jwt (!o.prev) (fun c => v (c.map ctorName)) chn) = GoZero.C18.appendAuthHandler o v (chn.map ctorName) := by
  unfold appendAuth GoZero.C18.appendAuthHandler
  cases o.jwt <;> cases o.prev <;> simp [ctorName, authorizeName] <;> decide

/-- the secrets and the callback are the route group's own (`fr.jwt.secret`, `fr.jwt.prevSecret` only when it is set) -/
theorem tie_authorizeArgs : authorizeArgs =
    ["fr.jwt.secret | handler.WithUnauthorizedCallback(ng.unauthorizedCallback)",
     "fr.jwt.secret | handler.WithPrevSecret(fr.jwt.prevSecret) | handler.WithUnauthorizedCallback(ng.unauthorizedCallback)"] := by decide

/-- `signatureVerifier`'s decision list is the model's: disabled ⇒ identity, no keys ⇒ error when strict else identity,
otherwise the gate -/
theorem tie_signatureVerifierKind (o : RouteOpts) (nkeys : Nat) (hk : o.sigKeys = decide (nkeys > 0)) :
    signatureVerifierKind o.sig nkeys o.sigStrict =
      (match signatureVerifier o with
       | none => "error"
       | some f => if f [] = [] then "identity" else "gate") := by
  unfold signatureVerifierKind signatureVerifier
  cases hs : o.sig <;> cases hst : o.sigStrict <;> rcases Nat.eq_zero_or_pos nkeys with h0 | h0 <;>
    simp [hk, h0, contentSecurityName] <;> omega

/-- the gate gets the server's limit, the group's decrypters, tolerance and strictness (and the user callback only when
there is one) -/
theorem tie_contentSecurityArgs : contentSecurityArgs =
    ["ng.conf.MaxBytes | decrypters | signature.Expiry | signature.Strict",
     "ng.conf.MaxBytes | decrypters | signature.Expiry | signature.Strict | ng.unsignedCallback"] := by decide

/-- every route of a group is bound with the group's settings and the group's verifier; an error of the verifier or of a
route ends the binding -/
theorem tie_bindFeaturedRoutes : bindRouteArgs = ["fr | router | metrics | route | verifier"]
    ∧ signatureVerifierArgs = ["fr.signature"]
    ∧ bindFeaturedRoutesShape = ["call ng.signatureVerifier", "if err != nil {", "return", "}", "range fr.routes {",
        "call ng.bindRoute", "if err != nil {", "return", "}", "}", "return"]
    ∧ bindRoutesShape = ["call ng.createMetrics", "range ng.routes {", "call ng.bindFeaturedRoutes", "if err != nil {",
        "return", "}", "}", "return"] := by decide

/-! ### rest/server.go: the options -/

/-- `WithJwt` enables the gate and sets the secret — and leaves `prevSecret` alone (the model's `.withJwt`) -/
theorem tie_withJwt : withJwtAssigns = ["validateSecret(secret)", "r.jwt.enabled = true", "r.jwt.secret = secret"] := by decide

theorem tie_withJwtTransition : withJwtTransitionAssigns =
    ["validateSecret(secret)", "r.jwt.enabled = true", "r.jwt.secret = secret", "r.jwt.prevSecret = prevSecret"] := by decide

theorem tie_withSignature : withSignatureAssigns =
    ["r.signature.enabled = true", "r.signature.Strict = signature.Strict", "r.signature.Expiry = signature.Expiry",
     "r.signature.PrivateKeys = signature.PrivateKeys"] := by decide

theorem tie_serverGlue : withChainAssigns = ["svr.ngin.chain = chn"]
    ∧ withUnauthorizedCallbackCalls = ["svr.ngin.setUnauthorizedCallback(callback)"]
    ∧ addRoutesShape = ["range opts {", "call opt", "}", "call s.ngin.addRoutes"]
    ∧ serverUseShape = ["call s.ngin.use"] ∧ engineUseShape = ["store ng.middlewares"]
    ∧ engineAddRoutesShape = ["if r.sse {", "call buildSSERoutes", "store r.routes", "}", "store ng.routes",
        "if r.timeout > ng.timeout {", "store ng.timeout", "}"]
    ∧ convertMiddlewareShape = ["func{", "call ware", "return", "}", "return"] := by decide

/-! ### the limit decision of `decryptBody` -/

/-- `err == nil && int64(len(content)) == max` is the model's "the limit is used up" — equality, not an order -/
theorem tie_limitUsedUp (e len max : Int) : Extracted.C18.limitUsedUp e e len max = GoZero.C18.limitUsedUp len max := by
  unfold Extracted.C18.limitUsedUp GoZero.C18.limitUsedUp
  simp

/-- `n > 0` after reading one more byte is the model's `probeMore` (`n` = the number of bytes the probe got: 0 or 1) -/
theorem tie_probeFoundMore (max : Int) (raw : Bytes) :
    probeFoundMore (((raw.drop max.toNat).take 1).length : Nat) = GoZero.C18.probeMore max raw := by
  unfold probeFoundMore GoZero.C18.probeMore
  cases raw.drop max.toNat <;> simp

/-- `max := limitBytes; if max <= 0 { max = maxBytes }` -/
theorem tie_unknownCap (limit : Int) :
    (if noLimitConfigured limit then Extracted.C18.maxBytes else limit) = unknownCap limit := by
  unfold noLimitConfigured unknownCap
  by_cases h : limit ≤ 0 <;> simp [h] <;> decide

/-- `readBody`'s three tests are the extracted ones -/
theorem tie_readBody (limit cl : Int) (raw : Bytes) :
    readBody limit cl raw =
      (if lengthExceeded limit cl then none
       else if declaredLength cl then readDeclared cl raw
       else readUnknown (if noLimitConfigured limit then Extracted.C18.maxBytes else limit) raw) := by
  rw [tie_unknownCap]
  unfold readBody lengthExceeded declaredLength
  by_cases h1 : limit > 0 <;> by_cases h2 : cl > limit <;> by_cases h3 : cl > 0 <;> simp [h1, h2, h3]

/-- what is read, decoded, decrypted and with which key / limit, along the path -/
theorem tie_cryptionArgs : limitReaderArgs = ["r.Body | max"]
    ∧ readFullArgs = ["r.Body | content", "r.Body | make([]byte, 1)"]
    ∧ decodeArgs = ["string(content)"] ∧ ecbDecryptArgs = ["key | content"] ∧ ecbEncryptArgs = ["key | w.buf.Bytes()"]
    ∧ decryptBodyArgs = ["limitBytes | key | r"] ∧ cryptionHandlerArgs = ["maxBytes | key"] := by decide

/-- the content-security handler verifies THIS request with the parsed header and the configured tolerance, hands an
encrypted body to the cryption handler with the configured limit and the HEADER's key, and passes its strictness on -/
theorem tie_contentSecurityCalls : verifySignatureArgs = ["r | header | tolerance"]
    ∧ csCryptionArgs = ["limitBytes | header.Key"]
    ∧ executeCallbacksArgs = ["w | r | next | strict | httpx.CodeSignatureInvalidHeader | callbacks",
                              "w | r | next | strict | code | callbacks"]
    ∧ hmacBase64Args = ["securityHeader.Key | signContent"] := by decide

/-- the default failure handler is installed exactly when the caller passed no callback -/
theorem tie_noUserCallback (n : Nat) : noUserCallback n = decide (n = 0) := by
  unfold noUserCallback; simp

/-- `Authorize` verifies THIS request under the configured secret and the configured previous secret -/
theorem tie_parseTokenArgs : parseTokenArgs = ["r | secret | authOpts.PrevSecret"] := by decide

/-- codec: HMAC-SHA256 under the given key; unpadding of the decrypted bytes with the cipher's block size; padding of the
source with the cipher's block size, `padding` bytes of value `byte(padding)` -/
theorem tie_codecArgs : hmacNewArgs = ["sha256.New | key"] ∧ unpaddingArgs = ["decrypted | decrypter.BlockSize()"]
    ∧ paddingArgs = ["src | block.BlockSize()"] ∧ padRepeatArgs = ["[]byte{byte(padding)} | padding"] := by decide

/-- `rsaBase.crypt` cuts at `bytesLimit`: the last piece is the one that would run past the input -/
theorem tie_rsaLastChunk (limit i len : Int) : rsaLastChunk limit i len = decide (limit * (i + 1) > len) := rfl

theorem tie_rsaEmptyInput (n : Nat) : rsaEmptyInput n = decide (n = 0) := by
  unfold rsaEmptyInput; simp

/-! ### round 5: the decrypters of a route group; delegating constructors and options -/

/-- the key loading of `signatureVerifier`, TRANSLATED: a map made fresh for the call, one store
`decrypters[key.Fingerprint] = NewRsaDecrypter(key.KeyFile)` per key of the group's own `signature.PrivateKeys`, a failed
load ends it — equal to the model's `loadDecrypters` for EVERY loader and key list. (A map kept in the engine and shared
between groups, a swapped fingerprint / file, a store before the error check are refused by the translator.) -/
theorem tie_loadDecrypters {D : Type} (load : String → Option D) (keys : List KeyConf) :
    svLoadDecrypters load keys = GoZero.C18.loadDecrypters load keys := rfl

/-- … and that map — no other — is the gate's second argument, on both call sites -/
theorem tie_gateMap : svGateMap = ["decrypters"]
    ∧ contentSecurityArgs = ["ng.conf.MaxBytes | decrypters | signature.Expiry | signature.Strict",
        "ng.conf.MaxBytes | decrypters | signature.Expiry | signature.Strict | ng.unsignedCallback"] := by decide

/-- `ParseContentSecurity` gets the gate's decrypters and THIS request; the secret field is what is decrypted, the first
header value and the decrypted secret are what `ParseHeader` splits -/
theorem tie_parseContentSecurityCalls : parseContentSecurityArgs = ["decrypters | r"]
    ∧ decryptBase64Args = ["secret"] ∧ parseHeaderArgs = ["contentSecurity", "string(decryptedSecret)"] := by decide

/-- the one-line constructors forward everything: `ContentSecurityHandler(decrypters, tolerance, strict, callbacks...)` =
`LimitContentSecurityHandler(maxBytes, decrypters, tolerance, strict, callbacks...)` -/
theorem tie_contentSecurityWrapper : contentSecurityWrapperArgs = ["maxBytes | decrypters | tolerance | strict | callbacks..."] := by decide

/-- `HmacBase64(key, body)` is the base64 of `Hmac(key, body)`, which writes exactly `body` into the keyed hash -/
theorem tie_hmacCalls : hmacCallArgs = ["key | body"] ∧ hmacWriteArgs = ["h | body"] := by decide

/-- the options of `Authorize` and the server-level callback setters store what they are given -/
theorem tie_authorizeOptions : withPrevSecretAssigns = ["opts.PrevSecret = secret"]
    ∧ authWithCallbackAssigns = ["opts.Callback = callback"]
    ∧ withUnsignedCallbackCalls = ["svr.ngin.setUnsignedCallback(callback)"] := by decide

/-! ### round 5: whole bodies TRANSLATED into decision functions (which effects run, in order, for every outcome of the
conditions) and proven equal to the model's decisions for all arguments -/

/-- `Authorize`'s closure: parse; an error, an invalid token, claims of another type each end in `unauthorized` (and
nothing else); only otherwise the wrapped handler is called, with the request that carries the new context -/
theorem tie_authorizeEffects (e v c : Bool) : authorizeEffects e v c =
    "parser.ParseToken(r, secret, authOpts.PrevSecret)" ::
      (if e then ["unauthorized(w, r, err, authOpts.Callback)"]
       else if !v then ["unauthorized(w, r, errInvalidToken, authOpts.Callback)"]
       else if !c then ["unauthorized(w, r, errNoClaims, authOpts.Callback)"]
       else ["next.ServeHTTP(w, r.WithContext(ctx))"]) := by
  cases e <;> cases v <;> cases c <;> rfl

def parsedValid {C : Type} : Parsed C → Bool
  | .tok v _ => v
  | .err => false

def parsedHasClaims {C : Type} : Parsed C → Bool
  | .tok _ (some _) => true
  | _ => false

/-- … which is the model's `authorize`: the extracted decision, fed with what `ParseToken` returned, calls the handler
exactly when the model says it runs — for every verify function, history, secret pair and clock -/
theorem tie_authorize_model {V : Type} (verify : String → Parsed (List (String × V))) (h : Hist) (secret prev : String)
    (clock : Int) :
    ("next.ServeHTTP(w, r.WithContext(ctx))" ∈
        authorizeEffects (parseToken verify h secret prev clock).2.isErr (parsedValid (parseToken verify h secret prev clock).2)
          (parsedHasClaims (parseToken verify h secret prev clock).2))
      ↔ (authorize verify h secret prev clock).2.ran = true := by
  unfold authorize
  simp only []
  rcases hr : (parseToken verify h secret prev clock).2 with _ | ⟨valid, claims⟩
  · simp [Parsed.isErr, parsedValid, parsedHasClaims, authorizeEffects]
  · cases valid <;> cases claims <;> simp [Parsed.isErr, parsedValid, parsedHasClaims, authorizeEffects]

/-- `unauthorized`: the user's callback (when there is one) goes FIRST, then 401 is written — in every case -/
theorem tie_unauthorizedEffects (hasErr hasCallback : Bool) : unauthorizedEffects hasErr hasCallback =
    (if hasCallback then ["callback(writer, r, err)"] else []) ++ ["writer.WriteHeader(http.StatusUnauthorized)"] := by
  cases hasErr <;> cases hasCallback <;> rfl

/-- the gate's closure as a decision function of the method, the two checks' results and the body/type flags -/
theorem tie_csGateEffects (method : String) (pe pass hb enc : Bool) : csGateEffects method pe pass hb enc =
    (if gatedMethods.contains method then
       "security.ParseContentSecurity(decrypters, r)" ::
         (if pe then ["executeCallbacks(w, r, next, strict, httpx.CodeSignatureInvalidHeader, callbacks)"]
          else "security.VerifySignature(r, header, tolerance)" ::
            (if !pass then ["executeCallbacks(w, r, next, strict, code, callbacks)"]
             else if hb && enc then ["LimitCryptionHandler(limitBytes, header.Key)(next).ServeHTTP(w, r)"]
             else ["next.ServeHTTP(w, r)"]))
     else ["next.ServeHTTP(w, r)"]) := by
  unfold csGateEffects gatedMethods
  cases pe <;> cases pass <;> cases hb <;> cases enc <;> rfl

/-- what the LAST effect of the gate's closure does to the request, in the model's terms (default callback) -/
def csInterpret (C : BlockCipher) (cfg : CsCfg) (req : CsReq) (inner : Inner) (key : Bytes) (last : String) : Resp :=
  if last = "next.ServeHTTP(w, r)" then plainNext inner req.body
  else if last = "LimitCryptionHandler(limitBytes, header.Key)(next).ServeHTTP(w, r)" then
    cryptionHandler C cfg.limit key req.cl req.body inner
  else verificationFailure cfg.strict inner req.body

def parseFailed : Except CsParseErr CsHeader → Bool
  | .error _ => true
  | .ok _ => false

def headerOf : Except CsParseErr CsHeader → CsHeader
  | .ok h => h
  | .error _ => { key := [], timestamp := "", contentType := 0, signature := "" }

/-- THE MODEL'S GATE IS THE EXTRACTED DECISION: `contentSecurity` = the last effect of the translated closure, fed with
the results of `parseContentSecurity` / `verifySignature` and the framing / type flags, interpreted with the model's
pieces — for every cipher, environment, configuration, request and handler -/
theorem tie_csGate_model (C : BlockCipher) (env : CsEnv) (cfg : CsCfg) (req : CsReq) (inner : Inner) :
    contentSecurity C env cfg req inner =
      csInterpret C cfg req inner (headerOf (parseContentSecurity env req)).key
        ((csGateEffects req.method (parseFailed (parseContentSecurity env req))
            (decide (verifySignature env cfg.tol req (headerOf (parseContentSecurity env req)) = 0))
            (decide (req.cl ≠ 0)) (decide ((headerOf (parseContentSecurity env req)).contentType = 1))).getLast?.getD "") := by
  rw [tie_csGateEffects]
  unfold contentSecurity
  by_cases hg : gatedMethods.contains req.method = true
  · rw [if_pos hg, if_pos hg]
    cases hp : parseContentSecurity env req with
    | error e => simp [parseFailed, csInterpret]
    | ok h =>
      simp only [parseFailed, headerOf]
      by_cases hv : verifySignature env cfg.tol req h = 0
      · by_cases h1 : req.cl = 0 <;> by_cases h2 : h.contentType = 1 <;> simp [hv, h1, h2, csInterpret]
      · simp [hv, csInterpret]
  · rw [if_neg hg, if_neg hg]
    simp [csInterpret]

/-- `handleVerificationFailure`: strict ⇒ 403 and NOTHING else; the handler is called only in the non-strict case — the
model's `verificationFailure` -/
theorem tie_verificationFailureEffects (strict : Bool) : verificationFailureEffects strict =
    (if strict then ["w.WriteHeader(http.StatusForbidden)"] else ["next.ServeHTTP(w, r)"]) := by
  cases strict <;> rfl

theorem tie_verificationFailure_model (strict : Bool) (inner : Inner) (body : Bytes) :
    ("next.ServeHTTP(w, r)" ∈ verificationFailureEffects strict) ↔ (verificationFailure strict inner body).ran = true := by
  cases strict <;> simp [verificationFailureEffects, verificationFailure, plainNext]

/-- `executeCallbacks` calls every callback, each with this request, the handler, the strictness and the code -/
theorem tie_executeCallbacksEffects : executeCallbacksEffects = ["range callbacks", "callback(w, r, next, strict, code)"] := by decide

/-- `LimitCryptionHandler`'s closure: the flush is deferred FIRST; no body ⇒ the handler with the cryption writer; otherwise
the body is decrypted, an error ⇒ 400 and nothing else, success ⇒ the handler with the cryption writer -/
theorem tie_cryptionEffects (noBody decryptErr : Bool) : cryptionEffects noBody decryptErr =
    "defer cw.flush(r.Context(), key)" ::
      (if noBody then ["next.ServeHTTP(cw, r)"]
       else "decryptBody(limitBytes, key, r)" ::
         (if decryptErr then ["w.WriteHeader(http.StatusBadRequest)"] else ["next.ServeHTTP(cw, r)"])) := by
  cases noBody <;> cases decryptErr <;> rfl

/-- … the model's `cryptionHandlerViaRead`: the handler runs iff there is no body or the body could be read and decrypted -/
theorem tie_cryption_model (noBody decryptErr : Bool) :
    ("next.ServeHTTP(cw, r)" ∈ cryptionEffects noBody decryptErr) ↔ (noBody = true ∨ decryptErr = false) := by
  cases noBody <;> cases decryptErr <;> simp [cryptionEffects]

/-! ### round 5c: `ParseToken`'s retry structure -/

/-- `TokenParser.ParseToken` executed symbolically (every call with the secret it is given) IS the model's call list, for
every secret pair, both settings of "a previous secret is configured" and "the current secret's counter leads", and every
outcome of the two verifications: the second attempt is a call of the SAME `doParseToken(r, ·)` with the OTHER secret, made
only after the first failed; the counter of the secret that verified is incremented; nothing else decides the result -/
theorem tie_parseTokenCalls (secret prev : String) (hasPrev lead : Bool) (err : String → Bool) :
    Extracted.C18.parseTokenCalls secret prev hasPrev lead err = GoZero.C18.parseTokenCalls secret prev hasPrev lead err := by
  cases hasPrev <;> cases lead <;> rfl

/-- `cryptionResponseWriter.flush` TRANSLATED, for every outcome of its four conditions: nothing buffered ⇒ nothing at all;
encryption fails ⇒ 500 and nothing else; otherwise the base64 of the ciphertext is written to the underlying writer ONCE —
and a write error or a short write changes NOTHING (both branches only log): the list does not depend on them -/
theorem tie_flushEffects (empty encErr writeErr short : Bool) : flushEffects empty encErr writeErr short =
    (if empty then []
     else "codec.EcbEncrypt(key, w.buf.Bytes())" ::
       (if encErr then ["w.WriteHeader(http.StatusInternalServerError)"]
        else ["base64.StdEncoding.EncodeToString(content)", "io.WriteString(w.ResponseWriter, body)"])) := by
  cases empty <;> cases encErr <;> cases writeErr <;> cases short <;> rfl

/-- … which is the model's `flushResp`: no reply ⇒ no body and status 200; a key the cipher refuses ⇒ 500; otherwise the
base64 ciphertext -/
theorem tie_flush_model (C : BlockCipher) (key seen out : Bytes) (we sh : Bool) :
    (flushEffects out.isEmpty (ecbEncrypt C key out).isNone we sh = [] ↔ out.isEmpty = true) ∧
    ("w.WriteHeader(http.StatusInternalServerError)" ∈ flushEffects out.isEmpty (ecbEncrypt C key out).isNone we sh ↔
      (out.isEmpty = false ∧ (flushResp C key seen out).status = 500)) := by
  rw [tie_flushEffects]
  unfold flushResp
  cases ho : out.isEmpty <;> cases he : ecbEncrypt C key out <;> simp

/-! ### round 5c: `ParseContentSecurity` and `VerifySignature` as decision functions = the model -/

/-- what a return statement of `ParseContentSecurity` means in the model -/
def parseResultOf (hdr : CsHeader) (last : String) : Except CsParseErr CsHeader :=
  if last = "return nil, ErrInvalidHeader" then .error .invalidHeader
  else if last = "return nil, ErrInvalidPublicKey" then .error .invalidPublicKey
  else if last = "return nil, ErrInvalidSecret" then .error .invalidSecret
  else if last = "return nil, ErrInvalidKey" then .error .invalidKey
  else if last = "return nil, ErrInvalidContentType" then .error .invalidContentType
  else .ok hdr

def rsaPlain : RsaRes → String
  | .ok p => p
  | _ => ""

/-- THE MODEL'S `parseContentSecurity` IS THE TRANSLATED FUNCTION: the same five tests in the same order (an empty field, a
fingerprint without decrypter, an undecryptable secret, a key that is not base64, a type that is no integer), each ending in
its own error, and on success the header built from the decoded key, the timestamp, the type and the SIGNATURE FIELD OF THE
HEADER — for every environment and request -/
theorem tie_parseContentSecurity_model (env : CsEnv) (req : CsReq) :
    parseContentSecurity env req =
      parseResultOf
        { key := (b64Decode (attr (parseHeaderFields (rsaPlain (env.rsa (headerTriple req).1 (headerTriple req).2.1))) "key")).getD [],
          timestamp := attr (parseHeaderFields (rsaPlain (env.rsa (headerTriple req).1 (headerTriple req).2.1))) "time",
          contentType := (parseInt64 (attr (parseHeaderFields (rsaPlain (env.rsa (headerTriple req).1 (headerTriple req).2.1))) "type")).getD 0,
          signature := (headerTriple req).2.2 }
        ((parseContentSecurityEffects
            (decide ((headerTriple req).1.isEmpty = true ∨ (headerTriple req).2.1.isEmpty = true ∨ (headerTriple req).2.2.isEmpty = true))
            (decide (env.rsa (headerTriple req).1 (headerTriple req).2.1 = .noKey))
            (decide (env.rsa (headerTriple req).1 (headerTriple req).2.1 = .err))
            (b64Decode (attr (parseHeaderFields (rsaPlain (env.rsa (headerTriple req).1 (headerTriple req).2.1))) "key")).isNone
            (parseInt64 (attr (parseHeaderFields (rsaPlain (env.rsa (headerTriple req).1 (headerTriple req).2.1))) "type")).isNone).getLast?.getD "") := by
  unfold parseContentSecurity parseContentSecurityEffects
  simp only []
  by_cases h0 : (headerTriple req).1.isEmpty = true ∨ (headerTriple req).2.1.isEmpty = true ∨ (headerTriple req).2.2.isEmpty = true
  · rw [if_pos h0]
    simp only [decide_eq_true h0]
    simp [parseResultOf]
  · rw [if_neg h0]
    simp only [decide_eq_false h0]
    cases hr : env.rsa (headerTriple req).1 (headerTriple req).2.1 with
    | noKey => simp [parseResultOf]
    | err => simp [parseResultOf]
    | ok plain =>
      simp only [rsaPlain]
      split
      · rename_i hk; simp [hk, parseResultOf]
      · rename_i key hk
        split
        · rename_i ht; simp [hk, ht, parseResultOf]
        · rename_i ct ht; simp [hk, ht, parseResultOf]

def codeOf (last : String) : Nat :=
  if last = "return httpx.CodeSignaturePass" then 0
  else if last = "return httpx.CodeSignatureInvalidHeader" then 1
  else if last = "return httpx.CodeSignatureWrongTime" then 2
  else 3

/-- THE MODEL'S `verifySignature` IS THE TRANSLATED FUNCTION: timestamp parse, then the window, then path / query, the HMAC
under the HEADER's key, and pass exactly on equality with the header's signature -/
theorem tie_verifySignature_model (env : CsEnv) (tol : Int) (req : CsReq) (h : CsHeader) :
    verifySignature env tol req h =
      codeOf ((verifySignatureEffects (parseInt64 h.timestamp).isNone
          (outsideWindow ((parseInt64 h.timestamp).getD 0) tol env.now)
          (decide (h.signature = env.hmacB64 h.key
            (signContent env h.timestamp req.method (pathQuery env req).1 (pathQuery env req).2 req.body)))).getLast?.getD "") := by
  unfold verifySignature verifySignatureEffects
  cases hp : parseInt64 h.timestamp with
  | none => simp [codeOf]
  | some sec =>
    simp only [Option.getD_some, Option.isNone_some]
    by_cases hw : outsideWindow sec tol env.now = true
    · simp [hw, codeOf]
    · by_cases hs : h.signature = env.hmacB64 h.key
          (signContent env h.timestamp req.method (pathQuery env req).1 (pathQuery env req).2 req.body)
      · simp [hw, hs, codeOf]
      · simp [hw, hs, codeOf]

/-- the codes are the constants of rest/httpx (tie_codes) -/
theorem tie_codeOf : codeOf "return httpx.CodeSignaturePass" = 0 ∧ codeOf "return httpx.CodeSignatureInvalidHeader" = 1
    ∧ codeOf "return httpx.CodeSignatureWrongTime" = 2 ∧ codeOf "return httpx.CodeSignatureInvalidToken" = 3 := by decide

/-! ### round 5c: the accesses to the shared history (the steps of the interleaving model `Conc`) -/

/-- `incrementCount` TRANSLATED: clock, clearing (a `Range` whose body deletes every key — checked by the extractor) when the
reset time has passed, `Load`, then atomic add on the loaded cell or a fresh `Store` — the model's `incrAccesses`, for
both outcomes of both conditions -/
theorem tie_incrementCountEffects (expired present : Bool) :
    incrementCountEffects expired present = Conc.incrAccesses expired present := by
  cases expired <;> cases present <;> rfl

theorem tie_loadCountEffects (present : Bool) : loadCountEffects present = Conc.loadAccesses present := by
  cases present <;> rfl

/-! ### round 5e: where the bytes behind `r.Body` live -/

/-- after `computeBodySignature` `r.Body` is the second reader of `iox.DupReadCloser`, which reads from a `bytes.Buffer`
DECLARED IN THAT CALL (`var buf bytes.Buffer`, returned as `io.NopCloser(&buf)`): a fresh buffer per request — the model's
`Own.stepFresh`. The package has no variable besides its five errors: no pool, no buffer reachable from two requests. (A
pooled buffer — seeded C18-9, the model's `Own.stepPooled` — changes the assignments AND adds a package variable.) -/
theorem tie_bodyOwnedByRequest : bodyAssignments = ["r.Body, dup = iox.DupReadCloser(r.Body)", "r.Body = dup"]
    ∧ dupReadCloserLocals = ["var buf bytes.Buffer"]
    ∧ dupReadCloserReturns = ["io.NopCloser(tee), io.NopCloser(&buf)"]
    ∧ securityPackageVars = ["ErrInvalidContentType = errors.New", "ErrInvalidHeader = errors.New", "ErrInvalidKey = errors.New",
        "ErrInvalidPublicKey = errors.New", "ErrInvalidSecret = errors.New"] := by decide

/-- the decrypted body likewise: `decryptBody` hands the handler a reader over a buffer declared in the call; the package's
only variable is an error -/
theorem tie_decryptedBodyOwnedByRequest : decryptBodyAssignments = ["r.Body = io.NopCloser(&buf)"]
    ∧ decryptBodyLocals = ["var content []byte", "var err error", "var buf bytes.Buffer"]
    ∧ cryptionPackageVars = ["errContentLengthExceeded = errors.New"] := by decide

end GoZero.C18.TieRest
