/-
C18 — driver: replays an implementation trace through the model (correspondence) and the monitors (property).

Sections (cfg `kind=`):
  jwt    `req auth=<hex> now=<unix> clk=<ns>`  =>  token facts, `ran status ctx`
  cs     `req m= path= query= uri= hdr= fp= sec= plain= sig= dt= sk= ak= body= reply= …`
           =>  `now p q cl uripq rsa sigv aes` (environment/oracles), `ran status seen resp`
  crypt  `req body= reply= [cl=]`  =>  `cl aes`, `ran status seen resp`
  tp     `parse s= p= auth= now= clk=`  =>  token facts, `err valid hist` (TokenParser.ParseToken + history counters)
  text   `ph text=` | `b64d text=` | `b64e data=` | `hmac key= text=`
All free text is hex; `-` is the empty string.
-/
import GoZero.Base.Trace
import GoZero.C18.Spec
import GoZero.C18.Sha256
namespace GoZero.C18

open GoZero

def hexVal (c : Char) : Option Nat :=
  if '0' ≤ c ∧ c ≤ '9' then some (c.toNat - 48)
  else if 'a' ≤ c ∧ c ≤ 'f' then some (c.toNat - 87)
  else none

def unhexChars : List Char → Option Bytes
  | [] => some []
  | a :: b :: rest => do
    let x ← hexVal a; let y ← hexVal b; let r ← unhexChars rest
    pure (UInt8.ofNat (x * 16 + y) :: r)
  | _ => none

def unhex (s : String) : Option Bytes := if s = "-" then some [] else unhexChars s.toList

def unhexStr (s : String) : Option String := (unhex s).map bytesToString

/-- `hexk:hexv,hexk:hexv` -/
def parsePairs (s : String) : Option (List (String × String)) :=
  if s = "-" then some [] else
  (s.splitOn ",").mapM fun p =>
    match p.splitOn ":" with
    | [k, v] => do pure ((← unhexStr k), (← unhexStr v))
    | _ => none

def showPairs (l : List (String × String)) : String :=
  if l.isEmpty then "-" else ",".intercalate (l.map fun (k, v) => s!"{k}={v}")

/-- Go strings are byte strings: the driver carries them with one `Char` (0..255) per byte -/
def strBytes (s : String) : Bytes := asciiBytes s

/-- the block cipher seen through the harness' table of raw AES block decryptions `ct:pt` -/
def oracleCipher (table : List (Bytes × Bytes)) (miss : UInt8) : BlockCipher where
  bs := 16
  keyOk := fun k => k.length = 16 || k.length = 24 || k.length = 32
  dec := fun _ blk => match table.find? (·.1 = blk) with
    | some (_, pt) => pt
    | none => List.replicate 16 miss
  enc := fun _ blk => match table.find? (·.2 = blk) with
    | some (ct, _) => ct
    | none => List.replicate 16 miss

def parseAes (s : String) : Option (List (Bytes × Bytes)) :=
  if s = "-" then some [] else
  (s.splitOn ",").mapM fun p =>
    match p.splitOn ":" with
    | [c, t] => do pure ((← unhex c), (← unhex t))
    | _ => none

def parseTimeClaim (s : String) : Option TimeClaim :=
  if s = "abs" then some .absent else if s = "bad" then some .bad else (s.toInt?).map .at

def showResp (r : Resp) : String :=
  let st := if r.panic then "PANIC" else toString r.status
  s!"ran={if r.ran then 1 else 0} status={st} seen={toHex r.seen} resp={toHex r.body}"

def parseResp (obs : List String) : Option Resp := do
  let ran ← kv? obs "ran"
  let st ← kv? obs "status"
  let seen ← unhex (← kv? obs "seen")
  let body ← unhex (← kv? obs "resp")
  let status := st.toNat?.getD 0
  if st ≠ "PANIC" ∧ st.toNat?.isNone then none
  pure { ran := ran ≠ "0", seen := seen, status := status, body := body, panic := st = "PANIC" }

/-- cover counter for a generator label, and the generator's own verdict: a request it made invalid by exactly one
change (`inv-…`) must not reach the handler -/
def labelCheck (r : Report) (sec line : Nat) (pfx : String) (lbl : Option String) (enforce ran : Bool) (shown : String) : Report :=
  match lbl with
  | none => r
  | some l =>
    let r := r.addCover s!"{pfx}-mut-{l}"
    if l.startsWith "inv-" then
      if enforce ∧ ran then r.violation sec line s!"{pfx}: the handler ran on a credential made invalid by one change ({l}) [{shown}]"
      else r.addCover s!"{pfx}-invalidating-change-rejected"
    else if l.startsWith "eq-" ∨ l.startsWith "valid" then
      r.addCover (if ran then s!"{pfx}-harmless-change-accepted" else s!"{pfx}-harmless-change-rejected")
    else r

/-! ### jwt -/

structure JwtSt where
  secret : String
  prev   : String
  hist   : Hist
  clock  : Int
  cb     : String := "none"     -- the kind of UnauthorizedCallback installed
  disc   : String := ""         -- the secret an overridden WithPrevSecret named
  cbFirst : Bool := false       -- the callback option comes before the secret options
  opt    : String := "auto"     -- how the option list of Authorize spells the previous secret

/-- how the wrapped (user) handler ends (`hk=`): an explicit status, a panic -/
def outcomePanics (hk : String) : Bool := hk = "panic-err" || hk = "panic-str" || hk = "abort"

def outcomeStatus (hk : String) (dflt : Nat) : Nat := if hk = "st404" then 404 else if hk = "st500" then 500 else dflt

/-- the model's response with the user handler's outcome applied: the status it set goes out first (a later 500 of `flush`
is superfluous), a panic after the reply was written leaves the (deferred) flush in place -/
def applyOutcome (hk : String) (m : Resp) : Resp :=
  if !m.ran then m
  else if outcomePanics hk then { m with panic := true }
  else { m with status := outcomeStatus hk m.status }

def runJwtLine (r : Report) (sec : Nat) (st : JwtSt) (l : Line) : Report × JwtSt :=
  let fail (msg : String) := (r.mismatch sec l.idx msg (joinSp l.op), st)
  match l.op with
  | "req" :: args =>
    match (kv? args "now").bind String.toInt?, (kv? args "clk").bind String.toInt? with
    | some now, some clk =>
      let o := l.obs
      let facts : Option (TokenFacts String) := do
        let alg ← kv? o "alg"
        let algS ← if alg = "-" then some none else (unhexStr alg).map some
        let claims ← parsePairs (← kv? o "claims")
        let sigcur := kv? o "sigcur" = some "1"
        let sigprev := kv? o "sigprev" = some "1"
        pure { present := kv? o "present" = some "1", segs := (← (← kv? o "segs").toNat?),
               hdrOk := kv? o "hdr" = some "1", clmOk := kv? o "clm" = some "1", alg := algS,
               sigOk := fun s => (s = st.secret && sigcur) || (s = st.prev && st.prev ≠ "" && sigprev),
               exp := (← parseTimeClaim (← kv? o "exp")), nbf := (← parseTimeClaim (← kv? o "nbf")),
               iat := (← parseTimeClaim (← kv? o "iat")), claims := claims }
      let obsOut : Option (AuthOut String × Bool) := do
        let ran ← kv? o "ran"
        let ctx ← parsePairs (← kv? o "ctx")
        let stS ← kv? o "status"
        if stS ≠ "PANIC" ∧ stS.toNat?.isNone then none
        pure ({ ran := ran ≠ "0", status := stS.toNat?.getD 0, ctx := ctx }, stS = "PANIC")
      match facts, obsOut with
      | some f, some (out, outPanic) =>
        let clock := st.clock + clk
        let res := authorize (jwtVerify f now) st.hist st.secret st.prev clock
        let hk := kvStr args "hk"
        let userCb := st.cb ≠ "none" ∧ st.cb ≠ "nil"
        -- the gate's model, then the outcome kinds of the user-supplied functions: the wrapped handler (when it runs) and the
        -- UnauthorizedCallback (when the request is rejected: called once, with the error, BEFORE the 401 is written)
        let mPanic : Bool := if res.2.ran then outcomePanics hk else (st.cb = "panic-err" || st.cb = "panic-str")
        let mStatus : Nat :=
          if res.2.ran then outcomeStatus hk res.2.status
          else unauthorizedStatus (if st.cb = "status" then some 403 else if st.cb = "body" then some 200 else none)
        let m : AuthOut String := { ran := res.2.ran, status := mStatus, ctx := res.2.ctx }
        let mUcb : Nat := if !res.2.ran ∧ userCb then 1 else 0
        let r := { r with ops := r.ops + 1 }
        let r := r.addCover s!"jwt-options-{st.opt}{if st.prev = "" then "-no-previous" else "-previous"}"
        -- the option list as the section spelled it, folded by the model: the previous secret in force must be the section's
        let cbOpt : List AuthOption := if st.cb = "none" then [] else [.callback userCb]
        let secretOpts : Option (List AuthOption) :=
          if st.opt = "auto" then some (if st.prev = "" then [] else [.prevSecret st.prev])
          else if st.opt = "none" then some []
          else if st.opt = "prev" then some [.prevSecret st.prev]
          else if st.opt = "prev-twice" then some [.prevSecret st.disc, .prevSecret st.prev]
          else none
        let r := match secretOpts with
          | some so =>
            let all := if st.cbFirst then cbOpt ++ so else so ++ cbOpt
            if (authOptions all).prev ≠ st.prev ∨ (authOptions all).callback ≠ userCb then
              r.mismatch sec l.idx s!"options in force: prev={(authOptions all).prev}" s!"section: prev={st.prev}"
            else r
          | none => r.mismatch sec l.idx "bad-option-kind" st.opt
        let r := r.addCover s!"jwt-callback-{st.cb}{if res.2.ran then "-not-called" else "-called"}"
        let r := if res.2.ran then r.addCover s!"jwt-handler-outcome-{if hk = "" then "ok" else hk}" else r
        let r := if kvNat o "ucb" 0 ≠ mUcb ∨ kvNat o "ucberr" 0 ≠ mUcb ∨ outPanic ≠ mPanic then
            r.mismatch sec l.idx s!"ucb={mUcb} ucberr={mUcb} panic={mPanic}" s!"ucb={kvNat o "ucb" 0} ucberr={kvNat o "ucberr" 0} panic={outPanic}"
          else r
        -- a panicking callback / handler leaves no status of the gate's own to look at; a callback that answers itself owns the status
        let out : AuthOut String := if outPanic then { out with status := m.status } else out
        let ownStatus : Bool := !userCb || st.cb = "quiet"
        let r := r.addCover (if m.ran then "jwt-accept" else "jwt-reject")
        let r := r.addCover ("jwt-" ++
          (if !f.present then "absent" else if f.segs ≠ 3 then "segments" else if !f.hdrOk then "bad-header"
           else if !f.clmOk then "bad-claims"
           else match f.alg with
             | none => "alg-missing"
             | some a =>
               if a = "none" then "alg-none" else if !hmacAlgs.contains a then "alg-not-hmac"
               else if !(f.sigOk st.secret || f.sigOk st.prev) then "bad-signature"
               else if !expOk f.exp now then "expired-or-bad-exp"
               else if !notBeforeOk f.nbf now then "nbf"
               else if !notBeforeOk f.iat now then "iat"
               else if f.sigOk st.secret then s!"valid-current-{a}" else s!"valid-previous-{a}"))
        let r := if res.1.counts ≠ st.hist.counts then r.addCover "jwt-history-changed" else r
        let r := if (firstSecond st.hist st.secret st.prev).1 = st.secret ∧ st.prev ≠ "" then r.addCover "jwt-current-first" else r
        let show_ (x : AuthOut String) := s!"ran={if x.ran then 1 else 0} status={x.status} ctx={showPairs x.ctx}"
        let r := if m.ran ≠ out.ran ∨ m.status ≠ out.status ∨ m.ctx ≠ out.ctx then
          r.mismatch sec l.idx (show_ m) (show_ out) else r
        let r := match jwtMonitor f now st.secret st.prev (if ownStatus ∨ out.ran then out else { out with status := 401 }) with
          | some msg => r.violation sec l.idx s!"{msg} [{show_ out}] [options {st.opt}, callback {st.cb}]"
          | none => r
        let r := match jwtCompleteMonitor f now st.secret st.prev out with
          | some msg => r.violation sec l.idx s!"{msg} [{show_ out}] [options {st.opt}, callback {st.cb}]"
          | none => if out.ran then r.addCover "jwt-valid-credential-reached-the-handler" else r
        let r := labelCheck r sec l.idx "jwt" (kv? args "mut") true out.ran (show_ out)
        let r := if kv? args "via" = some "wire" then r.addCover "jwt-via-wire" else r
        let r := if kvNat o "nauth" 0 > 1 then r.addCover "jwt-authorization-sent-twice" else r
        let r := match f.exp with
          | .at t => if t = now then r.addCover "jwt-exp-equals-now" else if t = now + 1 then r.addCover "jwt-exp-now-plus-one" else r
          | _ => r
        let r := match f.nbf with
          | .at t => if t = now then r.addCover "jwt-nbf-equals-now" else if t = now + 1 then r.addCover "jwt-nbf-now-plus-one" else r
          | _ => r
        let r := match f.iat with
          | .at t => if t = now then r.addCover "jwt-iat-equals-now" else if t = now + 1 then r.addCover "jwt-iat-now-plus-one" else r
          | _ => r
        (r, { st with hist := res.1, clock := clock })
      | _, _ => fail "unparsable-observation"
    | _, _ => fail "bad-op"
  | _ => fail "bad-op"

/-! ### TokenParser (rest/token): ParseToken with per-call secret pairs, history counters observed -/

structure TpSt where
  hist  : Hist
  clock : Int

/-- `hexsecret:count,…` (sorted by the harness) -/
def parseHist (s : String) : Option (List (String × Nat)) :=
  if s = "-" then some [] else
  (s.splitOn ",").mapM fun p =>
    match p.splitOn ":" with
    | [k, n] => do pure ((← unhexStr k), (← n.toNat?))
    | _ => none

def showHist (l : List (String × Nat)) : String :=
  if l.isEmpty then "-" else ",".intercalate (l.map fun (k, n) => s!"{toHex (asciiBytes k)}:{n}")

def runTpLine (r : Report) (sec : Nat) (st : TpSt) (l : Line) : Report × TpSt :=
  let fail (msg : String) := (r.mismatch sec l.idx msg (joinSp l.op), st)
  match l.op with
  | "parse" :: args =>
    let o := l.obs
    let parsed : Option (String × String × Int × Int × TokenFacts String × Bool × Bool × List (String × Nat)) := do
      let s ← unhexStr (← kv? args "s")
      let p ← unhexStr (← kv? args "p")
      let now ← (← kv? args "now").toInt?
      let clk ← (← kv? args "clk").toInt?
      let alg ← kv? o "alg"
      let algS ← if alg = "-" then some none else (unhexStr alg).map some
      let sigcur := kv? o "sigcur" = some "1"
      let sigprev := kv? o "sigprev" = some "1"
      let f : TokenFacts String := {
        present := kv? o "present" = some "1", segs := (← (← kv? o "segs").toNat?),
        hdrOk := kv? o "hdr" = some "1", clmOk := kv? o "clm" = some "1", alg := algS,
        sigOk := fun x => (x = s && sigcur) || (x = p && p ≠ "" && sigprev),
        exp := (← parseTimeClaim (← kv? o "exp")), nbf := (← parseTimeClaim (← kv? o "nbf")),
        iat := (← parseTimeClaim (← kv? o "iat")), claims := [] }
      let err ← kv? o "err"
      let valid ← kv? o "valid"
      let hist ← parseHist (← kv? o "hist")
      pure (s, p, now, clk, f, err ≠ "0", valid = "1", hist)
    match parsed with
    | some (s, p, now, clk, f, err, valid, hist) =>
      let clock := st.clock + clk
      let verify := jwtVerify f now
      let res := parseToken verify st.hist s p clock
      let r := { r with ops := r.ops + 1 }
      let fs := firstSecond st.hist s p
      let r := r.addCover (
        if p.length = 0 then (if res.2.isErr then "tp-single-secret-failed" else "tp-single-secret-ok")
        else if !(verify fs.1).isErr then (if fs.1 = s then "tp-first-attempt-ok-current" else "tp-first-attempt-ok-previous")
        else if !(verify fs.2).isErr then (if fs.2 = s then "tp-second-attempt-ok-current" else "tp-second-attempt-ok-previous")
        else "tp-both-attempts-failed")
      let r := if p.length > 0 then r.addCover (
        if st.hist.count s > st.hist.count p then "tp-current-leads" else if st.hist.count s = st.hist.count p then
          (if st.hist.count s = 0 then "tp-counts-both-zero" else "tp-counts-tie") else "tp-previous-leads") else r
      let r := if s = p then r.addCover "tp-same-secret-twice" else r
      let r := if p.length > 0 ∧ !res.2.isErr then
          (if st.hist.resetTime + st.hist.resetDuration < clock then
             r.addCover (if st.hist.counts.isEmpty then "tp-history-reset-empty" else "tp-history-reset-cleared")
           else if st.hist.resetTime + st.hist.resetDuration = clock then r.addCover "tp-history-reset-boundary-not-yet"
           else r)
        else r
      let r := if res.1.counts.length > 2 then r.addCover "tp-history-more-than-two-secrets" else r
      let modelValid := match res.2 with | .tok v _ => v | .err => false
      let same := res.1.counts.length = hist.length ∧ hist.all (fun kn => res.1.count kn.1 = kn.2)
      let r := if res.2.isErr ≠ err ∨ modelValid ≠ valid ∨ ¬ same then
          r.mismatch sec l.idx s!"err={res.2.isErr} valid={modelValid} hist={showHist res.1.counts}"
            s!"err={err} valid={valid} hist={showHist hist}"
        else r
      -- the property: ParseToken succeeds only for a credential that is valid under one of the two secrets given
      let r := if !err ∧ !credentialOk f now s p then
          r.violation sec l.idx "tp: ParseToken accepted a token that is not valid under the current or the previous secret"
        else if !err ∧ !valid then r.violation sec l.idx "tp: ParseToken returned a token that is not marked valid without an error"
        else r
      (r, { hist := res.1, clock := clock })
    | none => fail "unparsable-line"
  | _ => fail "bad-op"

/-- `par` lines: several requests inside `ParseToken` of one parser at once. By `Conc.concurrent_jwt_outcome_is_sequential`
the outcome of each is the sequential one under ANY history, so the model is `parseToken` on an empty history. -/
def runTpcLine (r : Report) (sec : Nat) (s p : String) (l : Line) : Report :=
  let fail (msg : String) := r.mismatch sec l.idx msg (joinSp l.op)
  match l.op with
  | "par" :: args =>
    let o := l.obs
    match (kv? args "now").bind String.toInt?, (kv? o "n").bind String.toNat? with
    | some now, some n =>
      let r := { r with ops := r.ops + 1 }
      let r := r.addCover s!"tpc-requests-at-once-{if n ≥ 5 then "5-or-more" else toString n}"
      (List.range n).foldl (fun r i =>
        let key (k : String) := s!"{k}.{i}"
        let parsed : Option (TokenFacts String × Bool × Bool) := do
          let alg ← kv? o (key "alg")
          let algS ← if alg = "-" then some none else (unhexStr alg).map some
          let sigcur := kv? o (key "sigcur") = some "1"
          let sigprev := kv? o (key "sigprev") = some "1"
          let f : TokenFacts String := {
            present := kv? o (key "present") = some "1", segs := (← (← kv? o (key "segs")).toNat?),
            hdrOk := kv? o (key "hdr") = some "1", clmOk := kv? o (key "clm") = some "1", alg := algS,
            sigOk := fun x => (x = s && sigcur) || (x = p && p ≠ "" && sigprev),
            exp := (← parseTimeClaim (← kv? o (key "exp"))), nbf := (← parseTimeClaim (← kv? o (key "nbf"))),
            iat := (← parseTimeClaim (← kv? o (key "iat"))), claims := [] }
          pure (f, (← kv? o (key "err")) ≠ "0", (← kv? o (key "valid")) = "1")
        match parsed with
        | none => r.mismatch sec l.idx "unparsable-request" (toString i)
        | some (f, err, valid) =>
          let m := (parseToken (jwtVerify f now) {} s p 0).2
          let mValid := match m with | .tok v _ => v | .err => false
          let r := if m.isErr ≠ err ∨ mValid ≠ valid then
              r.mismatch sec l.idx s!"request {i}: err={m.isErr} valid={mValid}" s!"err={err} valid={valid}" else r
          let r := r.addCover (
            if !m.isErr then (if f.sigOk s then "tpc-accepted-current" else "tpc-accepted-previous")
            else if (f.sigOk s || f.sigOk p) ∧ !timeValid f now then "tpc-refused-time-claims-invalid-under-a-configured-secret"
            else "tpc-refused")
          if !err ∧ !credentialOk f now s p then
            r.violation sec l.idx s!"tp: with {n} requests inside ParseToken at once, request {i} was accepted although its token is not valid under the current or the previous secret (signature and time claims)"
          else if !err ∧ !valid then r.violation sec l.idx "tp: ParseToken returned a token that is not marked valid without an error"
          else r) r
    | _, _ => fail "bad-op"
  | _ => fail "bad-op"

/-! ### content security / cryption -/

def compareResp (r : Report) (sec line : Nat) (m0 m1 : Resp) (obs : Resp) : Report :=
  if m0 ≠ m1 then r.mismatch sec line "oracle-miss (a block the model needs is not in the aes table)" (showResp obs)
  else if m0.ran ≠ obs.ran ∨ m0.panic ≠ obs.panic ∨ (!m0.panic ∧ m0.status ≠ obs.status) ∨ m0.seen ≠ obs.seen ∨ m0.body ≠ obs.body then
    r.mismatch sec line (showResp m0) (showResp obs)
  else r

/-- the literal the harness uses for a secret field that is base64 but no RSA ciphertext -/
def garbageSecret : String := "Z2FyYmFnZS1zZWNyZXQ="

def secretMark : String := "@SECRET@"

/-- `fphex/P|G/NOKEY|ERR|OK:hex` entries: what RSA decryption gives for (fingerprint, secret field) pairs -/
def parseRsaTable (s : String) : Option (List (String × String × RsaRes)) :=
  if s = "-" then some [] else
  (s.splitOn ",").mapM fun e =>
    match e.splitOn "/" with
    | [fp, tag, res] => do
      let fp ← unhexStr fp
      let sec ← if tag = "P" then some secretMark else if tag = "G" then some garbageSecret else none
      let r : RsaRes ←
        if res = "NOKEY" then some .noKey else if res = "ERR" then some .err
        else match res.splitOn ":" with
          | ["OK", h] => (unhexStr h).map .ok
          | _ => none
      pure (fp, sec, r)
    | _ => none

def parseHexList (s : String) : Option (List String) :=
  if s = "none" then some [] else (s.splitOn "|").mapM unhexStr

/-- how the request was framed, from what the middleware was handed -/
def frameName (cl : Int) (body : Bytes) : String :=
  if cl > 0 then (if cl = body.length then "known-length" else "length-disagrees")
  else if cl = 0 then (if body.isEmpty then "no-body" else "zero-length-with-bytes")
  else (if body.isEmpty then "unknown-length-empty" else "chunked")

/-- the whole body is available to the cryption handler under this framing and within the limit -/
def wholeBody (limit cl : Int) (body : Bytes) : Bool :=
  if cl > 0 then decide (cl = body.length) && !(decide (limit > 0) && decide (cl > limit))
  else if cl < 0 then decide ((body.length : Int) ≤ (if limit > 0 then limit else maxBytes))
  else false

def runCsLine (r : Report) (sec : Nat) (cfg : CsCfg) (scb : String) (l : Line) : Report :=
  let fail (msg : String) := r.mismatch sec l.idx msg (joinSp l.op)
  match l.op with
  | "req" :: a =>
    let o := l.obs
    let parsed : Option (CsEnv × CsReq × Bytes × List (Bytes × Bytes) × Bytes × List (String × String × RsaRes)) := do
      let now ← (← kv? o "now").toInt?
      let path ← unhexStr (← kv? o "p")
      let query ← unhexStr (← kv? o "q")
      let cl ← (← kv? o "cl").toInt?
      let uripq ← kv? o "uripq"
      let up : Option (String × String) ←
        if uripq = "-" ∨ uripq = "ERR" then some none else
          match uripq.splitOn ":" with
          | [p, q] => do pure (some ((← unhexStr p), (← unhexStr q)))
          | _ => none
      let rsaT ← parseRsaTable (← kv? o "rsa")
      let hdrs ← parseHexList (← kv? o "hdrs")
      let table ← parseAes (← kv? o "aes")
      let uri ← unhexStr (← kv? a "uri")
      let body ← unhex (← kv? a "body")
      let reply ← unhex (← kv? a "reply")
      let ak ← unhex (← kv? a "ak")
      let env : CsEnv := {
        rsa := fun fp s => match rsaT.find? (fun e => e.1 = fp ∧ e.2.1 = s) with
          | some e => e.2.2
          | none => .err
        hmacB64 := fun k t => b64Encode (hmacSha256 k (strBytes t))
        sha256Hex := fun b => toHex (Sha256.sum b)
        urlParse := fun _ => up
        now := now }
      let req : CsReq := {
        method := (← kv? a "m"), path := path, query := query, uri := uri, headers := hdrs, cl := cl, body := body }
      pure (env, req, reply, table, ak, rsaT)
    match parsed, parseResp o with
    | some (env, req, reply, table, ak, rsaT), some obs =>
      let hd := headerTriple req
      if !hd.1.isEmpty ∧ !hd.2.1.isEmpty ∧ !hd.2.2.isEmpty ∧ (rsaT.find? (fun e => e.1 = hd.1 ∧ e.2.1 = hd.2.1)).isNone then
        fail "rsa-oracle-miss (the harness stated no RSA fact for the effective fingerprint/secret pair)"
      else
      let inner : Inner := fun _ => reply
      let hk := kvStr a "hk"
      -- user UnsignedCallbacks replace the default one: a failed verification ends with them (200 when they write nothing)
      let gate (C : BlockCipher) : Resp :=
        if scb = "none" then contentSecurity C env cfg req inner
        else contentSecurityWithCallbacks C env cfg req inner (if scb = "status" then 401 else 200)
      let m0 := applyOutcome hk (gate (oracleCipher table 0xEE))
      let m1 := applyOutcome hk (gate (oracleCipher table 0xDD))
      let r := { r with ops := r.ops + 1 }
      let mScb : Nat := if scb = "none" ∨ !csVerificationFails env cfg req then 0 else if scb = "two" then 2 else 1
      let r := if kvNat o "scb" 0 ≠ mScb then r.mismatch sec l.idx s!"scb={mScb}" s!"scb={kvNat o "scb" 0}" else r
      let r := r.addCover s!"cs-unsigned-callback-{scb}-{if mScb = 0 then "not-called" else "called"}{if cfg.strict then "" else "-loose"}"
      let r := if m0.ran then r.addCover s!"cs-handler-outcome-{if hk = "" then "ok" else hk}" else r
      let hdrRes := parseContentSecurity env req
      let gated := gatedMethods.contains req.method
      let frame := frameName req.cl req.body
      let r := r.addCover (
        if !gated then s!"cs-ungated-{req.method}"
        else match hdrRes with
          | .error e => "cs-" ++ (match e with
              | .invalidHeader => "invalid-header" | .invalidPublicKey => "unknown-fingerprint"
              | .invalidSecret => "undecryptable-secret" | .invalidKey => "bad-key-base64"
              | .invalidContentType => "bad-content-type")
          | .ok h => match verifySignature env cfg.tol req h with
              | 0 => if req.cl ≠ 0 ∧ h.contentType = 1 then s!"cs-pass-encrypted-{frame}" else s!"cs-pass-plain-{frame}"
              | 1 => "cs-bad-timestamp" | 2 => "cs-wrong-time" | _ => s!"cs-signature-mismatch-{frame}")
      let r := r.addCover (if m0.ran then "cs-ran" else if m0.panic then "cs-panic" else s!"cs-status-{m0.status}")
      let r := r.addCover s!"cs-frame-{frame}"
      let r := if kv? a "via" = some "wire" then r.addCover s!"cs-via-wire-{frame}" else r
      let r := if req.headers.length > 1 then r.addCover "cs-header-sent-twice" else r
      let r := if !req.uri.isEmpty then r.addCover (if env.urlParse req.uri |>.isSome then "cs-request-uri" else "cs-request-uri-unparsable") else r
      let r := match hdrRes with
        | .ok h => match parseInt64 h.timestamp with
          | some s =>
            if s + cfg.tol = env.now then r.addCover "cs-window-edge-past"
            else if env.now + cfg.tol = s then r.addCover "cs-window-edge-future"
            else if s + cfg.tol + 1 = env.now then r.addCover "cs-window-one-second-outside-past"
            else if env.now + cfg.tol + 1 = s then r.addCover "cs-window-one-second-outside-future"
            else if s + cfg.tol - 1 = env.now then r.addCover "cs-window-one-second-inside-past"
            else if env.now + cfg.tol - 1 = s then r.addCover "cs-window-one-second-inside-future" else r
          | none => r
        | _ => r
      let r := if !cfg.strict then r.addCover "cs-nonstrict" else r
      let r := if cfg.tol = 0 then r.addCover (if m0.ran then "cs-zero-tolerance-same-second-accepted" else "cs-zero-tolerance-rejected")
               else if cfg.tol < 0 then r.addCover (if m0.ran ∧ cfg.strict ∧ gated then "cs-negative-tolerance-ACCEPTED" else "cs-negative-tolerance-nothing-passes") else r
      let r := compareResp r sec l.idx m0 m1 obs
      -- with user callbacks the status of a refused request is theirs (not alarmed); that the handler does not run is checked
      let r := match (if scb = "none" ∨ obs.ran then csMonitor env cfg req obs else none) with
        | some msg => r.violation sec l.idx s!"{msg} [{showResp obs}]{if scb = "none" then "" else s!" [user callbacks: {scb}]"}"
        | none => r
      let r := match csBodyMonitor env cfg req obs with
        | some msg => r.violation sec l.idx s!"{msg} [{showResp obs}]"
        | none => r
      let r := match csReadMonitor env cfg req obs with
        | some msg => r.violation sec l.idx s!"{msg} [{showResp obs}]{if (kv? a "inter").isSome then s!" [while the request sat in its handler another request ({kvStr a "inter"}) went through the verifier]" else ""}"
        | none => r
      -- inter: request B went through the same middleware while A sat in its handler; B is modelled as a request of its own
      let r := match kv? a "inter" with
        | none => r
        | some ik =>
          match (kv? a "bbody").bind unhex, (kv? o "bsig").bind unhexStr, (kv? a "fp").bind unhexStr with
          | some bbody, some bsig, some fp =>
            let hdrB := if ik = "bare" then [] else [s!"key={fp}; secret={secretMark}; signature={bsig}"]
            let reqB : CsReq := { req with headers := hdrB, cl := bbody.length, body := bbody, uri := "" }
            let mB := if scb = "none" then contentSecurity (oracleCipher table 0xEE) env cfg reqB (fun _ => [])
                      else contentSecurityWithCallbacks (oracleCipher table 0xEE) env cfg reqB (fun _ => []) (if scb = "status" then 401 else 200)
            let typeB : Int := match parseContentSecurity env reqB with | .ok h => h.contentType | .error _ => 0
            let r := r.addCover s!"cs-inter-{ik}-{if mB.ran then "B-ran" else s!"B-{mB.status}"}-{if obs.ran then "A-ran" else "A-refused"}{if bbody.length ≥ req.body.length then "" else "-B-shorter"}"
            let bran : Bool := decide (kv? o "bran" ≠ some "0")
            let r := if obs.ran ∧ typeB ≠ 1 ∧ (bran ≠ mB.ran ∨ (!mB.ran ∧ kvNat o "bstatus" 0 ≠ mB.status)) then
                r.mismatch sec l.idx s!"B: ran={mB.ran} status={mB.status}" s!"B: ran={bran} status={kvNat o "bstatus" 0}" else r
            if obs.ran ∧ bran ∧ typeB ≠ 1 ∧ kv? o "bseenok" ≠ some "1" then
              r.violation sec l.idx "cs: the handler of the second request read a body other than its own"
            else r
          | _, _, _ => if (kv? o "ran") = some "0" then r else r.mismatch sec l.idx "unparsable-inter" (joinSp l.op)
      let r := match csCompleteMonitor env cfg req obs with
        | some msg => r.violation sec l.idx s!"{msg} [{showResp obs}]"
        | none => if csCovers env cfg req ∧ obs.ran then r.addCover "cs-covering-signature-reached-the-handler" else r
      let r := labelCheck r sec l.idx "cs" (kv? a "mut") (cfg.strict && gated && req.uri.isEmpty) obs.ran (showResp obs)
      -- encrypted round trip, for verified encrypted requests whose whole body the framing delivers
      let r := match hdrRes with
        | .ok h =>
          if cfg.strict ∧ gated ∧ req.uri.isEmpty ∧ verifySignature env cfg.tol req h = 0 ∧ h.contentType = 1 ∧ req.cl ≠ 0 then
            let C := oracleCipher table 0xEE
            let r := if (req.body.length : Int) > cfg.limit ∧ cfg.limit > 0 then r.addCover s!"cs-encrypted-over-limit-{frame}" else r
            match cryptSeenMonitor C h.key req.cl req.body obs with
            | some msg => r.violation sec l.idx s!"{msg} [verified type=1 request, framing {frame}, limit {cfg.limit}] [{showResp obs}]"
            | none => r
          else r
        | _ => r
      match hdrRes with
      | .ok h =>
        if gated ∧ verifySignature env cfg.tol req h = 0 ∧ h.contentType = 1 ∧ h.key = ak then
          if req.cl = 0 then r.addCover "cs-type1-without-body-plain-reply"
          else if wholeBody cfg.limit req.cl req.body then
            let C := oracleCipher table 0xEE
            match cryptMonitor C h.key (properlyEncrypted C h.key req.body) reply obs with
            | some msg => r.violation sec l.idx s!"{msg} [framing {frame}] [{showResp obs}]"
            | none => r.addCover (if (properlyEncrypted C h.key req.body).isSome then s!"cs-roundtrip-checked-{frame}" else "cs-malformed-ciphertext")
          else r
        else r
      | _ => r
    | _, _ => fail "unparsable-line"
  | _ => fail "bad-op"

def runCryptLine (r : Report) (sec : Nat) (key : Bytes) (limit : Int) (l : Line) : Report :=
  let fail (msg : String) := r.mismatch sec l.idx msg (joinSp l.op)
  match l.op with
  | "big" :: _ =>
    -- a PROPERLY encrypted body of `blen` bytes around the cap: the model decides on lengths (`readAdmits`, proven equal to
    -- `readBody`'s decision for every body: readBody_isSome_iff_admits), the harness states whether the handler saw the payload
    let o := l.obs
    match (kv? o "cl").bind String.toInt?, (kv? o "blen").bind String.toNat?, (kv? o "status").bind String.toNat? with
    | some cl, some blen, some status =>
      let ran : Bool := decide (kv? o "ran" ≠ some "0")
      let seenOk : Bool := decide (kv? o "seenok" = some "1")
      let keyOk := key.length = 16 || key.length = 24 || key.length = 32
      let admits := readAdmits limit cl blen
      let cap : Int := if cl > 0 then limit else unknownCap limit
      let r := { r with ops := r.ops + 1 }
      let cls := if (blen : Int) + 1 = cap then "one-below" else if (blen : Int) = cap then "at" else if (blen : Int) = cap + 1 then "one-over"
                 else if (blen : Int) > cap ∧ cap > 0 then "far-over" else "uncapped"
      let r := r.addCover s!"crypt-default-cap-{cls}-{if cl > 0 then "known-length" else "chunked"}-{if admits then "read-whole" else "refused"}"
      let mRan := admits && keyOk
      let r := if mRan ≠ ran ∨ (if mRan then 200 else 400) ≠ status then
          r.mismatch sec l.idx s!"ran={mRan} status={if mRan then 200 else 400}" s!"ran={ran} status={status}" else r
      if ran ∧ !admits then
        r.violation sec l.idx s!"crypt: the handler ran although the body of {blen} bytes is over the cap of {cap} bytes [cl={cl}, limit {limit}]"
      else if ran ∧ !seenOk then
        r.violation sec l.idx s!"crypt: at the cap the handler did not see the decrypted payload of the whole body ({blen} bytes, cap {cap}) [cl={cl}, limit {limit}]"
      else if !ran ∧ admits ∧ keyOk then
        r.violation sec l.idx s!"crypt: a properly encrypted payload in a body of {blen} bytes (cap {cap}) did not reach the handler (status {status})"
      else r
    | _, _, _ => fail "unparsable-line"
  | "req" :: a =>
    let o := l.obs
    let parsed : Option (Bytes × Bytes × Int × List (Bytes × Bytes)) := do
      pure ((← unhex (← kv? a "body")), (← unhex (← kv? a "reply")), (← (← kv? o "cl").toInt?), (← parseAes (← kv? o "aes")))
    match parsed, parseResp o with
    | some (body, reply, cl, table), some obs =>
      let inner : Inner := fun _ => reply
      let C := oracleCipher table 0xEE
      let hk := kvStr a "hk"
      -- wk=fail:n / short:n: the underlying writer takes only the first n bytes of what flush writes
      let wk := (kvStr a "wk").splitOn ":"
      let part (m : Resp) : Resp := match wk with
        | [_, n] => writtenPrefix (n.toNat?.getD 0) m
        | _ => m
      let m0 := part (applyOutcome hk (cryptionHandler C limit key cl body inner))
      let m1 := part (applyOutcome hk (cryptionHandler (oracleCipher table 0xDD) limit key cl body inner))
      let r := { r with ops := r.ops + 1 }
      let r := match wk with
        | [k, n] => r.addCover s!"crypt-underlying-writer-{k}-{if (cryptionHandler C limit key cl body inner).body.length ≤ n.toNat?.getD 0 then "takes-everything" else "takes-a-prefix"}"
        | _ => r
      let r := if m0.ran then r.addCover s!"crypt-handler-outcome-{if hk = "" then "ok" else hk}{if reply.isEmpty then "-no-reply" else "-reply"}" else r
      let frame := frameName cl body
      let content : Except String Bytes :=
        if cl = 0 then .error "crypt-no-body-passthrough"
        else if limit > 0 ∧ cl > limit then .error "crypt-too-long"
        else if cl > 0 then (if (body.length : Int) < cl then .error "crypt-short-body" else .ok (body.take cl.toNat))
        else if (body.length : Int) > (if limit > 0 then limit else maxBytes) then .error "crypt-unknown-length-too-long"
        else if body.isEmpty then .error "crypt-unknown-length-empty-passthrough"
        else .ok body
      let r := r.addCover (
        match content with
        | .error c => c
        | .ok content =>
          match b64Decode (bytesToString content) with
          | none => "crypt-bad-base64"
          | some ct =>
            if !C.keyOk key then "crypt-bad-key"
            else if ct.isEmpty then "crypt-empty-ciphertext"
            else if ct.length % 16 ≠ 0 then "crypt-partial-block-zeros"
            else match ecbDecrypt C key ct with
              | .ok p => if (properlyEncrypted C key content).isSome then s!"crypt-decrypted-{frame}" else
                  (if p.length = ct.length then "crypt-zero-padding-accepted" else "crypt-unchecked-padding-accepted")
              | .padErr => "crypt-padding-error"
              | _ => "crypt-other")
      let r := r.addCover s!"crypt-frame-{frame}"
      let r := if kv? a "via" = some "wire" then r.addCover s!"crypt-via-wire-{frame}" else r
      let r := if (limit > 0 ∧ (body.length : Int) = limit) then r.addCover s!"crypt-body-at-limit-{frame}"
               else if (limit > 0 ∧ (body.length : Int) = limit + 1) then r.addCover s!"crypt-body-one-over-limit-{frame}" else r
      let r := r.addCover (if m0.ran then (if reply.isEmpty then "crypt-empty-reply" else if m0.status = 500 then "crypt-reply-500" else "crypt-reply-encrypted")
                           else if m0.panic then "crypt-panic" else s!"crypt-status-{m0.status}")
      let r := compareResp r sec l.idx m0 m1 obs
      -- limit classes: where the body ends relative to the limit in force, per framing
      let cap : Int := if cl > 0 then limit else (if limit > 0 then limit else maxBytes)
      let r := if cap > 0 ∧ cap < 100000 ∧ cl ≠ 0 then
          let n : Int := body.length
          let cls := if n + 1 = cap then "one-below-limit" else if n = cap then "at-limit" else if n = cap + 1 then "one-over-limit"
                     else if n > cap + 1 then "far-over-limit" else "below-limit"
          let r := r.addCover s!"crypt-limit-{cls}-{frame}"
          -- an over-limit body whose first `cap` bytes decrypt on their own: a cut at the limit would go unnoticed downstream
          if n > cap ∧ (decryptWhole C key (body.take cap.toNat)).isSome ∧ C.keyOk key then r.addCover s!"crypt-over-limit-prefix-decrypts-{frame}" else r
        else r
      let r := if cl > 0 ∧ (body.length : Int) < cl then r.addCover "crypt-declared-but-short" else r
      let r := match cryptSeenMonitor C key cl body obs with
        | some msg => r.violation sec l.idx s!"{msg} [framing {frame}, limit {limit}] [{showResp obs}]"
        | none => if cl ≠ 0 ∧ obs.ran then r.addCover s!"crypt-seen-is-decryption-of-whole-body-{frame}" else r
      if C.keyOk key ∧ wholeBody limit cl body ∧ part (cryptionHandler C limit key cl body inner) = cryptionHandler C limit key cl body inner then
        match cryptMonitor C key (properlyEncrypted C key body) reply obs with
        | some msg => r.violation sec l.idx s!"{msg} [framing {frame}] [{showResp obs}]"
        | none => if (properlyEncrypted C key body).isSome then r.addCover s!"crypt-roundtrip-checked-{frame}" else r
      else r
    | _, _ => fail "unparsable-line"
  | _ => fail "bad-op"

/-! ### rest: servers built through the public API, requests through the bound router -/

def parseRouteOption (t : String) : Option RouteOption :=
  if t = "jwt" then some .withJwt
  else if t = "jwtt" then some (.withJwtTransition false)
  else if t = "sig" then some (.withSignature true true)
  else if t = "sigl" then some (.withSignature false true)
  else if t = "sign" then some (.withSignature false false)
  else if t = "sigs" then some (.withSignature true false)
  else if t = "sig2" ∨ t = "sigb" ∨ t = "sigx" ∨ t = "sigd" ∨ t = "sigt" ∨ t = "sigm" then some (.withSignature true true)
  else if t = "jwtte" then some (.withJwtTransition true)
  else if t = "pfx" ∨ t = "prio" ∨ t = "mb" ∨ t = "to" then some .other
  else none

def parseGroup (g : String) : Option (List RouteOption) :=
  if g = "-" then some [] else (g.splitOn "+").mapM parseRouteOption

/-- the `PrivateKeys` a signature option token configures (fingerprint, key file), `none` = not a signature option -/
def optionKeys (t : String) : Option (List KeyConf) :=
  if t = "sig" ∨ t = "sigl" ∨ t = "sigt" then some [("good", "k1")]
  else if t = "sigm" then some [("good", "missing")]
  else if t = "sig2" then some [("alt", "k2")]
  else if t = "sigb" then some [("good", "k1"), ("alt", "k2")]
  else if t = "sigx" then some [("good", "k2")]
  else if t = "sigd" then some [("good", "k2"), ("good", "k1")]
  else if t = "sign" ∨ t = "sigs" then some []
  else none

/-- the key list in force for a group: `WithSignature` assigns the whole list, the last such option wins -/
def groupKeys (g : String) : List KeyConf :=
  if g = "-" then [] else ((g.splitOn "+").filterMap optionKeys).getLast?.getD []

/-- the key file the group's OWN decrypters hold for a fingerprint (`loadDecrypters` with every file loadable) -/
def keyLoader (file : String) : Option String := if file = "missing" then none else some file

def ownKeyFile (keys : List KeyConf) (fp : String) : Option String :=
  (loadDecrypters keyLoader keys).bind fun m => decrypterOf m fp

/-- the tolerance in force for a group, seconds: the last signature option's -/
def groupTolShort (g : String) : Bool :=
  ((g.splitOn "+").filter fun t => (optionKeys t).isSome).getLast? = some "sigt"

def parseMw (s : String) : Option MwConf :=
  match s.toList.map (fun ch => decide (ch = '1')) with
  | [a, b, c, d, e, f, g, h, i, j, k] =>
    if s.toList.all (fun ch => ch = '0' ∨ ch = '1') then
      some { trace := a, log := b, prometheus := c, maxConns := d, breaker := e, shedding := f, timeout := g,
             recover := h, metrics := i, maxBytes := j, gunzip := k }
    else none
  | _ => none

structure RestCfg where
  custom : Option (List String)
  mw     : MwConf
  uses   : List String
  cb     : Bool
  groups : List (List RouteOption)
  keys   : List (List KeyConf) := []      -- per group: the PrivateKeys of its signature setting

structure RestSt where
  bound : Option Nat := none      -- after `bind`: the number of groups that were bound

def parseRestCfg (cfg : List String) : Option RestCfg := do
  let chainKind ← kv? cfg "chain"
  let mw ← parseMw (← kv? cfg "mw")
  let ncm := kvNat cfg "ncm" 0
  let nuse := kvNat cfg "nuse" 0
  let groups ← ((← kv? cfg "groups").splitOn ",").mapM parseGroup
  let keys := ((← kv? cfg "groups").splitOn ",").map groupKeys
  let custom ← if chainKind = "custom" then some (some ((List.range ncm).map fun i => s!"cm{i}"))
               else if chainKind = "native" then some none else none
  pure { custom := custom, mw := mw, uses := (List.range nuse).map fun i => s!"use{i}", cb := kvNat cfg "cb" 0 = 1, groups := groups, keys := keys }

def groupName (o : RouteOpts) : String :=
  (if o.jwt then (if o.prev then "jwt-transition" else "jwt") else "nojwt") ++ "-" ++
  (if o.sig then (if o.sigKeys then (if o.sigStrict then "sig-strict" else "sig-loose") else (if o.sigStrict then "sig-strict-nokeys" else "sig-nokeys")) else "nosig")

def runRestLine (r : Report) (sec : Nat) (cfg : RestCfg) (st : RestSt) (l : Line) : Report × RestSt :=
  let fail (msg : String) := (r.mismatch sec l.idx msg (joinSp l.op), st)
  let chainName := match cfg.custom with
    | some c => if c.isEmpty then "custom-empty" else "custom-with-middlewares"
    | none => if (nativeChain cfg.mw).length = 11 then "native-all" else if (nativeChain cfg.mw).isEmpty then "native-none"
              else if (nativeChain cfg.mw).length = 10 then "native-one-off" else "native-some"
  match l.op with
  | ["bind"] =>
    -- bindRoutes stops at the first group whose verifier cannot be built
    let verdicts := (List.range cfg.groups.length).map fun i =>
      verifierFor keyLoader (applyOptions (cfg.groups.getD i [])) (cfg.keys.getD i [])
    let firstBad := (verdicts.map fun v => match v with | .ok _ => false | .error _ => true).findIdx? (· = true)
    let model := match firstBad.bind (verdicts[·]?) with
      | some (.error .signatureConfig) => "err=signature-config"
      | some (.error .keyFile) => "err=other"
      | _ => "ok"
    let r := if model = "err=other" then r.addCover "rest-bind-error-key-file-cannot-be-loaded" else r
    let r := { r with ops := r.ops + 1 }
    let r := r.addCover (if firstBad.isSome then "rest-bind-error-strict-signature-without-keys" else "rest-bind-ok")
    let r := r.addCover s!"rest-chain-{chainName}"
    let r := cfg.groups.foldl (fun acc g => acc.addCover s!"rest-group-{groupName (applyOptions g)}") r
    let r := if cfg.groups.any (fun g => g = [.withJwtTransition false, .withJwt] ∨ (g.contains (.withJwtTransition false) ∧ g.getLast? = some .withJwt))
             then r.addCover "rest-jwt-after-transition-keeps-previous-secret" else r
    let r := if joinSp l.obs ≠ model then r.mismatch sec l.idx model (joinSp l.obs) else r
    (r, { bound := some (firstBad.getD cfg.groups.length) })
  | "req" :: a =>
    let o := l.obs
    match st.bound, (kv? a "g").bind String.toNat?, (kv? a "now").bind String.toInt?, (kv? a "body").bind unhex with
    | some nbound, some g, some now, some body =>
      match cfg.groups[g]? with
      | none => fail "bad-group"
      | some gopts =>
        let opts := applyOptions gopts
        let facts : Option (TokenFacts String) := do
          let alg ← kv? o "alg"
          let algS ← if alg = "-" then some none else (unhexStr alg).map some
          let claims ← parsePairs (← kv? o "claims")
          let sigcur := kv? o "sigcur" = some "1"
          let sigprev := kv? o "sigprev" = some "1"
          pure { present := kv? o "present" = some "1", segs := (← (← kv? o "segs").toNat?),
                 hdrOk := kv? o "hdr" = some "1", clmOk := kv? o "clm" = some "1", alg := algS,
                 sigOk := fun s => (s = "cur" && sigcur) || (s = "prev" && sigprev),
                 exp := (← parseTimeClaim (← kv? o "exp")), nbf := (← parseTimeClaim (← kv? o "nbf")),
                 iat := (← parseTimeClaim (← kv? o "iat")), claims := claims }
        let obsv : Option (Bool × Nat × List (String × String) × Nat × Nat × Nat × Nat × Bytes × Bool) := do
          pure ((← kv? o "ran") ≠ "0", (← (← kv? o "status").toNat?), (← parsePairs (← kv? o "ctx")), (← (← kv? o "cm").toNat?),
                (← (← kv? o "use").toNat?), (← (← kv? o "ucb").toNat?), (← (← kv? o "scb").toNat?), (← unhex (← kv? o "seen")),
                (← kv? o "csok") = "1")
        match facts, obsv with
        | some f, some (ran, status, ctx, cm, use, ucb, scb, seen, covered) =>
          let r := { r with ops := r.ops + 1 }
          let prevName := if opts.prev then "prev" else ""
          let authOut := (authorize (jwtVerify f now) {} "cur" prevName 0).2
          let credOk := credentialOk f now "cur" prevName
          let isPost := kv? a "r" = some "b"
          let method := if isPost then "POST" else "GET"
          let gated := gatedMethods.contains method
          let sentBody := if isPost then body else []
          let count (p : String) (l : List String) := (l.filter (fun n => n.startsWith p)).length
          -- the model: the chain bound to the route, the two gates' verdicts, everything else passes
          let model : ChainRun × List (String × String) × Nat × Nat :=
            if g < nbound then
              match bindRoute cfg.custom cfg.mw opts cfg.uses with
              | some chn =>
                let run := runChain (gateVerdict (authVerdict authOut) (csGateVerdict opts.sigStrict cfg.cb gated covered)) chn
                let mctx := (restServe opts cfg.uses chn authOut (csGateVerdict opts.sigStrict cfg.cb gated covered)).ctx
                let mucb := if cfg.cb ∧ run.saw.contains authorizeName ∧ !authOut.ran then 1 else 0
                let mscb := if cfg.cb ∧ run.saw.contains contentSecurityName ∧ gated ∧ !covered then 1 else 0
                (run, mctx, mucb, mscb)
              | none => ({ saw := [], ran := false, status := 404 }, [], 0, 0)
            else ({ saw := [], ran := false, status := 404 }, [], 0, 0)
          let run := model.1
          let mseen := if run.ran then sentBody else []
          let show_ (ran : Bool) (status : Nat) (ctx : List (String × String)) (cm use ucb scb : Nat) (seen : Bytes) :=
            s!"ran={if ran then 1 else 0} status={status} ctx={showPairs ctx} cm={cm} use={use} ucb={ucb} scb={scb} seen={toHex seen}"
          let musesRan := (run.saw.filter fun n => cfg.uses.contains n).length     -- = restServe's usesRan
          let mshow := show_ run.ran run.status model.2.1 (count "cm" run.saw) musesRan model.2.2.1 model.2.2.2 mseen
          let oshow := show_ ran status ctx cm use ucb scb seen
          let r := if mshow ≠ oshow then r.mismatch sec l.idx mshow oshow else r
          -- inter: another request went through the server while this one sat in its handler: the handler still reads ITS body
          let r := match kv? a "inter" with
            | some ik => r.addCover s!"rest-inter-{ik}-{if ran then "A-ran" else "A-refused"}"
            | none => r
          let r := if ran ∧ seen ≠ sentBody then
              r.violation sec l.idx s!"rest: the handler ran on a body that is not the body the request carried (and its covering signature digests) [chain {chainName}, group {groupName opts}, tok={kvStr a "tok"} cs={kvStr a "cs"} inter={kvStr a "inter"}] [{oshow}]"
            else r
          -- the group's OWN decrypters (model: `loadDecrypters` over the group's key list) against the harness' fact
          let own := cfg.keys.getD g []
          let fpSent := ((kv? o "fp").bind unhexStr).getD ""
          let encTo := kvStr o "enc"
          let ownHas : Bool := decide (fpSent ≠ "") && decide (ownKeyFile own fpSent = some encTo)
          let r := if covered ∧ !ownHas then
              r.mismatch sec l.idx s!"the group's own decrypters hold no key {encTo} for fingerprint {fpSent}: not covered" "csok=1"
            else r
          let foreign : Bool := decide (fpSent ≠ "") && !ownHas &&
            (List.range cfg.groups.length).any fun j => decide (j ≠ g) && decide (ownKeyFile (cfg.keys.getD j []) fpSent = some encTo)
          let r := if foreign ∧ opts.sig ∧ opts.sigKeys then
              r.addCover (if opts.sigStrict then (if run.ran then "rest-key-of-another-group-accepted" else
                            (if (ownKeyFile own fpSent).isSome then "rest-key-of-another-group-rejected-same-fingerprint" else "rest-key-of-another-group-rejected"))
                          else "rest-key-of-another-group-loose")
            else r
          let r := if ownHas ∧ own.length > 1 then r.addCover (if (own.map (·.1)).eraseDups.length < own.length then "rest-repeated-fingerprint-later-file-wins" else "rest-group-with-two-keys") else r
          let r := if ((cfg.keys.filter (fun k => !k.isEmpty)).eraseDups.length > 1) then r.addCover "rest-server-with-different-keys-per-group" else r
          let r := if kvStr a "cs" = "stale-short" ∨ kvStr a "cs" = "future-short" then
              r.addCover (if covered then "rest-short-stale-accepted-by-long-tolerance-group" else "rest-short-stale-rejected")
            else r
          -- cover
          let r := r.addCover s!"rest-tok-{kvStr a "tok"}"
          let r := r.addCover s!"rest-cs-{kvStr a "cs"}"
          let r := r.addCover s!"rest-{chainName}-{groupName opts}-{if run.ran then "ran" else s!"status-{run.status}"}"
          let r := if opts.jwt ∧ kvStr a "tok" = "other-group" ∧ !run.ran then r.addCover "rest-token-of-another-group-rejected" else r
          let r := if opts.jwt ∧ kvStr a "tok" = "prev" then r.addCover (if opts.prev then "rest-previous-secret-accepted-in-transition" else "rest-previous-secret-rejected-without-transition") else r
          let r := if !opts.jwt ∧ !(opts.sig ∧ opts.sigKeys) ∧ run.ran ∧ !f.present then r.addCover "rest-undeclared-route-open" else r
          let r := if g ≥ nbound then r.addCover "rest-request-to-unbound-group" else r
          let r := if !run.ran ∧ cfg.uses.length > 0 ∧ g < nbound then r.addCover "rest-use-middlewares-behind-the-gate" else r
          -- the property, on what the implementation did
          if g < nbound then
            match restMonitor opts gated credOk covered f.claims cfg.uses.length ran status ctx use with
            | some msg => (r.violation sec l.idx s!"{msg} [chain {chainName}, group {groupName opts}, tok={kvStr a "tok"} cs={kvStr a "cs"}] [{oshow}]", st)
            | none =>
              match restCompleteMonitor opts gated credOk covered (opts.sigStrict || cfg.cb) ran status with
              | some msg => (r.violation sec l.idx s!"{msg} [chain {chainName}, group {groupName opts}, tok={kvStr a "tok"} cs={kvStr a "cs"}] [{oshow}]", st)
              | none => ((if ran ∧ (opts.jwt ∨ (opts.sig ∧ opts.sigKeys)) then r.addCover "rest-valid-credentials-reached-the-handler" else r), st)
          else (r, st)
        | _, _ => fail "unparsable-observation"
    | _, _, _, _ => fail "bad-op"
  | _ => fail "bad-op"

/-! ### text -/

def runTextLine (r : Report) (sec : Nat) (l : Line) : Report :=
  let fail (msg : String) := r.mismatch sec l.idx msg (joinSp l.op)
  let r1 := { r with ops := r.ops + 1 }
  match l.op with
  | "ph" :: a =>
    match (kv? a "text").bind unhexStr, (kv? l.obs "fields").bind parsePairs with
    | some text, some fields =>
      let m := parseHeaderFields text
      let keys := (m.map (·.1)).eraseDups
      let ok := fields.all (fun (k, v) => keys.contains k && attr m k = v) && keys.length = fields.length
      let r1 := r1.addCover "text-parse-header"
      if ok then r1 else r1.mismatch sec l.idx (showPairs (keys.map fun k => (k, attr m k))) (showPairs fields)
    | _, _ => fail "unparsable-line"
  | "b64d" :: a =>
    match (kv? a "text").bind unhexStr, l.obs with
    | some text, [o] =>
      let m := match b64Decode text with
        | some b => "ok:" ++ (if b.isEmpty then "-" else toHex b)
        | none => "err"
      let r1 := r1.addCover (if m = "err" then "text-b64-decode-error" else "text-b64-decode-ok")
      if m = o then r1 else r1.mismatch sec l.idx m o
    | _, _ => fail "unparsable-line"
  | "b64e" :: a =>
    match (kv? a "data").bind unhex, (kv? l.obs "text").bind unhexStr with
    | some d, some t =>
      let r1 := r1.addCover "text-b64-encode"
      let r1 := if b64Encode d = t then r1 else r1.mismatch sec l.idx (b64Encode d) t
      if b64Decode t = some d then r1 else r1.mismatch sec l.idx "b64Decode (encode d) ≠ d" t
    | _, _ => fail "unparsable-line"
  | "hmac" :: a =>
    match (kv? a "key").bind unhex, (kv? a "text").bind unhexStr, (kv? l.obs "mac").bind unhexStr with
    | some k, some t, some mac =>
      let r1 := r1.addCover "text-hmac"
      let m := b64Encode (hmacSha256 k (strBytes t))
      if m = mac then r1 else r1.mismatch sec l.idx m mac
    | _, _, _ => fail "unparsable-line"
  | _ => fail "bad-op"

def runSection (r : Report) (s : Section) : Report :=
  match kv? s.cfg "kind" with
  | some "jwt" =>
    match (kv? s.cfg "secret").bind unhexStr, (kv? s.cfg "prev").bind unhexStr, (kv? s.cfg "t0").bind String.toInt? with
    | some secret, some prev, some t0 =>
      (s.lines.foldl (fun (acc : Report × JwtSt) l => runJwtLine acc.1 s.idx acc.2 l)
        (r, { secret := secret, prev := prev, hist := { resetTime := t0 }, clock := t0, cb := kvStr s.cfg "cb" "none",
              opt := kvStr s.cfg "opt" "auto", disc := ((kv? s.cfg "disc").bind unhexStr).getD "",
              cbFirst := kvStr s.cfg "cbpos" "last" = "first" })).1
    | _, _, _ => r.mismatch s.idx 0 "bad-section" (joinSp s.cfg)
  | some "cs" =>
    -- ctor=plain: ContentSecurityHandler(decrypters, tolerance, strict) = the limit is the package's maxBytes
    let plain := kvStr s.cfg "ctor" "limit" = "plain"
    let cfg : CsCfg := { strict := kvNat s.cfg "strict" 1 = 1, tol := kvInt s.cfg "tol" 60,
                         limit := if plain then maxBytes else kvInt s.cfg "limit" 1048576 }
    let r := r.addCover (if plain then "cs-constructor-ContentSecurityHandler" else "cs-constructor-LimitContentSecurityHandler")
    s.lines.foldl (fun acc l => runCsLine acc s.idx cfg (kvStr s.cfg "scb" "none") l) r
  | some "crypt" =>
    let plain := kvStr s.cfg "ctor" "limit" = "plain"
    let r := r.addCover (if plain then "crypt-constructor-CryptionHandler" else "crypt-constructor-LimitCryptionHandler")
    match (kv? s.cfg "key").bind unhex with
    | some key => s.lines.foldl (fun acc l => runCryptLine acc s.idx key (if plain then maxBytes else kvInt s.cfg "limit" 1048576) l) r
    | none => r.mismatch s.idx 0 "bad-section" (joinSp s.cfg)
  | some "tp" =>
    let t0 := kvInt s.cfg "t0" 0
    let rd := kvInt s.cfg "rd" 0
    let h0 : Hist := if rd > 0 then { resetTime := t0, resetDuration := rd } else { resetTime := t0 }
    (s.lines.foldl (fun (acc : Report × TpSt) l => runTpLine acc.1 s.idx acc.2 l) (r, { hist := h0, clock := t0 })).1
  | some "tpc" =>
    match (kv? s.cfg "s").bind unhexStr, (kv? s.cfg "p").bind unhexStr with
    | some sc, some pv => s.lines.foldl (fun acc l => runTpcLine acc s.idx sc pv l) r
    | _, _ => r.mismatch s.idx 0 "bad-section" (joinSp s.cfg)
  | some "text" => s.lines.foldl (fun acc l => runTextLine acc s.idx l) r
  | some "rest" =>
    match parseRestCfg s.cfg with
    | some cfg => (s.lines.foldl (fun (acc : Report × RestSt) l => runRestLine acc.1 s.idx cfg acc.2 l) (r, {})).1
    | none => r.mismatch s.idx 0 "bad-section" (joinSp s.cfg)
  | _ => r.mismatch s.idx 0 "bad-section" (joinSp s.cfg)

def driver (secs : List Section) : Report := secs.foldl runSection {}

end GoZero.C18
