/-
C18 — property theorems of round 5c (proof and model).

retry structure   parseToken_eq_attempts, attempts_isErr_comm, jwt_attempts_comm, jwt_attempts_fully_verified,
                  parseToken_accepts_only_fully_verified, parseToken_accepted_set_independent_of_order,
                  parseToken_follows_calls, calls_parse_only_the_two_secrets,
                  signature_only_fallback_accepts_expired (witness)
cap               readBody_isSome_iff_admits, crypt_handler_runs_only_if_admitted, cap_boundary_unknown_length,
                  cap_boundary_declared_length, declared_length_uncapped_without_limit, cs_encrypted_runs_only_if_admitted
flush             flush_partial_write_is_ciphertext_prefix, flush_complete_write
concurrency       Conc.stepPc_good, Conc.step_inv, Conc.run_inv, Conc.init_inv,
                  Conc.concurrent_outcome_is_the_attempts_in_some_order, Conc.concurrent_acceptance_independent_of_schedule,
                  Conc.concurrent_jwt_outcome_is_sequential, Conc.incr_steps_are_the_accesses
-/
import GoZero.C18.PropsR5
namespace GoZero.C18

/-! ## both attempts of `ParseToken` apply the full verification; the order of the attempts does not matter -/

/-- with a previous secret `ParseToken`'s result IS the two attempts, in the order the history counters choose -/
theorem parseToken_eq_attempts {C : Type} (verify : String → Parsed C) (h : Hist) (secret prev : String) (clock : Int)
    (hp : prev.length > 0) :
    (parseToken verify h secret prev clock).2 = attempts verify (firstSecond h secret prev).1 (firstSecond h secret prev).2 := by
  unfold parseToken attempts
  simp only [hp, if_true]
  cases h1 : (verify (firstSecond h secret prev).1).isErr <;> cases h2 : (verify (firstSecond h secret prev).2).isErr <;> simp [h2]
  cases hv : verify (firstSecond h secret prev).2 with
  | err => rfl
  | tok v c => rw [hv] at h2; simp [Parsed.isErr] at h2

/-- for EVERY verification function: whether the two attempts accept does not depend on their order -/
theorem attempts_isErr_comm {C : Type} (verify : String → Parsed C) (a b : String) :
    (attempts verify a b).isErr = (attempts verify b a).isErr := by
  unfold attempts
  cases h1 : (verify a).isErr <;> cases h2 : (verify b).isErr <;> simp [h1, h2]

/-- … they accept iff one of the two full verifications accepts -/
theorem attempts_isErr_iff {C : Type} (verify : String → Parsed C) (a b : String) :
    (attempts verify a b).isErr = ((verify a).isErr && (verify b).isErr) := by
  unfold attempts
  cases h1 : (verify a).isErr <;> cases h2 : (verify b).isErr <;> simp [h1, h2]

/-- for golang-jwt as go-zero calls it the RESULT (validity flag and claims, not only acceptance) is the same in both orders -/
theorem jwt_attempts_comm {V : Type} (f : TokenFacts V) (now : Int) (a b : String) :
    attempts (jwtVerify f now) a b = attempts (jwtVerify f now) b a := by
  unfold attempts
  cases h1 : (jwtVerify f now a).isErr <;> cases h2 : (jwtVerify f now b).isErr <;> simp
  · exact jwtVerify_agree f now a b h1 h2
  · have e1 : jwtVerify f now a = .err := by
      cases hv : jwtVerify f now a with
      | err => rfl
      | tok v c => rw [hv] at h1; simp [Parsed.isErr] at h1
    have e2 : jwtVerify f now b = .err := by
      cases hv : jwtVerify f now b with
      | err => rfl
      | tok v c => rw [hv] at h2; simp [Parsed.isErr] at h2
    rw [e1, e2]

/-- whichever attempt accepts — the first or the second — it is a FULL verification: the signature verifies under the
secret of that attempt AND the time claims are valid AND the token is marked valid -/
theorem jwt_attempts_fully_verified {V : Type} (f : TokenFacts V) (now : Int) (a b : String)
    (hok : (attempts (jwtVerify f now) a b).isErr = false) :
    attempts (jwtVerify f now) a b = .tok true (some f.claims) ∧ timeValid f now = true ∧
      (f.sigOk a = true ∨ f.sigOk b = true) := by
  unfold attempts at hok ⊢
  by_cases h1 : (jwtVerify f now a).isErr = true
  · rw [if_pos h1] at hok ⊢
    rcases jwtVerify_cases f now b with ⟨e, g⟩ | ⟨e, _⟩
    · exact ⟨e, g.2.2.2.2.2.2, Or.inr g.2.2.2.2.2.1⟩
    · rw [e] at hok; simp at hok
  · rw [if_neg h1] at hok ⊢
    rcases jwtVerify_cases f now a with ⟨e, g⟩ | ⟨e, _⟩
    · exact ⟨e, g.2.2.2.2.2.2, Or.inl g.2.2.2.2.2.1⟩
    · rw [e] at hok; simp at hok

/-- `ParseToken` never hands out a token that was not FULLY verified: for every history (that is: whichever secret was
tried first and whichever attempt accepted), secret pair and clock an accepted token is marked valid, its signature
verifies under the current secret or a non-empty previous one, and its time claims are valid NOW -/
theorem parseToken_accepts_only_fully_verified {V : Type} (f : TokenFacts V) (now : Int) (h : Hist) (secret prev : String)
    (clock : Int) (hok : (parseToken (jwtVerify f now) h secret prev clock).2.isErr = false) :
    (parseToken (jwtVerify f now) h secret prev clock).2 = .tok true (some f.claims) ∧ timeValid f now = true ∧
      (f.sigOk secret = true ∨ (prev ≠ "" ∧ f.sigOk prev = true)) := by
  by_cases hp : prev.length > 0
  · have hpe := (length_pos_iff_ne_empty prev).mp hp
    rw [parseToken_eq_attempts _ h secret prev clock hp] at hok ⊢
    obtain ⟨e, ht, hs⟩ := jwt_attempts_fully_verified f now _ _ hok
    refine ⟨e, ht, ?_⟩
    unfold firstSecond at hs
    by_cases hc : h.count secret > h.count prev
    · simp only [hc, if_true] at hs
      rcases hs with hs | hs
      · exact Or.inl hs
      · exact Or.inr ⟨hpe, hs⟩
    · simp only [hc, if_false] at hs
      rcases hs with hs | hs
      · exact Or.inr ⟨hpe, hs⟩
      · exact Or.inl hs
  · have : (parseToken (jwtVerify f now) h secret prev clock).2 = jwtVerify f now secret := by
      unfold parseToken; simp [hp]
    rw [this] at hok ⊢
    rcases jwtVerify_cases f now secret with ⟨e, g⟩ | ⟨e, _⟩
    · exact ⟨e, g.2.2.2.2.2.2, Or.inl g.2.2.2.2.2.1⟩
    · rw [e] at hok; simp at hok

/-- the accepted set is independent of the order of the attempts: two parsers with ANY two histories (one tries the
current secret first, the other the previous one) return the same result for the same request -/
theorem parseToken_accepted_set_independent_of_order {V : Type} (f : TokenFacts V) (now : Int) (h h' : Hist)
    (secret prev : String) (clock clock' : Int) :
    (parseToken (jwtVerify f now) h secret prev clock).2 = (parseToken (jwtVerify f now) h' secret prev clock').2 := by
  by_cases hp : prev.length > 0
  · rw [parseToken_eq_attempts _ h secret prev clock hp, parseToken_eq_attempts _ h' secret prev clock' hp]
    unfold firstSecond
    by_cases hc : h.count secret > h.count prev <;> by_cases hc' : h'.count secret > h'.count prev <;>
      simp only [hc, hc', if_true, if_false]
    · exact jwt_attempts_comm f now secret prev
    · exact jwt_attempts_comm f now prev secret
  · unfold parseToken; simp [hp]

/-! ### the typed call list (tied to the source: tie_parseTokenCalls) and the model agree -/

/-- only the two configured secrets are ever handed to `doParseToken`, the first call gets the secret whose counter leads,
and a second call is made only after the first one failed -/
theorem calls_parse_only_the_two_secrets (secret prev : String) (hasPrev lead : Bool) (err : String → Bool) (s : String)
    (hm : ("parse", s) ∈ parseTokenCalls secret prev hasPrev lead err) : s = secret ∨ s = prev := by
  unfold parseTokenCalls attemptCalls at hm
  cases hasPrev <;> cases lead <;> cases h1 : err secret <;> cases h2 : err prev <;> simp [h1, h2] at hm <;>
    first | exact Or.inl hm | exact Or.inr hm | (rcases hm with hm | hm <;> first | exact Or.inl hm | exact Or.inr hm)

/-- the model's `parseToken` does what the call list says: an error is returned exactly when the list ends in
`return-err`, and when the list increments the counter of `s` the result is the full verification under `s` and exactly
that counter was incremented -/
theorem parseToken_follows_calls {C : Type} (verify : String → Parsed C) (h : Hist) (secret prev : String) (clock : Int) :
    ((parseToken verify h secret prev clock).2.isErr = true ↔
        ("return-err", "") ∈ parseTokenCalls secret prev (decide (prev.length > 0)) (decide (h.count secret > h.count prev))
          (fun s => (verify s).isErr)) ∧
    (∀ s, ("incr", s) ∈ parseTokenCalls secret prev (decide (prev.length > 0)) (decide (h.count secret > h.count prev))
          (fun s => (verify s).isErr) →
        (parseToken verify h secret prev clock) = (h.increment s clock, verify s) ∧ (verify s).isErr = false) := by
  unfold parseToken parseTokenCalls attemptCalls firstSecond
  by_cases hp : prev.length > 0 <;> by_cases hc : h.count secret > h.count prev <;>
    cases h1 : (verify secret).isErr <;> cases h2 : (verify prev).isErr <;>
    simp [hp, hc, h1, h2] <;> (try (intro s hs; subst hs; simp [h1, h2]))
  all_goals (first | (cases hv : verify secret <;> simp_all [Parsed.isErr]) | skip)

/-! ## concurrency: for EVERY schedule the history only decides the order of the attempts, never the outcome -/

namespace Conc

/-- the outcome of a request is the two attempts in one of the two orders -/
def Outcome {C : Type} (req : Req C) (r : Parsed C) : Prop :=
  r = attempts req.verify req.secret req.prev ∨ r = attempts req.verify req.prev req.secret

/-- what the invariant says about a thread: once it carries a result, that result is an `Outcome` -/
def Good {C : Type} (req : Req C) : Pc C → Prop
  | .incrReset _ r => Outcome req r
  | .incrLoad _ r => Outcome req r
  | .incrWrite _ r _ => Outcome req r
  | .done r => Outcome req r
  | _ => True

/-- one step keeps a thread good — whatever counter values it READ (they may be stale, torn by a reset, or lost updates) -/
theorem stepPc_good {C : Type} (req : Req C) (expired : Bool) (cs : List (String × Nat)) (pc : Pc C)
    (h : Good req pc) : Good req (stepPc req expired cs pc).2 := by
  cases pc with
  | loadCur => trivial
  | loadPrev c => trivial
  | parse c p =>
    unfold stepPc
    have e1 : (req.verify req.secret).isErr = true → req.verify req.secret = .err := by
      intro h
      cases hv : req.verify req.secret with
      | err => rfl
      | tok v c => rw [hv] at h; simp [Parsed.isErr] at h
    have e2 : (req.verify req.prev).isErr = true → req.verify req.prev = .err := by
      intro h
      cases hv : req.verify req.prev with
      | err => rfl
      | tok v c => rw [hv] at h; simp [Parsed.isErr] at h
    by_cases hc : c > p <;> simp only [hc, if_true, if_false] <;>
      cases h1 : (req.verify req.secret).isErr <;> cases h2 : (req.verify req.prev).isErr <;>
      simp [Good, Outcome, attempts, h1, h2] <;> (try simp [e1 h1, e2 h2])
  | incrReset s r => exact h
  | incrLoad s r => exact h
  | incrWrite s r present => exact h
  | done r => exact h

/-- the invariant: every thread is good -/
def Inv {C : Type} (reqs : List (Req C)) (st : St C) : Prop :=
  ∀ (t : Nat) (req : Req C) (pc : Pc C), reqs[t]? = some req → st.pcs[t]? = some pc → Good req pc

theorem step_inv {C : Type} (reqs : List (Req C)) (st : St C) (t : Nat) (expired : Bool) (h : Inv reqs st) :
    Inv reqs (step reqs st t expired) := by
  unfold step
  cases hr : reqs[t]? with
  | none => simpa [hr] using h
  | some req =>
    cases hp : st.pcs[t]? with
    | none => simpa [hr, hp] using h
    | some pc =>
      simp only []
      intro t' req' pc' hr' hp'
      by_cases ht : t' = t
      · subst ht
        have hlt : t' < st.pcs.length := by
          rcases Nat.lt_or_ge t' st.pcs.length with hlt | hge
          · exact hlt
          · rw [List.getElem?_eq_none hge] at hp; exact absurd hp (by simp)
        rw [hr] at hr'
        have e : req = req' := Option.some.inj hr'
        subst e
        simp only [List.getElem?_set_self hlt] at hp'
        have e2 := Option.some.inj hp'
        rw [← e2]
        exact stepPc_good req expired st.counts pc (h t' req pc hr hp)
      · have hne : t ≠ t' := fun e => ht e.symm
        simp only [List.getElem?_set_ne hne] at hp'
        exact h t' req' pc' hr' hp'

theorem run_inv {C : Type} (reqs : List (Req C)) (sched : List (Nat × Bool)) (st : St C) (h : Inv reqs st) :
    Inv reqs (run reqs st sched) := by
  induction sched generalizing st with
  | nil => exact h
  | cons te rest ih => exact ih _ (step_inv reqs st te.1 te.2 h)

theorem init_inv {C : Type} (reqs : List (Req C)) (n : Nat) (counts : List (String × Nat)) : Inv reqs (init n counts) := by
  intro t req pc _ hp
  unfold init at hp
  simp only [List.getElem?_replicate] at hp
  by_cases hlt : t < n
  · simp [hlt] at hp; subst hp; trivial
  · simp [hlt] at hp

/-- FOR EVERY SCHEDULE of any number of concurrent requests on one `TokenParser` — any interleaving of their accesses to
the shared history, any initial counters, any reset happening in between, lost updates included — the result of each
request is the two attempts (full verifications) in one of the two orders: the history decides the ORDER, nothing else -/
theorem concurrent_outcome_is_the_attempts_in_some_order {C : Type} (reqs : List (Req C)) (n : Nat)
    (counts : List (String × Nat)) (sched : List (Nat × Bool)) (t : Nat) (req : Req C) (r : Parsed C)
    (hreq : reqs[t]? = some req) (hdone : (run reqs (init n counts) sched).pcs[t]? = some (.done r)) :
    Outcome req r :=
  run_inv reqs sched _ (init_inv reqs n counts) t req _ hreq hdone

/-- … so whether a request is ACCEPTED does not depend on the schedule: it is accepted iff one of the two full
verifications accepts it -/
theorem concurrent_acceptance_independent_of_schedule {C : Type} (reqs : List (Req C)) (n : Nat)
    (counts : List (String × Nat)) (sched : List (Nat × Bool)) (t : Nat) (req : Req C) (r : Parsed C)
    (hreq : reqs[t]? = some req) (hdone : (run reqs (init n counts) sched).pcs[t]? = some (.done r)) :
    r.isErr = ((req.verify req.secret).isErr && (req.verify req.prev).isErr) := by
  rcases concurrent_outcome_is_the_attempts_in_some_order reqs n counts sched t req r hreq hdone with h | h
  · rw [h, attempts_isErr_iff]
  · rw [h, attempts_isErr_iff, Bool.and_comm]

/-- … and for golang-jwt as go-zero calls it the whole RESULT is the sequential one: what a request gets under any
schedule is what `ParseToken` returns for it on a parser of its own with ANY history at ANY clock reading — hence (by
`parseToken_accepts_only_fully_verified`) fully verified -/
theorem concurrent_jwt_outcome_is_sequential {V : Type} (reqs : List (Req (List (String × V)))) (n : Nat)
    (counts : List (String × Nat)) (sched : List (Nat × Bool)) (t : Nat) (f : TokenFacts V) (now : Int)
    (secret prev : String) (r : Parsed (List (String × V))) (hp : prev.length > 0)
    (hreq : reqs[t]? = some { verify := jwtVerify f now, secret := secret, prev := prev })
    (hdone : (run reqs (init n counts) sched).pcs[t]? = some (.done r)) (h : Hist) (clock : Int) :
    r = (parseToken (jwtVerify f now) h secret prev clock).2 := by
  have ho := concurrent_outcome_is_the_attempts_in_some_order reqs n counts sched t _ r hreq hdone
  rw [parseToken_eq_attempts _ h secret prev clock hp]
  unfold firstSecond
  unfold Outcome at ho
  simp only at ho
  by_cases hc : h.count secret > h.count prev <;> simp only [hc, if_true, if_false]
  · rcases ho with ho | ho
    · exact ho
    · rw [ho]; exact jwt_attempts_comm f now prev secret
  · rcases ho with ho | ho
    · rw [ho]; exact jwt_attempts_comm f now secret prev
    · exact ho

private def exReqs : List (Req Unit) :=
  [{ verify := fun s => if s = "cur" then .tok true none else .err, secret := "cur", prev := "old" },
   { verify := fun s => if s = "old" then .tok true none else .err, secret := "cur", prev := "old" }]

/-- the three steps of `incrementCount` in the interleaving model do what the accesses (tie_incrementCountEffects) say:
clear iff expired, then increment the cell when the (possibly just cleared) map has it, store (s, 1) otherwise -/
theorem incr_steps_are_the_accesses {C : Type} (req : Req C) (e1 e2 e3 : Bool) (cs : List (String × Nat)) (s : String)
    (r : Parsed C) :
    (stepPc req e3 (stepPc req e2 (stepPc req e1 cs (.incrReset s r)).1 (stepPc req e1 cs (.incrReset s r)).2).1
        (stepPc req e2 (stepPc req e1 cs (.incrReset s r)).1 (stepPc req e1 cs (.incrReset s r)).2).2)
      = ((if (if e1 then [] else cs).any (·.1 = s) then bump (if e1 then [] else cs) s else store (if e1 then [] else cs) s),
         .done r) := rfl

/-- two requests; the second overtakes the first between its two loads and resets the map: both still get their outcome
(and the first one's increment, read before the reset, lands in the new map) -/
example : (run exReqs (init 2 [("cur", 3)]) [(0, false), (1, false), (1, false), (1, false), (1, true), (1, false), (1, false),
      (0, false), (0, false), (0, false), (0, false), (0, false)]).pcs = [.done (.tok true none), .done (.tok true none)] := by decide

end Conc

/-! ## bodies around the cap (`limitBytes`, by default `maxBytes` = 1 MiB) -/

/-- `decryptBody` reads the body iff the LENGTHS admit it — for every limit, framing and body -/
theorem readBody_isSome_iff_admits (limit cl : Int) (raw : Bytes) :
    (readBody limit cl raw).isSome = readAdmits limit cl raw.length := by
  unfold readBody readAdmits
  by_cases h1 : limit > 0 ∧ cl > limit
  · simp [h1]
  · rw [if_neg h1, if_neg h1]
    by_cases h2 : cl > 0
    · rw [if_pos h2, if_pos h2]
      unfold readDeclared
      by_cases h3 : (raw.length : Int) < cl
      · have : ¬ ((raw.length : Int) ≥ cl) := by omega
        simp [h3, this]
      · have : (raw.length : Int) ≥ cl := by omega
        simp [h3, this]
    · rw [if_neg h2, if_neg h2]
      have hpos := unknownCap_pos limit
      by_cases h3 : (raw.length : Int) > unknownCap limit
      · rw [(readUnknown_none_iff _ raw hpos).mpr h3]
        have : ¬ ((raw.length : Int) ≤ unknownCap limit) := by omega
        simp [this]
      · cases hr : readUnknown (unknownCap limit) raw with
        | none => exact absurd ((readUnknown_none_iff _ raw hpos).mp hr) h3
        | some c =>
          have : (raw.length : Int) ≤ unknownCap limit := by omega
          simp [this]

/-- the handler behind `LimitCryptionHandler` runs on a request with a body only when the lengths admit it -/
theorem crypt_handler_runs_only_if_admitted (C : BlockCipher) (limit : Int) (key : Bytes) (cl : Int) (raw : Bytes)
    (inner : Inner) (hcl : cl ≠ 0) (hran : (cryptionHandler C limit key cl raw inner).ran = true) :
    readAdmits limit cl raw.length = true := by
  rw [← readBody_isSome_iff_admits]
  rw [cryptionHandler_eq_viaRead] at hran
  unfold cryptionHandlerViaRead at hran
  rw [if_neg hcl] at hran
  cases hr : readBody limit cl raw with
  | none => simp [hr] at hran
  | some c => rfl

/-- AT THE DEFAULT CAP, unknown length (chunked), no limit configured (`limitBytes <= 0`) or the default one
(`CryptionHandler`, `ContentSecurityHandler`: `maxBytes`): a body of maxBytes-1 or maxBytes bytes is read whole, a body of
maxBytes+1 bytes (or any longer one) is refused — it is never cut at the cap -/
theorem cap_boundary_unknown_length (limit : Int) (hl : limit ≤ 0 ∨ limit = maxBytes) (len : Nat) :
    readAdmits limit (-1) len = decide (len ≤ 1048576) := by
  unfold readAdmits unknownCap maxBytes
  rcases hl with hl | hl
  · have h1 : ¬ (limit > 0 ∧ (-1 : Int) > limit) := by omega
    simp only [h1, if_false, hl, if_true]
    by_cases h : len ≤ 1048576 <;> simp [h] <;> omega
  · subst hl
    simp [maxBytes]
    by_cases h : len ≤ 1048576 <;> simp [h] <;> omega

/-- declared length at the default limit: exactly the bodies up to maxBytes are read (and they must be complete) -/
theorem cap_boundary_declared_length (len : Nat) (hpos : 0 < len) :
    readAdmits maxBytes len len = decide (len ≤ 1048576) := by
  unfold readAdmits maxBytes
  by_cases h : len ≤ 1048576
  · have h1 : ¬ ((1048576 : Int) > 0 ∧ (len : Int) > 1048576) := by omega
    have h2 : (len : Int) > 0 := by omega
    rw [if_neg h1, if_pos h2]
    simp [h]
  · have h1 : (1048576 : Int) > 0 ∧ (len : Int) > 1048576 := by omega
    rw [if_pos h1]
    simp [h]

/-- with NO limit configured a DECLARED length is not capped: whatever the client declares and delivers is read (the 1 MiB
cap protects the unknown-length branch only) — stated so that the asymmetry is on record -/
theorem declared_length_uncapped_without_limit (limit : Int) (hl : limit ≤ 0) (len : Nat) (hpos : 0 < len) :
    readAdmits limit len len = true := by
  unfold readAdmits
  have h1 : ¬ (limit > 0 ∧ (len : Int) > limit) := by omega
  have h2 : (len : Int) > 0 := by omega
  rw [if_neg h1, if_pos h2]
  simp

/-- what reaches the handler at the cap, end to end through the content-security gate as well: a verified `type=1` request
whose handler runs was admitted by its lengths and the handler read the decryption of the WHOLE body -/
theorem cs_encrypted_runs_only_if_admitted (C : BlockCipher) (env : CsEnv) (cfg : CsCfg) (req : CsReq) (inner : Inner)
    (h : CsHeader) (hg : gatedMethods.contains req.method = true) (hp : parseContentSecurity env req = .ok h)
    (hv : verifySignature env cfg.tol req h = 0) (ht : h.contentType = 1) (hcl : req.cl ≠ 0)
    (hran : (contentSecurity C env cfg req inner).ran = true) :
    readAdmits cfg.limit req.cl req.body.length = true ∧
      decryptWhole C h.key (delivered req.cl req.body) = some (contentSecurity C env cfg req inner).seen := by
  refine ⟨?_, cs_encrypted_handler_sees_decryption_of_whole_body C env cfg req inner h hg hp hv ht hcl hran⟩
  rw [cs_encrypted_goes_to_cryption C env cfg req inner h hg hp hv ht hcl] at hran
  exact crypt_handler_runs_only_if_admitted C cfg.limit h.key req.cl req.body inner hcl hran

example : readAdmits 0 (-1) 1048575 = true ∧ readAdmits 0 (-1) 1048576 = true ∧ readAdmits 0 (-1) 1048577 = false := by decide
example : readAdmits 1048576 1048577 1048577 = false ∧ readAdmits 0 1048577 1048577 = true := by decide

/-! ## `flush`: a failing or short write of the encrypted reply -/

/-- whatever the underlying writer does with the reply, what the client gets is a prefix of the base64 CIPHERTEXT the
complete write would have delivered — never the plaintext the handler wrote — and the handler's run, what it saw and the
status are untouched -/
theorem flush_partial_write_is_ciphertext_prefix (C : BlockCipher) (key seen out : Bytes) (n : Nat) :
    (writtenPrefix n (flushResp C key seen out)).body = ((flushResp C key seen out).body).take n ∧
    (writtenPrefix n (flushResp C key seen out)).ran = (flushResp C key seen out).ran ∧
    (writtenPrefix n (flushResp C key seen out)).seen = seen ∧
    (writtenPrefix n (flushResp C key seen out)).status = (flushResp C key seen out).status :=
  ⟨rfl, rfl, (flushResp_ran_seen C key seen out).2, rfl⟩

/-- a writer that takes everything: nothing changes -/
theorem flush_complete_write (r : Resp) (n : Nat) (h : r.body.length ≤ n) : writtenPrefix n r = r := by
  unfold writtenPrefix
  rw [List.take_of_length_le h]

/-- the reply the client can decode from a COMPLETE write is the handler's reply (reply_round_trip); from a partial one it
gets a strict prefix of the text, which `properlyEncrypted` refuses unless it is itself whole blocks -/
example : (writtenPrefix 4 { ran := true, status := 200, body := [1, 2, 3, 4, 5, 6] : Resp }).body = [1, 2, 3, 4] := by decide

/-! ### witness: what goes wrong when the second attempt is NOT the full verification (seeded C18-8) -/

private def expiredFacts : TokenFacts String :=
  { present := true, segs := 3, hdrOk := true, clmOk := true, alg := some "HS256", sigOk := fun s => s = "cur",
    exp := .at 10, nbf := .absent, iat := .absent, claims := [] }

/-- the signature-only check of the already decoded token -/
private def sigOnly (f : TokenFacts String) (s : String) : Parsed (List (String × String)) :=
  if f.sigOk s then .tok true (some f.claims) else .err

/-- an EXPIRED token signed with the secret that happens to be tried second is accepted by the signature-only fallback —
and by the real retry (the same full verification) it is refused, in both orders -/
theorem signature_only_fallback_accepts_expired :
    (attemptsSignatureOnlyFallback (jwtVerify expiredFacts 50) (sigOnly expiredFacts) "prev" "cur").isErr = false ∧
    credentialOk expiredFacts 50 "cur" "prev" = false ∧
    (attempts (jwtVerify expiredFacts 50) "prev" "cur").isErr = true ∧
    (attempts (jwtVerify expiredFacts 50) "cur" "prev").isErr = true := by decide

example : parseTokenCalls "cur" "prev" true false (fun s => s = "prev") =
    [("load", "cur"), ("load", "prev"), ("parse", "prev"), ("parse", "cur"), ("incr", "cur"), ("return-token", "")] := by decide
example : (parseToken (jwtVerify expiredFacts 5) {} "other" "cur" 0).2 = .tok true (some []) := by decide

end GoZero.C18
