/-
C06 — round 5c: concurrent readers of MANY keys on MANY nodes, as ONE system: the flight group with its call
objects (Calls.lean, allocator `new(call)`) composed with the multi-node store model (Model.lean).

Goroutine `t` reads primary key `key t` through instance `inst t` (configuration `cs (inst t)`: its own
cache.Options, the common dispatch) with the environment `env t` (jitter draw, fault mask of its cache commands,
database fault).  All of them run under ONE barrier (the instances built by NewConn / NewNodeConn).  The function
the leader of a flight runs inside DoEx is the whole body of doTake = `Model.takeP` on the SHARED store; its result
is what the call object publishes (`Calls.stepV`).  Followers never touch the store (tie_doTakeShape).
`hist` is a ghost: the sequential history — one Take per finished flight, in the order the flights finished.

Atomicity assumption as in Refine.lean: the leader's GET … query … SET is one step.
-/
import GoZero.C06.Proofs5
import GoZero.C06.Calls
namespace GoZero.C06.Many
open GoZero.C06

structure In where
  j   : Nat := 500
  m   : List Bool := []
  dbf : Bool := false

structure MSt where
  store : St
  fl    : Calls.St Res
  hist  : List (Nat × Op)

def takeOf (key : Nat → Nat) (env : Nat → In) (t : Nat) : Op := .take (key t) (env t).j (env t).m (env t).dbf

def mstep (cs : Nat → Cfg) (inst key : Nat → Nat) (env : Nat → In) (x : MSt) (t : Nat) : Option MSt :=
  if x.fl.pc t = 2 then
    (Calls.stepV key (step (cs (inst t)) x.store (takeOf key env t)).2.res x.fl t).map fun fl' =>
      { store := (step (cs (inst t)) x.store (takeOf key env t)).1, fl := fl', hist := x.hist ++ [(inst t, takeOf key env t)] }
  else (Calls.stepV key Res.ok x.fl t).map fun fl' => { x with fl := fl' }

inductive MReach (cs : Nat → Cfg) (inst key : Nat → Nat) (env : Nat → In) (s0 : St) : MSt → Prop
  | init : MReach cs inst key env s0 ⟨s0, Calls.St.init, []⟩
  | step {x x' : MSt} (t : Nat) : MReach cs inst key env s0 x → mstep cs inst key env x t = some x' → MReach cs inst key env s0 x'

theorem runI_append (cs : Nat → Cfg) (s : St) (a b : List (Nat × Op)) : runI cs s (a ++ b) = runI cs (runI cs s a) b := by
  induction a generalizing s with
  | nil => rfl
  | cons x a ih => simp only [List.cons_append, runI]; exact ih _

/-- `v` is the result of a sequential Take of key `k` somewhere in the history `hist` (started from `s0`). -/
def Expl (cs : Nat → Cfg) (s0 : St) (hist : List (Nat × Op)) (k : Nat) (v : Res) : Prop :=
  ∃ h1 h2 i j m d, hist = h1 ++ (i, Op.take k j m d) :: h2 ∧ v = (step (cs i) (runI cs s0 h1) (.take k j m d)).2.res

theorem expl_mono (cs : Nat → Cfg) (s0 : St) (hist l : List (Nat × Op)) (k : Nat) (v : Res) (h : Expl cs s0 hist k v) :
    Expl cs s0 (hist ++ l) k v := by
  obtain ⟨h1, h2, i, j, m, d, he, hv⟩ := h
  exact ⟨h1, h2 ++ l, i, j, m, d, by rw [he]; simp, hv⟩

theorem expl_last (cs : Nat → Cfg) (s0 : St) (hist : List (Nat × Op)) (i k j : Nat) (m : List Bool) (d : Bool) :
    Expl cs s0 (hist ++ [(i, .take k j m d)]) k (step (cs i) (runI cs s0 hist) (.take k j m d)).2.res :=
  ⟨hist, [], i, j, m, d, rfl, rfl⟩

structure MInv (cs : Nat → Cfg) (key : Nat → Nat) (s0 : St) (x : MSt) : Prop where
  store : x.store = runI cs s0 x.hist
  fl    : Calls.InvG key (Expl cs s0 x.hist) x.fl

theorem minv_reachable {cs : Nat → Cfg} {inst key : Nat → Nat} {env : Nat → In} {s0 : St} {x : MSt}
    (h : MReach cs inst key env s0 x) : MInv cs key s0 x := by
  induction h with
  | init => exact ⟨rfl, Calls.invG_init key _⟩
  | @step x x' t _ hs ih =>
    unfold mstep at hs
    by_cases hpc : x.fl.pc t = 2
    · rw [if_pos hpc, Option.map_eq_some_iff] at hs
      obtain ⟨fl', hfl, hx⟩ := hs
      subst hx
      refine ⟨?_, ?_⟩
      · show _ = runI cs s0 (x.hist ++ [(inst t, takeOf key env t)])
        rw [runI_append, ← ih.store]; rfl
      · have hm : Calls.InvG key (Expl cs s0 (x.hist ++ [(inst t, takeOf key env t)])) x.fl :=
          Calls.invG_mono (fun k v hk => expl_mono cs s0 x.hist _ k v hk) ih.fl
        refine Calls.invG_step hm (fun _ => ?_) hfl
        rw [ih.store]
        exact expl_last cs s0 x.hist (inst t) (key t) (env t).j (env t).m (env t).dbf
    · rw [if_neg hpc, Option.map_eq_some_iff] at hs
      obtain ⟨fl', hfl, hx⟩ := hs
      subst hx
      exact ⟨ih.store, Calls.invG_step ih.fl (fun h => absurd h hpc) hfl⟩

end GoZero.C06.Many
