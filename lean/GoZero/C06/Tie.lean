/-
C06 — Tie: what the extractor read from the go-zero tree *now* equals what the model was written against.
A failing obligation means the code moved away from the model (GoZero/C06/Model.lean).

  constants      placeholder "*", deviation 1/20 (= the property's ±5 %), default expiries 7 d / 1 min,
                 safety gap 5 s, the cleaner's retry table 1 s → 5 s → 1 min → 5 min → 1 h → give up
  …Shape         statement skeletons (branch structure, order of calls) of the functions the model's
                 case splits were written against
  …Facts         the return statements and the property-carrying calls with their arguments (which key, which
                 expiry, which delay, what is returned on which path) of every function on the modelled path
  round 2        cache.New (one node → cacheNode, several → cacheCluster over a consistent hash), the six
                 cacheCluster operations (dispatch by key; DelCtx: grouping assignment, one node DelCtx per group),
                 DoEx/createCall/makeCall returns (the shared `c.val`), sqlc.NewConn/GetCache/SetCache*, and the
                 monc.Model call sites (FindOne through TakeCtx; each of the 9 writes followed by DelCache)
-/
import GoZero.Extracted.C06
import GoZero.C06.Spec
import GoZero.C06.Calls
import GoZero.C06.Ctx
import GoZero.C06.Decode
namespace GoZero.C06.Tie
open GoZero.C06
open GoZero.Extracted.C06

theorem extraction_clean : extractionErrors = [] := by decide

/-- the not-found marker the model calls `CVal.ph` (printed "*" by the harness). -/
theorem tie_placeholder : notFoundPlaceholder = "*" := by decide

/-- ±5 %: the deviation is 1/20, so `1 + dev − 2·dev·(j/1000) = (10500 − j)/10000`, the factor inside
`ttlSec` (the expression itself is pinned by `tie_aroundFacts`). -/
theorem tie_deviation : expiryDeviation = (1 : Rat) / 20 := rfl

/-- the property's range ends are the model's: ⌈0.95e⌉ and ⌈1.05e⌉. -/
theorem tie_range (e : Nat) : ttlSec e 1000 = Spec.ttlLo e ∧ ttlSec e 0 = Spec.ttlHi e := by
  unfold ttlSec Spec.ttlLo Spec.ttlHi
  constructor <;> omega

theorem tie_defaults : defaultExpiry = (defaultExpiryMs : Int) * 1000000
    ∧ defaultNotFoundExpiry = (defaultNotFoundExpiryMs : Int) * 1000000
    ∧ safeGap = (safeGapSec : Int) * 1000000000 := by decide

/-- the cleaner's retry table (ns → s) is the model's `nextDelay`, and anything else gives up. -/
theorem tie_nextDelay :
    nextDelayTable.map (fun p => (p.1 / 1000000000, p.2 / 1000000000)) = [(1, 5), (5, 60), (60, 300), (300, 3600)]
    ∧ nextDelayTable.all (fun p => p.1 % 1000000000 = 0 && p.2 % 1000000000 = 0) = true
    ∧ nextDelayTableDefault = "return 0, false"
    ∧ ∀ d : Nat, nextDelay d = ([(1, 5), (5, 60), (60, 300), (300, 3600)] : List (Nat × Nat)).lookup d := by
  refine ⟨by decide, by decide, by decide, ?_⟩
  intro d
  unfold nextDelay
  by_cases h1 : d = 1
  · subst h1; rfl
  by_cases h5 : d = 5
  · subst h5; rfl
  by_cases h60 : d = 60
  · subst h60; rfl
  by_cases h300 : d = 300
  · subst h300; rfl
  simp [h1, h5, h60, h300, List.lookup]
  repeat (first | rfl | (rw [show (d == _) = false from by simp [*]]))

theorem tie_newOptionsShape : newOptionsShape = [
  "range opts {",
  "call opt",
  "}",
  "if o.Expiry <= 0 {",
  "store o.Expiry",
  "}",
  "if o.NotFoundExpiry <= 0 {",
  "store o.NotFoundExpiry",
  "}",
  "return"] := by rfl

/-! ### round 3: `newOptions` (the Options → (expiry, notFoundExpiry) function of the model) -/

/-- the state `newOptions` starts from is the zero `Options` (so an option that is not given equals 0:
`Model.newOptions` uses `getD 0`), and every given option is applied to it. -/
theorem tie_newOptionsHead : newOptionsHead = [
  "var o Options",
  "for _, opt := range opts { opt(&o) }"] := by rfl

/-- which field an option assigns. -/
theorem tie_withOptionAssigns : withExpiryAssigns = ["o.Expiry = expiry"]
    ∧ withNotFoundExpiryAssigns = ["o.NotFoundExpiry = expiry"] := by decide

/-- the field updates a translated effect list performs on (Expiry, NotFoundExpiry). -/
def applyOpt (st : Int × Int) : List (String × Int) → Int × Int
  | [] => st
  | fv :: r => applyOpt (if fv.1 = "o.Expiry" then (fv.2, st.2)
                         else if fv.1 = "o.NotFoundExpiry" then (st.1, fv.2) else (-1, -1)) r

/-- **the sanity checks of `newOptions`, translated from the source, are the model's `newOptionsMs`** for every
pair of field values (whole milliseconds; the Go values are nanoseconds): comparison operators (`<= 0`),
the constants, and which field gets which default. -/
theorem tie_newOptionsTail (e n : Int) :
    applyOpt (e * 1000000, n * 1000000)
        (newOptionsTail (e * 1000000) defaultExpiry (n * 1000000) defaultNotFoundExpiry)
      = (((newOptionsMs e n).1 : Int) * 1000000, ((newOptionsMs e n).2 : Int) * 1000000) := by
  have he : (e * 1000000 ≤ 0) ↔ e ≤ 0 := by omega
  have hn : (n * 1000000 ≤ 0) ↔ n ≤ 0 := by omega
  unfold newOptionsTail newOptionsMs
  by_cases h1 : e ≤ 0 <;> by_cases h2 : n ≤ 0 <;>
    simp [he, hn, h1, h2, applyOpt, defaultExpiry, defaultNotFoundExpiry, defaultExpiryMs, defaultNotFoundExpiryMs] <;> omega

theorem tie_doGetCacheShape : doGetCacheShape = [
  "call c.stat.IncrementTotal",
  "call c.rds.GetCtx",
  "if err != nil {",
  "call c.stat.IncrementMiss",
  "return",
  "}",
  "if len(data) == 0 {",
  "call c.stat.IncrementMiss",
  "return",
  "}",
  "call c.stat.IncrementHit",
  "if data == notFoundPlaceholder {",
  "return",
  "}",
  "call c.processCache",
  "return"] := by rfl

theorem tie_doTakeShape : doTakeShape = [
  "func{",
  "call c.doGetCache",
  "if err != nil {",
  "if errors.Is(err, errPlaceholder) {",
  "return",
  "}",
  "else{",
  "if !errors.Is(err, c.errNotFound) {",
  "return",
  "}",
  "}",
  "call query",
  "if errors.Is(err, c.errNotFound) {",
  "call c.setCacheWithNotFound",
  "if err != nil {",
  "call logger.Error",
  "}",
  "return",
  "}",
  "else{",
  "if err != nil {",
  "call c.stat.IncrementDbFails",
  "return",
  "}",
  "}",
  "call cacheVal",
  "if err != nil {",
  "call logger.Error",
  "}",
  "}",
  "call jsonx.Marshal",
  "return",
  "}",
  "call c.barrier.DoEx",
  "if err != nil {",
  "return",
  "}",
  "if fresh {",
  "return",
  "}",
  "call c.stat.IncrementTotal",
  "call c.stat.IncrementHit",
  "call jsonx.Unmarshal",
  "return"] := by rfl

theorem tie_processCacheShape : processCacheShape = [
  "call ?",
  "call jsonx.Unmarshal",
  "if err == nil {",
  "return",
  "}",
  "call logger.Error",
  "call stat.Report",
  "call c.rds.DelCtx",
  "if e != nil {",
  "call logger.Errorf",
  "}",
  "return"] := by rfl

/-- both branches of `cacheNode.DelCtx`: the per-key loop (every key its own DEL and, on failure, its own retry; no early exit — Model.delLoop) and the single DEL (Model.delOne). -/
theorem tie_delShape : delShape = [
  "if len(keys) == 0 {",
  "return",
  "}",
  "if len(keys) > 1 && c.rds.Type == redis.ClusterType {",
  "range keys {",
  "call c.rds.DelCtx",
  "if err != nil {",
  "call logger.Errorf",
  "call c.asyncRetryDelCache",
  "}",
  "}",
  "}",
  "else{",
  "call c.rds.DelCtx",
  "if err != nil {",
  "call formatKeys",
  "call logger.Errorf",
  "call c.asyncRetryDelCache",
  "}",
  "}",
  "return"] := by rfl

theorem tie_cleanShape : cleanShape = [
  "func{",
  "call dt.task",
  "if err == nil {",
  "return",
  "}",
  "call nextDelay",
  "if ok {",
  "store dt.delay",
  "call timingWheel.Load",
  "call tw.SetTimer",
  "if err != nil {",
  "}",
  "}",
  "else{",
  "call formatKeys",
  "call stat.Report",
  "}",
  "}",
  "call taskRunner.Schedule"] := by rfl

theorem tie_execShape : execShape = [
  "call exec",
  "if err != nil {",
  "return",
  "}",
  "call cc.DelCacheCtx",
  "return"] := by rfl

theorem tie_queryRowIndexShape : queryRowIndexShape = [
  "func{",
  "call indexQuery",
  "if err != nil {",
  "return",
  "}",
  "call keyer",
  "call cc.cache.SetWithExpireCtx",
  "return",
  "}",
  "call cc.cache.TakeWithExpireCtx",
  "if err != nil {",
  "return",
  "}",
  "if found {",
  "return",
  "}",
  "call keyer",
  "func{",
  "call primaryQuery",
  "return",
  "}",
  "call cc.cache.TakeCtx",
  "return"] := by rfl

theorem tie_newOptionsFacts : newOptionsFacts = [
  "return o"] := by rfl

theorem tie_newNodeFacts : newNodeFacts = [
  "return cacheNode{ rds: rds, expiry: o.Expiry, notFoundExpiry: o.NotFoundExpiry, barrier: barrier, r: rand.New(rand.NewSource(time.Now().UnixNano())), lock: new(sync.Mutex), unstableExpiry: mathx.NewUnstable(expiryDeviation), stat: st, errNotFound: errNotFound, }",
  "call mathx.NewUnstable(expiryDeviation)"] := by rfl

theorem tie_doGetCacheFacts : doGetCacheFacts = [
  "call c.rds.GetCtx(ctx, key)",
  "return err",
  "return c.errNotFound",
  "return errPlaceholder",
  "return c.processCache(ctx, key, data, v)",
  "call c.processCache(ctx, key, data, v)"] := by rfl

theorem tie_doTakeFacts : doTakeFacts = [
  "call c.barrier.DoEx(key, func{…})",
  "call c.doGetCache(ctx, key, v)",
  "return nil, c.errNotFound",
  "return nil, err",
  "call query(v)",
  "call c.setCacheWithNotFound(ctx, key)",
  "return nil, c.errNotFound",
  "return nil, err",
  "call cacheVal(v)",
  "return jsonx.Marshal(v)",
  "return err",
  "return nil",
  "return jsonx.Unmarshal(val.([]byte), v)"] := by rfl

theorem tie_processCacheFacts : processCacheFacts = [
  "return nil",
  "call c.rds.DelCtx(ctx, key)",
  "return c.errNotFound"] := by rfl

/-- how the seconds handed to Redis are computed — EITHER form is accepted until fix
`fixes/C06-ttl-at-least-one-second.patch` is applied:
  * pinned code: `int(math.Ceil(d.Seconds()))` inline in `SetWithExpireCtx` and `setCacheWithNotFound` (0 seconds
    for a jittered duration below 1 ns: witness `Props.one_nanosecond_expiry_writes_a_persistent_key`);
  * fixed code: the same rounding inside the helper `ttlSeconds`, which never returns less than 1
    (`Model.ttlSecondsFixed`; identical to the pinned rounding for every expiry ≥ 2 ns: `Props.ttl_fix_changes_nothing_above_1ns`).
In both forms: the not-found marker uses `aroundDuration(c.notFoundExpiry)` and `SetnxExCtx` (SET NX EX), a row
uses `expire` (re-drawn from `c.expiry` when non-positive) and `SetexCtx`. -/
theorem tie_ttlSecondsForms :
    (setCacheWithNotFoundFacts = [
        "call math.Ceil(c.aroundDuration(c.notFoundExpiry).Seconds())",
        "call c.aroundDuration(c.notFoundExpiry)",
        "call c.rds.SetnxExCtx(ctx, key, notFoundPlaceholder, seconds)",
        "return err"]
      ∧ setWithExpireFacts = [
        "return err",
        "call c.aroundDuration(c.expiry)",
        "return c.rds.SetexCtx(ctx, key, string(data), int(math.Ceil(expire.Seconds())))",
        "call c.rds.SetexCtx(ctx, key, string(data), int(math.Ceil(expire.Seconds())))",
        "call math.Ceil(expire.Seconds())"]
      ∧ ttlSecondsFacts = [] ∧ ttlSecondsShape = [])
    ∨ (setCacheWithNotFoundFacts = [
        "call ttlSeconds(c.aroundDuration(c.notFoundExpiry))",
        "call c.aroundDuration(c.notFoundExpiry)",
        "call c.rds.SetnxExCtx(ctx, key, notFoundPlaceholder, seconds)",
        "return err"]
      ∧ setWithExpireFacts = [
        "return err",
        "call c.aroundDuration(c.expiry)",
        "return c.rds.SetexCtx(ctx, key, string(data), ttlSeconds(expire))",
        "call c.rds.SetexCtx(ctx, key, string(data), ttlSeconds(expire))",
        "call ttlSeconds(expire)"]
      ∧ ttlSecondsFacts = [
        "call math.Ceil(d.Seconds())",
        "return seconds",
        "return 1"]
      ∧ ttlSecondsShape = [
        "call d.Seconds",
        "call math.Ceil",
        "if seconds > 1 {",
        "return",
        "}",
        "return"]) := by decide

theorem tie_setFacts : setFacts = [
  "return c.SetWithExpireCtx(ctx, key, val, c.aroundDuration(c.expiry))",
  "call c.SetWithExpireCtx(ctx, key, val, c.aroundDuration(c.expiry))",
  "call c.aroundDuration(c.expiry)"] := by rfl

theorem tie_takeFacts : takeFacts = [
  "return c.doTake(ctx, val, key, query, func(v any) error { return c.SetCtx(ctx, key, v) })",
  "call c.doTake(ctx, val, key, query, func{…})",
  "return c.SetCtx(ctx, key, v)",
  "call c.SetCtx(ctx, key, v)"] := by rfl

theorem tie_takeWithExpireFacts : takeWithExpireFacts = [
  "call c.aroundDuration(c.expiry)",
  "return c.doTake(ctx, val, key, func(v any) error { return query(v, expire) }, func(v any) error { return c.SetWithExpireCtx(ctx, key, v, expire) })",
  "call c.doTake(ctx, val, key, func{…}, func{…})",
  "return query(v, expire)",
  "call query(v, expire)",
  "return c.SetWithExpireCtx(ctx, key, v, expire)",
  "call c.SetWithExpireCtx(ctx, key, v, expire)"] := by rfl

theorem tie_getFacts : getFacts = [
  "call c.doGetCache(ctx, key, val)",
  "return c.errNotFound",
  "return err"] := by rfl

theorem tie_delFacts : delFacts = [
  "return nil",
  "call c.rds.DelCtx(ctx, key)",
  "call c.asyncRetryDelCache(key)",
  "call c.rds.DelCtx(ctx, keys)",
  "call c.asyncRetryDelCache(keys)",
  "return nil"] := by rfl

theorem tie_asyncRetryFacts : asyncRetryFacts = [
  "call AddCleanTask(func{…}, keys)",
  "call c.rds.Del(keys)",
  "return err"] := by rfl

theorem tie_aroundDurationFacts : aroundDurationFacts = [
  "return c.unstableExpiry.AroundDuration(duration)",
  "call c.unstableExpiry.AroundDuration(duration)"] := by rfl

theorem tie_addCleanTaskFacts : addCleanTaskFacts = [
  "call tw.SetTimer(stringx.Randn(taskKeyLen), delayTask{ delay: time.Second, task: task, keys: keys, }, time.Second)"] := by rfl

theorem tie_cleanFacts : cleanFacts = [
  "call taskRunner.Schedule(func{…})",
  "call dt.task()",
  "return",
  "call nextDelay(dt.delay)",
  "call tw.SetTimer(key, dt, next)"] := by rfl

theorem tie_cleanerInitFacts : cleanerInitFacts = [
  "call collection.NewTimingWheel(time.Second, timingWheelSlots, clean)"] := by rfl

theorem tie_execFacts : execFacts = [
  "call exec(ctx, cc.db)",
  "return nil, err",
  "return res, cc.DelCacheCtx(ctx, keys...)",
  "call cc.DelCacheCtx(ctx, keys)"] := by rfl

theorem tie_delCacheFacts : delCacheFacts = [
  "return cc.cache.DelCtx(ctx, keys...)",
  "call cc.cache.DelCtx(ctx, keys)"] := by rfl

theorem tie_queryRowFacts : queryRowFacts = [
  "return cc.cache.TakeCtx(ctx, v, key, func(v any) error { return query(ctx, cc.db, v) })",
  "call cc.cache.TakeCtx(ctx, v, key, func{…})",
  "return query(ctx, cc.db, v)",
  "call query(ctx, cc.db, v)"] := by rfl

theorem tie_queryRowIndexFacts : queryRowIndexFacts = [
  "call cc.cache.TakeWithExpireCtx(ctx, &primaryKey, key, func{…})",
  "call indexQuery(ctx, cc.db, v)",
  "return",
  "return cc.cache.SetWithExpireCtx(ctx, keyer(primaryKey), v, expire+cacheSafeGapBetweenIndexAndPrimary)",
  "call cc.cache.SetWithExpireCtx(ctx, keyer(primaryKey), v, expire + cacheSafeGapBetweenIndexAndPrimary)",
  "call keyer(primaryKey)",
  "return err",
  "return nil",
  "return cc.cache.TakeCtx(ctx, v, keyer(primaryKey), func(v any) error { return primaryQuery(ctx, cc.db, v, primaryKey) })",
  "call cc.cache.TakeCtx(ctx, v, keyer(primaryKey), func{…})",
  "call keyer(primaryKey)",
  "return primaryQuery(ctx, cc.db, v, primaryKey)",
  "call primaryQuery(ctx, cc.db, v, primaryKey)"] := by rfl

theorem tie_newNodeConnFacts : newNodeConnFacts = [
  "call cache.NewNode(rds, singleFlights, stats, sql.ErrNoRows, opts)",
  "return NewConnWithCache(db, c)"] := by rfl

theorem tie_aroundFacts : aroundFacts = [
  "call time.Duration((1 + u.deviation - 2*u.deviation*u.r.Float64()) * float64(base))",
  "call u.r.Float64()",
  "return val"] := by rfl

theorem tie_newUnstableFacts : newUnstableFacts = [
  "return Unstable{ deviation: deviation, r: rand.New(rand.NewSource(time.Now().UnixNano())), lock: new(sync.Mutex), }"] := by rfl

theorem tie_extractionErrors : extractionErrors = [] := by decide

/-- `createCall`: under the lock, an existing call is joined (wait), else mine is registered — Flight.step pc 0 / pc 3. -/
theorem tie_createCallShape : createCallShape = ["call g.lock.Lock", "if ok {", "call g.lock.Unlock", "call c.wg.Wait",
    "return", "}", "call c.wg.Add", "mapset g.calls", "call g.lock.Unlock", "return"] := by rfl

/-- `makeCall`: fn runs, then (deferred) the call is unregistered and its waiters released — Flight.step pc 1, 2. -/
theorem tie_makeCallShape : makeCallShape = ["defer{", "func{", "call g.lock.Lock", "delete g.calls", "call g.lock.Unlock",
    "call c.wg.Done", "}", "call func", "}", "call fn", "store c.val", "store c.err"] := by rfl

theorem tie_doExShape : doExShape = ["call g.createCall", "if done {", "return", "}", "call g.makeCall", "return"] := by rfl

/-! ## round 2: cluster layer, constructors, shared flight result, monc call sites -/

/-- the Redis types the model's `Cfg.cluster` distinguishes (harness cfg `type=node|cluster`). -/
theorem tie_redisTypes : redisClusterType = "cluster" ∧ redisNodeType = "node" := by decide

/-- `cache.New`: one node → a plain cacheNode; several → one cacheNode per configured Redis, each added to the consistent hash with its weight (the harness builds its caches through this function). -/
theorem tie_newShape : newShape = [
  "if len(c) == 0 || TotalWeights(c) <= 0 {",
  "call log.Fatal",
  "}",
  "if len(c) == 1 {",
  "call redis.MustNewRedis",
  "call NewNode",
  "return",
  "}",
  "call hash.NewConsistentHash",
  "range c {",
  "call redis.MustNewRedis",
  "call NewNode",
  "call dispatcher.AddWithWeight",
  "}",
  "return"] := by rfl

/-- `cacheCluster.DelCtx`: 0 keys → nothing; 1 key → its node; else the keys are grouped under the node the dispatcher picks for each (`clusterDel`: `ks.filter (place · = n)`), and every group is deleted through its node — Model.clusterDel / nodesOf. -/
theorem tie_clusterDelShape : clusterDelShape = [
  "switch len(keys) {",
  "case 0:",
  "return",
  "case 1:",
  "call cc.dispatcher.Get",
  "if !ok {",
  "return",
  "}",
  "call c.(Cache).DelCtx",
  "return",
  "default:",
  "range keys {",
  "call cc.dispatcher.Get",
  "if !ok {",
  "call be.Add",
  "continue",
  "}",
  "mapset nodes",
  "}",
  "range nodes {",
  "call c.(Cache).DelCtx",
  "if err != nil {",
  "call be.Add",
  "}",
  "}",
  "call be.Err",
  "return",
  "}"] := by rfl

theorem tie_newFacts : newFacts = [
  "call TotalWeights(c)",
  "return NewNode(redis.MustNewRedis(c[0].RedisConf), barrier, st, errNotFound, opts...)",
  "call NewNode(redis.MustNewRedis(c[0].RedisConf), barrier, st, errNotFound, opts)",
  "call redis.MustNewRedis(c[0].RedisConf)",
  "call hash.NewConsistentHash()",
  "call NewNode(redis.MustNewRedis(node.RedisConf), barrier, st, errNotFound, opts)",
  "call redis.MustNewRedis(node.RedisConf)",
  "call dispatcher.AddWithWeight(cn, node.Weight)",
  "return cacheCluster{ dispatcher: dispatcher, errNotFound: errNotFound, }"] := by rfl

theorem tie_clusterDelFacts : clusterDelFacts = [
  "return nil",
  "call cc.dispatcher.Get(key)",
  "return cc.errNotFound",
  "return c.(Cache).DelCtx(ctx, key)",
  "call c.(Cache).DelCtx(ctx, key)",
  "call cc.dispatcher.Get(key)",
  "call be.Add(fmt.Errorf(\"key %q not found\", key))",
  "call c.(Cache).DelCtx(ctx, ks)",
  "call be.Add(err)",
  "return be.Err()",
  "call be.Err()"] := by rfl

/-- the grouping itself: a key is appended to the group of the node it was dispatched to. -/
theorem tie_clusterDelGroups : clusterDelGroups = [
  "nodes[c] = append(nodes[c], key)"] := by rfl

/-- every single-key operation of the cluster goes to the node `dispatcher.Get(key)` returns, with the same key and arguments (Model: `c.place k` / `c.slot k`). -/
theorem tie_clusterGetFacts : clusterGetFacts = [
  "call cc.dispatcher.Get(key)",
  "return cc.errNotFound",
  "return c.(Cache).GetCtx(ctx, key, val)",
  "call c.(Cache).GetCtx(ctx, key, val)"] := by rfl

/-- every single-key operation of the cluster goes to the node `dispatcher.Get(key)` returns, with the same key and arguments (Model: `c.place k` / `c.slot k`). -/
theorem tie_clusterSetFacts : clusterSetFacts = [
  "call cc.dispatcher.Get(key)",
  "return cc.errNotFound",
  "return c.(Cache).SetCtx(ctx, key, val)",
  "call c.(Cache).SetCtx(ctx, key, val)"] := by rfl

/-- every single-key operation of the cluster goes to the node `dispatcher.Get(key)` returns, with the same key and arguments (Model: `c.place k` / `c.slot k`). -/
theorem tie_clusterSetWithExpireFacts : clusterSetWithExpireFacts = [
  "call cc.dispatcher.Get(key)",
  "return cc.errNotFound",
  "return c.(Cache).SetWithExpireCtx(ctx, key, val, expire)",
  "call c.(Cache).SetWithExpireCtx(ctx, key, val, expire)"] := by rfl

/-- every single-key operation of the cluster goes to the node `dispatcher.Get(key)` returns, with the same key and arguments (Model: `c.place k` / `c.slot k`). -/
theorem tie_clusterTakeFacts : clusterTakeFacts = [
  "call cc.dispatcher.Get(key)",
  "return cc.errNotFound",
  "return c.(Cache).TakeCtx(ctx, val, key, query)",
  "call c.(Cache).TakeCtx(ctx, val, key, query)"] := by rfl

/-- every single-key operation of the cluster goes to the node `dispatcher.Get(key)` returns, with the same key and arguments (Model: `c.place k` / `c.slot k`). -/
theorem tie_clusterTakeWithExpireFacts : clusterTakeWithExpireFacts = [
  "call cc.dispatcher.Get(key)",
  "return cc.errNotFound",
  "return c.(Cache).TakeWithExpireCtx(ctx, val, key, query)",
  "call c.(Cache).TakeWithExpireCtx(ctx, val, key, query)"] := by rfl

theorem tie_newConnFacts : newConnFacts = [
  "call cache.New(c, singleFlights, stats, sql.ErrNoRows, opts)",
  "return NewConnWithCache(db, cc)"] := by rfl

theorem tie_getCacheFacts : getCacheFacts = [
  "return cc.cache.GetCtx(ctx, key, v)",
  "call cc.cache.GetCtx(ctx, key, v)"] := by rfl

theorem tie_setCacheFacts : setCacheFacts = [
  "return cc.cache.SetCtx(ctx, key, val)",
  "call cc.cache.SetCtx(ctx, key, val)"] := by rfl

theorem tie_setCacheWithExpireFacts : setCacheWithExpireFacts = [
  "return cc.cache.SetWithExpireCtx(ctx, key, val, expire)",
  "call cc.cache.SetWithExpireCtx(ctx, key, val, expire)"] := by rfl

theorem tie_doExFacts : doExFacts = [
  "call g.createCall(key)",
  "return c.val, false, c.err",
  "call g.makeCall(c, key, fn)",
  "return c.val, true, c.err"] := by rfl

theorem tie_makeCallFacts : makeCallFacts = [
  "call c.wg.Done()",
  "call fn()"] := by rfl

theorem tie_createCallFacts : createCallFacts = [
  "call c.wg.Wait()",
  "return c, true",
  "call c.wg.Add(1)",
  "return c, false"] := by rfl

theorem tie_moncNewModelFacts : moncNewModelFacts = [
  "call cache.New(conf, singleFlight, stats, mongo.ErrNoDocuments, opts)",
  "return NewModelWithCache(uri, db, collection, c)"] := by rfl

theorem tie_moncNewNodeModelFacts : moncNewNodeModelFacts = [
  "call cache.NewNode(rds, singleFlight, stats, mongo.ErrNoDocuments, opts)",
  "return NewModelWithCache(uri, db, collection, c)"] := by rfl

/-- monc (Mongo) reuses the same cache.Cache path: reads through TakeCtx, every write is followed by DelCache of the key(s) — the shape of sqlc ExecCtx (`execOp`). -/
theorem tie_moncDelCacheFacts : moncDelCacheFacts = [
  "return mm.cache.DelCtx(ctx, keys...)",
  "call mm.cache.DelCtx(ctx, keys)"] := by rfl

/-- monc (Mongo) reuses the same cache.Cache path: reads through TakeCtx, every write is followed by DelCache of the key(s) — the shape of sqlc ExecCtx (`execOp`). -/
theorem tie_moncGetCacheFacts : moncGetCacheFacts = [
  "return mm.cache.Get(key, v)",
  "call mm.cache.Get(key, v)"] := by rfl

/-- monc (Mongo) reuses the same cache.Cache path: reads through TakeCtx, every write is followed by DelCache of the key(s) — the shape of sqlc ExecCtx (`execOp`). -/
theorem tie_moncSetCacheFacts : moncSetCacheFacts = [
  "return mm.cache.Set(key, v)",
  "call mm.cache.Set(key, v)"] := by rfl

/-- monc (Mongo) reuses the same cache.Cache path: reads through TakeCtx, every write is followed by DelCache of the key(s) — the shape of sqlc ExecCtx (`execOp`). -/
theorem tie_moncFindOneFacts : moncFindOneFacts = [
  "return mm.cache.TakeCtx(ctx, v, key, func(v any) error { return mm.Model.FindOne(ctx, v, filter, opts...) })",
  "call mm.cache.TakeCtx(ctx, v, key, func{…})",
  "return mm.Model.FindOne(ctx, v, filter, opts...)",
  "call mm.Model.FindOne(ctx, v, filter, opts)"] := by rfl

/-- monc (Mongo) reuses the same cache.Cache path: reads through TakeCtx, every write is followed by DelCache of the key(s) — the shape of sqlc ExecCtx (`execOp`). -/
theorem tie_moncDeleteOneFacts : moncDeleteOneFacts = [
  "call mm.Model.DeleteOne(ctx, filter, opts)",
  "return 0, err",
  "call mm.DelCache(ctx, key)",
  "return 0, err",
  "return val, nil"] := by rfl

/-- monc (Mongo) reuses the same cache.Cache path: reads through TakeCtx, every write is followed by DelCache of the key(s) — the shape of sqlc ExecCtx (`execOp`). -/
theorem tie_moncFindOneAndDeleteFacts : moncFindOneAndDeleteFacts = [
  "call mm.Model.FindOneAndDelete(ctx, v, filter, opts)",
  "return err",
  "return mm.DelCache(ctx, key)",
  "call mm.DelCache(ctx, key)"] := by rfl

/-- monc (Mongo) reuses the same cache.Cache path: reads through TakeCtx, every write is followed by DelCache of the key(s) — the shape of sqlc ExecCtx (`execOp`). -/
theorem tie_moncFindOneAndReplaceFacts : moncFindOneAndReplaceFacts = [
  "call mm.Model.FindOneAndReplace(ctx, v, filter, replacement, opts)",
  "return err",
  "return mm.DelCache(ctx, key)",
  "call mm.DelCache(ctx, key)"] := by rfl

/-- monc (Mongo) reuses the same cache.Cache path: reads through TakeCtx, every write is followed by DelCache of the key(s) — the shape of sqlc ExecCtx (`execOp`). -/
theorem tie_moncFindOneAndUpdateFacts : moncFindOneAndUpdateFacts = [
  "call mm.Model.FindOneAndUpdate(ctx, v, filter, update, opts)",
  "return err",
  "return mm.DelCache(ctx, key)",
  "call mm.DelCache(ctx, key)"] := by rfl

/-- monc (Mongo) reuses the same cache.Cache path: reads through TakeCtx, every write is followed by DelCache of the key(s) — the shape of sqlc ExecCtx (`execOp`). -/
theorem tie_moncInsertOneFacts : moncInsertOneFacts = [
  "call mm.Model.InsertOne(ctx, document, opts)",
  "return nil, err",
  "call mm.DelCache(ctx, key)",
  "return nil, err",
  "return res, nil"] := by rfl

/-- monc (Mongo) reuses the same cache.Cache path: reads through TakeCtx, every write is followed by DelCache of the key(s) — the shape of sqlc ExecCtx (`execOp`). -/
theorem tie_moncReplaceOneFacts : moncReplaceOneFacts = [
  "call mm.Model.ReplaceOne(ctx, filter, replacement, opts)",
  "return nil, err",
  "call mm.DelCache(ctx, key)",
  "return nil, err",
  "return res, nil"] := by rfl

/-- monc (Mongo) reuses the same cache.Cache path: reads through TakeCtx, every write is followed by DelCache of the key(s) — the shape of sqlc ExecCtx (`execOp`). -/
theorem tie_moncUpdateByIDFacts : moncUpdateByIDFacts = [
  "call mm.Model.UpdateByID(ctx, id, update, opts)",
  "return nil, err",
  "call mm.DelCache(ctx, key)",
  "return nil, err",
  "return res, nil"] := by rfl

/-- monc (Mongo) reuses the same cache.Cache path: reads through TakeCtx, every write is followed by DelCache of the key(s) — the shape of sqlc ExecCtx (`execOp`). -/
theorem tie_moncUpdateManyFacts : moncUpdateManyFacts = [
  "call mm.Model.UpdateMany(ctx, filter, update, opts)",
  "return nil, err",
  "call mm.DelCache(ctx, keys)",
  "return nil, err",
  "return res, nil"] := by rfl

/-- monc (Mongo) reuses the same cache.Cache path: reads through TakeCtx, every write is followed by DelCache of the key(s) — the shape of sqlc ExecCtx (`execOp`). -/
theorem tie_moncUpdateOneFacts : moncUpdateOneFacts = [
  "call mm.Model.UpdateOne(ctx, filter, update, opts)",
  "return nil, err",
  "call mm.DelCache(ctx, key)",
  "return nil, err",
  "return res, nil"] := by rfl

/-! ### round 3: IsNotFound and the context-free wrappers -/

theorem tie_isNotFoundFacts : isNotFoundFacts = [
  "return errors.Is(err, c.errNotFound)",
  "call errors.Is(err, c.errNotFound)"] := by rfl

theorem tie_clusterIsNotFoundFacts : clusterIsNotFoundFacts = [
  "return errors.Is(err, cc.errNotFound)",
  "call errors.Is(err, cc.errNotFound)"] := by rfl

theorem tie_nodeWDelFacts : nodeWDelFacts = [
  "return c.DelCtx(context.Background(), keys...)",
  "call c.DelCtx(context.Background(), keys)"] := by rfl

theorem tie_clusterWDelFacts : clusterWDelFacts = [
  "return cc.DelCtx(context.Background(), keys...)",
  "call cc.DelCtx(context.Background(), keys)"] := by rfl

theorem tie_nodeWGetFacts : nodeWGetFacts = [
  "return c.GetCtx(context.Background(), key, val)",
  "call c.GetCtx(context.Background(), key, val)"] := by rfl

theorem tie_clusterWGetFacts : clusterWGetFacts = [
  "return cc.GetCtx(context.Background(), key, val)",
  "call cc.GetCtx(context.Background(), key, val)"] := by rfl

theorem tie_nodeWSetFacts : nodeWSetFacts = [
  "return c.SetCtx(context.Background(), key, val)",
  "call c.SetCtx(context.Background(), key, val)"] := by rfl

theorem tie_clusterWSetFacts : clusterWSetFacts = [
  "return cc.SetCtx(context.Background(), key, val)",
  "call cc.SetCtx(context.Background(), key, val)"] := by rfl

theorem tie_nodeWSetWithExpireFacts : nodeWSetWithExpireFacts = [
  "return c.SetWithExpireCtx(context.Background(), key, val, expire)",
  "call c.SetWithExpireCtx(context.Background(), key, val, expire)"] := by rfl

theorem tie_clusterWSetWithExpireFacts : clusterWSetWithExpireFacts = [
  "return cc.SetWithExpireCtx(context.Background(), key, val, expire)",
  "call cc.SetWithExpireCtx(context.Background(), key, val, expire)"] := by rfl

theorem tie_nodeWTakeFacts : nodeWTakeFacts = [
  "return c.TakeCtx(context.Background(), val, key, query)",
  "call c.TakeCtx(context.Background(), val, key, query)"] := by rfl

theorem tie_clusterWTakeFacts : clusterWTakeFacts = [
  "return cc.TakeCtx(context.Background(), val, key, query)",
  "call cc.TakeCtx(context.Background(), val, key, query)"] := by rfl

theorem tie_nodeWTakeWithExpireFacts : nodeWTakeWithExpireFacts = [
  "return c.TakeWithExpireCtx(context.Background(), val, key, query)",
  "call c.TakeWithExpireCtx(context.Background(), val, key, query)"] := by rfl

theorem tie_clusterWTakeWithExpireFacts : clusterWTakeWithExpireFacts = [
  "return cc.TakeWithExpireCtx(context.Background(), val, key, query)",
  "call cc.TakeWithExpireCtx(context.Background(), val, key, query)"] := by rfl

theorem tie_sqlcWDelCacheFacts : sqlcWDelCacheFacts = [
  "return cc.DelCacheCtx(context.Background(), keys...)",
  "call cc.DelCacheCtx(context.Background(), keys)"] := by rfl

theorem tie_sqlcWGetCacheFacts : sqlcWGetCacheFacts = [
  "return cc.GetCacheCtx(context.Background(), key, v)",
  "call cc.GetCacheCtx(context.Background(), key, v)"] := by rfl

theorem tie_sqlcWExecFacts : sqlcWExecFacts = [
  "return exec(conn)",
  "return cc.ExecCtx(context.Background(), execCtx, keys...)",
  "call cc.ExecCtx(context.Background(), execCtx, keys)"] := by rfl

theorem tie_sqlcWQueryRowFacts : sqlcWQueryRowFacts = [
  "return query(conn, v)",
  "return cc.QueryRowCtx(context.Background(), v, key, queryCtx)",
  "call cc.QueryRowCtx(context.Background(), v, key, queryCtx)"] := by rfl

theorem tie_sqlcWQueryRowIndexFacts : sqlcWQueryRowIndexFacts = [
  "return indexQuery(conn, v)",
  "return primaryQuery(conn, v, primary)",
  "return cc.QueryRowIndexCtx(context.Background(), v, key, keyer, indexQueryCtx, primaryQueryCtx)",
  "call cc.QueryRowIndexCtx(context.Background(), v, key, keyer, indexQueryCtx, primaryQueryCtx)"] := by rfl

theorem tie_sqlcWSetCacheFacts : sqlcWSetCacheFacts = [
  "return cc.SetCacheCtx(context.Background(), key, val)",
  "call cc.SetCacheCtx(context.Background(), key, val)"] := by rfl

theorem tie_sqlcWSetCacheWithExpireFacts : sqlcWSetCacheWithExpireFacts = [
  "return cc.SetCacheWithExpireCtx(context.Background(), key, val, expire)",
  "call cc.SetCacheWithExpireCtx(context.Background(), key, val, expire)"] := by rfl

/-! ## round 4: several instances — where every constructor's barrier comes from -/

/-- where a value comes from, as the extractor classified it. -/
inductive Src where
  | pkgvar (pkg : String) (decl : String)   -- a package-level variable, initialised once (`decl` = name=initialiser), never written again
  | caller (k : Nat)                        -- whatever the caller built (his barrier number k)
  | other (what : String)                   -- anything else, e.g. a fresh `syncx.NewSingleFlight()` per call
  deriving DecidableEq, Repr

def srcOf (pkg ctor : String) (tbl : List (String × List String)) : Src :=
  match tbl.lookup ctor with
  | some ["pkgvar", decl] => .pkgvar pkg decl
  | some l => .other (ctor ++ "/" ++ "/".intercalate l)
  | none => .other (ctor ++ "/?")

/-- the barrier of a constructor, read off the source. -/
def srcBarrier : Multi.Ctor → Src
  | .newConn => srcOf "sqlc" "NewConn" sqlcCtorBarriers
  | .newNodeConn => srcOf "sqlc" "NewNodeConn" sqlcCtorBarriers
  | .newModel => srcOf "monc" "NewModel" moncCtorBarriers
  | .newNodeModel => srcOf "monc" "NewNodeModel" moncCtorBarriers
  | .newConnWithCache k => .caller k
  | .newModelWithCache k => .caller k

/-- **the model's barrier structure is the source's**: two constructors put their instances under the same
barrier in the model (`Multi.barrierOf`) exactly if the barrier arguments read off the source are the same object —
NewConn and NewNodeConn both hand on the package-level `singleFlights` of sqlc (initialised once with
`syncx.NewSingleFlight()`, written nowhere else in the package), NewModel and NewNodeModel the package-level
`singleFlight` of monc.  A constructor that creates its own barrier (seeded change C06-3) falsifies this. -/
theorem tie_ctorBarriers (a b : Multi.Ctor) : Multi.barrierOf a = Multi.barrierOf b ↔ srcBarrier a = srcBarrier b := by
  have h1 : srcBarrier .newConn = .pkgvar "sqlc" "singleFlights=syncx.NewSingleFlight()" := by decide
  have h2 : srcBarrier .newNodeConn = .pkgvar "sqlc" "singleFlights=syncx.NewSingleFlight()" := by decide
  have h3 : srcBarrier .newModel = .pkgvar "monc" "singleFlight=syncx.NewSingleFlight()" := by decide
  have h4 : srcBarrier .newNodeModel = .pkgvar "monc" "singleFlight=syncx.NewSingleFlight()" := by decide
  cases a <;> cases b <;> simp [Multi.barrierOf, h1, h2, h3, h4] <;> simp [srcBarrier]

/-- the classification itself, with the initialiser: one barrier per package, created once. -/
theorem tie_barrierVars :
    sqlcCtorBarriers = [("NewConn", ["pkgvar", "singleFlights=syncx.NewSingleFlight()"]), ("NewNodeConn", ["pkgvar", "singleFlights=syncx.NewSingleFlight()"])]
    ∧ moncCtorBarriers = [("NewModel", ["pkgvar", "singleFlight=syncx.NewSingleFlight()"]), ("NewNodeModel", ["pkgvar", "singleFlight=syncx.NewSingleFlight()"])]
    ∧ newSingleFlightFacts = ["return &flightGroup{ calls: make(map[string]*call), }"] := by decide

/-- the barrier travels unchanged: cache.New hands ITS parameter to every NewNode (single node and every node of
a cluster), NewNode stores ITS parameter in the node (`doTake` runs under `c.barrier.DoEx`: `tie_doTakeFacts`). -/
theorem tie_barrierHandedOn : cacheNewBarrierArgs = ["param:barrier", "param:barrier"]
    ∧ newNodeBarrierField = ["param:barrier"] := by decide

/-- the with-cache constructors keep the cache — hence the barrier — they are given; the other constructors go
through them with the cache they just built. -/
theorem tie_withCacheKeepsCache : newConnWithCacheField = ["param:c"] ∧ newConnPassesCache = ["expr:local cc", "expr:local c"]
    ∧ moncNewModelField = ["param:c"] ∧ moncWithCachePasses = ["param:c", "expr:local c", "expr:local c"]
    ∧ moncMustNewModelFacts = ["call NewModel(uri, db, collection, c, opts)", "return model"]
    ∧ moncMustNewNodeModelFacts = ["call NewNodeModel(uri, db, collection, rds, opts)", "return model"] := by decide

/-- the ring of a cacheCluster hashes `fmt.Sprint(node)` = the server ADDRESS: two caches built by `cache.New` over
the same ClusterConf dispatch every key alike (`PropsInstances.SameServers`). -/
theorem tie_nodeStringFacts : nodeStringFacts = ["return c.rds.Addr"] := by decide

/-! ## round 4: decision-making conditions, translated from the source, equal the model's decisions -/

/-- `cacheNode.DelCtx`: nothing to do for no keys; the per-key loop exactly for more than one key on a cluster-type
Redis — `Model.nodeDel`'s two tests, for every key list and both Redis types. -/
theorem tie_delCtxConds (ks : List CKey) (cluster : Bool) :
    (delCtxCondEmpty ks.length = true ↔ ks = [])
    ∧ (delCtxCondLoop ks.length (if cluster then redisClusterType else redisNodeType) = true ↔ (ks.length > 1 ∧ cluster = true)) := by
  constructor
  · cases ks <;> simp [delCtxCondEmpty]; omega
  · cases cluster <;> simp [delCtxCondLoop, redisClusterType, redisNodeType] <;> omega

/-- … and for EVERY value of `c.rds.Type`, not only the two constants: the loop is taken iff the type is "cluster". -/
theorem tie_delCtxCondLoop_all (n : Int) (typ : String) : delCtxCondLoop n typ = (decide (n > 1) && typ == "cluster") := rfl

/-- `SetWithExpireCtx`: a non-positive expire falls back to the configured expiry (`Model.setOp`: `if e ≤ 0`; ms vs ns). -/
theorem tie_setWithExpireCond (ms : Int) : setWithExpireCond (ms * 1000000) = decide (ms ≤ 0) := by
  simp [setWithExpireCond]; omega

/-- `ttlSeconds`: the rounded seconds are kept iff they exceed 1, else 1 (`Model.ttlSecondsFixed`). -/
theorem tie_ttlSecondsCond (e j : Nat) :
    ttlSecondsFixed e j = if ttlSecondsCond (ttlSecNs e j : Nat) then ttlSecNs e j else 1 := by
  simp only [ttlSecondsFixed, ttlSecondsCond, decide_eq_true_eq]
  split <;> split <;> omega

/-- `doGetCache`: an empty value is a miss, exactly "*" is the not-found marker. -/
theorem tie_doGetCacheConds (n : Int) (data : String) :
    (doGetCacheCondEmpty n = true ↔ n = 0) ∧ (doGetCacheCondPlaceholder data = true ↔ data = "*") := by
  simp [doGetCacheCondEmpty, doGetCacheCondPlaceholder]

/-- `cache.New`: fatal for no node or no weight; a plain cacheNode for exactly one node, a cluster otherwise. -/
theorem tie_newConds (n w : Int) : (newCondFatal n w = true ↔ (n = 0 ∨ w ≤ 0)) ∧ (newCondSingle n = true ↔ n = 1) := by
  simp [newCondFatal, newCondSingle]

/-- `mathx.NewUnstable`: the two clamps (operators, constants, assigned values) are the model's `clampDev`. -/
theorem tie_newUnstableClamp (d : Rat) :
    clampDev d = (if newUnstableCondLow d then 0 else if newUnstableCondHigh d then 1 else d)
    ∧ newUnstableAssigns = ["deviation = 0", "deviation = 1"] := by
  refine ⟨?_, by decide⟩
  simp [clampDev, newUnstableCondLow, newUnstableCondHigh]

/-- `Unstable.AroundDuration` / `AroundInt`: the jittered value before truncation, as a term, for all arguments. -/
theorem tie_aroundExpr (dev r base : Rat) :
    aroundExpr dev r base = (1 + dev - 2 * dev * r) * base ∧ aroundIntExpr dev r base = (1 + dev - 2 * dev * r) * base :=
  ⟨rfl, rfl⟩

/-- … and with the deviation `p/qd` and the draw `j/1000` it is exactly the rational number whose floor is the
model's `aroundNs p qd base j` (`⌊((qd + p)·1000 − 2·p·j)·base / (qd·1000)⌋`; the numerator is non-negative for
`p ≤ qd`, `j ≤ 1000`, so the model's natural-number subtraction is the rational one). -/
theorem tie_aroundExpr_rational (p qd j base : Rat) (hq : qd ≠ 0) :
    aroundExpr (p / qd) (j / 1000) base = ((qd + p) * 1000 - 2 * p * j) * base / (qd * 1000) := by
  unfold aroundExpr
  grind

/-! ### round 5: the call object of a flight, and the caller's options at every constructor hop -/

/-- `createCall` obtains the call object with `new(call)` (or `&call{}`): an object nobody else holds — the
allocator `Calls.Alloc.fresh` the theorems of PropsCalls.lean are proven for.  A pool / cache / parameter is
classified `other:…` and fails this obligation (the pooled allocator has the witness
`pooled_call_object_hands_a_reader_the_result_of_another_key`). -/
theorem tie_createCallAlloc : Calls.allocOfSource createCallAlloc = some .fresh := by decide

/-- nobody but `makeCall` (from Do / DoEx) is ever handed the call object: it is not put into a pool, a channel
wrapper or a registry from which another flight could get it while followers still hold it. -/
theorem tie_callObjectStaysPrivate : callObjectHandedTo = ["Do:g.makeCall", "DoEx:g.makeCall"] := by decide

/-- every constructor hop hands the function's own `opts` on, spread, in EVERY call of the next constructor
(cache.New: both the single-node shortcut and the loop over the cluster's nodes) … -/
theorem tie_optsForwardedAtEveryHop (c : Multi.Ctor) : (Multi.hops c).all (Multi.hopForwards optsForwarding) = true := by
  cases c <;> simp only [Multi.hops] <;> decide

/-- … so the nodes of an instance built by ANY constructor run with exactly the caller's options, for every
Options value (`Cfg.ofOptions` of the instance's own options is what the driver and PropsInstances use). -/
theorem tie_optionsReachTheNodes (c : Multi.Ctor) (o : Options) : Multi.optsAtNode ({} : Options) optsForwarding c o = o := by
  unfold Multi.optsAtNode
  rw [tie_optsForwardedAtEveryHop c]; simp

/-- round 5b: the DEL of the cleaner's retry is issued with a BACKGROUND context (the context-free `c.rds.Del`,
whose body hands `context.Background()` to `DelCtx`), not with the ctx of the DelCtx call that armed it —
`Ctx.RetryCtx.background`, for which `retry_independent_of_writer_context` is proven. -/
theorem tie_retryDelCtx : Ctx.retrySourceOf retryDelCtx = some .background := by decide

/-- round 5e: the follower's decode at the end of doTake and the cache hit's decode in processCache call THE SAME
decoder, jsonx.Unmarshal, which is a json.Decoder with UseNumber (`Decode.Decoder.useNumber`, for which
`all_paths_yield_the_same_number` is proven); `json.Unmarshal` is a different callee and classifies as `plain`. -/
theorem tie_decoders : Decode.decoderOfSource doTakeDecoders = some .useNumber
    ∧ Decode.decoderOfSource processCacheDecoders = some .useNumber
    ∧ jsonxUnmarshalFacts = ["call unmarshalUseNumber(decoder, v)", "return formatError(string(data), err)", "return nil"]
    ∧ jsonxUseNumberFacts = ["call decoder.UseNumber()", "return decoder.Decode(v)", "call decoder.Decode(v)"] := by decide

/-- the `Must…` constructors of monc hand their options on as well. -/
theorem tie_mustNewForward : Multi.hopForwards optsForwarding "monc.MustNewModel" = true
    ∧ Multi.hopForwards optsForwarding "monc.MustNewNodeModel" = true := by decide

/-- NewNode configures the node with the two fields of `newOptions(opts...)`, each into its own field. -/
theorem tie_newNodeOptionFields : newNodeOptionFields = ["expr:o.Expiry", "expr:o.NotFoundExpiry"] := by decide

end GoZero.C06.Tie
