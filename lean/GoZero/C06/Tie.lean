/-
C06 — Tie: what the extractor read from the go-zero tree *now* equals what the model was written against.
-/
import GoZero.Extracted.C06
import GoZero.C06.Model
namespace GoZero.C06.Tie
open GoZero.C06
open GoZero.Extracted.C06

theorem extraction_clean : extractionErrors = [] := by decide

end GoZero.C06.Tie
