/-
C06 — proofs, part 4 (round 3): finite TTLs for every Options value and every history, and the NX semantics
of the not-found marker.
-/
import GoZero.C06.Proofs3
namespace GoZero.C06

/-! ### no persistent key -/

/-- every entry carries a TTL (`ttl = 0` is the model's persistent key). -/
def Finite (s : St) : Prop := ∀ k e, s.cache k = some e → 0 < e.ttl

/-- inputs the environment can actually produce: a jitter draw is `j/1000 ∈ [0, 1]` (`rand.Float64`).  (`raw k v t`
— a write into Redis behind the cache's back — carries the TTL `t > 0`; `t = 0` removes the key.) -/
def OpLegal : Op → Prop
  | .take _ j _ _ => j ≤ 1000
  | .qindex _ j _ _ => j ≤ 1000
  | .set _ _ _ j _ => j ≤ 1000
  | _ => True

theorem finite_of_shrinks {s s' : St} (hf : Finite s) (h : Shrinks s s') : Finite s' := by
  intro k e hk
  rcases h k with h1 | h1
  · rw [h1] at hk; exact hf k e hk
  · rw [h1] at hk; cases hk

theorem setex_finite {s : St} (hf : Finite s) (k : Slot) (v : CVal) (t : Nat) (o : Origin) (f : Bool) (ht : 0 < t) :
    Finite (setex s k v t o f) := by
  unfold setex
  split
  · exact hf
  · intro k' e hk
    simp only [upd] at hk
    by_cases h : k' = k
    · simp [h] at hk; subst hk; simp; omega
    · simp [h] at hk; exact hf k' e hk

theorem setnx_finite {s : St} (hf : Finite s) (k : Slot) (t : Nat) (f : Bool) (ht : 0 < t) :
    Finite (setnx s k t f) := by
  unfold setnx
  split
  · exact hf
  · split
    · exact hf
    · intro k' e hk
      simp only [upd] at hk
      by_cases h : k' = k
      · simp [h] at hk; subst hk; simp; omega
      · simp [h] at hk; exact hf k' e hk

theorem takeP_finite (c : Cfg) (hc : 0 < c.exp ∧ 0 < c.nf) {s : St} (hf : Finite s) (pk j : Nat) (hj : j ≤ 1000)
    (m : List Bool) (dbf : Bool) : Finite (takeP c s pk j m dbf).1 := by
  have hg := finite_of_shrinks hf (getCache_shrinks s (c.place (.p pk)) (.p pk) m)
  unfold takeP
  simp only []
  split
  · exact hg
  · exact hg
  · exact hg
  · split
    · exact hg
    · split
      · exact setnx_finite hg _ _ _ (ttlSec_pos _ _ hj hc.2)
      · exact setex_finite hg _ _ _ _ _ (ttlSec_pos _ _ hj hc.1)

theorem qindex_finite (c : Cfg) (hc : 0 < c.exp ∧ 0 < c.nf) {s : St} (hf : Finite s) (a j : Nat) (hj : j ≤ 1000)
    (m : List Bool) (dbf : Bool) : Finite (qindex c s a j m dbf).1 := by
  have hg := finite_of_shrinks hf (getCache_shrinks s (c.place (.x a)) (.x a) m)
  unfold qindex
  simp only []
  split
  · exact hg
  · exact hg
  · exact takeP_finite c hc hg _ _ hj _ _
  · exact hg
  · split
    · exact hg
    · split
      · exact setnx_finite hg _ _ _ (ttlSec_pos _ _ hj hc.2)
      · split
        · exact hg
        · have h1 := ttlSec_pos c.exp j hj hc.1
          exact setex_finite (setex_finite hg _ _ _ _ _ (by omega)) _ _ _ _ _ h1

theorem setOp_finite (c : Cfg) (hc : 0 < c.exp) {s : St} (hf : Finite s) (k v e j m) (hj : j ≤ 1000) :
    Finite (setOp c s k v e j m).1 := by
  unfold setOp
  refine setex_finite hf _ _ _ _ _ ?_
  cases e with
  | none => exact ttlSec_pos _ _ hj hc
  | some ms =>
    by_cases h : ms ≤ 0
    · simp only [h, if_true]; exact ttlSec_pos _ _ hj hc
    · simp only [h, if_false]; exact ceilSec_pos _ (by omega)

theorem markChanged_finite (c : Cfg) {s : St} (hf : Finite s) (w : Write) (ks : List CKey) :
    Finite { applyWrite s w with cache := markChanged c s (applyWrite s w) ks } := by
  intro k e hk
  simp only [markChanged] at hk
  split at hk
  · rename_i e0 he0
    have := hf k e0 he0
    split at hk
    · simp only [Option.some.injEq] at hk; subst hk; exact this
    · split at hk
      · simp only [Option.some.injEq] at hk; subst hk; exact this
      · simp only [Option.some.injEq] at hk; subst hk; exact this
  · cases hk

theorem expire_finite {s : St} (hf : Finite s) (ms : Nat) : Finite { s with cache := expire s.cache ms } := by
  intro k e hk
  simp only [expire] at hk
  split at hk
  · rename_i e0 he0
    have := hf k e0 he0
    split at hk
    · omega
    · split at hk
      · cases hk
      · simp only [Option.some.injEq] at hk; subst hk; simp; omega
  · cases hk

theorem step_finite (c : Cfg) (hc : 0 < c.exp ∧ 0 < c.nf) {s : St} (hf : Finite s) (op : Op) (hl : OpLegal op) :
    Finite (step c s op).1 := by
  cases op with
  | take pk j m dbf => exact takeP_finite c hc hf pk j hl m dbf
  | qindex a j m dbf => exact qindex_finite c hc hf a j hl m dbf
  | get k m =>
    have hg := finite_of_shrinks hf (getCache_shrinks s (c.place k) k m)
    simp only [step, getOp]
    split <;> exact hg
  | exec ks w m dbf =>
    simp only [step, execOp]
    split
    · exact hf
    · exact finite_of_shrinks (markChanged_finite c hf w ks) (delOp_step c _ ks m).shr
  | del ks m => exact finite_of_shrinks hf (delOp_step c s ks m).shr
  | set k v e j m => exact setOp_finite c hc.1 hf k v e j m hl
  | raw k v t =>
    simp only [step]
    intro k' e hk
    simp only [upd] at hk
    by_cases h : k' = c.slot k
    · simp [h] at hk
      rcases hk with ⟨ht, hk⟩
      subst hk
      simp; omega
    · simp [h] at hk
      exact hf k' e hk
  | ft ms => exact expire_finite hf ms
  | tick cf =>
    refine finite_of_shrinks hf (fun k => ?_)
    show (tick s cf).1.cache k = s.cache k ∨ (tick s cf).1.cache k = none
    unfold tick
    simp only [delKeys]
    by_cases h : k ∈ dueSlots (downOf cf) s.tasks <;> simp [h]

theorem run_finite (c : Cfg) (hc : 0 < c.exp ∧ 0 < c.nf) {s : St} (hf : Finite s) (ops : List Op)
    (hl : ∀ op ∈ ops, OpLegal op) : Finite (run c s ops) := by
  induction ops generalizing s with
  | nil => exact hf
  | cons op ops ih =>
    exact ih (step_finite c hc hf op (hl op (by simp))) (fun o ho => hl o (by simp [ho]))

theorem init_finite : Finite St.init := fun k e hk => by simp [St.init] at hk

/-! ### NX: the not-found marker never replaces an entry -/

/-- `SET key "*" NX EX ttl` on an occupied slot changes nothing — whatever occupies it. -/
theorem setnx_occupied {s : St} {k : Slot} {e : Entry} (he : s.cache k = some e) (t : Nat) (f : Bool) :
    setnx s k t f = s := by
  unfold setnx
  split
  · rfl
  · rw [he]

/-- … and on a free slot it writes the marker with the given TTL (unless the command fails). -/
theorem setnx_free {s : St} {k : Slot} (he : s.cache k = none) (t : Nat) :
    (setnx s k t false).cache k = some ⟨.ph, t * 1000, .loaded⟩ := by
  unfold setnx
  simp [he, upd]

/-- a Take never turns an entry into the marker when the entry is parsable (it is served) or when the DEL of
the unparsable entry failed (the slot stays occupied, so `SET NX` does nothing).  With a plain `SET` in place
of `SET NX` the second case would be false. -/
theorem takeP_marker_never_replaces (c : Cfg) (s : St) (pk j : Nat) (m : List Bool) (dbf : Bool) (k : Slot) (e : Entry)
    (he : s.cache k = some e) (hrow : e.val ≠ .ph) (hkeep : parses k.2 e.val = true ∨ failAt m 1 = true) :
    ∀ e', (takeP c s pk j m dbf).1.cache k = some e' → e'.val ≠ .ph := by
  intro e' h
  rcases takeP_writes c s pk j m dbf k with h1 | h1 | ⟨hk, h1 | ⟨r, hr, h1⟩⟩
  · rw [h1, he] at h; cases h; exact hrow
  · rw [h1] at h; cases h
  · -- the marker was written under this key: impossible, the slot was occupied
    exfalso
    subst hk
    unfold Cfg.slot at he h1 hkeep
    simp only [] at hkeep
    by_cases h0 : failAt m 0 = true
    · simp [takeP, getCache, h0, he] at h1
      exact hrow (by rw [h1])
    · by_cases hp : parses (.p pk) e.val = true
      · simp [takeP, getCache, h0, he, hrow, hp] at h1
        exact hrow (by rw [h1])
      · have h11 : failAt m 1 = true := by
          rcases hkeep with h | h
          · exact absurd h hp
          · exact h
        have hg : getCache s (c.place (.p pk)) (.p pk) m
            = (s, .miss, [⟨.get, c.place (.p pk), [.p pk], false⟩, ⟨.del, c.place (.p pk), [.p pk], true⟩]) := by
          simp [getCache, h0, he, hrow, hp, h11]
        unfold takeP at h1
        rw [hg] at h1
        simp only [] at h1
        split at h1
        · simp [he] at h1; exact hrow (by rw [h1])
        · split at h1
          · rw [setnx_occupied (by unfold Cfg.slot; exact he)] at h1
            simp [he] at h1; exact hrow (by rw [h1])
          · rename_i r hr
            simp [setex, Cfg.slot] at h1
            split at h1
            · simp [he] at h1; exact hrow (by rw [h1])
            · simp [upd] at h1
              unfold dbRow at hr
              split at hr
              · cases hr; exact absurd h1.1 (by simp)
              · cases hr
  · rw [h1] at h; cases h
    unfold dbRow at hr
    split at hr
    · cases hr; simp
    · cases hr

/-- the index path: the marker never replaces an entry under the INDEX key (served when it parses; left alone
by `SET NX` when its DEL failed; overwritten only by the index entry of a found row). -/
theorem qindex_marker_never_replaces (c : Cfg) (s : St) (a j : Nat) (m : List Bool) (dbf : Bool) (e : Entry)
    (he : s.cache (c.slot (.x a)) = some e) (hrow : e.val ≠ .ph)
    (hkeep : parses (.x a) e.val = true ∨ failAt m 1 = true) :
    ∀ e', (qindex c s a j m dbf).1.cache (c.slot (.x a)) = some e' → e'.val ≠ .ph := by
  intro e' h
  unfold Cfg.slot at he
  by_cases h0 : failAt m 0 = true
  · rw [qindex_failfast c s a j m dbf h0] at h
    simp only [Cfg.slot] at h
    rw [he] at h; cases h; exact hrow
  · by_cases hp : parses (.x a) e.val = true
    · -- the index entry is served; the second Take works on the primary key's slot only
      obtain ⟨n, hn⟩ : ∃ n, e.val = .pk n := by
        cases hv : e.val <;> simp [hv, parses] at hp
        exact ⟨_, rfl⟩
      have hg : getCache s (c.place (.x a)) (.x a) m = (s, .hit (.pk n), [⟨.get, c.place (.x a), [.x a], false⟩]) := by
        simp [getCache, h0, he, hn, parses]
      unfold qindex at h
      rw [hg] at h
      simp only [] at h
      rcases takeP_writes c s n j (m.drop 1) dbf (c.slot (.x a)) with h1 | h1 | ⟨hk, _⟩
      · simp only [List.length_singleton] at h
        rw [h1] at h; simp only [Cfg.slot] at h; rw [he] at h; cases h; exact hrow
      · simp only [List.length_singleton] at h
        rw [h1] at h; cases h
      · simp [Cfg.slot] at hk
    · have h11 : failAt m 1 = true := by
        rcases hkeep with h | h
        · exact absurd h hp
        · exact h
      have hg : getCache s (c.place (.x a)) (.x a) m
          = (s, .miss, [⟨.get, c.place (.x a), [.x a], false⟩, ⟨.del, c.place (.x a), [.x a], true⟩]) := by
        simp [getCache, h0, he, hrow, hp, h11]
      unfold qindex at h
      rw [hg] at h
      simp only [] at h
      split at h
      · simp only [Cfg.slot] at h; rw [he] at h; cases h; exact hrow
      · split at h
        · rw [setnx_occupied (by unfold Cfg.slot; exact he)] at h
          simp only [Cfg.slot] at h; rw [he] at h; cases h; exact hrow
        · split at h
          · simp only [Cfg.slot] at h; rw [he] at h; cases h; exact hrow
          · simp only [setex, Cfg.slot] at h
            split at h
            · simp [upd, he] at h
              subst h; exact hrow
            · simp [upd] at h
              rw [← h]; simp

end GoZero.C06
