/-
C06 — round 4: SEVERAL instances (sqlc.CachedConn / monc.Model) over the same cache servers (core Lean only).

  core/stores/sqlc/cachedsql.go    `singleFlights = syncx.NewSingleFlight()` (package level, assigned once),
                                   NewConn → cache.New(c, singleFlights, …), NewNodeConn → cache.NewNode(rds, singleFlights, …),
                                   NewConnWithCache(db, c) keeps the cache — and hence the barrier — the caller built
  core/stores/monc/cachedmodel.go  `singleFlight = syncx.NewSingleFlight()`, NewModel / NewNodeModel / NewModelWithCache alike
  core/stores/cache/cache.go       New hands ITS `barrier` argument to every NewNode of the cluster
  core/stores/cache/cachenode.go   NewNode stores it (`barrier: barrier`), doTake runs the load inside `c.barrier.DoEx(key, …)`

A barrier is one `flightGroup` (its own lock and `calls` map): barriers are independent objects, so the
model of a set of barriers is the PRODUCT of one `Flight.Cfg` per barrier; a reader goroutine `t` reads through
the instance `inst t` and therefore only ever steps in the component `barrierOf (inst t)`.
-/
import GoZero.C06.Flight
namespace GoZero.C06.Multi

/-- the barrier objects that exist: the package-level one of sqlc, the package-level one of monc, and those a
caller created himself (numbered) and handed to `cache.New` / `cache.NewNode`. -/
inductive Barrier where
  | sqlcPkg
  | moncPkg
  | custom (k : Nat)
  deriving DecidableEq, Repr

/-- how an instance came to be. -/
inductive Ctor where
  | newConn                      -- sqlc.NewConn
  | newNodeConn                  -- sqlc.NewNodeConn
  | newConnWithCache (k : Nat)   -- sqlc.NewConnWithCache over a cache built with the caller's barrier k
  | newModel                     -- monc.NewModel / MustNewModel
  | newNodeModel                 -- monc.NewNodeModel / MustNewNodeModel
  | newModelWithCache (k : Nat)  -- monc.NewModelWithCache over a cache built with the caller's barrier k
  deriving DecidableEq, Repr

/-- the barrier the loads of an instance run under (tied: `Tie.tie_ctorBarriers`, `tie_barrierVars`,
`tie_newFacts`, `tie_newNodeFacts`, `tie_withCacheKeepsCache`). -/
def barrierOf : Ctor → Barrier
  | .newConn | .newNodeConn => .sqlcPkg
  | .newModel | .newNodeModel => .moncPkg
  | .newConnWithCache k | .newModelWithCache k => .custom k

/-- built by one of the constructors that promise the package-wide barrier. -/
def Ctor.sharedSqlc : Ctor → Bool
  | .newConn | .newNodeConn => true
  | _ => false

def Ctor.sharedMonc : Ctor → Bool
  | .newModel | .newNodeModel => true
  | _ => false

/-! ### round 5: the caller's options on their way to the nodes

An instance is built by a chain of constructor calls; every hop receives `opts ...Option` and has to hand it on
(`f(…, opts...)`) for the nodes to be configured with it (NewNode → newOptions(opts...)).  `table` is what the
extractor reads at every hop (`Extracted.C06.optsForwarding`: per function the class of the options argument of
each call of the next constructor). -/

/-- the hops between the public constructor and `newOptions`. -/
def hops : Ctor → List String
  | .newConn => ["sqlc.NewConn", "cache.New", "cache.NewNode"]
  | .newNodeConn => ["sqlc.NewNodeConn", "cache.NewNode"]
  | .newConnWithCache _ => ["cache.New", "cache.NewNode"]          -- the caller built the cache with cache.New
  | .newModel => ["monc.NewModel", "cache.New", "cache.NewNode"]
  | .newNodeModel => ["monc.NewNodeModel", "cache.NewNode"]
  | .newModelWithCache _ => ["cache.New", "cache.NewNode"]

/-- a hop forwards iff EVERY call of the next constructor in it passes the function's own `opts` parameter, spread
(the flattened classification `param:opts...`; a call without the argument is classified `absent`). -/
def hopForwards (table : List (String × List String)) (hop : String) : Bool :=
  match table.find? (·.1 = hop) with
  | some (_, cls) => cls ≠ [] && cls.length % 2 = 0 &&
      (List.range (cls.length / 2)).all fun i => cls[2 * i]? = some "param" && cls[2 * i + 1]? = some "opts..."
  | none => false

/-- the options the nodes of an instance are configured with: the caller's, unless a hop drops them (then the
node runs `newOptions()` = `dflt`). -/
def optsAtNode {O : Type} (dflt : O) (table : List (String × List String)) (c : Ctor) (o : O) : O :=
  if (hops c).all (hopForwards table) then o else dflt

/-! ### the flight groups of all barriers, side by side -/

variable {α : Type}

/-- one `Flight.Cfg` per barrier. -/
abbrev MCfg (α : Type) := Barrier → Flight.Cfg α

def MCfg.init : MCfg α := fun _ => Flight.Cfg.init

def updB (s : MCfg α) (b : Barrier) (c : Flight.Cfg α) : MCfg α := fun b' => if b' = b then c else s b'

/-- goroutine `t` (reading the ONE key under consideration through instance `inst t`) takes its next step:
a step of the flight group of its instance's barrier; `q b g` = what the database answers to the query of
call `g` of barrier `b`. -/
def mstep (inst : Nat → Ctor) (q : Barrier → Nat → α) (s : MCfg α) (t : Nat) : Option (MCfg α) :=
  match Flight.step (q (barrierOf (inst t))) (s (barrierOf (inst t))) t with
  | some c => some (updB s (barrierOf (inst t)) c)
  | none => none

inductive MReach (inst : Nat → Ctor) (q : Barrier → Nat → α) : MCfg α → Prop
  | init : MReach inst q MCfg.init
  | step {s s' : MCfg α} (t : Nat) : MReach inst q s → mstep inst q s t = some s' → MReach inst q s'

/-- every component of a reachable product state is a reachable state of the single flight group. -/
theorem component_reachable {inst : Nat → Ctor} {q : Barrier → Nat → α} {s : MCfg α} (h : MReach inst q s)
    (b : Barrier) : Flight.Reachable (q b) (s b) := by
  induction h with
  | init => exact .init
  | step t _ hs ih =>
    unfold mstep at hs
    split at hs
    · rename_i c hc
      cases hs
      unfold updB
      by_cases hb : b = barrierOf (inst t)
      · subst hb; simp only [if_true]; exact .step t ih hc
      · simp only [hb, if_false]; exact ih
    · cases hs

/-- a goroutine never moves in a flight group other than the one of its instance's barrier. -/
theorem idle_elsewhere {inst : Nat → Ctor} {q : Barrier → Nat → α} {s : MCfg α} (h : MReach inst q s)
    (t : Nat) (b : Barrier) (hb : b ≠ barrierOf (inst t)) : (s b).pc t = 0 := by
  induction h with
  | init => rfl
  | step u _ hs ih =>
    unfold mstep at hs
    split at hs
    · rename_i c hc
      cases hs
      unfold updB
      by_cases hbu : b = barrierOf (inst u)
      · subst hbu
        simp only [if_true]
        have hut : u ≠ t := fun e => hb (by rw [e])
        -- a step of `u` leaves the pc of `t ≠ u` alone
        unfold Flight.step at hc
        split at hc <;> (try split at hc) <;> simp at hc <;> (try subst hc) <;>
          simp [Flight.upd, Ne.symm hut] <;> exact ih
      · simp only [hbu, if_false]; exact ih
    · cases hs

/-- where goroutine `t` stands: its pc in the flight group of its own barrier. -/
def pcOf (inst : Nat → Ctor) (s : MCfg α) (t : Nat) : Nat := (s (barrierOf (inst t))).pc t

/-- what `t`'s read returned. -/
def gotOf (inst : Nat → Ctor) (s : MCfg α) (t : Nat) : Option α := (s (barrierOf (inst t))).got t

/-- the goroutines among `ts` that are inside their database query. -/
def querying (inst : Nat → Ctor) (s : MCfg α) (ts : List Nat) : List Nat := ts.filter fun t => pcOf inst s t = 2

end GoZero.C06.Multi
