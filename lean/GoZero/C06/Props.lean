/-
C06 — property theorems (statements, short proofs from the lemmas of Proofs*.lean, non-vacuity examples).

Model: GoZero/C06/Model.lean (cacheCluster dispatch + cacheNode + cleaner + CachedConn over SEVERAL Redis stores
— one per cache node, a slot is (node, key) — with ms TTLs and an abstract database; per-command cache faults
`m : List Bool` (reads / sets: in issue order; DelCtx: one mask per node), per-operation database fault `dbf`,
jitter draw `j/1000`).
All theorems quantify over *every* history `ops : List Op` (reads, Exec writes, deletes, explicit sets, raw
writes, clock advances, cleaner ticks with any set of nodes down, with every placement of faults) and every
configuration `c`: expiries, node-type or cluster-type Redis, and EVERY dispatch function `c.place : CKey → Nat`
(any number of nodes, any assignment of keys to nodes; one node = a constant function).
-/
import GoZero.C06.Proofs4
import GoZero.C06.Flight
import GoZero.C06.Refine
namespace GoZero.C06

/-! ## 1. Coherent reads -/

/-- **Invariant** (unconditional, all histories, all fault placements): an entry that was loaded from the
database and whose key's database view has not been changed since holds exactly what the database holds —
the row, the primary key, or the placeholder iff the row is absent. -/
theorem coherence_invariant (c : Cfg) (ops : List Op) : Coh (run c St.init ops) :=
  run_coh c init_coh ops

/-- `Coh` spelled out for the multi-node store: on EVERY node `n`, a `loaded` entry of key `k` holds the
database's view of `k`. -/
theorem coherence_invariant_per_node (c : Cfg) (ops : List Op) (n : Nat) (k : CKey) (e : Entry)
    (he : (run c St.init ops).cache (n, k) = some e) (hl : e.origin = .loaded) :
    e.val = dbView (run c St.init ops) k :=
  coherence_invariant c ops (n, k) e he hl

/-- **dispatch invariant** (all histories): an entry of key `k` is only ever found on node `c.place k` — the
cluster never leaves a copy of a key on a node it will not invalidate. -/
theorem entries_on_their_node (c : Cfg) (ops : List Op) : Placed c (run c St.init ops) :=
  run_placed c (init_placed c) ops

/-
FULL STATEMENT of the property's first clause (NOT provable — refuted by `stale_read_while_delete_pending`):

  theorem coherent_reads (c : Cfg) (ops : List Op) (hp : Proviso c St.init ops) (pk j : Nat) (m : List Bool)
      (hf : failAt m 0 = false) :
      (takeP c (run c St.init ops) pk j m false).2.res = Spec.expected (run c St.init ops) (.p pk)

What is missing: when the DEL issued by `ExecCtx` fails (cache outage placed on that command), `DelCtx` only
arms a retry in the cleaner (1 s, then 5 s, 1 min, 5 min, 1 h) and returns nil; until a retry succeeds — or
for the rest of the entry's TTL if all five retries fail — the old entry is served.  The `_partial` theorems
carve out exactly that case and nothing else.
-/

/-- **coherent_reads_partial** (Take / QueryRow).  In every history that respects the property's proviso
(every Exec names the keys whose database view it changes; no explicit set, nothing written into Redis
directly), a read whose GET and database call do not fail returns exactly what the database holds — the row
or not-found — *unless* the entry it finds survived a failed DEL of an Exec, in which case a retry of that DEL
is still pending in the cleaner or the cleaner has given up after five failed retries. -/
theorem coherent_reads_partial (c : Cfg) (ops : List Op) (hp : Proviso c St.init ops)
    (pk j : Nat) (m : List Bool) (hf : failAt m 0 = false) :
    (takeP c (run c St.init ops) pk j m false).2.res = Spec.expected (run c St.init ops) (.p pk)
    ∨ ∃ e, (run c St.init ops).cache (c.slot (.p pk)) = some e ∧ e.origin = .stale
           ∧ (Pending (run c St.init ops) (c.slot (.p pk)) ∨ 0 < (run c St.init ops).gaveUp) := by
  have hi := run_inv c init_inv ops
  have hn := run_noBehind c init_noBehind (init_placed c) ops hp
  generalize run c St.init ops = s at *
  by_cases hs : ∃ e, s.cache (c.slot (.p pk)) = some e ∧ e.origin = .stale
  · obtain ⟨e, he, ho⟩ := hs
    exact Or.inr ⟨e, he, ho, hi.prov _ e he ho⟩
  · left
    refine takeP_coherent c hi.coh pk j m false (fun e he => ?_) hf rfl
    rcases hn _ e he with h | h
    · exact h
    · exact absurd ⟨e, he, h⟩ hs

/-- **coherent_reads_partial, index path** (QueryRowIndex): same statement; the carve-out applies to the index
entry and to the primary entry it points to. -/
theorem coherent_index_reads_partial (c : Cfg) (ops : List Op) (hp : Proviso c St.init ops)
    (a j : Nat) (m : List Bool) (hm : ∀ i, failAt m i = false) :
    (qindex c (run c St.init ops) a j m false).2.res = Spec.expected (run c St.init ops) (.x a)
    ∨ ∃ k e, (run c St.init ops).cache k = some e ∧ e.origin = .stale
             ∧ (Pending (run c St.init ops) k ∨ 0 < (run c St.init ops).gaveUp) := by
  have hi := run_inv c init_inv ops
  have hn := run_noBehind c init_noBehind (init_placed c) ops hp
  generalize run c St.init ops = s at *
  by_cases hs : ∃ k e, s.cache k = some e ∧ e.origin = .stale
  · obtain ⟨k, e, he, ho⟩ := hs
    exact Or.inr ⟨k, e, he, ho, hi.prov _ e he ho⟩
  · left
    refine qindex_coherent c hi.coh a j m false (fun e he => ?_) (fun e n e' _ _ he' => ?_) hm rfl
    · rcases hn _ e he with h | h
      · exact h
      · exact absurd ⟨_, e, he, h⟩ hs
    · rcases hn _ e' he' with h | h
      · exact h
      · exact absurd ⟨_, e', he', h⟩ hs

/-- Without the carve-out the clause is false (witness, replayed on the real code by the harness' first
section): row 1 is cached, `Exec` updates it while the DEL fails, the next read still returns the old row. -/
theorem stale_read_while_delete_pending :
    let c : Cfg := { exp := 20000, nf := 3000 }
    let ops : List Op := [.exec [.p 1, .x 1] (.put 1 10 1) [] false, .take 1 500 [] false,
                          .exec [.p 1, .x 1] (.put 1 11 1) [[true]] false]
    Proviso c St.init ops
    ∧ (takeP c (run c St.init ops) 1 500 [] false).2.res = .val (.row 1 10 1)
    ∧ Spec.expected (run c St.init ops) (.p 1) = .val (.row 1 11 1) := by
  refine ⟨⟨?_, trivial, ?_, trivial⟩, by decide, by decide⟩
  · exact wellKeyed_put_fresh (by rfl) (by rfl)
  · exact wellKeyed_put_same (v0 := 10) (by rfl) (by rfl)

/-- every stale entry is accounted for: a retry is pending or the cleaner gave up (all histories). -/
theorem stale_entries_have_pending_retry (c : Cfg) (ops : List Op) : Prov (run c St.init ops) :=
  (run_inv c init_inv ops).prov

/-- the retry schedule: 1 s, 5 s, 1 min, 5 min, 1 h, then the cleaner gives up. -/
theorem nextDelay_chain : nextDelay 1 = some 5 ∧ nextDelay 5 = some 60 ∧ nextDelay 60 = some 300
    ∧ nextDelay 300 = some 3600 ∧ nextDelay 3600 = none := by decide

/-! ## 2. Served from the cache -/

/-- a cached row or not-found marker is served without touching the database (and without touching the
cache), in any state. -/
theorem served_from_cache (c : Cfg) (s : St) (pk j : Nat) (e : Entry) (m : List Bool) (dbf : Bool)
    (he : s.cache (c.slot (.p pk)) = some e) (hl : e.val = .ph ∨ parses (.p pk) e.val = true) (hf : failAt m 0 = false) :
    (takeP c s pk j m dbf).2.q = 0 ∧ (takeP c s pk j m dbf).1 = s
    ∧ (takeP c s pk j m dbf).2.res = (if e.val = .ph then .notfound else .val e.val) := by
  rw [takeP_served c j dbf he hl hf]; exact ⟨rfl, rfl, rfl⟩

/-- index path: cached not-found marker. -/
theorem served_from_cache_index_placeholder (c : Cfg) (s : St) (a j : Nat) (e : Entry) (m : List Bool) (dbf : Bool)
    (he : s.cache (c.slot (.x a)) = some e) (hv : e.val = .ph) (hf : failAt m 0 = false) :
    (qindex c s a j m dbf).2.q = 0 ∧ (qindex c s a j m dbf).1 = s ∧ (qindex c s a j m dbf).2.res = .notfound := by
  rw [qindex_served_placeholder c j dbf he hv hf]; exact ⟨rfl, rfl, rfl⟩

/-- index path: cached index entry and cached primary entry. -/
theorem served_from_cache_index (c : Cfg) (s : St) (a n j : Nat) (e e' : Entry) (m : List Bool) (dbf : Bool)
    (he : s.cache (c.slot (.x a)) = some e) (hv : e.val = .pk n)
    (he' : s.cache (c.slot (.p n)) = some e') (hl : e'.val = .ph ∨ parses (.p n) e'.val = true)
    (hf : failAt m 0 = false) (hf' : failAt m 1 = false) :
    (qindex c s a j m dbf).2.q = 0 ∧ (qindex c s a j m dbf).1 = s
    ∧ (qindex c s a j m dbf).2.res = (if e'.val = .ph then .notfound else .val e'.val) := by
  rw [qindex_served c j dbf he hv he' hl hf hf']; exact ⟨rfl, rfl, rfl⟩

/-! ## 3. Failure containment -/

/-- database errors are returned and never cached: an operation that returns the database error made its one
database call, and its cache is the old cache with at most an unparsable entry removed. -/
theorem db_errors_not_cached (c : Cfg) (s : St) (pk a j : Nat) (m : List Bool) (dbf : Bool) :
    ((takeP c s pk j m dbf).2.res = .dberr →
        dbf = true ∧ (takeP c s pk j m dbf).2.q = 1 ∧ Shrinks s (takeP c s pk j m dbf).1)
    ∧ ((qindex c s a j m dbf).2.res = .dberr →
        dbf = true ∧ (qindex c s a j m dbf).2.q = 1 ∧ Shrinks s (qindex c s a j m dbf).1) :=
  ⟨takeP_dberr c s pk j m dbf, qindex_dberr c s a j m dbf⟩

/-- a failing database call on a miss is what is returned (nothing else masks it). -/
theorem db_error_returned (c : Cfg) (s : St) (pk j : Nat) (m : List Bool)
    (hmiss : s.cache (c.slot (.p pk)) = none) (hf : failAt m 0 = false) :
    (takeP c s pk j m true).2.res = .dberr ∧ (takeP c s pk j m true).1 = s := by
  unfold Cfg.slot at hmiss
  unfold takeP getCache; simp [hf, hmiss]

/-- a failing cache store (other than a miss) is reported without querying the database, state untouched
(the one command issued is the GET on the key's node: a node that is down fails the reads of ITS keys only). -/
theorem cache_failure_fails_fast (c : Cfg) (s : St) (pk a j : Nat) (m : List Bool) (dbf : Bool)
    (h : failAt m 0 = true) :
    takeP c s pk j m dbf = (s, { res := .cacheerr, q := 0, cmds := [⟨.get, c.place (.p pk), [.p pk], true⟩] })
    ∧ qindex c s a j m dbf = (s, { res := .cacheerr, q := 0, cmds := [⟨.get, c.place (.x a), [.x a], true⟩] }) :=
  ⟨takeP_failfast c s pk j m dbf h, qindex_failfast c s a j m dbf h⟩

/-! ## 4. TTLs -/

/-- the TTL written for a base expiry `e` (ms) and any jitter draw lies in `[⌈0.95e⌉, ⌈1.05e⌉]` seconds and
is at least one second: never a persistent key (go-redis sends a plain SET only for 0 seconds). -/
theorem ttl_finite_and_in_range (e j : Nat) (hj : j ≤ 1000) (he : 0 < e) :
    Spec.ttlLo e ≤ ttlSec e j ∧ ttlSec e j ≤ Spec.ttlHi e ∧ 1 ≤ ttlSec e j := by
  have := ttlSec_in_range e j hj he
  unfold Spec.inRange at this
  rwa [decide_eq_true_eq] at this

/-- the configured expiries are positive after `newOptions` (defaults 7 days / 1 minute). -/
theorem configured_expiries_positive (o : Options) :
    0 < (Cfg.ofOptions o).exp ∧ 0 < (Cfg.ofOptions o).nf := cfg_pos o

/-! ### nanosecond granularity: where the pinned rounding yields 0 seconds (defect), and the fix -/

/-- the millisecond model is the exact nanosecond arithmetic restricted to whole milliseconds. -/
theorem ttlSecNs_whole_ms (ms j : Nat) : ttlSecNs (ms * 1000000) j = ttlSec ms j := by
  unfold ttlSecNs ttlSec
  rw [← Nat.mul_assoc]
  generalize (10500 - j) * ms = y
  omega

/-- for every expiry of at least 2 ns and every draw the pinned rounding gives at least one second … -/
theorem ttlSecNs_pos (e j : Nat) (hj : j ≤ 1000) (he : 2 ≤ e) : 1 ≤ ttlSecNs e j := by
  have h : 9500 * 2 ≤ (10500 - j) * e := Nat.mul_le_mul (by omega) he
  unfold ttlSecNs
  generalize (10500 - j) * e = x at h
  omega

/-- … but **DEFECT (witness)**: with `WithExpiry(1)` / `WithNotFoundExpiry(1)` — one nanosecond — and a draw above
1/2 the jittered duration truncates to 0 ns, `int(math.Ceil(0))` is 0, and `SetexCtx(…, 0)` / `SetnxExCtx(…, 0)`
store the row / the not-found marker WITHOUT a TTL (`ttl = 0` is the model's persistent key).  Reproduced on
the real code: fixes/C06-ttl-at-least-one-second_demo_test.go (about 1 in 4 rows, 1 in 2 markers). -/
theorem one_nanosecond_expiry_writes_a_persistent_key :
    (∀ j, 500 < j → j ≤ 1000 → ttlSecNs 1 j = 0)
    ∧ (setex St.init (0, .p 1) (.row 1 1 1) (ttlSecNs 1 1000) .explicit false).cache (0, .p 1)
        = some ⟨.row 1 1 1, 0, .explicit⟩
    ∧ (setnx St.init (0, .p 1) (ttlSecNs 1 1000) false).cache (0, .p 1) = some ⟨.ph, 0, .loaded⟩
    ∧ (expire (setnx St.init (0, .p 1) (ttlSecNs 1 1000) false).cache 1000000000000) (0, .p 1) = some ⟨.ph, 0, .loaded⟩ := by
  refine ⟨fun j h1 h2 => ?_, by decide, by decide, by decide⟩
  unfold ttlSecNs
  omega

/-- the fixed rounding (`ttlSeconds`) is at least one second for EVERY expiry and draw (1 ns and the negative
durations an overflow produces included: they are floored to 1 s) … -/
theorem ttl_fixed_at_least_one_second (e j : Nat) : 1 ≤ ttlSecondsFixed e j := by
  unfold ttlSecondsFixed; split <;> omega

/-- … and changes nothing for any expiry of 2 ns or more. -/
theorem ttl_fix_changes_nothing_above_1ns (e j : Nat) (hj : j ≤ 1000) (he : 2 ≤ e) :
    ttlSecondsFixed e j = ttlSecNs e j := by
  have := ttlSecNs_pos e j hj he
  unfold ttlSecondsFixed; split <;> omega

/-- `newOptions` spelled out: an option that is not given, zero or negative falls back to the default (7 days /
1 minute); a positive one is taken as it is.  (The function itself is tied to the translated source:
`Tie.tie_newOptionsTail`, `tie_newOptionsHead`.) -/
theorem newOptions_defaults (o : Options) :
    (newOptions o).1 = (match o.expiry with
                        | some e => if e ≤ 0 then 7 * 24 * 3600 * 1000 else e.toNat
                        | none => 7 * 24 * 3600 * 1000)
    ∧ (newOptions o).2 = (match o.notFound with
                          | some n => if n ≤ 0 then 60 * 1000 else n.toNat
                          | none => 60 * 1000) := by
  unfold newOptions newOptionsMs defaultExpiryMs defaultNotFoundExpiryMs
  cases o.expiry <;> cases o.notFound <;> simp

/-- **for every Options value** (option given or not; zero, negative, sub-second, huge) and every jitter draw,
the TTL written for a row (`Set`, the load path) and the TTL written for the not-found marker are both within
the property's ±5 % of the effective expiry, rounded up to seconds, and at least one second — never the `0`
that go-redis turns into a persistent key. -/
theorem ttl_finite_for_every_options (o : Options) (j : Nat) (hj : j ≤ 1000) :
    (Spec.ttlLo (Cfg.ofOptions o).exp ≤ ttlSec (Cfg.ofOptions o).exp j ∧ ttlSec (Cfg.ofOptions o).exp j ≤ Spec.ttlHi (Cfg.ofOptions o).exp
      ∧ 1 ≤ ttlSec (Cfg.ofOptions o).exp j)
    ∧ (Spec.ttlLo (Cfg.ofOptions o).nf ≤ ttlSec (Cfg.ofOptions o).nf j ∧ ttlSec (Cfg.ofOptions o).nf j ≤ Spec.ttlHi (Cfg.ofOptions o).nf
      ∧ 1 ≤ ttlSec (Cfg.ofOptions o).nf j) :=
  ⟨ttl_finite_and_in_range _ j hj (cfg_pos o).1, ttl_finite_and_in_range _ j hj (cfg_pos o).2⟩

/-- **never a persistent key** — for every Options value, every topology (Redis type, dispatch function) and
every history of operations with every placement of faults: every entry in every node's Redis carries a TTL
(`ttl = 0` is the model's persistent key: what `SetexCtx(…, 0)` / `SetnxExCtx(…, 0)` leave behind). -/
theorem no_persistent_key (o : Options) (cl : Bool) (pl : CKey → Nat) (ops : List Op) (hl : ∀ op ∈ ops, OpLegal op) :
    ∀ k e, (run { Cfg.ofOptions o with cluster := cl, place := pl } St.init ops).cache k = some e → 0 < e.ttl :=
  run_finite { Cfg.ofOptions o with cluster := cl, place := pl } (cfg_pos o) init_finite ops hl

/-- the not-found path: a miss on an absent row writes the marker `*` with `SET NX EX` and the jittered
NOT-FOUND expiry (not the row expiry), on the key's node, and returns not-found after one database call. -/
theorem notfound_placeholder_ttl (c : Cfg) (s : St) (pk j : Nat)
    (hmiss : s.cache (c.slot (.p pk)) = none) (hr : dbRow s pk = none) :
    (takeP c s pk j [] false).1.cache (c.slot (.p pk)) = some ⟨.ph, ttlSec c.nf j * 1000, .loaded⟩
    ∧ (takeP c s pk j [] false).2.res = .notfound ∧ (takeP c s pk j [] false).2.q = 1
    ∧ (takeP c s pk j [] false).2.cmds = [⟨.get, c.place (.p pk), [.p pk], false⟩, ⟨.setnx, c.place (.p pk), [.p pk], false⟩] := by
  unfold Cfg.slot at hmiss
  unfold takeP getCache setnx
  simp [failAt, hmiss, hr, upd, Cfg.slot]

/-- the same on the index path (`QueryRowIndex` → `TakeWithExpireCtx`): the marker goes under the INDEX key. -/
theorem notfound_placeholder_ttl_index (c : Cfg) (s : St) (a j : Nat)
    (hmiss : s.cache (c.slot (.x a)) = none) (hr : dbIndex s a = none) :
    (qindex c s a j [] false).1.cache (c.slot (.x a)) = some ⟨.ph, ttlSec c.nf j * 1000, .loaded⟩
    ∧ (qindex c s a j [] false).2.res = .notfound ∧ (qindex c s a j [] false).2.q = 1 := by
  unfold Cfg.slot at hmiss
  unfold qindex getCache setnx
  simp [failAt, hmiss, hr, upd, Cfg.slot]

/-- **a not-found marker never replaces a row** (NX semantics of `setCacheWithNotFound`).  Primitive level: `SET
key "*" NX EX ttl` on an occupied slot changes nothing, whatever occupies it. -/
theorem marker_setnx_keeps_occupied_slot (s : St) (k : Slot) (e : Entry) (he : s.cache k = some e) (t : Nat) (f : Bool) :
    setnx s k t f = s := setnx_occupied he t f

/-- Operation level (`Take` / `QueryRow`, and the second Take of the index path): an entry that is not the
marker is never turned into the marker by a Take when it parses for its key (it is served from the cache) or
when the DEL of the unparsable entry failed — the case in which the load path reaches `SET NX` with the slot
still occupied (the database says not-found, the junk entry stays; a found row overwrites it with `SET`). -/
theorem marker_never_replaces_an_entry (c : Cfg) (s : St) (pk j : Nat) (m : List Bool) (dbf : Bool) (k : Slot) (e : Entry)
    (he : s.cache k = some e) (hrow : e.val ≠ .ph) (hkeep : parses k.2 e.val = true ∨ failAt m 1 = true) :
    ∀ e', (takeP c s pk j m dbf).1.cache k = some e' → e'.val ≠ .ph :=
  takeP_marker_never_replaces c s pk j m dbf k e he hrow hkeep

/-- the same for the index path (`QueryRowIndex`): the marker never replaces an entry under the index key. -/
theorem marker_never_replaces_an_index_entry (c : Cfg) (s : St) (a j : Nat) (m : List Bool) (dbf : Bool) (e : Entry)
    (he : s.cache (c.slot (.x a)) = some e) (hrow : e.val ≠ .ph)
    (hkeep : parses (.x a) e.val = true ∨ failAt m 1 = true) :
    ∀ e', (qindex c s a j m dbf).1.cache (c.slot (.x a)) = some e' → e'.val ≠ .ph :=
  qindex_marker_never_replaces c s a j m dbf e he hrow hkeep

/-- non-vacuity of the NX case: junk under `p1` whose DEL fails, the row is absent: the Take returns not-found,
issues GET, DEL (failed), SET NX — and the junk is still there; with the DEL succeeding the marker is written. -/
example :
    let c : Cfg := { exp := 20000, nf := 3000 }
    let s := run c St.init [.raw (.p 1) (.junk 3) 5000]
    (takeP c s 1 500 [false, true] false).1.cache (0, .p 1) = some ⟨.junk 3, 5000, .explicit⟩
    ∧ (takeP c s 1 500 [false, true] false).2.res = .notfound
    ∧ (takeP c s 1 500 [false, true] false).2.cmds.map (·.cmd) = [.get, .del, .setnx]
    ∧ (takeP c s 1 500 [] false).1.cache (0, .p 1) = some ⟨.ph, 3000, .loaded⟩ := by
  refine ⟨by decide, by decide, by decide, by decide⟩

/-- what a Take writes: only under its own key, a `loaded` entry, the placeholder with the jittered not-found
expiry or the row with the jittered expiry. -/
theorem take_writes_ttl (c : Cfg) (s : St) (pk j : Nat) (m : List Bool) (dbf : Bool) (k : Slot) :
    (takeP c s pk j m dbf).1.cache k = s.cache k ∨ (takeP c s pk j m dbf).1.cache k = none ∨
    (k = c.slot (.p pk) ∧ ((takeP c s pk j m dbf).1.cache k = some ⟨.ph, ttlSec c.nf j * 1000, .loaded⟩ ∨
                  ∃ r, dbRow s pk = some r ∧ (takeP c s pk j m dbf).1.cache k = some ⟨r, ttlSec c.exp j * 1000, .loaded⟩)) :=
  takeP_writes c s pk j m dbf k

/-- explicit sets: `SetCache` uses the jittered configured expiry; `SetCacheWithExpire` uses ⌈expire⌉ seconds
for a positive expire and falls back to the jittered configured expiry for a non-positive one (fix a6278b9):
in every case at least one second when the configured expiry is positive. -/
theorem set_ttl (c : Cfg) (s : St) (k : CKey) (v : CVal) (e : Option Int) (j : Nat) (hj : j ≤ 1000)
    (hc : 0 < c.exp) :
    ∃ t, 1 ≤ t ∧ (setOp c s k v e j []).1.cache (c.slot k) = some ⟨v, t * 1000, .explicit⟩
      ∧ (match e with
         | some ms => if ms ≤ 0 then t = ttlSec c.exp j else t = ceilSec ms.toNat
         | none => t = ttlSec c.exp j) := by
  unfold setOp setex
  simp only [failAt, List.getD, List.getElem?_nil, Option.getD_none, Bool.false_eq_true, if_false, upd, if_true]
  cases e with
  | none => exact ⟨_, ttlSec_pos _ _ hj hc, rfl, rfl⟩
  | some ms =>
    by_cases h : ms ≤ 0
    · simp only [h, if_true]; exact ⟨_, ttlSec_pos _ _ hj hc, rfl, rfl⟩
    · simp only [h, if_false]
      exact ⟨_, ceilSec_pos _ (by omega), rfl, rfl⟩

/-- index path on a double miss without faults: the primary entry is written with the index entry's TTL plus
5 s, so it outlives the index entry. -/
theorem index_primary_outlives_index (c : Cfg) (s : St) (a j : Nat) (r : Nat × CVal)
    (hmiss : s.cache (c.slot (.x a)) = none) (hr : dbIndex s a = some r) :
    (qindex c s a j [] false).1.cache (c.slot (.x a)) = some ⟨.pk r.1, ttlSec c.exp j * 1000, .loaded⟩
    ∧ (qindex c s a j [] false).1.cache (c.slot (.p r.1)) = some ⟨r.2, (ttlSec c.exp j + 5) * 1000, .loaded⟩
    ∧ (qindex c s a j [] false).2.res = .val r.2 := by
  unfold Cfg.slot at hmiss
  unfold qindex getCache setex
  simp [failAt, hmiss, hr, upd, safeGapSec, Cfg.slot]

/-! ## 5. Single loader per key, one result for all concurrent readers -/

/-- **at most one database query per key is in flight**, for any number of concurrent readers and every
schedule: in the interleaving model of `doTake`'s load inside `barrier.DoEx` (Flight.lean; createCall /
makeCall / DoEx tied by `tie_createCallShape` / `tie_makeCallShape` / `tie_doExShape` / `tie_doExFacts`, the load
being wholly inside the barrier by `tie_doTakeShape` / `tie_doTakeFacts`), two goroutines executing the database
query are the same goroutine. -/
theorem single_loader_per_key {α : Type} (q : Nat → α) (s : Flight.Cfg α) (h : Flight.Reachable q s) (t u : Nat)
    (ht : s.pc t = 2) (hu : s.pc u = 2) : t = u := by
  have hi := Flight.inv_reachable h
  have h1 := hi t (Or.inr ht)
  have h2 := hi u (Or.inr hu)
  rw [h1] at h2
  exact Option.some.inj h2

/-- **every concurrent reader receives that query's result**: a reader that has returned from `DoEx` — whether
it ran the query itself or waited on another reader's call — holds exactly the answer `q id` of the one query
run by the call `id` it created or joined, and that call is finished.  Any number of goroutines, every schedule,
every answer of the database (row, not-found, error). -/
theorem readers_receive_the_query_result {α : Type} (q : Nat → α) (s : Flight.Cfg α) (h : Flight.Reachable q s)
    (t : Nat) (ht : s.pc t = 4) :
    s.got t = some (q (s.joined t)) ∧ s.joined t < s.gen ∧ s.callVal (s.joined t) = some (q (s.joined t)) := by
  have hi := Flight.inv2_reachable h
  have := hi.ret t ht
  exact ⟨this.2, this.1, hi.done _ this.1⟩

/-- … hence all readers of one flight receive the same result. -/
theorem concurrent_readers_share_result {α : Type} (q : Nat → α) (s : Flight.Cfg α) (h : Flight.Reachable q s)
    (t u : Nat) (ht : s.pc t = 4) (hu : s.pc u = 4) (hj : s.joined t = s.joined u) : s.got t = s.got u := by
  rw [(readers_receive_the_query_result q s h t ht).1, (readers_receive_the_query_result q s h u hu).1, hj]

/-- one database query per flight: the number of queries started is the number of finished calls, plus one
while the current call's leader is inside its query — so `n` readers that share flights cost one query per
flight, never one per reader. -/
theorem one_query_per_flight {α : Type} (q : Nat → α) (s : Flight.Cfg α) (h : Flight.Reachable q s) :
    s.queries ≤ s.gen + 1 ∧ (s.flight = none → s.queries = s.gen) := by
  have hi := Flight.inv2_reachable h
  have hc := hi.count
  constructor
  · cases hf : s.flight with
    | none => rw [hf] at hc; simp at hc; omega
    | some l => rw [hf] at hc; simp at hc; split at hc <;> omega
  · intro hf; rw [hf] at hc; simpa using hc

/-- non-vacuity: a schedule in which goroutine 0 is querying while goroutine 1 waits on its call … -/
example : ∃ s, Flight.Reachable (fun g => g + 100) s ∧ s.pc 0 = 2 ∧ s.pc 1 = 3 := by
  refine ⟨_, .step 1 (.step 0 (.step 0 .init rfl) rfl) rfl, rfl, rfl⟩

/-- … and its continuation: both have returned with the answer of call 0 (one query), a late third reader
starts call 1 and gets that call's answer. -/
example : ∃ s, Flight.Reachable (fun g => g + 100) s ∧ s.pc 0 = 4 ∧ s.pc 1 = 4 ∧ s.pc 2 = 4
    ∧ s.got 0 = some 100 ∧ s.got 1 = some 100 ∧ s.got 2 = some 101 ∧ s.queries = 2 ∧ s.gen = 2 := by
  refine ⟨_, .step 2 (.step 2 (.step 2 (.step 1 (.step 0 (.step 1 (.step 0 (.step 0 .init rfl) rfl) rfl) rfl) rfl) rfl) rfl) rfl,
    rfl, rfl, rfl, rfl, rfl, rfl, rfl, rfl⟩

/-! ### the concurrent clause linked to the store model (round 3, Refine.lean) -/

/-- **refinement of the concurrent readers to the sequential store model.**  `Conc.cstep` is the flight group of
`Flight.lean` with the oracle replaced by the store: the function the leader of call `g` runs inside `DoEx` is
`takeP` on the shared store with that call's environment `env g` (jitter, cache faults, database fault).  For
any number of reader goroutines and every schedule, every reachable state is explained by a SEQUENTIAL history
of `gen` Takes (`Conc.seqRun`): the store is the store after them, the database was called as often as they
call it, every reader that has returned holds the result of sequential Take number `joined t` (< `gen`), and at
most one goroutine is inside the load. -/
theorem conc_refines_seq (c : Cfg) (pk : Nat) (env : Nat → Conc.In) (s0 : St) (x : Conc.CSt)
    (h : Conc.CReach c pk env s0 x) :
    x.store = Conc.seqRun c pk env s0 x.fl.gen
    ∧ x.dbq = Conc.seqQ c pk env s0 x.fl.gen
    ∧ (∀ t, x.fl.pc t = 4 → x.fl.joined t < x.fl.gen ∧ x.fl.got t = some (Conc.seqRes c pk env s0 (x.fl.joined t)))
    ∧ (∀ t u, x.fl.pc t = 2 → x.fl.pc u = 2 → t = u) := by
  have hs := Conc.sim_reachable h
  refine ⟨hs.store, hs.dbq, fun t ht => ?_, fun t u ht hu => single_loader_per_key _ _ hs.fl t u ht hu⟩
  have := readers_receive_the_query_result _ _ hs.fl t ht
  exact ⟨this.2.1, this.1⟩

/-- **k concurrent readers of an uncached key = one loading Take + cache hits.**  Without faults, whatever the
schedule and the number of readers and however many flights they form: every reader that has returned received
what the database holds (row or not-found), the database was queried at most once — exactly once as soon as a
flight has finished — and the store is the store after a SINGLE sequential `takeP`. -/
theorem concurrent_readers_one_load (c : Cfg) (pk : Nat) (env : Nat → Conc.In) (s0 : St) (x : Conc.CSt)
    (h : Conc.CReach c pk env s0 x) (hf : Conc.FaultFree env) (hmiss : s0.cache (c.slot (.p pk)) = none) :
    (∀ t, x.fl.pc t = 4 → x.fl.got t = some (Spec.expected s0 (.p pk)))
    ∧ x.dbq ≤ 1
    ∧ (0 < x.fl.gen → x.dbq = 1 ∧ x.store = (takeP c s0 pk (env 0).j [] false).1) := by
  obtain ⟨hst, hq, hret, _⟩ := conc_refines_seq c pk env s0 x h
  have hfirst := Conc.first_take_loads c pk env s0 hf hmiss
  refine ⟨fun t ht => ?_, ?_, fun hg => ?_⟩
  · rw [(hret t ht).2, (Conc.later_takes_hit c pk env s0 hf hmiss _).2.1, hfirst.2.1]
  · cases hgen : x.fl.gen with
    | zero => rw [hq, hgen]; simp [Conc.seqQ]
    | succ g => rw [hq, hgen, (Conc.later_takes_hit c pk env s0 hf hmiss g).2.2]; exact Nat.le_refl 1
  · obtain ⟨g, hgen⟩ : ∃ g, x.fl.gen = g + 1 := ⟨x.fl.gen - 1, by omega⟩
    refine ⟨by rw [hq, hgen, (Conc.later_takes_hit c pk env s0 hf hmiss g).2.2], ?_⟩
    rw [hst, hgen, (Conc.later_takes_hit c pk env s0 hf hmiss g).1]
    simp only [Conc.seqRun, Conc.seqTake, (hf 0).1, (hf 0).2]

/-- non-vacuity: three readers of the uncached, absent row 7 — goroutine 0 leads, 1 joins, both return; a late
third reader forms a second flight and is served from the cache: one database call, two flights, every reader
holds not-found, the store holds the marker written once. -/
example :
    let c : Cfg := { exp := 20000, nf := 3000 }
    ∃ x, Conc.CReach c 7 (fun _ => {}) St.init x ∧ x.fl.pc 0 = 4 ∧ x.fl.pc 1 = 4 ∧ x.fl.pc 2 = 4
      ∧ x.fl.gen = 2 ∧ x.dbq = 1 ∧ x.fl.got 2 = some .notfound
      ∧ x.store.cache (0, .p 7) = some ⟨.ph, 3000, .loaded⟩ := by
  refine ⟨_, .step 2 (.step 2 (.step 2 (.step 1 (.step 0 (.step 1 (.step 0 (.step 0 .init rfl) rfl) rfl) rfl) rfl) rfl) rfl) rfl,
    rfl, rfl, rfl, rfl, rfl, rfl, ?_⟩
  decide

/-! ## 6. Invalidation across nodes -/

/-- **`Cache.DelCtx` covers every key it is given** — `cacheCluster.DelCtx` (grouping by node) over
`cacheNode.DelCtx` (one DEL for the group, or — cluster-type Redis, more than one key — one DEL per key): after
the call the key's slot on its node is empty, or a retry of a DEL of that key on that node is pending in the
cleaner.  For every dispatch function (any number of nodes), both Redis types, every list of keys (duplicates
included) and every outcome of every DEL; in particular a failed DEL of one key never keeps the keys after it
from being deleted or scheduled. -/
theorem del_covers_every_key (c : Cfg) (s : St) (ks : List CKey) (m : List (List Bool)) (k : CKey) (hk : k ∈ ks) :
    (delOp c s ks m).1.cache (c.slot k) = none ∨ Pending (delOp c s ks m).1 (c.slot k) :=
  delOp_covers c s ks m hk

/-- … in whatever order the groups are processed (Go ranges over the `nodes` map in random order): for every
list `ns` of nodes that contains the key's node. -/
theorem del_covers_every_key_any_order (c : Cfg) (s : St) (ks : List CKey) (m : List (List Bool)) (ns : List Nat)
    (k : CKey) (hk : k ∈ ks) (hn : c.place k ∈ ns) :
    (clusterDel c ks m ns s).1.cache (c.slot k) = none ∨ Pending (clusterDel c ks m ns s).1 (c.slot k) :=
  clusterDel_covers c ks m hk ns hn s

/-- the same for `ExecCtx` whose database write succeeded. -/
theorem exec_covers_every_key (c : Cfg) (s : St) (ks : List CKey) (w : Write) (m : List (List Bool)) (k : CKey)
    (hk : k ∈ ks) :
    (execOp c s ks w m false).1.cache (c.slot k) = none ∨ Pending (execOp c s ks w m false).1 (c.slot k) := by
  unfold execOp
  simp only [Bool.false_eq_true, if_false]
  exact delOp_covers c _ ks m hk

/-- without a failing DEL every named key is gone. -/
theorem del_without_fault_removes_every_key (c : Cfg) (s : St) (ks : List CKey) (m : List (List Bool))
    (hm : ∀ n i, failAt (m.getD n []) i = false) (k : CKey) (hk : k ∈ ks) :
    (delOp c s ks m).1.cache (c.slot k) = none :=
  delOp_nofault c s ks m hm hk

/-- DelCtx and Exec never fail and never write: same database, entries only removed, tasks only appended. -/
theorem del_only_removes (c : Cfg) (s : St) (ks : List CKey) (m : List (List Bool)) :
    (delOp c s ks m).2.res = .ok ∧ DelStep s (delOp c s ks m).1 :=
  ⟨rfl, delOp_step c s ks m⟩

/-- the per-key loop issues exactly one DEL per key, in order, each with its own outcome. -/
theorem delLoop_one_del_per_key (s : St) (n : Nat) (ks : List CKey) (m : List Bool) :
    (delLoop s n ks m).2.map (fun r => (r.cmd, r.node, r.keys)) = ks.map fun k => (Cmd.del, n, [k]) :=
  delLoop_cmds n ks s m

/-- the `case 1` shortcut of `cacheCluster.DelCtx` (a single key goes straight to its node) is what the
general path does for a single key. -/
theorem delOp_single_key (c : Cfg) (s : St) (k : CKey) (m : List (List Bool)) :
    delOp c s [k] m =
      (delOne s (c.place k) [k] (failAt (m.getD (c.place k) []) 0),
       { res := .ok, cmds := [⟨.del, c.place k, [k], failAt (m.getD (c.place k) []) 0⟩] }) := by
  simp [delOp, nodesOf, clusterDel, nodeDel]

/-- a retry that is due on a node that is up deletes its keys. -/
theorem retry_deletes_when_node_up (s : St) (down : List Bool) (t : Task) (ht : t ∈ s.tasks) (hd : t.rem ≤ 1)
    (hu : downOf down t.node = false) (k : CKey) (hk : k ∈ t.keys) :
    (tick s down).1.cache (t.node, k) = none := by
  have : (t.node, k) ∈ dueSlots (downOf down) s.tasks := by
    unfold dueSlots
    simp only [List.mem_flatMap, List.mem_filter, decide_eq_true_eq]
    exact ⟨t, ⟨ht, hd, hu⟩, List.mem_map.mpr ⟨k, hk, rfl⟩⟩
  simp [tick, delKeys, this]

/-- a retry that is due on a node that is down is re-armed with the next delay of the schedule (same node,
same keys). -/
theorem retry_rearmed_when_node_down (s : St) (down : List Bool) (t : Task) (ht : t ∈ s.tasks) (hd : t.rem ≤ 1)
    (hdn : downOf down t.node = true) (d : Nat) (hn : nextDelay t.delay = some d) :
    ⟨t.node, t.keys, d, d⟩ ∈ (tick s down).1.tasks := by
  simp only [tick]
  refine List.mem_filterMap.mpr ⟨t, ht, ?_⟩
  simp [tickTask, show ¬ t.rem > 1 by omega, hdn, hn]

/-- non-vacuity, two nodes (`p1` on node 0, `x1` on node 1), cluster-type Redis: node 1 is down during the
Exec — the DEL of `p1` on node 0 succeeds, the DEL of `x1` fails and is retried; while node 1 stays down the
retry is re-armed, when it is up again the entry goes. -/
example :
    let c : Cfg := { exp := 20000, nf := 3000, cluster := true, place := fun k => match k with | .x _ => 1 | .p _ => 0 }
    let ops : List Op := [.exec [.p 1, .x 1] (.put 1 10 1) [] false, .qindex 1 500 [] false,
                          .exec [.p 1, .x 1] (.put 1 11 1) [[], [true]] false]
    (run c St.init ops).cache (0, .p 1) = none
    ∧ (run c St.init ops).cache (1, .x 1) = some ⟨.pk 1, 20000, .loaded⟩
    ∧ (run c St.init ops).tasks = [⟨1, [.x 1], 1, 1⟩]
    ∧ (run c St.init (ops ++ [.tick [false, true]])).tasks = [⟨1, [.x 1], 5, 5⟩]
    ∧ (run c St.init (ops ++ [.tick [false, true]] ++ List.replicate 5 (.tick []))).cache (1, .x 1) = none := by
  refine ⟨by decide, by decide, by decide, by decide, by decide⟩

/-- non-vacuity, one cluster-type node, three keys, the DEL of the FIRST key fails: the other two are still
deleted (per-key loop), only the first is retried. -/
example :
    let c : Cfg := { exp := 20000, nf := 3000, cluster := true }
    let s := run c St.init [.set (.p 1) (.row 1 1 1) none 500 [], .set (.p 2) (.row 2 2 2) none 500 [],
                            .set (.x 1) (.pk 1) none 500 [], .del [.p 1, .p 2, .x 1] [[true, false, false]]]
    s.cache (0, .p 1) ≠ none ∧ s.cache (0, .p 2) = none ∧ s.cache (0, .x 1) = none ∧ s.tasks = [⟨0, [.p 1], 1, 1⟩] := by
  refine ⟨by decide, by decide, by decide, by decide⟩

/-! ## Non-vacuity -/

/-- the proviso is satisfiable by a history with a write, reads, a failed DEL and cleaner ticks, and the
carve-out of `coherent_reads_partial` really occurs there (second disjunct), then disappears after the retry. -/
example :
    let c : Cfg := { exp := 20000, nf := 3000 }
    let ops : List Op := [.exec [.p 1, .x 1] (.put 1 10 1) [] false, .take 1 500 [] false,
                          .exec [.p 1] (.put 1 11 1) [[true]] false]
    (run c St.init ops).cache (0, .p 1) = some ⟨.row 1 10 1, 20000, .stale⟩
    ∧ (run c St.init ops).tasks = [⟨0, [.p 1], 1, 1⟩]
    ∧ (run c St.init (ops ++ [.tick []])).cache (0, .p 1) = none
    ∧ (takeP c (run c St.init (ops ++ [.tick []])) 1 0 [] false).2.res = .val (.row 1 11 1) := by
  refine ⟨by decide, by decide, by decide, by decide⟩

/-- hypotheses of `served_from_cache` / `cache_failure_fails_fast` on a concrete state. -/
example : (takeP { exp := 20000, nf := 3000 } (run { exp := 20000, nf := 3000 } St.init [.take 7 0 [] false]) 7 0 [] false).2
    = { res := .notfound, q := 0, cmds := [⟨.get, 0, [.p 7], false⟩] } := by decide

example : (run { exp := 20000, nf := 3000 } St.init [.take 7 0 [] false]).cache (0, .p 7) = some ⟨.ph, 4000, .loaded⟩ := by decide

/-- option values at the sanity checks' boundary and beyond: 0 and −1 ms fall back to the defaults, 1 ms is kept
(TTL 1 s for every draw), 999 ms / 1000 ms / 1001 ms give 1 s or 2 s, a year gives a year ± 5 %. -/
example : newOptions {} = (604800000, 60000) ∧ newOptions { expiry := some 0, notFound := some 0 } = (604800000, 60000)
    ∧ newOptions { expiry := some (-1), notFound := some (-60000) } = (604800000, 60000)
    ∧ newOptions { expiry := some 1, notFound := some 999 } = (1, 999)
    ∧ ttlSec 1 0 = 1 ∧ ttlSec 1 1000 = 1 ∧ ttlSec 999 0 = 2 ∧ ttlSec 999 1000 = 1 ∧ ttlSec 1000 500 = 1 ∧ ttlSec 1000 499 = 2
    ∧ ttlSec 60000 0 = 63 ∧ ttlSec 60000 1000 = 57 ∧ ttlSec 31536000001 1000 = 29959201 := by decide

/-- `no_persistent_key` is not vacuous: with `WithNotFoundExpiry(0)` a read of an absent row leaves the marker
with the default not-found TTL; had `newOptions` kept the 0 (`{ nf := 0 }`), the marker would be persistent. -/
example :
    (run (Cfg.ofOptions { notFound := some 0 }) St.init [.take 7 500 [] false]).cache (0, .p 7) = some ⟨.ph, 60000, .loaded⟩
    ∧ (run { exp := 20000, nf := 0 } St.init [.take 7 500 [] false]).cache (0, .p 7) = some ⟨.ph, 0, .loaded⟩
    ∧ (run { exp := 20000, nf := 0 } St.init [.take 7 500 [] false, .ft 1000000000]).cache (0, .p 7) = some ⟨.ph, 0, .loaded⟩ := by
  refine ⟨by decide, by decide, by decide⟩

example : ttlSec 20000 0 = 21 ∧ ttlSec 20000 1000 = 19 ∧ ttlSec 20000 500 = 20 ∧ ttlSec 1 1000 = 1
    ∧ Spec.ttlLo 20000 = 19 ∧ Spec.ttlHi 20000 = 21 := by decide

/-- five failed retries: the cleaner gives up, the stale entry stays (second branch of `Prov`). -/
example :
    let c : Cfg := { exp := 20000, nf := 3000 }
    let s := run c St.init ([.exec [.p 1] (.put 1 10 1) [] false, .take 1 500 [] false,
                             .exec [.p 1] (.rm 1) [[true]] false, .tick [true]]
                            ++ List.replicate 5 (.tick [true]))
    s.tasks = [⟨0, [.p 1], 60, 60⟩] ∧ s.gaveUp = 0 := by decide

end GoZero.C06
