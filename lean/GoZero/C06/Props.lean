/-
C06 — property theorems.
-/
import GoZero.C06.Spec
namespace GoZero.C06

/-- every retry delay of the cleaner is one of 1 s, 5 s, 1 min, 5 min, 1 h and the chain ends after 1 h. -/
theorem nextDelay_chain : nextDelay 1 = some 5 ∧ nextDelay 5 = some 60 ∧ nextDelay 60 = some 300
    ∧ nextDelay 300 = some 3600 ∧ nextDelay 3600 = none := by decide

end GoZero.C06
