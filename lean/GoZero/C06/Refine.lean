/-
C06 — round 3: the concurrent clause LINKED to the sequential store model.

`Flight.lean` models `barrier.DoEx` (createCall / makeCall) for one key with the answer of every call as an
oracle `q : Nat → α`.  Here the oracle is replaced by the store model: the function `fn` the leader of call `g`
runs inside `DoEx` is the whole body of `doTake` — `Model.takeP` — executed against the shared store `St`
(GET, database query, SET / SET NX), with the environment of that call (`env g`: jitter draw, fault mask of its
cache commands, database fault).  Followers never touch the store (tie_doTakeShape: everything but the final
`jsonx.Unmarshal` of the shared value is inside the function handed to `DoEx`).

Refinement statement (`conc_refines_seq`): every state the concurrent system can reach — any number of reader
goroutines, every schedule — is explained by a SEQUENTIAL history of `gen` Takes of the store model (`seqRun`),
one per finished flight: the store is the store after those Takes, the database was called as often as those
Takes call it, and every reader that has returned holds the result of the sequential Take number `joined t`
(the flight it created or joined).  For an uncached key without faults the history collapses to ONE loading
Take followed by cache hits (`concurrent_readers_one_load`): same final store as a single `takeP`, exactly one
database call, every reader receives what the database holds.

Atomicity assumption (the property's "operations on a key do not overlap", applied to the reader group): no
operation from OUTSIDE the group touches the key's slot while a flight is running, so the leader's
GET … query … SET may be taken as one step (pc 2 → 4); inside the group only leaders touch the store and
`single_loader_per_key` shows there is at most one at a time.
-/
import GoZero.C06.Proofs2
import GoZero.C06.Flight
namespace GoZero.C06.Conc
open GoZero.C06

/-- the environment of one flight: jitter draw, fault mask over its cache commands, database fault. -/
structure In where
  j   : Nat := 500
  m   : List Bool := []
  dbf : Bool := false

/-- the `g`-th Take of the sequential history on store `s`. -/
def seqTake (c : Cfg) (pk : Nat) (env : Nat → In) (s : St) (g : Nat) : St × Out :=
  takeP c s pk (env g).j (env g).m (env g).dbf

/-- the store after the first `g` sequential Takes. -/
def seqRun (c : Cfg) (pk : Nat) (env : Nat → In) (s0 : St) : Nat → St
  | 0 => s0
  | g + 1 => (seqTake c pk env (seqRun c pk env s0 g) g).1

/-- the result of sequential Take number `g`. -/
def seqRes (c : Cfg) (pk : Nat) (env : Nat → In) (s0 : St) (g : Nat) : Res :=
  (seqTake c pk env (seqRun c pk env s0 g) g).2.res

/-- database calls of the first `g` sequential Takes. -/
def seqQ (c : Cfg) (pk : Nat) (env : Nat → In) (s0 : St) : Nat → Nat
  | 0 => 0
  | g + 1 => seqQ c pk env s0 g + (seqTake c pk env (seqRun c pk env s0 g) g).2.q

/-- concurrent system: the shared store, the flight group of the key, database calls so far. -/
structure CSt where
  store : St
  fl    : Flight.Cfg Res
  dbq   : Nat

/-- one step of goroutine `t`: the flight-group step of `Flight.step`; the leader's step out of `fn` (pc 2)
runs `takeP` on the store and publishes ITS result as the call's value. -/
def cstep (c : Cfg) (pk : Nat) (env : Nat → In) (x : CSt) (t : Nat) : Option CSt :=
  if x.fl.pc t = 2 then
    (Flight.step (fun _ => (seqTake c pk env x.store x.fl.gen).2.res) x.fl t).map fun fl' =>
      { store := (seqTake c pk env x.store x.fl.gen).1, fl := fl',
        dbq := x.dbq + (seqTake c pk env x.store x.fl.gen).2.q }
  else (Flight.step (fun _ => Res.ok) x.fl t).map fun fl' => { x with fl := fl' }

inductive CReach (c : Cfg) (pk : Nat) (env : Nat → In) (s0 : St) : CSt → Prop
  | init : CReach c pk env s0 ⟨s0, Flight.Cfg.init, 0⟩
  | step {x x' : CSt} (t : Nat) : CReach c pk env s0 x → cstep c pk env x t = some x' → CReach c pk env s0 x'

/-- a flight step consults the oracle only when a leader leaves `fn`, and only for the current call. -/
theorem step_congr {α : Type} (q q' : Nat → α) (s : Flight.Cfg α) (t : Nat)
    (h : s.pc t = 2 → q s.gen = q' s.gen) : Flight.step q s t = Flight.step q' s t := by
  unfold Flight.step
  split
  · rfl
  · rfl
  · rename_i hpc; rw [h hpc]
  · rfl
  · rfl

theorem step_gen {α : Type} (q : Nat → α) (s s' : Flight.Cfg α) (t : Nat) (h : Flight.step q s t = some s') :
    s'.gen = if s.pc t = 2 then s.gen + 1 else s.gen := by
  unfold Flight.step at h
  split at h
  · rename_i hpc
    split at h <;> (cases h; simp [hpc])
  · rename_i hpc; cases h; simp [hpc]
  · rename_i hpc; cases h; simp [hpc]
  · rename_i hpc
    split at h
    · cases h; simp [hpc]
    · cases h
  · cases h

/-- **refinement**: every reachable state of the concurrent system is the image of a sequential history of
`gen` Takes. -/
structure Sim (c : Cfg) (pk : Nat) (env : Nat → In) (s0 : St) (x : CSt) : Prop where
  store : x.store = seqRun c pk env s0 x.fl.gen
  dbq   : x.dbq = seqQ c pk env s0 x.fl.gen
  fl    : Flight.Reachable (seqRes c pk env s0) x.fl

theorem sim_reachable {c : Cfg} {pk : Nat} {env : Nat → In} {s0 : St} {x : CSt} (h : CReach c pk env s0 x) :
    Sim c pk env s0 x := by
  induction h with
  | init => exact ⟨rfl, rfl, .init⟩
  | @step x x' t _ hs ih =>
    unfold cstep at hs
    by_cases hpc : x.fl.pc t = 2
    · rw [if_pos hpc, Option.map_eq_some_iff] at hs
      obtain ⟨fl', hfl, hx⟩ := hs
      subst hx
      have hq : Flight.step (seqRes c pk env s0) x.fl t = some fl' := by
        rw [← hfl]
        exact step_congr _ _ _ _ (fun _ => by simp only [seqRes, ih.store])
      have hg := step_gen _ _ _ _ hq
      simp only [hpc, if_true] at hg
      refine ⟨?_, ?_, .step t ih.fl hq⟩
      · simp only [hg, seqRun, ih.store]
      · simp only [hg, seqQ, ih.store, ih.dbq]
    · rw [if_neg hpc, Option.map_eq_some_iff] at hs
      obtain ⟨fl', hfl, hx⟩ := hs
      subst hx
      have hq : Flight.step (seqRes c pk env s0) x.fl t = some fl' := by
        rw [← hfl]
        exact step_congr _ _ _ _ (fun h => absurd h hpc)
      have hg := step_gen _ _ _ _ hq
      simp only [hpc, if_false] at hg
      exact ⟨by simp only [hg]; exact ih.store, by simp only [hg]; exact ih.dbq, .step t ih.fl hq⟩

/-! ### an uncached key without faults: one loading Take, then hits -/

/-- no faults in any flight. -/
def FaultFree (env : Nat → In) : Prop := ∀ g, (env g).m = [] ∧ (env g).dbf = false

/-- the first sequential Take of an uncached key leaves a live entry (row or marker) and returns what the
database holds, after exactly one database call. -/
theorem first_take_loads (c : Cfg) (pk : Nat) (env : Nat → In) (s0 : St) (hf : FaultFree env)
    (hmiss : s0.cache (c.slot (.p pk)) = none) :
    (∃ e, (seqRun c pk env s0 1).cache (c.slot (.p pk)) = some e ∧ (e.val = .ph ∨ parses (.p pk) e.val = true)
          ∧ seqRes c pk env s0 0 = (if e.val = .ph then .notfound else .val e.val))
    ∧ seqRes c pk env s0 0 = Spec.expected s0 (.p pk) ∧ seqQ c pk env s0 1 = 1 := by
  obtain ⟨hm, hd⟩ := hf 0
  unfold Cfg.slot at hmiss
  simp only [seqRun, seqRes, seqQ, seqTake, hm, hd]
  unfold takeP getCache Spec.expected
  cases hr : dbRow s0 pk with
  | none => simp [failAt, hmiss, hr, setnx, upd, Cfg.slot]
  | some r =>
    have hp : parses (.p pk) r = true := by
      unfold dbRow at hr
      split at hr
      · cases hr; rfl
      · cases hr
    have hne : r ≠ .ph := by
      intro h; subst h; simp [parses] at hp
    simp [failAt, hmiss, hr, setex, upd, Cfg.slot, hp, hne]

/-- every later sequential Take is served from the cache: store unchanged, no database call, same result. -/
theorem later_takes_hit (c : Cfg) (pk : Nat) (env : Nat → In) (s0 : St) (hf : FaultFree env)
    (hmiss : s0.cache (c.slot (.p pk)) = none) (g : Nat) :
    seqRun c pk env s0 (g + 1) = seqRun c pk env s0 1
    ∧ seqRes c pk env s0 g = seqRes c pk env s0 0
    ∧ seqQ c pk env s0 (g + 1) = 1 := by
  obtain ⟨⟨e, he, hl, hres⟩, _, hq⟩ := first_take_loads c pk env s0 hf hmiss
  induction g with
  | zero => exact ⟨rfl, rfl, hq⟩
  | succ g ih =>
    obtain ⟨h1, _, h3⟩ := ih
    obtain ⟨hm, hd⟩ := hf (g + 1)
    have hserved := takeP_served c (env (g + 1)).j (env (g + 1)).dbf (m := (env (g + 1)).m) he hl (by rw [hm]; rfl)
    refine ⟨?_, ?_, ?_⟩
    · show (seqTake c pk env (seqRun c pk env s0 (g + 1)) (g + 1)).1 = _
      rw [h1]; unfold seqTake; rw [hserved]
    · show (seqTake c pk env (seqRun c pk env s0 (g + 1)) (g + 1)).2.res = _
      rw [h1]; unfold seqTake; rw [hserved, hres]
    · show seqQ c pk env s0 (g + 1) + (seqTake c pk env (seqRun c pk env s0 (g + 1)) (g + 1)).2.q = 1
      rw [h1, h3]; unfold seqTake; rw [hserved]; rfl

end GoZero.C06.Conc
