/-
C06 — round 5b: the CALLER'S CONTEXT of a Ctx entry point and the work the entry point leaves behind.

  cacheNode.DelCtx(ctx, keys…)     a failed DEL arms a retry: asyncRetryDelCache(keys…) → AddCleanTask(func{ c.rds.Del(keys…) })
  redis.Redis.Del(keys…)           = DelCtx(context.Background(), keys…)
The retry runs on the cleaner's wheel 1 s / 5 s / 1 min / 5 min / 1 h later — long after the writer's request is over.
`Fate` is what becomes of the writer's context, `RetryCtx` which context the retry's DEL is issued with (read from
the source by the extractor: Tie.tie_retryDelCtx).  A Redis command issued with a dead context fails in the
client without reaching the server.
-/
import GoZero.C06.Model
namespace GoZero.C06.Ctx

/-- the writer's context. `deadlineAfter k`: alive during the first `k` cleaner ticks after the call returned. -/
inductive Fate where
  | background
  | cancelledBefore
  | cancelledAfter
  | deadlineAfter (k : Nat)
  deriving DecidableEq, Repr

/-- is the context alive during cleaner tick number `tick` (1-based) after the call returned? -/
def Fate.aliveAt : Fate → Nat → Bool
  | .background, _ => true
  | .cancelledBefore, _ => false
  | .cancelledAfter, _ => false
  | .deadlineAfter k, tick => tick ≤ k

/-- the context the retry's DEL is issued with. -/
inductive RetryCtx where
  | background    -- `c.rds.Del(keys…)` / `DelCtx(context.Background(), …)`
  | captured      -- the ctx of the DelCtx call that armed the retry
  deriving DecidableEq, Repr

/-- does the retry's DEL fail at tick `tick`, given whether its node is down? -/
def retryFails (src : RetryCtx) (f : Fate) (tick : Nat) (down : Bool) : Bool :=
  down || (match src with
    | .background => false
    | .captured => !f.aliveAt tick)

/-- classification of the source (`Extracted.C06.retryDelCtx`): what the retry closure of asyncRetryDelCache
calls on `c.rds`, and with which context. -/
def retrySourceOf : List String → Option RetryCtx
  | ["background"] => some .background
  | _ => none

/-- with a background context the outcome of a retry depends on the node alone. -/
theorem retryFails_background (f : Fate) (tick : Nat) (down : Bool) : retryFails .background f tick down = down := by
  simp [retryFails]

/-- the per-node failure function a tick of the store model runs with, when the task of node `n` was armed by a
writer whose context met fate `fate n` and `age n` ticks have passed. -/
def effDown (src : RetryCtx) (fate : Nat → Fate) (age : Nat → Nat) (down : Nat → Bool) : Nat → Bool :=
  fun n => retryFails src (fate n) (age n) (down n)

theorem effDown_background (fate : Nat → Fate) (age : Nat → Nat) (down : Nat → Bool) :
    effDown .background fate age down = down := by
  funext n; simp [effDown, retryFails]

end GoZero.C06.Ctx
