/-
C06 — round 5e: the decode paths of a cached read and the numbers they yield.

A cached value is JSON text.  A reader gets it back on one of three paths of cacheNode.doTake:
  leader    it ran the query itself: the destination holds what the query function put there (an integer `n`);
            the value is marshalled (`jsonx.Marshal`) for the others — the decimal digits of `n`
  follower  it joined the leader's flight: `jsonx.Unmarshal(val.([]byte), v)` at the end of doTake
  hit       doGetCache → processCache: `jsonx.Unmarshal([]byte(data), v)`
Into an `any` destination (sqlc QueryRowIndex decodes the index entry into `var primaryKey any`) a decoder with
UseNumber yields `json.Number` = the digits themselves (exact for every integer), encoding/json's plain Unmarshal
yields a float64 (53 bits of mantissa: integers above 2^53 are rounded; %v prints a float64 >= 10^6 in exponent form,
`1.234567e+06`).
-/
namespace GoZero.C06.Decode

inductive Path where
  | leader | follower | hit
  deriving DecidableEq, Repr

inductive Decoder where
  | useNumber     -- jsonx.Unmarshal: json.NewDecoder + UseNumber
  | plain         -- encoding/json Unmarshal
  deriving DecidableEq, Repr

/-- a number as it arrives in an `any` destination. -/
inductive Num where
  | exact (n : Int)      -- int from the query function / json.Number: the digits of n
  | float (n : Int)      -- float64 nearest to n (only its existence matters here: it is a different dynamic type)
  deriving DecidableEq, Repr

def decodeInt : Decoder → Int → Num
  | .useNumber, n => .exact n
  | .plain, n => .float n

/-- what a reader on path `p` holds for the integer `n`, when the decode paths use the decoders `dec`. -/
def valueOn (dec : Path → Decoder) (p : Path) (n : Int) : Num :=
  match p with
  | .leader => .exact n
  | .follower => decodeInt (dec .follower) n
  | .hit => decodeInt (dec .hit) n

/-- classification of the source: the decoder callee read by the extractor on a path. -/
def decoderOfSource : List String → Option Decoder
  | ["jsonx.Unmarshal"] => some .useNumber
  | ["json.Unmarshal"] => some .plain
  | _ => none

end GoZero.C06.Decode
