/-
C06 — round 4 helper definitions and lemmas for PropsInstances.lean: histories over several instances (`runI`),
transfer of the dispatch invariant between configurations that dispatch alike, and the two leader steps of a
flight group used to build the two-barrier witness.
-/
import GoZero.C06.Proofs4
import GoZero.C06.Instances
namespace GoZero.C06
open Multi

/-- a history over several instances: operation `op` goes through instance `i` (configuration `cs i`). -/
def runI (cs : Nat → Cfg) (s : St) : List (Nat × Op) → St
  | [] => s
  | iop :: ops => runI cs (step (cs iop.1) s iop.2).1 ops

/-- all instances are built over the same servers: same dispatch, same Redis type. -/
def SameServers (cs : Nat → Cfg) (pl : CKey → Nat) : Prop := ∀ i, (cs i).place = pl

theorem placed_congr {c c' : Cfg} (h : c.place = c'.place) {s : St} (hp : Placed c s) : Placed c' s := by
  intro k e hk; rw [← h]; exact hp k e hk

/-- a goroutine that finds no call registered becomes the leader … -/
theorem flight_lead {α : Type} (q : Nat → α) (s : Flight.Cfg α) (t : Nat) (h0 : s.pc t = 0) (hf : s.flight = none) :
    ∃ c, Flight.step q s t = some c ∧ c.pc t = 1 := by
  unfold Flight.step
  rw [h0]
  simp only [hf]
  exact ⟨_, rfl, by simp [Flight.upd]⟩

/-- … and then starts its database query. -/
theorem flight_query {α : Type} (q : Nat → α) (s : Flight.Cfg α) (t : Nat) (h1 : s.pc t = 1) :
    ∃ c, Flight.step q s t = some c ∧ c.pc t = 2 := by
  unfold Flight.step
  rw [h1]
  exact ⟨_, rfl, by simp [Flight.upd]⟩

theorem mstep_of_step {α : Type} (inst : Nat → Ctor) (q : Barrier → Nat → α) (s : MCfg α) (t : Nat) (c : Flight.Cfg α)
    (h : Flight.step (q (barrierOf (inst t))) (s (barrierOf (inst t))) t = some c) :
    mstep inst q s t = some (updB s (barrierOf (inst t)) c) := by
  unfold mstep; rw [h]

end GoZero.C06
