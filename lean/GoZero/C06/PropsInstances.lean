/-
C06 — round 4 property theorems: SEVERAL instances (sqlc.CachedConn / monc.Model) over the same cache servers.

  * store side: a history in which every operation goes through one of any number of instances, each with its
    own cache.Options (`runI cs`, `cs i` = the configuration of instance `i`; all instances dispatch alike and
    talk to the same Redis type) — the invariants of Props.lean hold along every such history, what one
    instance loads every other serves, what one invalidates is gone for all;
  * concurrent side: reader goroutines of ONE key spread over any number of instances (`Multi.mstep`: the
    product of one flight group per barrier object) — at most one database query in flight per barrier, hence
    at most one among ALL instances built by the constructors that hand the package-wide barrier on
    (NewConn / NewNodeConn; monc NewModel / NewNodeModel), every reader receives the result of the one query of
    the flight it created or joined; with two different barriers two queries CAN be in flight (witness: what
    seeded change C06-3 does to NewNodeConn).
-/
import GoZero.C06.Props
import GoZero.C06.Proofs5
namespace GoZero.C06
open Multi

/-! ## 7. Several instances over the same servers: the store -/

/-- **coherence invariant over several instances** (any number, any options per instance, any interleaving of
their operations, every fault placement): a `loaded` entry whose key's view was not changed since holds what
the database holds — whichever instance loaded it. -/
theorem coherence_invariant_instances (cs : Nat → Cfg) (ops : List (Nat × Op)) : Coh (runI cs St.init ops) := by
  suffices h : ∀ s, Coh s → Coh (runI cs s ops) from h _ init_coh
  induction ops with
  | nil => exact fun s h => h
  | cons iop ops ih => exact fun s h => ih _ (step_coh (cs iop.1) h iop.2)

/-- every stale entry is accounted for, whichever instance's Exec left it behind and whichever instance's
DelCtx armed the retry (the cleaner is one package-level wheel shared by all instances). -/
theorem stale_entries_have_pending_retry_instances (cs : Nat → Cfg) (ops : List (Nat × Op)) :
    Prov (runI cs St.init ops) := by
  suffices h : ∀ s, Prov s → Prov (runI cs s ops) from h _ init_inv.prov
  induction ops with
  | nil => exact fun s h => h
  | cons iop ops ih => exact fun s h => ih _ (step_prov (cs iop.1) h iop.2)

/-- **dispatch invariant over several instances**: as long as all instances dispatch alike (same servers:
`cacheNode.String` is the server address, so the rings of two `cache.New` over one ClusterConf coincide), an entry
of a key is only ever on the key's node — no instance leaves a copy where another will not invalidate it. -/
theorem entries_on_their_node_instances (cs : Nat → Cfg) (pl : CKey → Nat) (hs : SameServers cs pl)
    (ops : List (Nat × Op)) : ∀ (k : Slot) e, (runI cs St.init ops).cache k = some e → k.1 = pl k.2 := by
  suffices h : ∀ s, Placed (cs 0) s → Placed (cs 0) (runI cs s ops) by
    intro k e hk
    have := h _ (init_placed (cs 0)) k e hk
    rwa [hs 0] at this
  induction ops with
  | nil => exact fun s h => h
  | cons iop ops ih =>
    intro s h
    have h1 : Placed (cs iop.1) s := placed_congr (by rw [hs 0, hs iop.1]) h
    exact ih _ (placed_congr (by rw [hs 0, hs iop.1]) (step_placed (cs iop.1) h1 iop.2))

/-- **never a persistent key, several instances**: every instance built with ANY Options value (`os i`), every
topology, every interleaved history: no entry is ever without a TTL. -/
theorem no_persistent_key_instances (os : Nat → Options) (cl : Bool) (pl : CKey → Nat) (ops : List (Nat × Op))
    (hl : ∀ iop ∈ ops, OpLegal iop.2) :
    ∀ k e, (runI (fun i => { Cfg.ofOptions (os i) with cluster := cl, place := pl }) St.init ops).cache k = some e → 0 < e.ttl := by
  suffices h : ∀ s, Finite s → Finite (runI (fun i => { Cfg.ofOptions (os i) with cluster := cl, place := pl }) s ops) from
    h _ init_finite
  induction ops with
  | nil => exact fun s h => h
  | cons iop ops ih =>
    intro s h
    exact ih (fun x hx => hl x (List.mem_cons_of_mem _ hx)) _
      (step_finite { Cfg.ofOptions (os iop.1) with cluster := cl, place := pl } (cfg_pos (os iop.1)) h iop.2
        (hl iop (List.mem_cons_self ..)))

/-- the proviso along a history over several instances. -/
def ProvisoI (cs : Nat → Cfg) : St → List (Nat × Op) → Prop
  | _, [] => True
  | s, iop :: ops => OpOk s iop.2 ∧ ProvisoI cs (step (cs iop.1) s iop.2).1 ops

/-- **coherent reads over several instances** (the `_partial` carve-out is the one of
`coherent_reads_partial`): in every history over any number of instances that respects the proviso, a read through
ANY instance `i` whose GET and database call do not fail returns exactly what the database holds, unless the
entry survived a failed DEL of an Exec (of whichever instance), for which a retry is pending or was given up. -/
theorem coherent_reads_partial_instances (cs : Nat → Cfg) (pl : CKey → Nat) (hs : SameServers cs pl)
    (ops : List (Nat × Op)) (hp : ProvisoI cs St.init ops) (i pk j : Nat) (m : List Bool) (hf : failAt m 0 = false) :
    (takeP (cs i) (runI cs St.init ops) pk j m false).2.res = Spec.expected (runI cs St.init ops) (.p pk)
    ∨ ∃ e, (runI cs St.init ops).cache ((cs i).slot (.p pk)) = some e ∧ e.origin = .stale
           ∧ (Pending (runI cs St.init ops) ((cs i).slot (.p pk)) ∨ 0 < (runI cs St.init ops).gaveUp) := by
  have hcoh := coherence_invariant_instances cs ops
  have hprov := stale_entries_have_pending_retry_instances cs ops
  have hn : NoBehind (runI cs St.init ops) := by
    suffices h : ∀ s, NoBehind s → Placed (cs 0) s → ProvisoI cs s ops → NoBehind (runI cs s ops) from
      h _ init_noBehind (init_placed _) hp
    clear hp hcoh hprov
    induction ops with
    | nil => exact fun s h _ _ => h
    | cons iop ops ih =>
      intro s h hpl hp
      have h1 : Placed (cs iop.1) s := placed_congr (by rw [hs 0, hs iop.1]) hpl
      exact ih _ (step_noBehind (cs iop.1) h h1 iop.2 hp.1)
        (placed_congr (by rw [hs 0, hs iop.1]) (step_placed (cs iop.1) h1 iop.2)) hp.2
  generalize runI cs St.init ops = s at *
  by_cases hst : ∃ e, s.cache ((cs i).slot (.p pk)) = some e ∧ e.origin = .stale
  · obtain ⟨e, he, ho⟩ := hst
    exact Or.inr ⟨e, he, ho, hprov _ e he ho⟩
  · left
    refine takeP_coherent (cs i) hcoh pk j m false (fun e he => ?_) hf rfl
    rcases hn _ e he with h | h
    · exact h
    · exact absurd ⟨e, he, h⟩ hst

/-- **what one instance loads, every other instance serves**: a row loaded from the database by a read through
instance `c1` (miss, no fault) is returned by a read through any instance `c2` over the same servers without a
database call — whatever the options of either. -/
theorem loaded_by_one_instance_served_by_all (c1 c2 : Cfg) (hpl : c1.place = c2.place) (s : St) (pk j j' : Nat)
    (r : CVal) (m : List Bool) (dbf : Bool)
    (hmiss : s.cache (c1.slot (.p pk)) = none) (hr : dbRow s pk = some r) (hrow : parses (.p pk) r = true)
    (hf : failAt m 0 = false) :
    (takeP c1 s pk j [] false).2.q = 1
    ∧ (takeP c2 (takeP c1 s pk j [] false).1 pk j' m dbf).2.q = 0
    ∧ (takeP c2 (takeP c1 s pk j [] false).1 pk j' m dbf).2.res = .val r := by
  have hw : (takeP c1 s pk j [] false).1.cache (c2.slot (.p pk)) = some ⟨r, ttlSec c1.exp j * 1000, .loaded⟩
      ∧ (takeP c1 s pk j [] false).2.q = 1 := by
    unfold Cfg.slot at hmiss ⊢
    rw [← hpl]
    unfold takeP getCache setex
    simp [failAt, hmiss, hr, upd, Cfg.slot]
  have hne : r ≠ .ph := by intro e; subst e; simp [parses] at hrow
  have := served_from_cache c2 _ pk j' _ m dbf hw.1 (Or.inr hrow) hf
  refine ⟨hw.2, this.1, ?_⟩
  rw [this.2.2]; simp [hne]

/-- … and the absence of a row alike: the not-found marker written through one instance answers the reads of
every other instance without a database call. -/
theorem marker_of_one_instance_served_by_all (c1 c2 : Cfg) (hpl : c1.place = c2.place) (s : St) (pk j j' : Nat)
    (m : List Bool) (dbf : Bool)
    (hmiss : s.cache (c1.slot (.p pk)) = none) (hr : dbRow s pk = none) (hf : failAt m 0 = false) :
    (takeP c2 (takeP c1 s pk j [] false).1 pk j' m dbf).2.q = 0
    ∧ (takeP c2 (takeP c1 s pk j [] false).1 pk j' m dbf).2.res = .notfound := by
  have hw := (notfound_placeholder_ttl c1 s pk j hmiss hr).1
  have hsl : c1.slot (.p pk) = c2.slot (.p pk) := by unfold Cfg.slot; rw [hpl]
  rw [hsl] at hw
  have := served_from_cache c2 _ pk j' _ m dbf hw (Or.inl rfl) hf
  exact ⟨this.1, by rw [this.2.2]; simp⟩

/-- **what one instance invalidates is gone for every instance**: after an Exec through `c1` whose DELs do not
fail, no instance `c2` over the same servers finds an entry under any of the named keys. -/
theorem invalidated_by_one_instance_gone_for_all (c1 c2 : Cfg) (hpl : c1.place = c2.place) (s : St) (ks : List CKey)
    (w : Write) (m : List (List Bool)) (hm : ∀ n i, failAt (m.getD n []) i = false) (k : CKey) (hk : k ∈ ks) :
    (execOp c1 s ks w m false).1.cache (c2.slot k) = none := by
  have hsl : c2.slot k = c1.slot k := by unfold Cfg.slot; rw [hpl]
  rw [hsl]
  unfold execOp
  simp only [Bool.false_eq_true, if_false]
  exact delOp_nofault c1 _ ks m hm hk

/-- non-vacuity: three instances with different options (20 s / 3 s; defaults; 7 s / 1 s) over two nodes: instance 0
loads row 1 (TTL from ITS options), instance 1 is served from that entry, instance 2 overwrites the row and
invalidates, instance 1 reloads with ITS options (7 days); an absent row read through instance 2 leaves the marker
with instance 2's not-found expiry. -/
example :
    let pl : CKey → Nat := fun k => match k with | .x _ => 1 | .p _ => 0
    let cs : Nat → Cfg := fun i => { Cfg.ofOptions (if i = 0 then { expiry := some 20000, notFound := some 3000 }
                                       else if i = 1 then {} else { expiry := some 7000, notFound := some 1000 }) with place := pl }
    let ops : List (Nat × Op) := [(2, .exec [.p 1, .x 1] (.put 1 10 1) [] false), (0, .take 1 500 [] false)]
    (runI cs St.init ops).cache (0, .p 1) = some ⟨.row 1 10 1, 20000, .loaded⟩
    ∧ (takeP (cs 1) (runI cs St.init ops) 1 0 [] false).2 = { res := .val (.row 1 10 1), q := 0, cmds := [⟨.get, 0, [.p 1], false⟩] }
    ∧ (runI cs St.init (ops ++ [(2, .exec [.p 1, .x 1] (.put 1 11 1) [] false), (1, .take 1 500 [] false)])).cache (0, .p 1)
        = some ⟨.row 1 11 1, 604800000, .loaded⟩
    ∧ (runI cs St.init (ops ++ [(2, .take 5 500 [] false)])).cache (0, .p 5) = some ⟨.ph, 1000, .loaded⟩ := by
  refine ⟨by decide, by decide, by decide, by decide⟩

/-! ## 8. Several instances: concurrent readers of one key -/

/-- **at most one database query in flight per barrier**, for any number of reader goroutines spread over any
number of instances and every schedule: two goroutines whose instances' loads run under the same barrier object
and that are both inside their database query are the same goroutine. -/
theorem one_query_in_flight_per_barrier {α : Type} (inst : Nat → Ctor) (q : Barrier → Nat → α) (s : MCfg α)
    (h : MReach inst q s) (t u : Nat) (hb : barrierOf (inst t) = barrierOf (inst u))
    (ht : pcOf inst s t = 2) (hu : pcOf inst s u = 2) : t = u := by
  unfold pcOf at ht hu
  rw [← hb] at hu
  exact single_loader_per_key _ _ (component_reachable h _) t u ht hu

/-- **… hence at most one across ALL sqlc instances built by the shared-barrier constructors** — `NewConn` and
`NewNodeConn`, in any number and any mix (the barrier argument of both is the package-level `singleFlights`:
`Tie.tie_ctorBarriers`, `tie_barrierVars`). -/
theorem shared_constructors_single_loader {α : Type} (inst : Nat → Ctor) (q : Barrier → Nat → α) (s : MCfg α)
    (h : MReach inst q s) (t u : Nat) (hst : (inst t).sharedSqlc = true) (hsu : (inst u).sharedSqlc = true)
    (ht : pcOf inst s t = 2) (hu : pcOf inst s u = 2) : t = u := by
  refine one_query_in_flight_per_barrier inst q s h t u ?_ ht hu
  cases hit : inst t <;> cases hiu : inst u <;> simp [hit, hiu, Ctor.sharedSqlc, barrierOf] at *

/-- the same for monc: `NewModel` / `NewNodeModel` (package-level `singleFlight`). -/
theorem shared_constructors_single_loader_monc {α : Type} (inst : Nat → Ctor) (q : Barrier → Nat → α) (s : MCfg α)
    (h : MReach inst q s) (t u : Nat) (hst : (inst t).sharedMonc = true) (hsu : (inst u).sharedMonc = true)
    (ht : pcOf inst s t = 2) (hu : pcOf inst s u = 2) : t = u := by
  refine one_query_in_flight_per_barrier inst q s h t u ?_ ht hu
  cases hit : inst t <;> cases hiu : inst u <;> simp [hit, hiu, Ctor.sharedMonc, barrierOf] at *

/-- counting form: among any duplicate-free set `ts` of reader goroutines that all go through shared-barrier
instances, at most ONE is inside its database query — however many instances there are. -/
theorem shared_constructors_at_most_one_query {α : Type} (inst : Nat → Ctor) (q : Barrier → Nat → α) (s : MCfg α)
    (h : MReach inst q s) (ts : List Nat) (hnd : ts.Nodup) (hsh : ∀ t ∈ ts, (inst t).sharedSqlc = true) :
    (querying inst s ts).length ≤ 1 := by
  have hnd' : (querying inst s ts).Nodup := hnd.filter _
  match hq : querying inst s ts, hnd' with
  | [], _ => simp
  | [_], _ => simp
  | a :: b :: _, hn =>
    have ha : a ∈ querying inst s ts := by rw [hq]; simp
    have hb : b ∈ querying inst s ts := by rw [hq]; simp
    unfold querying at ha hb
    rw [List.mem_filter] at ha hb
    have := shared_constructors_single_loader inst q s h a b (hsh a ha.1) (hsh b hb.1)
      (by simpa using ha.2) (by simpa using hb.2)
    subst this
    simp at hn

/-- **every reader receives its flight's query result, across instances**: a reader that has returned — through
whichever instance — holds exactly the answer of the one query run by the call (of its instance's barrier) that
it created or joined. -/
theorem readers_across_instances_receive_the_query_result {α : Type} (inst : Nat → Ctor) (q : Barrier → Nat → α)
    (s : MCfg α) (h : MReach inst q s) (t : Nat) (ht : pcOf inst s t = 4) :
    gotOf inst s t = some (q (barrierOf (inst t)) ((s (barrierOf (inst t))).joined t))
    ∧ (s (barrierOf (inst t))).joined t < (s (barrierOf (inst t))).gen :=
  let r := readers_receive_the_query_result _ _ (component_reachable h (barrierOf (inst t))) t ht
  ⟨r.1, r.2.1⟩

/-- one query per flight per barrier: queries started under barrier `b` = its finished calls (+1 while a leader is
inside its query). -/
theorem one_query_per_flight_per_barrier {α : Type} (inst : Nat → Ctor) (q : Barrier → Nat → α) (s : MCfg α)
    (h : MReach inst q s) (b : Barrier) : (s b).queries ≤ (s b).gen + 1 :=
  (one_query_per_flight _ _ (component_reachable h b)).1

/-- **WITNESS — why the barrier argument of every constructor matters** (seeded change C06-3 gives `NewNodeConn` a
fresh `syncx.NewSingleFlight()`; `NewConnWithCache` over caches with private barriers behaves like this by design):
whenever the instances of goroutines 0 and 1 run under DIFFERENT barrier objects there is a schedule in which both
are inside their database query for the same key at the same time. -/
theorem two_barriers_two_queries_in_flight {α : Type} (inst : Nat → Ctor) (q : Barrier → Nat → α)
    (hb : barrierOf (inst 0) ≠ barrierOf (inst 1)) :
    ∃ s, MReach inst q s ∧ pcOf inst s 0 = 2 ∧ pcOf inst s 1 = 2 := by
  -- goroutine 0: createCall (leader), then the query starts
  obtain ⟨c1, hc1, p1⟩ := flight_lead (q (barrierOf (inst 0))) ((MCfg.init : MCfg α) (barrierOf (inst 0))) 0 rfl rfl
  have r1 := MReach.step 0 .init (mstep_of_step inst q _ 0 c1 hc1)
  obtain ⟨c2, hc2, p2⟩ := flight_query (q (barrierOf (inst 0))) (updB (MCfg.init : MCfg α) (barrierOf (inst 0)) c1 (barrierOf (inst 0))) 0
    (by simp [updB, p1])
  have r2 := MReach.step 0 r1 (mstep_of_step inst q _ 0 c2 hc2)
  -- goroutine 1 under the other barrier: no call registered THERE → leader, query starts
  have i2 : updB (updB (MCfg.init : MCfg α) (barrierOf (inst 0)) c1) (barrierOf (inst 0)) c2 (barrierOf (inst 1))
      = Flight.Cfg.init := by simp [updB, Ne.symm hb, MCfg.init]
  obtain ⟨c3, hc3, p3⟩ := flight_lead (q (barrierOf (inst 1)))
    (updB (updB (MCfg.init : MCfg α) (barrierOf (inst 0)) c1) (barrierOf (inst 0)) c2 (barrierOf (inst 1))) 1
    (by rw [i2]; rfl) (by rw [i2]; rfl)
  have r3 := MReach.step 1 r2 (mstep_of_step inst q _ 1 c3 hc3)
  obtain ⟨c4, hc4, p4⟩ := flight_query (q (barrierOf (inst 1)))
    (updB (updB (updB (MCfg.init : MCfg α) (barrierOf (inst 0)) c1) (barrierOf (inst 0)) c2) (barrierOf (inst 1)) c3
      (barrierOf (inst 1))) 1 (by simp [updB, p3])
  have r4 := MReach.step 1 r3 (mstep_of_step inst q _ 1 c4 hc4)
  refine ⟨_, r4, ?_, ?_⟩
  · simp [pcOf, updB, hb, p2]
  · simp [pcOf, updB, p4]

/-- the witness instantiated: a `NewConn` instance and a `NewConnWithCache` instance over a cache with a private
barrier — and, for contrast, `NewConn` + `NewNodeConn` can never be in that state. -/
example : ∃ s, MReach (fun t => if t = 0 then Ctor.newConn else .newConnWithCache 0) (fun _ g => g) s
    ∧ pcOf (fun t => if t = 0 then Ctor.newConn else .newConnWithCache 0) s 0 = 2
    ∧ pcOf (fun t => if t = 0 then Ctor.newConn else .newConnWithCache 0) s 1 = 2 :=
  two_barriers_two_queries_in_flight _ _ (by decide)

example (s : MCfg Nat) (h : MReach (fun t => if t = 0 then Ctor.newConn else .newNodeConn) (fun _ g => g) s) :
    ¬ (pcOf (fun t => if t = 0 then Ctor.newConn else .newNodeConn) s 0 = 2
       ∧ pcOf (fun t => if t = 0 then Ctor.newConn else .newNodeConn) s 1 = 2) := fun ⟨h0, h1⟩ =>
  absurd (shared_constructors_single_loader _ _ s h 0 1 (by decide) (by decide) h0 h1) (by decide)

/-- non-vacuity of the positive statement: goroutine 0 (through a NewConn instance) is querying while goroutine 1
(through a NewNodeConn instance) waits on ITS call; both return the answer of call 0. -/
example : ∃ s, MReach (fun t => if t = 0 then Ctor.newConn else .newNodeConn) (fun _ g => g + 100) s
    ∧ pcOf (fun t => if t = 0 then Ctor.newConn else .newNodeConn) s 0 = 4
    ∧ pcOf (fun t => if t = 0 then Ctor.newConn else .newNodeConn) s 1 = 4
    ∧ gotOf (fun t => if t = 0 then Ctor.newConn else .newNodeConn) s 1 = some 100
    ∧ (s .sqlcPkg).queries = 1 := by
  refine ⟨_, .step 1 (.step 0 (.step 1 (.step 0 (.step 0 .init rfl) rfl) rfl) rfl) rfl, rfl, rfl, rfl, rfl⟩

/-! ## 9. The jitter (core/mathx/unstable.go) -/

/-- `cacheNode` builds its `Unstable` with `expiryDeviation = 0.05 = 1/20` (`Tie.tie_deviation`, `tie_newNodeFacts`): the
general jitter `aroundNs` specialises to the factor `(10500 − j)/10000` the TTL model uses. -/
theorem aroundNs_cache (base j : Nat) (hj : j ≤ 1000) : aroundNs 1 20 base j = (10500 - j) * base / 10000 := by
  unfold aroundNs
  rw [show (20 + 1) * 1000 - 2 * 1 * j = 2 * (10500 - j) by omega, Nat.mul_assoc, show 20 * 1000 = 2 * 10000 by rfl,
    Nat.mul_div_mul_left _ _ (by decide)]

/-- the TTL model is built on it: seconds = ⌈AroundDuration(e) / 1 s⌉. -/
theorem ttlSecNs_is_ceil_of_around (e j : Nat) (hj : j ≤ 1000) :
    ttlSecNs e j = (aroundNs 1 20 e j + 999999999) / 1000000000 := by
  rw [aroundNs_cache e j hj]; rfl

/-- **AroundDuration stays within the deviation** — for EVERY deviation `p/qd ≤ 1` (`NewUnstable` clamps to [0, 1]:
`Tie.tie_newUnstableClamp`), every base duration (ns) and every draw `j/1000 ∈ [0, 1]`:
`⌊base·(1 − dev)⌋ ≤ AroundDuration(base) ≤ ⌊base·(1 + dev)⌋`. -/
theorem around_duration_within_deviation (p qd base j : Nat) (_hq : 0 < qd) (hp : p ≤ qd) (hj : j ≤ 1000) :
    base * (qd - p) / qd ≤ aroundNs p qd base j ∧ aroundNs p qd base j ≤ base * (qd + p) / qd := by
  have hpj : 2 * p * j ≤ 2 * p * 1000 := Nat.mul_le_mul_left _ hj
  have hlo : (qd - p) * 1000 ≤ (qd + p) * 1000 - 2 * p * j := by
    have : (qd - p) * 1000 + 2 * p * 1000 = (qd + p) * 1000 := by
      rw [Nat.sub_mul, Nat.add_mul]
      have : p * 1000 ≤ qd * 1000 := Nat.mul_le_mul_right _ hp
      omega
    omega
  unfold aroundNs
  constructor
  · rw [← Nat.mul_div_mul_right (base * (qd - p)) qd (show 0 < 1000 by decide)]
    apply Nat.div_le_div_right
    calc base * (qd - p) * 1000 = (qd - p) * 1000 * base := by rw [Nat.mul_assoc, Nat.mul_comm]
      _ ≤ ((qd + p) * 1000 - 2 * p * j) * base := Nat.mul_le_mul_right _ hlo
  · rw [← Nat.mul_div_mul_right (base * (qd + p)) qd (show 0 < 1000 by decide)]
    apply Nat.div_le_div_right
    calc ((qd + p) * 1000 - 2 * p * j) * base ≤ (qd + p) * 1000 * base := Nat.mul_le_mul_right _ (Nat.sub_le _ _)
      _ = base * (qd + p) * 1000 := by rw [Nat.mul_assoc (base), Nat.mul_comm]

/-- **never 0 from one second up**: for a base of at least one second the jittered duration is at least 0.95 s, the
seconds handed to Redis are at least 1 for every draw, and the floor of `ttlSeconds` (fix 9858e85) is not even needed. -/
theorem around_never_zero_from_one_second (base j : Nat) (hj : j ≤ 1000) (hb : 1000000000 ≤ base) :
    950000000 ≤ aroundNs 1 20 base j ∧ 1 ≤ ttlSecNs base j ∧ ttlSecondsFixed base j = ttlSecNs base j := by
  refine ⟨?_, ttlSecNs_pos base j hj (by omega), ttl_fix_changes_nothing_above_1ns base j hj (by omega)⟩
  rw [aroundNs_cache base j hj]
  have h : 9500 * 1000000000 ≤ (10500 - j) * base := Nat.mul_le_mul (by omega) hb
  generalize (10500 - j) * base = x at h
  omega

/-- the bounds are attained and non-trivial: draw 0 gives +5 %, draw 1 gives −5 %, deviation 0 is the identity,
deviation 1 (the clamp's upper end) ranges over [0, 2·base]. -/
example : aroundNs 1 20 1000000000 0 = 1050000000 ∧ aroundNs 1 20 1000000000 1000 = 950000000
    ∧ aroundNs 0 1 12345 777 = 12345 ∧ aroundNs 1 1 1000 0 = 2000 ∧ aroundNs 1 1 1000 1000 = 0
    ∧ aroundNs 1 20 1 501 = 0 ∧ ttlSecondsFixed 1 501 = 1 := by decide

end GoZero.C06
