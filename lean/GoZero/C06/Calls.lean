/-
C06 — round 5: the CALL OBJECTS of a flight group (core/syncx/singleflight.go), for SEVERAL keys at once.

`Flight.lean` numbers the calls of one key (`gen`) and so assumes what `createCall` does with `c = new(call)`:
every flight has a call object of its own that nobody else ever writes.  This file makes the object explicit:

  g.calls            `calls : key → Option ref`
  *call              `heap ref = { val, pending }`  (`c.val, c.err` and the WaitGroup counter) + ghost fields:
                     the key / flight number / leader the object was last registered for
  new(call)          `Alloc.fresh`: a reference that was never handed out (`next`)
  a pooled object    `Alloc.pooled`: the object most recently released by a finished flight, if any (what a
                     `sync.Pool` per P hands back) — NOT what the code does; kept to state what goes wrong

  pc 0  createCall under g.lock: a call is registered for my key → remember it in `c`, wait (pc 3);
        else allocate `c`, `c.wg.Add(1)`, `g.calls[key] = c` (leader, pc 1)
  pc 1  leader inside fn: the database query starts                                              (pc 2)
  pc 2  fn returns `q key flight`; makeCall: `c.val, c.err = …`; deferred `delete(g.calls, key)`, `c.wg.Done()`
        (pooled: the object goes back to the pool); DoEx returns `c.val`                        (pc 4)
  pc 3  follower: `c.wg.Wait()` returns once the counter of THE OBJECT IT HOLDS is zero; DoEx returns `c.val`
        read from that object                                                                    (pc 4)
`key t` is the key goroutine `t` reads (a goroutine that reads two keys one after the other is two `t`s);
`q k f` is the environment: what the database answers to the query of flight number `f` for key `k`.
-/
namespace GoZero.C06.Calls

inductive Alloc where
  | fresh
  | pooled
  deriving DecidableEq, Repr

structure Call (α : Type) where
  val     : Option α := none
  pending : Bool := false
  key     : Nat := 0      -- ghost: the key the object was last registered for
  flight  : Nat := 0      -- ghost: the number of that flight
  leader  : Nat := 0      -- ghost: the goroutine that registered it

structure St (α : Type) where
  pc      : Nat → Nat
  calls   : Nat → Option Nat
  heap    : Nat → Call α
  next    : Nat
  pool    : List Nat
  flights : Nat
  ref     : Nat → Nat
  got     : Nat → Option α
  queries : Nat → Nat

def upd {β : Type} (f : Nat → β) (t : Nat) (v : β) : Nat → β := fun u => if u = t then v else f u

def St.init {α : Type} : St α :=
  { pc := fun _ => 0, calls := fun _ => none, heap := fun _ => {}, next := 0, pool := [], flights := 0,
    ref := fun _ => 0, got := fun _ => none, queries := fun _ => 0 }

variable {α : Type}

/-- the object `createCall` registers. -/
def pickRef (a : Alloc) (s : St α) : Nat :=
  match a with
  | .fresh => s.next
  | .pooled => match s.pool with
    | r :: _ => r
    | [] => s.next

def restPool (a : Alloc) (s : St α) : List Nat :=
  match a with
  | .fresh => s.pool
  | .pooled => s.pool.tail

def release (a : Alloc) (s : St α) (r : Nat) : List Nat :=
  match a with
  | .fresh => s.pool
  | .pooled => r :: s.pool

def step (a : Alloc) (key : Nat → Nat) (q : Nat → Nat → α) (s : St α) (t : Nat) : Option (St α) :=
  match s.pc t with
  | 0 => match s.calls (key t) with
    | some r => some { s with pc := upd s.pc t 3, ref := upd s.ref t r }
    | none =>
      some { s with pc := upd s.pc t 1, ref := upd s.ref t (pickRef a s),
                    calls := upd s.calls (key t) (some (pickRef a s)),
                    heap := upd s.heap (pickRef a s) { val := none, pending := true, key := key t, flight := s.flights, leader := t },
                    next := if pickRef a s = s.next then s.next + 1 else s.next,
                    pool := restPool a s, flights := s.flights + 1 }
  | 1 => some { s with pc := upd s.pc t 2, queries := upd s.queries (key t) (s.queries (key t) + 1) }
  | 2 => some { s with pc := upd s.pc t 4, calls := upd s.calls (key t) none,
                       heap := upd s.heap (s.ref t) { s.heap (s.ref t) with val := some (q (key t) (s.heap (s.ref t)).flight), pending := false },
                       pool := release a s (s.ref t),
                       got := upd s.got t (some (q (key t) (s.heap (s.ref t)).flight)) }
  | 3 => if (s.heap (s.ref t)).pending then none
         else some { s with pc := upd s.pc t 4, got := upd s.got t (s.heap (s.ref t)).val }
  | _ => none

inductive Reachable (a : Alloc) (key : Nat → Nat) (q : Nat → Nat → α) : St α → Prop
  | init : Reachable a key q St.init
  | step {s s' : St α} (t : Nat) : Reachable a key q s → step a key q s t = some s' → Reachable a key q s'

/-- run a schedule (executable; used by the witness). -/
def run (a : Alloc) (key : Nat → Nat) (q : Nat → Nat → α) : St α → List Nat → Option (St α)
  | s, [] => some s
  | s, t :: ts => match step a key q s t with
    | some s' => run a key q s' ts
    | none => none

theorem run_reachable {a : Alloc} {key : Nat → Nat} {q : Nat → Nat → α} {s s' : St α} (h : Reachable a key q s)
    (ts : List Nat) (hr : run a key q s ts = some s') : Reachable a key q s' := by
  induction ts generalizing s with
  | nil => simp [run] at hr; subst hr; exact h
  | cons t ts ih =>
    simp only [run] at hr
    split at hr
    · rename_i s1 h1; exact ih (.step t h h1) hr
    · cases hr

/-- the invariant of `new(call)`: a registered object belongs to the flight of its key and is still pending, its
leader is inside fn holding it; a follower holds an object that was registered for ITS key; a finished object
holds the answer of the query of its flight for its key; whoever returned holds that answer. -/
structure Inv (key : Nat → Nat) (q : Nat → Nat → α) (s : St α) : Prop where
  reg    : ∀ k r, s.calls k = some r → r < s.next ∧ (s.heap r).key = k ∧ (s.heap r).pending = true ∧
             (s.pc (s.heap r).leader = 1 ∨ s.pc (s.heap r).leader = 2) ∧ s.ref (s.heap r).leader = r ∧ key (s.heap r).leader = k
  lead   : ∀ t, (s.pc t = 1 ∨ s.pc t = 2) → s.calls (key t) = some (s.ref t) ∧ (s.heap (s.ref t)).leader = t
  wait   : ∀ t, s.pc t = 3 → s.ref t < s.next ∧ (s.heap (s.ref t)).key = key t
  done   : ∀ r, r < s.next → (s.heap r).pending = false → (s.heap r).val = some (q (s.heap r).key (s.heap r).flight)
  ret    : ∀ t, s.pc t = 4 → s.ref t < s.next ∧ (s.heap (s.ref t)).key = key t ∧ (s.heap (s.ref t)).pending = false ∧
             s.got t = some (q (key t) (s.heap (s.ref t)).flight)

theorem inv_init (key : Nat → Nat) (q : Nat → Nat → α) : Inv key q (St.init : St α) := by
  refine ⟨?_, ?_, ?_, ?_, ?_⟩ <;> simp [St.init]

theorem inv_step {key : Nat → Nat} {q : Nat → Nat → α} {s s' : St α} {t : Nat} (h : Inv key q s)
    (hs : step .fresh key q s t = some s') : Inv key q s' := by
  obtain ⟨h1, h2, h3, h4, h5⟩ := h
  unfold step at hs
  split at hs
  · split at hs
    · cases hs
      refine ⟨?_, ?_, ?_, ?_, ?_⟩ <;> simp only [upd] <;> grind
    · cases hs
      refine ⟨?_, ?_, ?_, ?_, ?_⟩ <;> simp only [upd, pickRef] <;> grind
  · cases hs
    refine ⟨?_, ?_, ?_, ?_, ?_⟩ <;> simp only [upd] <;> grind
  · cases hs
    refine ⟨?_, ?_, ?_, ?_, ?_⟩ <;> simp only [upd] <;> grind
  · split at hs
    · cases hs
    · cases hs
      refine ⟨?_, ?_, ?_, ?_, ?_⟩ <;> simp only [upd] <;> grind
  · cases hs

theorem inv_reachable {key : Nat → Nat} {q : Nat → Nat → α} {s : St α} (h : Reachable .fresh key q s) : Inv key q s := by
  induction h with
  | init => exact inv_init key q
  | step t _ hs ih => exact inv_step ih hs

/-! ### round 5c: a query function that does not return (it PANICS, or calls runtime.Goexit)

`fn` of goroutine `t` does not return iff `abort t`.  What the code does then (makeCall, `c.val, c.err = fn()`
is never executed, the deferred function runs): `delete(g.calls, key)`, `c.wg.Done()` — the object keeps
`c.val = nil, c.err = nil`.  The leader's panic (or Goexit) travels on up its own stack (pc 5).  A follower
parked on that object returns `(nil, false, nil)` from DoEx; back in `cacheNode.doTake` `err == nil`, `fresh ==
false`, so it reaches `jsonx.Unmarshal(val.([]byte), v)` and the type assertion on a nil interface PANICS in the
follower with an interface-conversion runtime error (pc 6) — not with the leader's panic value, and also when the
leader merely called Goexit. -/
def stepA (abort : Nat → Bool) (key : Nat → Nat) (q : Nat → Nat → α) (s : St α) (t : Nat) : Option (St α) :=
  match s.pc t with
  | 0 => match s.calls (key t) with
    | some r => some { s with pc := upd s.pc t 3, ref := upd s.ref t r }
    | none =>
      some { s with pc := upd s.pc t 1, ref := upd s.ref t s.next,
                    calls := upd s.calls (key t) (some s.next),
                    heap := upd s.heap s.next { val := none, pending := true, key := key t, flight := s.flights, leader := t },
                    next := s.next + 1, flights := s.flights + 1 }
  | 1 => some { s with pc := upd s.pc t 2, queries := upd s.queries (key t) (s.queries (key t) + 1) }
  | 2 =>
    if abort t then
      some { s with pc := upd s.pc t 5, calls := upd s.calls (key t) none,
                    heap := upd s.heap (s.ref t) { s.heap (s.ref t) with pending := false } }
    else
      some { s with pc := upd s.pc t 4, calls := upd s.calls (key t) none,
                    heap := upd s.heap (s.ref t) { s.heap (s.ref t) with val := some (q (key t) (s.heap (s.ref t)).flight), pending := false },
                    got := upd s.got t (some (q (key t) (s.heap (s.ref t)).flight)) }
  | 3 =>
    if (s.heap (s.ref t)).pending then none
    else if (s.heap (s.ref t)).val.isNone then some { s with pc := upd s.pc t 6 }   -- val.([]byte) on nil: panic
    else some { s with pc := upd s.pc t 4, got := upd s.got t (s.heap (s.ref t)).val }
  | _ => none

inductive ReachableA (abort : Nat → Bool) (key : Nat → Nat) (q : Nat → Nat → α) : St α → Prop
  | init : ReachableA abort key q St.init
  | step {s s' : St α} (t : Nat) : ReachableA abort key q s → stepA abort key q s t = some s' → ReachableA abort key q s'

def runA (abort : Nat → Bool) (key : Nat → Nat) (q : Nat → Nat → α) : St α → List Nat → Option (St α)
  | s, [] => some s
  | s, t :: ts => match stepA abort key q s t with
    | some s' => runA abort key q s' ts
    | none => none

/-
FULL STATEMENT for aborting leaders (NOT proven; only its single transitions and witness schedules are):
  for every state reachable by `stepA`: the call-object invariant of `Inv` holds, a finished object holds EITHER the
  answer of its flight's query OR nothing (its leader aborted); whoever returned (pc 4) holds an answer of a query of
  its key; a leader that aborted is at pc 5, a follower that ran into the nil value at pc 6, and neither holds a result.
Proven below: `aborting_leader_releases_the_key`, `follower_of_an_aborted_flight_panics`; in PropsCalls.lean the
schedules `aborting_leader_witness`, `returning_leader_same_schedule`.
-/

/-- the leader whose fn does not return: the call is removed from the map and the object released with
`c.val = nil` (the deferred function of makeCall), the leader itself leaves by its panic / Goexit. -/
theorem aborting_leader_releases_the_key (abort : Nat → Bool) (key : Nat → Nat) (q : Nat → Nat → α) (s : St α) (t : Nat)
    (hpc : s.pc t = 2) (ha : abort t = true) :
    ∃ s', stepA abort key q s t = some s' ∧ s'.calls (key t) = none ∧ (s'.heap (s.ref t)).pending = false
      ∧ (s'.heap (s.ref t)).val = (s.heap (s.ref t)).val ∧ s'.pc t = 5 ∧ s'.got t = s.got t := by
  refine ⟨_, by unfold stepA; rw [hpc]; simp only [ha, if_true]; rfl, ?_⟩
  simp [upd]

/-- a follower parked on an object that was released WITHOUT a value runs into doTake's `val.([]byte)` on a nil
interface: it panics (pc 6) — it neither returns a value nor the leader's panic value. -/
theorem follower_of_an_aborted_flight_panics (abort : Nat → Bool) (key : Nat → Nat) (q : Nat → Nat → α) (s : St α) (t : Nat)
    (hpc : s.pc t = 3) (hd : (s.heap (s.ref t)).pending = false) (hv : (s.heap (s.ref t)).val = none) :
    ∃ s', stepA abort key q s t = some s' ∧ s'.pc t = 6 ∧ s'.got t = s.got t ∧ s'.calls = s.calls := by
  refine ⟨_, by unfold stepA; rw [hpc]; simp only [hd, hv]; rfl, ?_⟩
  simp [upd]

/-! ### round 5c: the flight group with the published value supplied from OUTSIDE (for the composition with the
store model, ManyKeys.lean): `stepV v` is `step .fresh` with `v` in place of the oracle's answer; `InvG G` is `Inv`
with "holds the oracle's answer" replaced by an arbitrary predicate `G key value` on what was published. -/
def stepV (key : Nat → Nat) (v : α) (s : St α) (t : Nat) : Option (St α) :=
  match s.pc t with
  | 0 => match s.calls (key t) with
    | some r => some { s with pc := upd s.pc t 3, ref := upd s.ref t r }
    | none =>
      some { s with pc := upd s.pc t 1, ref := upd s.ref t s.next,
                    calls := upd s.calls (key t) (some s.next),
                    heap := upd s.heap s.next { val := none, pending := true, key := key t, flight := s.flights, leader := t },
                    next := s.next + 1, flights := s.flights + 1 }
  | 1 => some { s with pc := upd s.pc t 2, queries := upd s.queries (key t) (s.queries (key t) + 1) }
  | 2 => some { s with pc := upd s.pc t 4, calls := upd s.calls (key t) none,
                       heap := upd s.heap (s.ref t) { s.heap (s.ref t) with val := some v, pending := false },
                       got := upd s.got t (some v) }
  | 3 => if (s.heap (s.ref t)).pending then none
         else some { s with pc := upd s.pc t 4, got := upd s.got t (s.heap (s.ref t)).val }
  | _ => none

/-- `o` is a published value that satisfies `G` for key `k`. -/
def GO (G : Nat → α → Prop) (k : Nat) (o : Option α) : Prop :=
  match o with
  | some v => G k v
  | none => False

@[simp, grind =] theorem GO_some (G : Nat → α → Prop) (k : Nat) (v : α) : GO G k (some v) = G k v := rfl

structure InvG (key : Nat → Nat) (G : Nat → α → Prop) (s : St α) : Prop where
  reg    : ∀ k r, s.calls k = some r → r < s.next ∧ (s.heap r).key = k ∧ (s.heap r).pending = true ∧
             (s.pc (s.heap r).leader = 1 ∨ s.pc (s.heap r).leader = 2) ∧ s.ref (s.heap r).leader = r ∧ key (s.heap r).leader = k
  lead   : ∀ t, (s.pc t = 1 ∨ s.pc t = 2) → s.calls (key t) = some (s.ref t) ∧ (s.heap (s.ref t)).leader = t
  wait   : ∀ t, s.pc t = 3 → s.ref t < s.next ∧ (s.heap (s.ref t)).key = key t
  done   : ∀ r, r < s.next → (s.heap r).pending = false → GO G (s.heap r).key (s.heap r).val
  ret    : ∀ t, s.pc t = 4 → GO G (key t) (s.got t)

theorem invG_init (key : Nat → Nat) (G : Nat → α → Prop) : InvG key G (St.init : St α) := by
  refine ⟨?_, ?_, ?_, ?_, ?_⟩ <;> simp [St.init]

theorem invG_mono {key : Nat → Nat} {G G' : Nat → α → Prop} {s : St α} (hm : ∀ k v, G k v → G' k v) (h : InvG key G s) :
    InvG key G' s := by
  have hgo : ∀ k o, GO G k o → GO G' k o := by
    intro k o; cases o <;> simp [GO]; exact hm k _
  exact ⟨h.reg, h.lead, h.wait, fun r hr hp => hgo _ _ (h.done r hr hp), fun t ht => hgo _ _ (h.ret t ht)⟩

theorem invG_step {key : Nat → Nat} {G : Nat → α → Prop} {v : α} {s s' : St α} {t : Nat} (h : InvG key G s)
    (hv : s.pc t = 2 → G (key t) v) (hs : stepV key v s t = some s') : InvG key G s' := by
  obtain ⟨h1, h2, h3, h4, h5⟩ := h
  unfold stepV at hs
  split at hs
  · split at hs
    · cases hs
      refine ⟨?_, ?_, ?_, ?_, ?_⟩ <;> simp only [upd] <;> grind
    · cases hs
      refine ⟨?_, ?_, ?_, ?_, ?_⟩ <;> simp only [upd] <;> grind
  · cases hs
    refine ⟨?_, ?_, ?_, ?_, ?_⟩ <;> simp only [upd] <;> grind
  · cases hs
    refine ⟨?_, ?_, ?_, ?_, ?_⟩ <;> simp only [upd] <;> grind
  · split at hs
    · cases hs
    · cases hs
      refine ⟨?_, ?_, ?_, ?_, ?_⟩ <;> simp only [upd] <;> grind
  · cases hs

/-- a step that is not the leader's last one does not look at the supplied value. -/
theorem stepV_congr (key : Nat → Nat) (v v' : α) (s : St α) (t : Nat) (h : s.pc t ≠ 2) : stepV key v s t = stepV key v' s t := by
  unfold stepV
  split <;> first | rfl | (rename_i hpc; exact absurd hpc h)

/-- how the source obtains the call object, as classified by the extractor (`Extracted.C06.createCallAlloc`). -/
def allocOfSource : List String → Option Alloc
  | ["fresh"] => some .fresh
  | _ => none

/-! ### the witness schedule: what a recycled call object does

goroutines 0 and 1 read key 0, goroutine 2 reads key 1.  0 registers the call of key 0, 1 joins it, 0 runs its
query and finishes (the object is released), 2 registers the call of key 1 — with `pooled` it is handed the
object 1 is still parked on —, runs its query and finishes, and only now 1 is scheduled: it reads `c.val` of the
object it holds. -/
def wKey (t : Nat) : Nat := if t = 2 then 1 else 0
def wQ (k f : Nat) : Nat × Nat := (k, f)
def wSched : List Nat := [0, 1, 0, 0, 2, 2, 2, 1]

end GoZero.C06.Calls
