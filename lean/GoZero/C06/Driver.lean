/-
C06 — driver: replays an implementation trace through the model (correspondence: result, database calls,
cache commands with their outcome, complete cache dump with TTLs after every operation) and through the
monitor of Spec.lean (the property's clauses on the implementation's own observations).

Section cfg:  exp=<ms|-> nf=<ms|-> nodes=<1..4> type=<node|cluster> place=<key>:<node>,…|-   (unlisted keys: node 0)
              exp / nf are the cache.Options the cache is BUILT with: `-` = the option is not given, otherwise
              WithExpiry(<ms>) / WithNotFoundExpiry(<ms>) with any integer (0, negative, sub-second, very large);
              the model runs `newOptions` on them (Model.newOptions)
              inst=<kind>/<exp>/<nf>,…  (round 4) SEVERAL instances over the same servers, replacing exp= / nf=:
              kind conn | node | wc<k> (NewConn / NewNodeConn / NewConnWithCache over a cache with the harness' own
              barrier k; monc: NewModel / NewNodeModel / NewModelWithCache), each with its own option values;
              every op below takes ` i=<n>` (the instance it goes through, default 0), `ctake … i=a+b+c` spreads the
              readers over instances; `insts` reports what the constructors built:
              insts => ok q=0 cmds=- kinds=<node|cluster>,… bar=<class>.<class>…,… | dump   (barrier identity per node)
Ops (see harness/overlay/core/stores/sqlc/zz_verif_c06_test.go):
  take p<pk> [j=] [c=<mask>] [db=1] | qindex x<a> … | get <key> [c=]          mask: i-th cache command of the op
  exec <keys|-> put:<pk>:<v>:<a>|rm:<pk> [c=<m0>/<m1>/…] [db=1] | del <keys|-> [c=<m0>/<m1>/…]
                                                                   mask per node: i-th DEL sent to that node
  set <key> <val> [j=] [c=] | setx <key> <val> <ms> [j=] [c=] | raw <key> <val> <ttl-ms>
  ft <ms> | tick <n> c=<bit per node: 1 = node down>
Obs:  <res> q=<n> cmds=<cmd>/<node>/<key+key…>:ok|fail,…|-> | <node>/<key>=<val>@<ttl-ms> …
      (commands of exec/del stably sorted by node — cacheCluster.DelCtx ranges over a map —, of tick sorted)
-/
import GoZero.Base.Trace
import GoZero.C06.Spec
namespace GoZero.C06

open GoZero

def maxKeyIdx : Nat := 7
def maxNodes : Nat := 4

def parseKey (t : String) : Option CKey :=
  match t.toList with
  | 'p' :: r => do let n ← (String.ofList r).toNat?; if n ≤ maxKeyIdx then some (.p n) else none
  | 'x' :: r => do let n ← (String.ofList r).toNat?; if n ≤ maxKeyIdx then some (.x n) else none
  | _ => none

def parseKeys (t : String) : Option (List CKey) :=
  if t = "-" then some [] else (t.splitOn ",").mapM parseKey

def parseVal (t : String) : Option CVal :=
  match t.splitOn ":" with
  | ["*"] => some .ph
  | ["r", a, b, c] => do pure (.row (← a.toNat?) (← b.toNat?) (← c.toNat?))
  | ["k", n] => do pure (.pk (← n.toNat?))
  | ["j", n] => do pure (.junk (← n.toNat?))
  | _ => none

def parseMask (t : String) : Option (List Bool) :=
  t.toList.mapM fun ch => if ch = '0' then some false else if ch = '1' then some true else none

def optMask (toks : List String) : Option (List Bool) :=
  match kv? toks "c" with
  | some v => parseMask v
  | none => some []

/-- per-node masks `m0/m1/…` of exec / del. -/
def optMasks (toks : List String) : Option (List (List Bool)) :=
  match kv? toks "c" with
  | some v => (v.splitOn "/").mapM parseMask
  | none => some []

/-- `place=p0:1,x0:2` of the section cfg: the dispatch function (unlisted keys live on node 0). -/
def parsePlace (t : String) (nodes : Nat) : Option (List (CKey × Nat)) :=
  if t = "-" || t = "" then some []
  else (t.splitOn ",").mapM fun e => match e.splitOn ":" with
    | [k, n] => do
      let k ← parseKey k
      let n ← n.toNat?
      if n < nodes then some (k, n) else none
    | _ => none

def placeOf (l : List (CKey × Nat)) (k : CKey) : Nat :=
  match l.find? (·.1 = k) with
  | some e => e.2
  | none => 0

/-- `exp=` / `nf=` of the section cfg: `-` (or absent) = option not given, else the integer handed to
`WithExpiry` / `WithNotFoundExpiry` (ms).  Anything else is a bad cfg (outer `none`). -/
def parseOptMs (toks : List String) (k : String) : Option (Option Int) :=
  match kv? toks k with
  | none => some none
  | some "-" => some none
  | some v => v.toInt?.map some

def parseInstKind (t : String) : Option Spec.InstKind :=
  if t = "conn" then some .conn
  else if t = "node" then some .node
  else match t.toList with
    | 'w' :: 'c' :: r => (String.ofList r).toNat?.map .wc
    | _ => none

def parseOptVal (v : String) : Option (Option Int) := if v = "-" then some none else v.toInt?.map some

/-- the instances of a section: `inst=<kind>/<exp>/<nf>,…` (kind: conn | node | wc<k>; exp / nf as above), or —
`inst` absent — ONE `conn` instance with the section's `exp=` / `nf=`. -/
def parseInsts (cfg : List String) : Option (List (Spec.InstKind × Options)) :=
  match kv? cfg "inst" with
  | some v =>
    if v = "-" then none else
    (v.splitOn ",").mapM fun e => match e.splitOn "/" with
      | [k, x, n] => do pure (← parseInstKind k, { expiry := ← parseOptVal x, notFound := ← parseOptVal n })
      | _ => none
  | none => do pure [(.conn, { expiry := ← parseOptMs cfg "exp", notFound := ← parseOptMs cfg "nf" })]

/-- `i=<n>` of an op (default 0) / `i=a+b+c` of a concurrent read. -/
def parseVia (toks : List String) : Option (List Nat) :=
  match kv? toks "i" with
  | none => some [0]
  | some v => (v.splitOn "+").mapM String.toNat?

def kindName : Spec.InstKind → String
  | .conn => "conn" | .node => "node" | .wc _ => "with-cache"

/-- `kinds=node,cluster bar=0.0,1.-` of the `insts` observation. -/
def parseInstObs (toks : List String) : Option (List String × List (List (Option Nat))) := do
  let ks ← kv? toks "kinds"
  let bs ← kv? toks "bar"
  let bars ← (bs.splitOn ",").mapM fun i => (i.splitOn ".").mapM fun b =>
    if b = "-" then some none else b.toNat?.map some
  pure (ks.splitOn ",", bars)

/-- what `insts` prints when the constructors keep their promise: barrier classes numbered by first appearance. -/
def expectedInsts (nodes : Nat) (kinds : List Spec.InstKind) : String :=
  let bs := kinds.map Spec.InstKind.barrier
  let ids := bs.map fun b => (bs.eraseDups.idxOf b)
  let ks := kinds.map fun k => if nodes = 1 ∨ k = .node then "node" else "cluster"
  "kinds=" ++ ",".intercalate ks ++ " bar=" ++ ",".intercalate (ids.map fun i => ".".intercalate (List.replicate nodes (toString i)))

/-- the input class of an option value (cover counters). -/
def optClass (name : String) : Option Int → String
  | none => s!"opt-{name}-unset"
  | some v =>
    if v = 0 then s!"opt-{name}-zero"
    else if v < 0 then s!"opt-{name}-negative"
    else if v < 1000 then s!"opt-{name}-subsecond"
    else if v ≥ 30 * 24 * 3600 * 1000 then s!"opt-{name}-very-large"
    else if v % 1000 ≠ 0 then s!"opt-{name}-fractional-seconds"
    else s!"opt-{name}-whole-seconds"

def optJ (toks : List String) : Option Nat :=
  match kv? toks "j" with
  | some v => do let n ← v.toNat?; if n ≤ 1000 then some n else none
  | none => some 500

def optDb (toks : List String) : Option Bool :=
  match kv? toks "db" with
  | some "1" => some true
  | some "2" => some true     -- the query function panics with an error value
  | some "3" => some true     -- … with a non-error value
  | some "4" => some true     -- the query function calls runtime.Goexit
  | some "0" => some false
  | some _ => none
  | none => some false

def parseWrite (t : String) : Option Write :=
  match t.splitOn ":" with
  | ["put", a, b, c] => do
    let pk ← a.toNat?
    let ix ← c.toNat?
    if pk ≤ maxKeyIdx ∧ ix ≤ maxKeyIdx then pure (.put pk (← b.toNat?) ix) else none
  | ["rm", a] => do let pk ← a.toNat?; if pk ≤ maxKeyIdx then pure (.rm pk) else none
  | _ => none

/-- value kinds an explicit set may carry for a key (a row under a primary key, a number under an index key). -/
def setAllowed : CKey → CVal → Bool
  | .p _, .row _ _ _ => true
  | .x _, .pk _ => true
  | _, _ => false

/-- an op line: the model operation and how many times it is repeated (`tick n`). -/
def parseOp : List String → Option (Op × Nat)
  | "take" :: k :: rest => do
    match ← parseKey k with
    | .p pk => pure (.take pk (← optJ rest) (← optMask rest) (← optDb rest), 1)
    | _ => none
  | "ctake" :: k :: rest => do
    -- concurrent readers of one key: the model is one fault-free Take; repeat count 0 marks the op
    match ← parseKey k with
    | .p pk => pure (.take pk (← optJ rest) [] ((← optDb rest) || rest.contains "lctx=1"), 0)
    | _ => none
  | "cqindex" :: k :: rest => do
    -- concurrent readers of one index key through QueryRowIndex: the model is one fault-free index read
    match ← parseKey k with
    | .x a => pure (.qindex a (← optJ rest) [] (← optDb rest), 0)
    | _ => none
  | "qindex" :: k :: rest => do
    match ← parseKey k with
    | .x a => pure (.qindex a (← optJ rest) (← optMask rest) (← optDb rest), 1)
    | _ => none
  | "get" :: k :: rest => do pure (.get (← parseKey k) (← optMask rest), 1)
  | "exec" :: ks :: w :: rest => do
    pure (.exec (← parseKeys ks) (← parseWrite w) (← optMasks rest) (← optDb rest), 1)
  | "del" :: ks :: rest => do pure (.del (← parseKeys ks) (← optMasks rest), 1)
  | "set" :: k :: v :: rest => do
    let k ← parseKey k
    let v ← parseVal v
    if setAllowed k v then pure (.set k v none (← optJ rest) (← optMask rest), 1) else none
  | "setx" :: k :: v :: ms :: rest => do
    let k ← parseKey k
    let v ← parseVal v
    if setAllowed k v then pure (.set k v (some (← ms.toInt?)) (← optJ rest) (← optMask rest), 1) else none
  | ["raw", k, v, t] => do
    let t ← t.toNat?
    if t = 0 then none else pure (.raw (← parseKey k) (← parseVal v) t, 1)
  | ["ft", ms] => do pure (.ft (← ms.toNat?), 1)
  | "tick" :: n :: rest => do
    let m ← optMask rest
    if m = [] then none else pure (.tick m, ← n.toNat?)
  | _ => none

/-! ### printing -/

def showKey : CKey → String
  | .p n => s!"p{n}"
  | .x n => s!"x{n}"

def showVal : CVal → String
  | .ph => "*"
  | .row a b c => s!"r:{a}:{b}:{c}"
  | .pk n => s!"k:{n}"
  | .junk n => s!"j:{n}"

def showRes : Res → String
  | .ok => "ok"
  | .val v => "val:" ++ showVal v
  | .notfound => "notfound"
  | .dberr => "dberr"
  | .cacheerr => "cacheerr"

def showCmd (r : CmdRec) : String :=
  (match r.cmd with | .get => "get" | .set => "set" | .setnx => "setnx" | .del => "del")
    ++ s!"/{r.node}/" ++ "+".intercalate (r.keys.map showKey) ++ (if r.fail then ":fail" else ":ok")

def insertBy {α : Type} (le : α → α → Bool) (x : α) : List α → List α
  | [] => [x]
  | y :: ys => if le y x then y :: insertBy le x ys else x :: y :: ys

/-- stable insertion sort. -/
def sortBy {α : Type} (le : α → α → Bool) (l : List α) : List α := l.foldl (fun acc x => insertBy le x acc) []

/-- canonical order of the commands of an operation (the same the harness applies): exec / del stably by
node, tick by the printed text, everything else in issue order. -/
def canonCmds (kind : String) (l : List CmdRec) : List String :=
  if kind = "exec" || kind = "del" then (sortBy (fun a b => a.node ≤ b.node) l).map showCmd
  else if kind = "tick" then sortBy (fun a b => a ≤ b) (l.map showCmd)
  else l.map showCmd

def showCmds (l : List String) : String :=
  if l = [] then "-" else ",".intercalate l

def keyUniverse : List CKey := (List.range (maxKeyIdx + 1)).map .p ++ (List.range (maxKeyIdx + 1)).map .x

def slotUniverse : List Slot := (List.range maxNodes).flatMap fun n => keyUniverse.map fun k => (n, k)

def showDump (s : St) : List String :=
  slotUniverse.filterMap fun k => match s.cache k with
    | some e => some (s!"{k.1}/{showKey k.2}={showVal e.val}@" ++ (if e.ttl = 0 then "inf" else toString e.ttl))
    | none => none

def showOut (kind : String) (s : St) (o : Out) : List String :=
  [showRes o.res, s!"q={o.q}", s!"cmds={showCmds (canonCmds kind o.cmds)}", "|"] ++ showDump s

/-! ### parsing the observation -/

def parseRes (t : String) : Option Res :=
  if t = "ok" then some .ok
  else if t = "notfound" then some .notfound
  else if t = "dberr" then some .dberr
  else if t = "cacheerr" then some .cacheerr
  else if t.startsWith "val:" then (parseVal (t.drop 4).toString).map .val
  else none

def parseCmd (t : String) : Option CmdRec :=
  match t.splitOn ":" with
  | [c, r] => match c.splitOn "/" with
    | [c, n, ks] => do
      let c ← match c with | "get" => some Cmd.get | "set" => some .set | "setnx" => some .setnx | "del" => some .del | _ => none
      let n ← n.toNat?
      let ks ← (ks.splitOn "+").mapM parseKey
      let r ← match r with | "ok" => some false | "fail" => some true | _ => none
      if n < maxNodes then pure ⟨c, n, ks, r⟩ else none
    | _ => none
  | _ => none

def parseObsEntry (t : String) : Option Spec.Obs :=
  match t.splitOn "=" with
  | [nk, rest] => match nk.splitOn "/", rest.splitOn "@" with
    | [n, k], [v, ttl] => do
      let n ← n.toNat?
      let k ← parseKey k
      let v ← parseVal v
      let ttl ← if ttl = "inf" then some none else ttl.toNat?.map some
      if n < maxNodes then pure ⟨n, k, v, ttl⟩ else none
    | _, _ => none
  | _ => none

def parseObs (toks : List String) : Option Spec.ObsLine :=
  match toks with
  | r :: q :: c :: "|" :: dump => do
    let res ← parseRes r
    let q ← (kv? [q] "q").bind String.toNat?
    let cs ← kv? [c] "cmds"
    let cmds ← if cs = "-" then some [] else (cs.splitOn ",").mapM parseCmd
    let d ← dump.mapM parseObsEntry
    pure ⟨res, q, cmds, d⟩
  | _ => none

/-! ### replay -/

def iterStep (c : Cfg) (s : St) (op : Op) : Nat → St × Out → St × Out
  | 0, acc => acc
  | n + 1, acc =>
    let r := step c acc.1 op
    iterStep c s op n (r.1, { res := r.2.res, q := acc.2.q + r.2.q, cmds := acc.2.cmds ++ r.2.cmds })

def opKind : Op → String
  | .take .. => "take" | .qindex .. => "qindex" | .get .. => "get" | .exec .. => "exec" | .del .. => "del"
  | .set _ _ none _ _ => "set" | .set _ _ (some e) _ _ => if e ≤ 0 then "setx-nonpositive" else "setx"
  | .raw .. => "raw" | .ft .. => "ft" | .tick .. => "tick"

def nodesIn (l : List CmdRec) : List Nat := (l.map (·.node)).eraseDups

def coverOf (c : Cfg) (s s' : St) (op : Op) (o : Out) : List String :=
  let f := if o.cmds.any (·.fail) then ["cmd-fault"] else []
  let dels := o.cmds.filter (·.cmd = .del)
  let onNode (n : Nat) := dels.filter (·.node = n)
  let delCover : List String := match op with
    | .exec ks _ _ false | .del ks _ =>
      (if (nodesIn dels).length ≥ 2 then ["del-multi-node"] else [])
      ++ (if (nodesIn dels).any (fun n => (onNode n).length ≥ 2) then ["del-per-key-loop"] else [])
      ++ (if (nodesIn dels).any (fun n => (onNode n).length ≥ 2 && ((onNode n).head?.map (·.fail)).getD false
              && (onNode n).any (!·.fail)) then ["del-loop-first-fails-later-ok"] else [])
      ++ (if (nodesIn dels).any (fun n => (onNode n).length ≥ 2 && !((onNode n).head?.map (·.fail)).getD true
              && (onNode n).any (·.fail)) then ["del-loop-later-fails"] else [])
      ++ (if (nodesIn dels).any (fun n => (onNode n).length ≥ 2 && (onNode n).all (·.fail)) then ["del-loop-all-fail"] else [])
      ++ (if (nodesIn dels).any (fun n => (onNode n).all (·.fail)) && (nodesIn dels).any (fun n => (onNode n).all (!·.fail))
          then ["del-one-node-down-others-up"] else [])
      ++ (if dels.any (fun r => r.keys.length ≥ 2) then ["del-multi-key-single-command"] else [])
      ++ (if ks.eraseDups.length < ks.length then ["del-duplicate-keys"] else [])
      ++ (if c.cluster && ks.length = 1 then ["del-single-key-cluster-type"] else [])
    | _ => []
  let readCover : List String := match op with
    | .qindex .. =>
      (if (nodesIn o.cmds).length ≥ 2 then ["qindex-two-nodes"] else [])
      ++ (if (nodesIn o.cmds).length ≥ 2 && o.cmds.any (fun r => r.fail && (o.cmds.head?.map (·.node)).getD 0 ≠ r.node)
              && o.cmds.any (fun r => !r.fail) then ["qindex-other-node-fails"] else [])
    | .tick down =>
      (if o.cmds.any (·.fail) && o.cmds.any (!·.fail) then ["tick-some-nodes-down"] else [])
      ++ (if o.cmds.any (·.fail) then ["tick-retry-failed"] else [])
      ++ (if o.cmds.any (!·.fail) then ["tick-retry-succeeded"] else [])
      ++ (if down.any id && down.any (!·) then ["tick-partial-outage"] else [])
    | _ => []
  let r := match o.res with
    | .ok => [] | .val _ => ["res-val"] | .notfound => ["res-notfound"] | .dberr => ["res-dberr"] | .cacheerr => ["res-cacheerr"]
  let t := if s'.tasks.length > s.tasks.length then ["clean-task-armed"] else []
  let g := if s'.gaveUp > s.gaveUp then ["cleaner-gave-up"] else []
  let d := match op with
    | .tick _ => (if o.cmds ≠ [] then ["tick-retry-ran"] else [])
    | .ft _ => if slotUniverse.any (fun k => (s.cache k).isSome && (s'.cache k).isNone) then ["ft-expired"] else []
    | .take .. | .qindex .. => (if o.cmds.any (·.cmd = .del) then ["junk-reload"] else [])
        ++ (if o.cmds.any (·.cmd = .setnx) then ["placeholder-write"] else [])
        ++ (if o.cmds.any (fun r => r.cmd = .setnx && !r.fail) && o.cmds.any (fun r => r.cmd = .del && r.fail)
            then ["placeholder-setnx-on-occupied-slot"] else [])
        ++ (if o.cmds.any (fun r => r.cmd = .setnx && !r.fail) then
              [s!"placeholder-ttl-{if ttlSec c.nf 0 = ttlSec c.nf 1000 then "jitter-invisible" else "jitter-visible"}"] else [])
    | _ => []
  let st := if slotUniverse.any (fun k => match s'.cache k with | some e => e.origin = .stale | none => false) then ["state-has-stale-entry"] else []
  let occ := (List.range maxNodes).filter fun n => keyUniverse.any fun k => (s'.cache (n, k)).isSome
  let mn := if occ.length ≥ 2 then ["state-entries-on-several-nodes"] else []
  f ++ r ++ t ++ g ++ d ++ st ++ delCover ++ readCover ++ mn

/-- the same state with its three maps rebuilt as finite tables over the driver's universe (every key and node
the parser admits lies inside it): the model's maps are closures that grow with every update (`upd`, `delKeys`,
`expire` wrap the previous map), so without this a lookup after `tick 3600` walks 3600 closures. -/
def compact (s : St) : St :=
  let tbl := slotUniverse.filterMap fun k => (s.cache k).map fun e => (k, e)
  let rows := (List.range (maxKeyIdx + 1)).filterMap fun pk => (s.rows pk).map fun v => (pk, v)
  let idx := (List.range (maxKeyIdx + 1)).filterMap fun a => (s.idx a).map fun v => (a, v)
  { s with cache := fun k => (tbl.find? (·.1 = k)).map (·.2),
           rows := fun pk => (rows.find? (·.1 = pk)).map (·.2),
           idx := fun a => (idx.find? (·.1 = a)).map (·.2) }

/-- observation of a concurrent read, reduced to the shape of a sequential one for the monitor. -/
def concObs (toks : List String) : List String :=
  (toks.filter fun t => !(t.startsWith "inflight=" || t.startsWith "distinct=")).map
    fun t => if t = "q=ok" then "q=1" else t

/-- `cmix p0+p1 n=<n> chain=<0|1> gmp=<0|1> [j=] [db=1]`: keys, readers, chained second read, draw, database fault. -/
def parseCmix : List String → Option (List CKey × Nat × Bool × Nat × Bool)
  | "cmix" :: ks :: rest => do
    let keys ← (ks.splitOn "+").mapM parseKey
    if keys = [] ∨ keys.any (fun k => match k with | .p _ => false | _ => true) then none
    let n ← (kv? rest "n").bind String.toNat?
    let chain ← match kv? rest "chain" with | some "1" => some true | some "0" => some false | none => some false | _ => none
    if n = 0 ∨ n > 16 then none
    pure (keys, n, chain, ← optJ rest, ← optDb rest)
  | _ => none

/-- `reads=<reader>/<key>/<res>,…` (`-` = a read that did not take place: its reader panicked before). -/
def parseReads (t : String) : Option (List (Nat × CKey × String)) :=
  ((t.splitOn ",").filter (· ≠ "-")).mapM fun e => match e.splitOn "/" with
    | [r, k, res] => do pure (← r.toNat?, ← parseKey k, res)
    | _ => none

/-- `loads=<key>/<count|ok>/<res>,…|-`. -/
def parseLoads (t : String) : Option (List (CKey × String × String)) :=
  if t = "-" then some [] else
  (t.splitOn ",").mapM fun e => match e.splitOn "/" with
    | [k, n, res] => do pure (← parseKey k, n, res)
    | _ => none

def showSlot (s : St) (k : Slot) : Option String :=
  (s.cache k).map fun e => s!"{k.1}/{showKey k.2}={showVal e.val}@" ++ (if e.ttl = 0 then "inf" else toString e.ttl)

def pkOf : CKey → Nat
  | .p n => n | .x n => n

/-- `ctx=pre`: the caller's context is cancelled before the call — every cache command of the operation fails in the
client (it never reaches a server, so the harness cannot list it): the model runs the op with every command failing. -/
def allFail : List Bool := List.replicate 8 true

def preOp : Op → Op
  | .take pk j _ d => .take pk j allFail d
  | .qindex a j _ d => .qindex a j allFail d
  | .get k _ => .get k allFail
  | .exec ks w _ d => .exec ks w (List.replicate maxNodes allFail) d
  | .del ks _ => .del ks (List.replicate maxNodes allFail)
  | .set k v e j _ => .set k v e j allFail
  | o => o

/-- the observation of such an op with the commands the client refused filled in from the model, and the context
error named as what it is for the cache layer: a failing cache command. -/
def preObs (cmds : String) (toks : List String) : List String :=
  toks.map fun t => if t = "err:context_canceled" then "cacheerr" else if t = "cmds=-" then cmds else t

def runSection (r : Report) (sec : Section) : Report := Id.run do
  let nodes := kvNat sec.cfg "nodes" 1
  let typ := kvStr sec.cfg "type" "node"
  let report := kvStr sec.cfg "stale" "carve" = "report"
  let mut r := r
  let place ← match parsePlace (kvStr sec.cfg "place" "-") nodes with
    | some l => pure l
    | none =>
      r := r.mismatch sec.idx 0 "bad-cfg" (joinSp sec.cfg)
      pure []
  if nodes = 0 || nodes > maxNodes || !(typ = "node" || typ = "cluster") then
    return r.mismatch sec.idx 0 "bad-cfg" (joinSp sec.cfg)
  let insts : List (Spec.InstKind × Options) ← match parseInsts sec.cfg with
    | some (i :: is) => pure (i :: is)
    | _ =>
      r := r.mismatch sec.idx 0 "bad-cfg" (joinSp sec.cfg)
      pure [(.conn, {})]
  if nodes ≠ 1 ∧ insts.any (·.1 = .node) then
    return r.mismatch sec.idx 0 "bad-cfg" (joinSp sec.cfg)
  let kinds := insts.map (·.1)
  -- every instance runs over the same servers with the same dispatch; its options are its own
  let cfgs : List Cfg := insts.map fun i => { Cfg.ofOptions i.2 with cluster := typ = "cluster", place := placeOf place }
  let c0 : Cfg := cfgs.headD { exp := 1, nf := 1 }
  r := r.addCover s!"section-nodes-{nodes}-{typ}"
  r := r.addCover s!"section-instances-{insts.length}"
  r := r.addCover (let b := kvNat sec.cfg "pkbase" 0
    if b = 0 then "primary-keys-small" else if b < 9007199254740992 then "primary-keys-from-10^6" else "primary-keys-above-2^53")
  for i in insts do
    r := r.addCover s!"instance-{kindName i.1}"
    r := r.addCover (optClass "exp" i.2.expiry)
    r := r.addCover (optClass "nf" i.2.notFound)
  if insts.any (fun i => i.2 ≠ (insts.headD (.conn, {})).2) then r := r.addCover "instances-with-different-options"
  if (kinds.map Spec.InstKind.barrier).eraseDups.length ≥ 2 then r := r.addCover "instances-with-different-barriers"
  if (kinds.filter fun k => k.barrier = .sqlcPkg).length ≥ 2 then r := r.addCover "instances-sharing-the-package-barrier"
  let mut s := St.init
  let mut mon := Spec.Mon.init
  let mut writer : List (CKey × Nat) := []      -- cover only: the instance that last wrote the entry of a key
  for l in sec.lines do
    if l.op.head? = some "insts" then
      -- what the constructors built (no cache command, no model step)
      r := { r with ops := r.ops + 1 }
      r := r.addCover "insts"
      let model := joinSp (["ok", "q=0", "cmds=-"] ++ (expectedInsts nodes kinds).splitOn " " ++ ["|"] ++ showDump s)
      let impl := joinSp l.obs
      match parseInstObs l.obs with
      | none => r := r.violation sec.idx l.idx s!"unreadable observation [{impl}] op=[insts]"
      | some (ks, bars) =>
        for v in Spec.instClauses nodes kinds ks bars do r := r.violation sec.idx l.idx s!"{v} op=[insts] cfg=[{joinSp sec.cfg}] impl=[{impl}]"
      if model ≠ impl then r := r.mismatch sec.idx l.idx model impl
      continue
    if l.op.head? = some "cmix" then
      -- concurrent readers of several keys (round 5): the model is one fault-free Take per distinct key, in the
      -- order the keys are named; the leader of every key's flight is any of the instances (its options decide
      -- the TTL): the candidate whose entry the servers show is taken
      r := { r with ops := r.ops + 1 }
      r := r.addCover "cmix"
      let impl := joinSp l.obs
      match parseCmix l.op, parseVia l.op with
      | some (ks, n, chain, j, dbf), some via =>
        if via = [] ∨ via.any (· ≥ cfgs.length) then
          r := r.mismatch sec.idx l.idx "bad-op" (joinSp l.op)
          continue
        let multi := Spec.classesOf kinds via > 1
        let implDump := (l.obs.dropWhile (· ≠ "|")).drop 1
        r := r.addCover s!"cmix-keys-{ks.eraseDups.length}"
        if chain then r := r.addCover "cmix-chained-second-read"
        if l.op.contains "gmp=1" then r := r.addCover "cmix-one-P" else r := r.addCover "cmix-many-Ps"
        if dbf then r := r.addCover "cmix-database-fault"
        if multi then r := r.addCover "cmix-across-barrier-classes"
        if via.eraseDups.length ≥ 2 then r := r.addCover "cmix-across-instances"
        let keyAt (i : Nat) : CKey := ks.getD (i % ks.length) (.p 0)
        -- the keys that are read at all (fewer readers than keys: the rest is never asked for)
        let readKeys : List CKey := (List.range n).flatMap fun i => [keyAt i] ++ (if chain then [keyAt (i + 1)] else [])
        if readKeys.eraseDups.length < ks.eraseDups.length then r := r.addCover "cmix-fewer-readers-than-keys"
        let mut ms := s
        let mut per : List (CKey × Cfg × Res × Nat) := []
        for k in ks.eraseDups.filter (readKeys.contains ·) do
          let cands := via.eraseDups.map fun i =>
            let c := cfgs.getD i c0
            (c, step c ms (.take (pkOf k) j [] dbf))
          let fits (m : Cfg × St × Out) : Bool := match showSlot m.2.1 (m.1.slot k) with
            | some t => implDump.contains t
            | none => true
          let pick := (cands.find? fits).getD (cands.headD (c0, ms, { res := .ok }))
          per := per ++ [(k, pick.1, pick.2.2.res, pick.2.2.q)]
          r := r.addCover (if pick.2.2.q = 0 then "cmix-key-cached" else
            match pick.2.2.res with | .notfound => "cmix-key-absent-row" | .dberr => "cmix-key-dberr" | _ => "cmix-key-loaded")
          ms := pick.2.1
        let resOf (k : CKey) : String := match per.find? (·.1 = k) with
          | some e => showRes e.2.2.1
          | none => "?"
        let expReads : List String := (List.range n).flatMap fun i =>
          [s!"{i}/{showKey (keyAt i)}/{resOf (keyAt i)}"]
            ++ (if chain then [s!"{i}/{showKey (keyAt (i + 1))}/{resOf (keyAt (i + 1))}"] else [])
        let qsum := (per.map (·.2.2.2)).foldl (· + ·) 0
        let expLoads : List String := per.filterMap fun e =>
          if e.2.2.2 = 0 then none
          else some s!"{showKey e.1}/{if dbf || multi then "ok" else toString e.2.2.2}/{showRes e.2.2.1}"
        let model := joinSp (["ok", (if (dbf || multi) && qsum ≥ 1 then "q=ok" else s!"q={qsum}"), "cmds=-",
            s!"inflight={if qsum ≥ 1 then 1 else 0}", "reads=" ++ ",".intercalate expReads,
            "loads=" ++ (if expLoads = [] then "-" else ",".intercalate expLoads), "|"] ++ showDump ms)
        -- the monitor: the property's clauses on the implementation's own observation
        match (kv? l.obs "reads").bind parseReads, (kv? l.obs "loads").bind parseLoads, implDump.mapM parseObsEntry with
        | some reads, some loads, some cur =>
          if l.obs.head? ≠ some "ok" then
            r := r.violation sec.idx l.idx s!"single-loader: concurrent readers did not all return: {l.obs.headD "?"} op=[{joinSp l.op}] impl=[{impl}]"
          for v in Spec.cmixClauses c0 mon.prev (kvNat l.obs "inflight" 99) reads (loads.map fun e => (e.1, e.2.2)) do
            r := r.violation sec.idx l.idx s!"{v} op=[{joinSp l.op}] impl=[{impl}]"
          -- the sequential clauses (coherent, served, dberr, ttl, dispatch, persistent key) key by key
          let mut done : List Slot := []
          for e in per do
            let k := e.1
            done := done ++ [e.2.1.slot k]
            let last := done.length = per.length
            let dumpK := if last then cur else Spec.mixDump mon.prev cur done
            let resK : Res := match reads.find? (fun x => x.2.1 = k && !x.2.2.startsWith "PANIC") with
              | some x => (parseRes x.2.2).getD e.2.2.1
              | none => e.2.2.1
            let qK : Nat := match loads.find? (·.1 = k) with
              | some x => (x.2.1.toNat?).getD 1
              | none => 0
            let m := Spec.monStep e.2.1 report mon (.take (pkOf k) j [] dbf) 0 ⟨resK, qK, [], dumpK⟩
            for v in m.2.1 do r := r.violation sec.idx l.idx s!"{v} op=[{joinSp l.op}] key={showKey k} impl=[{impl}]"
            for t in m.2.2 do r := r.addCover t
            mon := m.1
        | _, _, _ => r := r.violation sec.idx l.idx s!"unreadable observation [{impl}] op=[{joinSp l.op}]"
        if model ≠ impl then r := r.mismatch sec.idx l.idx model impl
        s := compact ms
      | _, _ => r := r.mismatch sec.idx l.idx "bad-op" (joinSp l.op)
      continue
    if (l.obs.headD "").startsWith "err:primary-key-decoded-as-" then
      -- clause `decode`: the number an index entry holds must arrive as the same value on every decode path of doTake
      -- (the leader's own query, a cache hit, a follower of a shared flight): same dynamic type class (integer /
      -- json.Number, never a float) and the same %v text, so that every reader builds the same primary cache key
      r := { r with ops := r.ops + 1 }
      r := r.violation sec.idx l.idx s!"decode: the primary key derived from the index entry is not the number the database reported (it must be the same on the leader, follower and cache-hit path of doTake): {l.obs.headD ""} op=[{joinSp l.op}] cfg=[{joinSp sec.cfg}] impl=[{joinSp l.obs}]"
      continue
    if (l.obs.headD "").startsWith "PANIC" && l.op.head? ≠ some "ctake" && l.op.head? ≠ some "cqindex" then
      -- the real code panicked under this operation although no user-supplied function of THIS operation did
      -- (a query function that panics is caught by the harness and printed `panicked`): e.g. a key left unreadable
      -- by an earlier panicking query (the flight's call never removed), a foreign object handed out by a barrier
      r := { r with ops := r.ops + 1 }
      r := r.violation sec.idx l.idx s!"released: the operation panicked inside the cache layer (no user-supplied function panicked in it; after a failed or panicking load the key must stay readable): {joinSp l.obs} op=[{joinSp l.op}]"
      continue
    match parseOp l.op, parseVia l.op with
    | none, _ | _, none => r := r.mismatch sec.idx l.idx "bad-op" (joinSp l.op)
    | some (op, n), some via =>
      let conc := n = 0
      let isPre := !conc && kv? l.op "ctx" = some "pre" && !l.op.contains "nc=1"
      let lctx := conc && l.op.contains "lctx=1"
      let op := if isPre then preOp op else op
      let obsToks : List String :=
        if isPre then
          let c := cfgs.getD (via.headD 0) c0
          let res := iterStep c s op n (s, { res := .ok })
          preObs s!"cmds={showCmds (canonCmds (opKind op) res.2.cmds)}" l.obs
        else if lctx then l.obs.map fun t => if t = "err:context_canceled" then "dberr" else t
        else l.obs
      if lctx then r := r.addCover "concurrent-readers-leader-context-cancelled-inside-the-query"
      if via = [] ∨ via.any (· ≥ cfgs.length) ∨ (!conc ∧ via.length ≠ 1) then
        r := r.mismatch sec.idx l.idx "bad-op" (joinSp l.op)
        continue
      r := { r with ops := r.ops + 1 }
      r := r.addCover (opKind op)
      if via.any (· > 0) then r := r.addCover "op-through-a-later-instance"
      if l.op.contains "nc=1" then r := r.addCover s!"context-free-wrapper-{opKind op}"
      -- the caller's context (round 5b): the model has no such input — nothing an entry point leaves behind may depend on it
      match kv? l.op "ctx" with
      | some "after" => r := r.addCover s!"ctx-cancelled-after-return-{opKind op}"
      | some "dl0" => r := r.addCover s!"ctx-deadline-before-first-retry-{opKind op}"
      | some "bg" | none => pure ()
      | some k => r := r.addCover (if k = "pre" then s!"ctx-cancelled-before-call-{opKind op}" else s!"ctx-deadline-between-or-after-retries-{opKind op}")
      if (kv? l.op "ctx").isSome && (kv? l.op "ctx") ≠ some "bg" && (l.obs.any fun t => t.startsWith "cmds=" && (t.splitOn "del/").length > 1 && (t.splitOn ":fail").length > 1) then
        r := r.addCover "failed-del-under-a-request-scoped-context"
      let dbf := match op with | .take _ _ _ d => d | .qindex _ _ _ d => d | _ => false
      let multi := Spec.classesOf kinds via > 1
      let impl := joinSp obsToks
      -- `db=2` / `db=3`: the query function panics; for the model and the monitor that is a failing database call
      -- (nothing cached, no result), printed `panicked` instead of `dberr`
      let pan := !conc && (l.op.contains "db=2" || l.op.contains "db=3" || l.op.contains "db=4")
      if pan then r := r.addCover (if l.op.contains "db=2" then "query-panics-with-error-value"
        else if l.op.contains "db=3" then "query-panics-with-non-error-value" else "query-calls-runtime-Goexit")
      let panTxt (t : String) : String := if pan && t.startsWith "dberr " then "panicked " ++ (t.drop 6).toString else t
      let unPan (toks : List String) : List String := match toks with
        | "panicked" :: rest => if pan then "dberr" :: rest else toks
        | _ => toks
      -- the model of the operation under the options of instance `i`
      let modelOf (i : Nat) : Cfg × (St × Out) × String :=
        let c := cfgs.getD i c0
        let res := iterStep c s op (if conc then 1 else n) (s, { res := .ok })
        let txt := if conc then
            -- single loader: one query in flight at most per barrier, every reader gets the same result; under a
            -- database fault every reader that is not sharing a flight re-queries (1 ≤ q ≤ n), with several barrier
            -- classes every class loads at most once (1 ≤ q ≤ #classes): both printed as `ok`
            joinSp ([showRes res.2.res, (if (dbf || multi) && res.2.q = 1 then "q=ok" else s!"q={res.2.q}"), "cmds=-",
                     s!"inflight={res.2.q}", "distinct=1", "|"] ++ showDump res.1)
          else panTxt (joinSp (showOut (opKind op) res.1 res.2))
        (c, res, txt)
      -- concurrent readers over instances with different options: the leader's options decide what is written
      let cands := via.map modelOf
      let pick := (cands.find? fun m => m.2.2 = impl).getD (modelOf (via.headD 0))
      let c := pick.1
      let res := pick.2.1
      let model := pick.2.2
      if conc then
        r := r.addCover (if l.op.head? = some "cqindex" then "concurrent-index-readers" else "concurrent-readers")
        if via.eraseDups.length ≥ 2 then r := r.addCover "concurrent-readers-across-instances"
        if multi then r := r.addCover "concurrent-readers-across-barrier-classes"
        if via.eraseDups.length ≥ 2 ∧ !multi ∧ res.2.q = 1 then r := r.addCover "concurrent-load-across-instances-one-barrier"
        if kvNat l.obs "inflight" 99 > 1 then
          r := r.violation sec.idx l.idx s!"single-loader: more than one database query in flight for one key among instances that promise one barrier op=[{joinSp l.op}] cfg=[{joinSp sec.cfg}] impl=[{impl}]"
        if (l.obs.headD "").startsWith "PANIC" then
          r := r.violation sec.idx l.idx s!"single-loader: a concurrent reader of one key panicked instead of receiving the result of its flight: {l.obs.headD ""} op=[{joinSp l.op}] impl=[{impl}]"
        if kvNat l.obs "distinct" 99 ≠ 1 then
          r := r.violation sec.idx l.idx s!"single-loader: concurrent readers received different results op=[{joinSp l.op}] impl=[{impl}]"
      for t in coverOf c s res.1 op res.2 do r := r.addCover t
      -- cover: entries of one instance served to / invalidated by another
      let me := via.headD 0
      match op with
      | .take pk .. =>
        if !conc then
          if res.2.q = 0 && (match res.2.res with | .val _ => true | .notfound => true | _ => false) then
            match writer.find? (·.1 = .p pk) with
            | some w => if w.2 ≠ me then r := r.addCover "hit-on-entry-written-by-another-instance"
            | none => pure ()
          if res.2.q = 1 then writer := (CKey.p pk, me) :: writer.filter (·.1 ≠ .p pk)
      | .exec ks _ _ false | .del ks _ =>
        if ks.any (fun k => (s.cache (c.slot k)).isSome && (match writer.find? (·.1 = k) with | some w => w.2 != me | none => false)) then
          r := r.addCover "invalidate-entry-written-by-another-instance"
      | .set k .. => writer := (k, me) :: writer.filter (·.1 ≠ k)
      | _ => pure ()
      if l.op.contains "w=1" && res.2.res = .notfound && res.2.q ≥ 1 then r := r.addCover "notfound-error-wrapped"
      if model ≠ impl then r := r.mismatch sec.idx l.idx model impl
      match parseObs (if conc then concObs obsToks else unPan obsToks) with
      | none => r := r.violation sec.idx l.idx s!"unreadable observation [{impl}] op=[{joinSp l.op}]"
      | some o =>
        let m := Spec.monStep c report mon op n o
        for v in m.2.1 do r := r.violation sec.idx l.idx s!"{v} op=[{joinSp l.op}] impl=[{impl}]"
        for t in m.2.2 do r := r.addCover t
        mon := m.1
      s := compact res.1
  return r

def driver (secs : List Section) : Report := secs.foldl runSection {}

end GoZero.C06
