/-
C06 — driver: replays an implementation trace through the model (correspondence: result, database calls,
cache commands with their outcome, complete cache dump with TTLs after every operation) and through the
monitor of Spec.lean (the property's clauses on the implementation's own observations).

Ops (see harness/overlay/core/stores/sqlc/zz_verif_c06_test.go):
  take p<pk> [j=] [c=<mask>] [db=1] | qindex x<a> … | get <key> [c=] | exec <keys|-> put:<pk>:<v>:<a>|rm:<pk> [c=] [db=1]
  del <keys|-> [c=] | set <key> <val> [j=] [c=] | setx <key> <val> <ms> [j=] [c=] | raw <key> <val> <ttl-ms>
  ft <ms> | tick <n> c=<0|1>
Obs:  <res> q=<n> cmds=<cmd:ok|fail,…|-> | <key>=<val>@<ttl-ms> …
-/
import GoZero.Base.Trace
import GoZero.C06.Spec
namespace GoZero.C06

open GoZero

def maxKeyIdx : Nat := 7

def parseKey (t : String) : Option CKey :=
  match t.toList with
  | 'p' :: r => do let n ← (String.ofList r).toNat?; if n ≤ maxKeyIdx then some (.p n) else none
  | 'x' :: r => do let n ← (String.ofList r).toNat?; if n ≤ maxKeyIdx then some (.x n) else none
  | _ => none

def parseKeys (t : String) : Option (List CKey) :=
  if t = "-" then some [] else (t.splitOn ",").mapM parseKey

def parseVal (t : String) : Option CVal :=
  match t.splitOn ":" with
  | ["*"] => some .ph
  | ["r", a, b, c] => do pure (.row (← a.toNat?) (← b.toNat?) (← c.toNat?))
  | ["k", n] => do pure (.pk (← n.toNat?))
  | ["j", n] => do pure (.junk (← n.toNat?))
  | _ => none

def parseMask (t : String) : Option (List Bool) :=
  t.toList.mapM fun ch => if ch = '0' then some false else if ch = '1' then some true else none

def optMask (toks : List String) : Option (List Bool) :=
  match kv? toks "c" with
  | some v => parseMask v
  | none => some []

def optJ (toks : List String) : Option Nat :=
  match kv? toks "j" with
  | some v => do let n ← v.toNat?; if n ≤ 1000 then some n else none
  | none => some 500

def optDb (toks : List String) : Option Bool :=
  match kv? toks "db" with
  | some "1" => some true
  | some "0" => some false
  | some _ => none
  | none => some false

def parseWrite (t : String) : Option Write :=
  match t.splitOn ":" with
  | ["put", a, b, c] => do
    let pk ← a.toNat?
    let ix ← c.toNat?
    if pk ≤ maxKeyIdx ∧ ix ≤ maxKeyIdx then pure (.put pk (← b.toNat?) ix) else none
  | ["rm", a] => do let pk ← a.toNat?; if pk ≤ maxKeyIdx then pure (.rm pk) else none
  | _ => none

/-- value kinds an explicit set may carry for a key (a row under a primary key, a number under an index key). -/
def setAllowed : CKey → CVal → Bool
  | .p _, .row _ _ _ => true
  | .x _, .pk _ => true
  | _, _ => false

/-- an op line: the model operation and how many times it is repeated (`tick n`). -/
def parseOp : List String → Option (Op × Nat)
  | "take" :: k :: rest => do
    match ← parseKey k with
    | .p pk => pure (.take pk (← optJ rest) (← optMask rest) (← optDb rest), 1)
    | _ => none
  | "ctake" :: k :: rest => do
    -- concurrent readers of one key: the model is one fault-free Take; repeat count 0 marks the op
    match ← parseKey k with
    | .p pk => pure (.take pk (← optJ rest) [] (← optDb rest), 0)
    | _ => none
  | "qindex" :: k :: rest => do
    match ← parseKey k with
    | .x a => pure (.qindex a (← optJ rest) (← optMask rest) (← optDb rest), 1)
    | _ => none
  | "get" :: k :: rest => do pure (.get (← parseKey k) (← optMask rest), 1)
  | "exec" :: ks :: w :: rest => do
    pure (.exec (← parseKeys ks) (← parseWrite w) (← optMask rest) (← optDb rest), 1)
  | "del" :: ks :: rest => do pure (.del (← parseKeys ks) (← optMask rest), 1)
  | "set" :: k :: v :: rest => do
    let k ← parseKey k
    let v ← parseVal v
    if setAllowed k v then pure (.set k v none (← optJ rest) (← optMask rest), 1) else none
  | "setx" :: k :: v :: ms :: rest => do
    let k ← parseKey k
    let v ← parseVal v
    if setAllowed k v then pure (.set k v (some (← ms.toInt?)) (← optJ rest) (← optMask rest), 1) else none
  | ["raw", k, v, t] => do
    let t ← t.toNat?
    if t = 0 then none else pure (.raw (← parseKey k) (← parseVal v) t, 1)
  | ["ft", ms] => do pure (.ft (← ms.toNat?), 1)
  | "tick" :: n :: rest => do
    let m ← optMask rest
    match m with
    | [b] => pure (.tick b, ← n.toNat?)
    | _ => none
  | _ => none

/-! ### printing -/

def showKey : CKey → String
  | .p n => s!"p{n}"
  | .x n => s!"x{n}"

def showVal : CVal → String
  | .ph => "*"
  | .row a b c => s!"r:{a}:{b}:{c}"
  | .pk n => s!"k:{n}"
  | .junk n => s!"j:{n}"

def showRes : Res → String
  | .ok => "ok"
  | .val v => "val:" ++ showVal v
  | .notfound => "notfound"
  | .dberr => "dberr"
  | .cacheerr => "cacheerr"

def showCmd : Cmd × Bool → String
  | (c, f) => (match c with | .get => "get" | .set => "set" | .setnx => "setnx" | .del => "del") ++ (if f then ":fail" else ":ok")

def showCmds (l : List (Cmd × Bool)) : String :=
  if l = [] then "-" else ",".intercalate (l.map showCmd)

def keyUniverse : List CKey := (List.range (maxKeyIdx + 1)).map .p ++ (List.range (maxKeyIdx + 1)).map .x

def showDump (s : St) : List String :=
  keyUniverse.filterMap fun k => match s.cache k with
    | some e => some s!"{showKey k}={showVal e.val}@{e.ttl}"
    | none => none

def showOut (s : St) (o : Out) : List String :=
  [showRes o.res, s!"q={o.q}", s!"cmds={showCmds o.cmds}", "|"] ++ showDump s

/-! ### parsing the observation -/

def parseRes (t : String) : Option Res :=
  if t = "ok" then some .ok
  else if t = "notfound" then some .notfound
  else if t = "dberr" then some .dberr
  else if t = "cacheerr" then some .cacheerr
  else if t.startsWith "val:" then (parseVal (t.drop 4).toString).map .val
  else none

def parseCmd (t : String) : Option (Cmd × Bool) :=
  match t.splitOn ":" with
  | [c, r] => do
    let c ← match c with | "get" => some Cmd.get | "set" => some .set | "setnx" => some .setnx | "del" => some .del | _ => none
    let r ← match r with | "ok" => some false | "fail" => some true | _ => none
    pure (c, r)
  | _ => none

def parseObsEntry (t : String) : Option Spec.Obs :=
  match t.splitOn "=" with
  | [k, rest] => match rest.splitOn "@" with
    | [v, ttl] => do
      let k ← parseKey k
      let v ← parseVal v
      let ttl ← if ttl = "inf" then some none else ttl.toNat?.map some
      pure ⟨k, v, ttl⟩
    | _ => none
  | _ => none

def parseObs (toks : List String) : Option Spec.ObsLine :=
  match toks with
  | r :: q :: c :: "|" :: dump => do
    let res ← parseRes r
    let q ← (kv? [q] "q").bind String.toNat?
    let cs ← kv? [c] "cmds"
    let cmds ← if cs = "-" then some [] else (cs.splitOn ",").mapM parseCmd
    let d ← dump.mapM parseObsEntry
    pure ⟨res, q, cmds, d⟩
  | _ => none

/-! ### replay -/

def iterStep (c : Cfg) (s : St) (op : Op) : Nat → St × Out → St × Out
  | 0, acc => acc
  | n + 1, acc =>
    let r := step c acc.1 op
    iterStep c s op n (r.1, { res := r.2.res, q := acc.2.q + r.2.q, cmds := acc.2.cmds ++ r.2.cmds })

def opKind : Op → String
  | .take .. => "take" | .qindex .. => "qindex" | .get .. => "get" | .exec .. => "exec" | .del .. => "del"
  | .set _ _ none _ _ => "set" | .set _ _ (some e) _ _ => if e ≤ 0 then "setx-nonpositive" else "setx"
  | .raw .. => "raw" | .ft .. => "ft" | .tick cf => if cf then "tick-failing" else "tick"

def coverOf (s s' : St) (op : Op) (o : Out) : List String :=
  let f := if o.cmds.any (·.2) then ["cmd-fault"] else []
  let r := match o.res with
    | .ok => [] | .val _ => ["res-val"] | .notfound => ["res-notfound"] | .dberr => ["res-dberr"] | .cacheerr => ["res-cacheerr"]
  let t := if s'.tasks.length > s.tasks.length then ["clean-task-armed"] else []
  let g := if s'.gaveUp > s.gaveUp then ["cleaner-gave-up"] else []
  let d := match op with
    | .tick _ => (if o.cmds ≠ [] then ["tick-retry-ran"] else [])
    | .ft _ => if keyUniverse.any (fun k => (s.cache k).isSome && (s'.cache k).isNone) then ["ft-expired"] else []
    | .take .. | .qindex .. => (if o.cmds.any (· = (.del, false)) || o.cmds.any (· = (.del, true)) then ["junk-reload"] else [])
        ++ (if o.cmds.any (·.1 = .setnx) then ["placeholder-write"] else [])
    | _ => []
  let st := if keyUniverse.any (fun k => match s'.cache k with | some e => e.origin = .stale | none => false) then ["state-has-stale-entry"] else []
  f ++ r ++ t ++ g ++ d ++ st

/-- observation of a concurrent read, reduced to the shape of a sequential one for the monitor. -/
def concObs (toks : List String) : List String :=
  (toks.filter fun t => !(t.startsWith "inflight=" || t.startsWith "distinct=")).map
    fun t => if t = "q=ok" then "q=1" else t

def runSection (r : Report) (sec : Section) : Report := Id.run do
  let c := Cfg.ofOptions (kvNat sec.cfg "exp" 0) (kvNat sec.cfg "nf" 0)
  let report := kvStr sec.cfg "stale" "carve" = "report"
  let mut s := St.init
  let mut mon := Spec.Mon.init
  let mut r := r
  for l in sec.lines do
    match parseOp l.op with
    | none => r := r.mismatch sec.idx l.idx "bad-op" (joinSp l.op)
    | some (op, n) =>
      r := { r with ops := r.ops + 1 }
      r := r.addCover (opKind op)
      let conc := n = 0
      let res := iterStep c s op (if conc then 1 else n) (s, { res := .ok })
      let dbf := match op with | .take _ _ _ d => d | _ => false
      let model := if conc then
          -- single loader: one query in flight at most, every reader gets the same result; under a database
          -- fault every reader that is not sharing a flight re-queries (1 ≤ q ≤ n, printed as `ok`)
          joinSp ([showRes res.2.res, (if dbf && res.2.q = 1 then "q=ok" else s!"q={res.2.q}"), "cmds=-",
                   s!"inflight={res.2.q}", "distinct=1", "|"] ++ showDump res.1)
        else joinSp (showOut res.1 res.2)
      let impl := joinSp l.obs
      if conc then
        r := r.addCover "concurrent-readers"
        if kvNat l.obs "inflight" 99 > 1 then
          r := r.violation sec.idx l.idx s!"single-loader: more than one database query in flight op=[{joinSp l.op}] impl=[{impl}]"
        if kvNat l.obs "distinct" 99 ≠ 1 then
          r := r.violation sec.idx l.idx s!"single-loader: concurrent readers received different results op=[{joinSp l.op}] impl=[{impl}]"
      for t in coverOf s res.1 op res.2 do r := r.addCover t
      if model ≠ impl then r := r.mismatch sec.idx l.idx model impl
      match parseObs (if conc then concObs l.obs else l.obs) with
      | none => r := r.violation sec.idx l.idx s!"unreadable observation [{impl}] op=[{joinSp l.op}]"
      | some o =>
        let m := Spec.monStep c report mon op n o
        for v in m.2.1 do r := r.violation sec.idx l.idx s!"{v} op=[{joinSp l.op}] impl=[{impl}]"
        for t in m.2.2 do r := r.addCover t
        mon := m.1
      s := res.1
  return r

def driver (secs : List Section) : Report := secs.foldl runSection {}

end GoZero.C06
