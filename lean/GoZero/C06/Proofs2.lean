/-
C06 — helper lemmas: fail-fast, served-from-cache, database errors, coherent reads, TTLs.
-/
import GoZero.C06.Proofs
namespace GoZero.C06

/-! ### fail fast -/

theorem takeP_failfast (c : Cfg) (s : St) (pk j : Nat) (m : List Bool) (dbf : Bool) (h : failAt m 0 = true) :
    takeP c s pk j m dbf = (s, { res := .cacheerr, q := 0, cmds := [⟨.get, c.place (.p pk), [.p pk], true⟩] }) := by
  unfold takeP; simp [getCache_fail s _ (.p pk) m h]

theorem qindex_failfast (c : Cfg) (s : St) (a j : Nat) (m : List Bool) (dbf : Bool) (h : failAt m 0 = true) :
    qindex c s a j m dbf = (s, { res := .cacheerr, q := 0, cmds := [⟨.get, c.place (.x a), [.x a], true⟩] }) := by
  unfold qindex; simp [getCache_fail s _ (.x a) m h]

/-! ### served from the cache -/

theorem takeP_served (c : Cfg) {s : St} {pk : Nat} {e : Entry} (j : Nat) {m : List Bool} (dbf : Bool)
    (he : s.cache (c.slot (.p pk)) = some e) (hl : e.val = .ph ∨ parses (.p pk) e.val = true) (hf : failAt m 0 = false) :
    takeP c s pk j m dbf =
      (s, { res := if e.val = .ph then .notfound else .val e.val, q := 0,
            cmds := [⟨.get, c.place (.p pk), [.p pk], false⟩] }) := by
  unfold takeP
  rw [getCache_live he hl hf]
  by_cases hv : e.val = .ph <;> simp [hv]

theorem qindex_served_placeholder (c : Cfg) {s : St} {a : Nat} {e : Entry} (j : Nat) {m : List Bool} (dbf : Bool)
    (he : s.cache (c.slot (.x a)) = some e) (hv : e.val = .ph) (hf : failAt m 0 = false) :
    qindex c s a j m dbf = (s, { res := .notfound, q := 0, cmds := [⟨.get, c.place (.x a), [.x a], false⟩] }) := by
  unfold qindex
  rw [getCache_live he (Or.inl hv) hf]
  simp [hv]

/-- index entry cached and primary entry cached: both GETs, no database call, state untouched. -/
theorem qindex_served (c : Cfg) {s : St} {a n : Nat} {e e' : Entry} (j : Nat) {m : List Bool} (dbf : Bool)
    (he : s.cache (c.slot (.x a)) = some e) (hv : e.val = .pk n)
    (he' : s.cache (c.slot (.p n)) = some e') (hl : e'.val = .ph ∨ parses (.p n) e'.val = true)
    (hf : failAt m 0 = false) (hf' : failAt m 1 = false) :
    qindex c s a j m dbf =
      (s, { res := if e'.val = .ph then .notfound else .val e'.val, q := 0,
            cmds := [⟨.get, c.place (.x a), [.x a], false⟩, ⟨.get, c.place (.p n), [.p n], false⟩] }) := by
  unfold qindex
  have hp : parses (.x a) e.val = true := by simp [hv, parses]
  rw [getCache_live he (Or.inr hp) hf]
  have hf2 : failAt (m.drop 1) 0 = false := by
    simpa [failAt, List.getD, List.getElem?_drop] using hf'
  simp only [hv]
  simp only [show (CVal.pk n = CVal.ph) = False from by simp, if_false, List.length_cons, List.length_nil]
  rw [takeP_served c j dbf he' hl hf2]
  by_cases hv' : e'.val = .ph <;> simp [hv']

/-! ### database errors are returned and never cached -/

theorem setex_fail_or (s : St) (k v t o f) (k' : Slot) :
    (setex s k v t o f).cache k' = s.cache k' ∨ (k' = k ∧ (setex s k v t o f).cache k' = some ⟨v, t * 1000, o⟩) := by
  unfold setex
  split
  · exact Or.inl rfl
  · simp only [upd]
    by_cases h : k' = k <;> simp [h]

theorem takeP_dberr (c : Cfg) (s : St) (pk j : Nat) (m : List Bool) (dbf : Bool)
    (h : (takeP c s pk j m dbf).2.res = .dberr) :
    dbf = true ∧ (takeP c s pk j m dbf).2.q = 1 ∧ Shrinks s (takeP c s pk j m dbf).1 := by
  have hs := getCache_shrinks s (c.place (.p pk)) (.p pk) m
  unfold takeP at h ⊢
  simp only [] at h ⊢
  cases hg : (getCache s (c.place (.p pk)) (CKey.p pk) m).2.1 <;> simp only [hg] at h ⊢
  · cases h
  · cases h
  · cases h
  · cases dbf
    · simp only [Bool.false_eq_true, if_false] at h
      split at h <;> cases h
    · exact ⟨rfl, rfl, hs⟩

theorem qindex_dberr (c : Cfg) (s : St) (a j : Nat) (m : List Bool) (dbf : Bool)
    (h : (qindex c s a j m dbf).2.res = .dberr) :
    dbf = true ∧ (qindex c s a j m dbf).2.q = 1 ∧ Shrinks s (qindex c s a j m dbf).1 := by
  have hs := getCache_shrinks s (c.place (.x a)) (.x a) m
  unfold qindex at h ⊢
  simp only [] at h ⊢
  cases hg : (getCache s (c.place (.x a)) (CKey.x a) m).2.1 <;> simp only [hg] at h ⊢
  · cases h
  · cases h
  · rename_i v
    obtain ⟨e, he, _, _, hst⟩ := getCache_hit hg
    cases v <;> simp only [] at h ⊢
    · cases h
    · cases h
    · rw [hst] at h ⊢
      exact takeP_dberr c s _ j _ dbf h
    · cases h
  · cases dbf
    · simp only [Bool.false_eq_true, if_false] at h
      split at h
      · cases h
      · split at h <;> cases h
    · exact ⟨rfl, rfl, hs⟩

/-! ### coherent reads -/

theorem loaded_row_view {s : St} {pk : Nat} {v : CVal} (hp : parses (.p pk) v = true) (hv : v = dbView s (.p pk)) :
    Spec.expected s (.p pk) = .val v := by
  simp only [dbView] at hv
  simp only [Spec.expected]
  cases hr : dbRow s pk with
  | none => rw [hr] at hv; simp at hv; subst hv; simp [parses] at hp
  | some r => rw [hr] at hv; simp at hv; subst hv; rfl

theorem loaded_ph_view_p {s : St} {pk : Nat} (hv : CVal.ph = dbView s (.p pk)) :
    Spec.expected s (.p pk) = .notfound := by
  simp only [dbView] at hv
  simp only [Spec.expected]
  cases hr : dbRow s pk with
  | none => rfl
  | some r =>
    rw [hr] at hv; simp at hv
    unfold dbRow at hr
    split at hr <;> simp at hr
    subst hr; cases hv

/-- **coherent read through a primary key**: unless the GET fails (cache error) or the database call fails,
a Take whose cached entry — if there is one — is `loaded` returns exactly what the database holds. -/
theorem takeP_coherent (c : Cfg) {s : St} (hc : Coh s) (pk j : Nat) (m : List Bool) (dbf : Bool)
    (hl : ∀ e, s.cache (c.slot (.p pk)) = some e → e.origin = .loaded)
    (hf : failAt m 0 = false) (hd : dbf = false) :
    (takeP c s pk j m dbf).2.res = Spec.expected s (.p pk) := by
  unfold takeP
  simp only []
  split
  · rename_i hg
    unfold getCache at hg
    simp [hf] at hg
    repeat' split at hg
    all_goals simp at hg
  · rename_i hg
    obtain ⟨e, he, hv, _⟩ := getCache_placeholder hg
    simp only []
    exact (loaded_ph_view_p (hv ▸ hc _ e he (hl e he))).symm
  · rename_i v hg
    obtain ⟨e, he, hv, hp, _⟩ := getCache_hit hg
    simp only []
    exact (loaded_row_view hp (hv ▸ hc _ e he (hl e he))).symm
  · simp only [hd]
    simp only [Spec.expected]
    cases dbRow s pk <;> simp

theorem loaded_idx_view {s : St} {a n : Nat} (hv : CVal.pk n = dbView s (.x a)) :
    ∃ r, dbIndex s a = some r ∧ r.1 = n := by
  simp only [dbView] at hv
  cases hr : dbIndex s a with
  | none => rw [hr] at hv; cases hv
  | some r => rw [hr] at hv; simp at hv; exact ⟨r, rfl, hv.symm⟩

theorem loaded_ph_view_x {s : St} {a : Nat} (hv : CVal.ph = dbView s (.x a)) :
    Spec.expected s (.x a) = .notfound := by
  simp only [dbView] at hv
  simp only [Spec.expected]
  cases hr : dbIndex s a with
  | none => rfl
  | some r => rw [hr] at hv; cases hv

/-- **coherent read through an index key**: both entries consulted (the index entry, and the primary entry it
points to) are `loaded` if present; no cache command fails, the database call does not fail. -/
theorem qindex_coherent (c : Cfg) {s : St} (hc : Coh s) (a j : Nat) (m : List Bool) (dbf : Bool)
    (hl : ∀ e, s.cache (c.slot (.x a)) = some e → e.origin = .loaded)
    (hl' : ∀ e n e', s.cache (c.slot (.x a)) = some e → e.val = .pk n → s.cache (c.slot (.p n)) = some e' → e'.origin = .loaded)
    (hm : ∀ i, failAt m i = false) (hd : dbf = false) :
    (qindex c s a j m dbf).2.res = Spec.expected s (.x a) := by
  have hf := hm 0
  unfold qindex
  simp only []
  cases hg : (getCache s (c.place (.x a)) (CKey.x a) m).2.1 <;> (try simp only [])
  · unfold getCache at hg
    simp [hf] at hg
    repeat' split at hg
    all_goals simp at hg
  · obtain ⟨e, he, hv, _⟩ := getCache_placeholder hg
    exact (loaded_ph_view_x (hv ▸ hc _ e he (hl e he))).symm
  · rename_i v
    obtain ⟨e, he, hv, hp, hst⟩ := getCache_hit hg
    cases v <;> simp [parses] at hp
    rename_i n
    obtain ⟨r, hr, hrn⟩ := loaded_idx_view (hv ▸ hc _ e he (hl e he))
    simp only [hst]
    have hf2 : failAt (m.drop (getCache s (c.place (.x a)) (CKey.x a) m).2.2.length) 0 = false := by
      have := hm ((getCache s (c.place (.x a)) (CKey.x a) m).2.2.length)
      simpa [failAt, List.getD, List.getElem?_drop] using this
    rw [takeP_coherent c hc n j _ dbf (fun e' he' => hl' e n e' he hv he') hf2 hd]
    simp only [Spec.expected, hr]
    have := dbIndex_row hr
    rw [hrn] at this
    rw [this]
  · subst hd
    simp only [Bool.false_eq_true, if_false, Spec.expected, hm]
    cases hr : dbIndex s a with
    | none => rfl
    | some r => rfl

/-! ### TTLs -/

theorem ttlSec_in_range (e j : Nat) (hj : j ≤ 1000) (he : 0 < e) : Spec.inRange e (ttlSec e j) = true := by
  have h1 : 9500 * e ≤ (10500 - j) * e := Nat.mul_le_mul_right e (by omega)
  have h2 : (10500 - j) * e ≤ 10500 * e := Nat.mul_le_mul_right e (by omega)
  unfold Spec.inRange
  rw [decide_eq_true_eq]
  unfold Spec.ttlLo Spec.ttlHi ttlSec
  generalize (10500 - j) * e = x at *
  omega

theorem ttlSec_pos (e j : Nat) (hj : j ≤ 1000) (he : 0 < e) : 1 ≤ ttlSec e j := by
  have := ttlSec_in_range e j hj he
  unfold Spec.inRange at this
  rw [decide_eq_true_eq] at this
  exact this.2.2

theorem ceilSec_pos (ms : Nat) (h : 0 < ms) : 1 ≤ ceilSec ms := by
  unfold ceilSec; omega

theorem newOptionsMs_pos (e n : Int) : 0 < (newOptionsMs e n).1 ∧ 0 < (newOptionsMs e n).2 := by
  unfold newOptionsMs defaultExpiryMs defaultNotFoundExpiryMs
  constructor <;> (simp only []; split <;> omega)

theorem cfg_pos (o : Options) : 0 < (Cfg.ofOptions o).exp ∧ 0 < (Cfg.ofOptions o).nf :=
  newOptionsMs_pos _ _

/-- what a Take may change in the cache: only its own key; a written entry is `loaded`, holds the placeholder
with the not-found TTL or a row with the expiry TTL. -/
theorem takeP_writes (c : Cfg) (s : St) (pk j : Nat) (m : List Bool) (dbf : Bool) (k : Slot) :
    (takeP c s pk j m dbf).1.cache k = s.cache k ∨ (takeP c s pk j m dbf).1.cache k = none ∨
    (k = c.slot (.p pk) ∧ ((takeP c s pk j m dbf).1.cache k = some ⟨.ph, ttlSec c.nf j * 1000, .loaded⟩ ∨
                  ∃ r, dbRow s pk = some r ∧ (takeP c s pk j m dbf).1.cache k = some ⟨r, ttlSec c.exp j * 1000, .loaded⟩)) := by
  have hs := getCache_shrinks s (c.place (.p pk)) (.p pk) m k
  have base : (getCache s (c.place (.p pk)) (.p pk) m).1.cache k = s.cache k
      ∨ (getCache s (c.place (.p pk)) (.p pk) m).1.cache k = none := hs
  unfold takeP
  simp only []
  split
  · rcases base with h | h <;> simp [h]
  · rcases base with h | h <;> simp [h]
  · rcases base with h | h <;> simp [h]
  · split
    · rcases base with h | h <;> simp [h]
    · split
      · simp only [setnx]
        split
        · rcases base with h | h <;> simp [h]
        · split
          · rcases base with h | h <;> simp [h]
          · simp only [upd]
            by_cases hk : k = c.slot (.p pk)
            · simp [hk]
            · simp only [hk, if_false]
              rcases base with h | h <;> simp [h]
      · rename_i r hr
        rcases setex_fail_or (getCache s (c.place (.p pk)) (.p pk) m).1 (c.slot (.p pk)) r (ttlSec c.exp j) .loaded
          (failAt m (getCache s (c.place (.p pk)) (.p pk) m).2.2.length) k with h | ⟨hk, h⟩
        · rw [h]; rcases base with h | h <;> simp [h]
        · right; right; exact ⟨hk, Or.inr ⟨r, hr, h⟩⟩

end GoZero.C06
