/-
C06 — round 5b property theorems: the cleaner's retry of a failed DEL is independent of the writer's context.
Clause (2) "… until it expires or a write through Exec invalidates it": an Exec whose DEL failed has armed a retry;
when that retry's DEL is due and the node is up, the entry is gone — whatever became of the context the writer
called ExecCtx / DelCacheCtx with (request-scoped and cancelled, past its deadline, cancelled before the call).
-/
import GoZero.C06.Ctx
import GoZero.C06.Props
namespace GoZero.C06.Ctx
open GoZero.C06

/-- the tick of the store model under the per-task failure function (`dueSlots` / `tickTask` are the model's own). -/
def tickWith (fails : Nat → Bool) (s : St) : St :=
  { s with cache := delKeys s.cache (dueSlots fails s.tasks), tasks := s.tasks.filterMap (tickTask fails) }

/-- FOR EVERY fate of the writer's context, every age of the task and every outage pattern: a retry that is due
on a node that is up deletes every key of its task — the code's retry runs with a background context
(`Tie.tie_retryDelCtx`), so the failure function is the node's alone. -/
theorem retry_independent_of_writer_context (s : St) (down : Nat → Bool) (fate : Nat → Fate) (age : Nat → Nat)
    (t : Task) (ht : t ∈ s.tasks) (hd : t.rem ≤ 1) (hu : down t.node = false) (k : CKey) (hk : k ∈ t.keys) :
    (tickWith (effDown .background fate age down) s).cache (t.node, k) = none := by
  rw [effDown_background]
  have : (t.node, k) ∈ dueSlots down s.tasks := by
    unfold dueSlots
    simp only [List.mem_flatMap, List.mem_filter, decide_eq_true_eq]
    exact ⟨t, ⟨ht, hd, hu⟩, List.mem_map.mpr ⟨k, hk, rfl⟩⟩
  simp [tickWith, delKeys, this]

/-- … and it is the model's `tick` (the operation the driver replays) for every fate. -/
theorem tick_ignores_writer_context (s : St) (down : List Bool) (fate : Nat → Fate) (age : Nat → Nat) :
    (tickWith (effDown .background fate age (downOf down)) s).cache = (tick s down).1.cache
    ∧ (tickWith (effDown .background fate age (downOf down)) s).tasks = (tick s down).1.tasks := by
  rw [effDown_background]; exact ⟨rfl, rfl⟩

/-- WITNESS (what seeded change C06-9 does): if the retry captures the writer's context, then for a
request-scoped context (cancelled when the call returned), a context cancelled before the call, or a deadline
that has passed, the retry fails at EVERY tick on a perfectly healthy node … -/
theorem captured_context_fails_every_retry (f : Fate) (tick : Nat) (hf : f.aliveAt tick = false) :
    retryFails .captured f tick false = true := by
  simp [retryFails, hf]

/-- … so no tick ever deletes anything: the stale entry stays until its TTL ends. -/
theorem captured_dead_context_leaves_the_entry (s : St) (fate : Nat → Fate) (age : Nat → Nat) (down : Nat → Bool)
    (hdead : ∀ n, (fate n).aliveAt (age n) = false) :
    (tickWith (effDown .captured fate age down) s).cache = s.cache := by
  have hup : ∀ n, effDown .captured fate age down n = true := by
    intro n; simp [effDown, retryFails, hdead n]
  have : dueSlots (effDown .captured fate age down) s.tasks = [] := by
    unfold dueSlots
    simp [hup]
  funext sl
  simp [tickWith, this, delKeys]

/-- non-vacuity: a request-scoped context is dead at the first retry, a 3-tick deadline is alive at tick 1 and
dead at tick 6 (the second retry). -/
example : Fate.cancelledAfter.aliveAt 1 = false ∧ (Fate.deadlineAfter 3).aliveAt 1 = true ∧ (Fate.deadlineAfter 3).aliveAt 6 = false := by
  decide

example : retryFails .captured .cancelledAfter 1 false = true ∧ retryFails .background .cancelledAfter 1 false = false := by
  decide

end GoZero.C06.Ctx
