/-
C06 — specification side (core Lean only).

`Spec` is the property read literally, as an executable monitor over what the *implementation* was seen to
do: the monitor keeps only the database (which it derives from the op text), the previous cache dump
printed by the harness, and for every key an excuse (was it written behind the cache's back / did an
invalidation fail / was it not named by a write).  It does not run the cache model.

Clauses (names used in MONITOR messages):
  coherent     a read of a key that is not excused returns what the database holds (row / not-found)
  served       a live parsable entry or placeholder is served without a database call
  failfast     a failing GET is reported as a cache error and no database call is made
  dberr        a database error is returned and nothing is cached by that operation
  ttl          every entry has a finite TTL; an entry written by an operation has the TTL derived from the
               configured / requested expiry: ⌈0.95e⌉ ≤ ttl ≤ ⌈1.05e⌉ seconds (exactly ⌈(10500−j)e/10⁷⌉ for
               the scripted draw), the primary entry written by the index path 5 s more than the index entry
  spurious     no error is reported when no fault was injected
  invalidate   after an Exec / DelCache every named key is gone from its node, unless a DEL command that
               covers the key was seen to fail (decided PER KEY from the commands the node's server saw)
  retry        every DEL that was seen to fail is retried by the cleaner on its node after 1 s, 5 s, 1 min,
               5 min, 1 h (a retry fails iff the node is down at that tick): when a retry is due on a node
               that is up, its keys are gone
  dispatch     an entry of a key is only ever found on the node the dispatcher assigns to the key
  marker       the not-found marker `*` is only ever written into a free slot (SET NX): an entry that is not the
               marker does not become the marker unless a DEL of its key succeeded in the same operation
  single-loader (round 4: several instances over the same servers) the loads of ALL instances built by the
               constructors that promise the package-wide barrier (NewConn / NewNodeConn; monc NewModel / NewNodeModel)
               run under ONE barrier object, every node of one cache.Cache under the barrier handed to cache.New,
               a cache the caller built keeps the caller's barrier (`insts`: barrier identity as the constructors
               left it); concurrent readers of one key spread over such instances: at most one database query in
               flight per promised barrier class, all readers receive the same result (`ctake … i=a+b`)
  single-loader (round 5, `cmix`) concurrent readers of SEVERAL keys, each possibly going on to a second key: no reader
               panics, every reader of a key whose query ran receives exactly what THAT query returned (not nil,
               not another key's row, not a foreign object), a reader of a key no query ran for was served from that
               key's entry; at most one query in flight per key and promised barrier
  released     (round 5) no operation panics inside the cache layer unless a user-supplied function of that very
               operation panicked (`db=2` / `db=3`: the query function panics; printed `panicked`, nothing cached,
               and the key stays readable afterwards — sequentially and for concurrent readers)
-/
import GoZero.C06.Model
import GoZero.C06.Instances
namespace GoZero.C06.Spec
open GoZero.C06

/-- ⌈0.95·e⌉ and ⌈1.05·e⌉ in seconds for `e` in ms: the property's ±5 %, rounded up to seconds. -/
def ttlLo (eMs : Nat) : Nat := (95 * eMs + 99999) / 100000
def ttlHi (eMs : Nat) : Nat := (105 * eMs + 99999) / 100000

def inRange (eMs ttlS : Nat) : Bool := ttlLo eMs ≤ ttlS ∧ ttlS ≤ ttlHi eMs ∧ 1 ≤ ttlS

/-- one entry of the harness' dump: value and TTL in ms (`none` = persistent). -/
structure Obs where
  node : Nat
  key : CKey
  val : CVal
  ttl : Option Nat
  deriving DecidableEq, Repr

abbrev Dump := List Obs

def Dump.find (d : Dump) (sl : Slot) : Option Obs := List.find? (fun o => o.node = sl.1 ∧ o.key = sl.2) d

inductive Excuse where
  | explicit | stale | unkeyed
  deriving DecidableEq, Repr, Inhabited

def Excuse.name : Excuse → String
  | .explicit => "explicit" | .stale => "stale" | .unkeyed => "unkeyed"

structure Mon where
  db      : St                         -- only rows / idx are used
  prev    : Dump
  excused : List (CKey × Excuse)
  pend    : List Task := []            -- retries the cleaner owes: one per DEL that was seen to fail

def Mon.init : Mon := { db := St.init, prev := [], excused := [], pend := [] }

/-- `n` ticks of the retry schedule (1 s, 5 s, 1 min, 5 min, 1 h): the tasks left, and the keys whose DEL ran
successfully on the way. -/
def tickPend (dn : Nat → Bool) : Nat → List Task → List Slot → List Task × List Slot
  | 0, ts, acc => (ts, acc)
  | n + 1, ts, acc => tickPend dn n (ts.filterMap (tickTask dn)) (acc ++ dueSlots dn ts)

def Mon.excuse (m : Mon) (k : CKey) : Option Excuse := (m.excused.find? (·.1 = k)).map (·.2)

/-- the dump the monitor expects after `ft d` and nothing else. -/
def ageDump (d : Dump) (ms : Nat) : Dump :=
  d.filterMap fun o => match o.ttl with
    | some t => if t ≤ ms then none else some { o with ttl := some (t - ms) }
    | none => some o

/-- the value a coherent read of key `k` returns. -/
def expected (db : St) (k : CKey) : Res :=
  match k with
  | .p pk => match dbRow db pk with
    | some r => .val r
    | none => .notfound
  | .x a => match dbIndex db a with
    | some r => .val r.2
    | none => .notfound

/-- was the entry of `k` written (or rewritten) by the operation that led from `prev` to `cur`? -/
def written (prev cur : Dump) (k : Slot) : Bool :=
  match cur.find k with
  | some o => prev.find k ≠ some o
  | none => false

/-- what the harness printed right of `=>`. -/
structure ObsLine where
  res  : Res
  q    : Nat
  cmds : List CmdRec
  dump : Dump
  deriving Repr

def anyFault (m : List Bool) (dbf : Bool) : Bool := dbf || m.any id

/-- entries of `cur` that are not identical in `prev`. -/
def writtenKeys (prev cur : Dump) : List Obs := cur.filter fun o => prev.find (o.node, o.key) ≠ some o

/-- is key `k` (on its node `n`) covered by a DEL command that was seen to fail? -/
def delFailedFor (cmds : List CmdRec) (n : Nat) (k : CKey) : Bool :=
  cmds.any fun r => r.cmd = .del && r.fail && r.node = n && r.keys.contains k

/-- the retries owed for the DELs of an operation that were seen to fail. -/
def owed (cmds : List CmdRec) : List Task :=
  (cmds.filter fun r => r.cmd = .del && r.fail).map fun r => ⟨r.node, r.keys, 1, 1⟩

def ttlSecOf (o : Obs) : Option Nat :=
  match o.ttl with
  | some t => if t % 1000 = 0 then some (t / 1000) else none
  | none => none

/-- TTL clause for one entry written by a loading / setting operation. `gap` = the entry may (index path)
carry the 5 s safety gap. -/
def ttlOk (c : Cfg) (o : Obs) (explicitMs : Option Int) (gapAllowed : Bool) : Bool :=
  match ttlSecOf o with
  | none => false
  | some s =>
    match explicitMs with
    | some e => if e > 0 then s = ceilSec e.toNat else inRange c.exp s
    | none =>
      if o.val = .ph then inRange c.nf s
      else inRange c.exp s || (gapAllowed && s ≥ safeGapSec && inRange c.exp (s - safeGapSec))

/-- read clauses for one Take on key `k` whose GET succeeded, given the previous dump; returns
(violations, cover tags). `dbExp` is what the database holds for the whole read. -/
def readClauses (c : Cfg) (report : Bool) (m : Mon) (k : CKey) (exc : List CKey) (dbExp : Res) (o : ObsLine) (qBefore : Nat) :
    List String × List String :=
  let live : Bool := match m.prev.find (c.slot k) with
    | some e => e.val = .ph || parses k e.val
    | none => false
  let served : List String :=
    if live && o.q ≠ qBefore then ["served: database queried although a live entry / placeholder was cached"] else []
  let excuses := exc.filterMap m.excuse
  match o.res with
  | .val _ | .notfound =>
    if excuses = [] then
      (served ++ (if o.res ≠ dbExp then [s!"coherent: read returned {repr o.res}, database holds {repr dbExp}"] else []),
       [if live then "read-hit" else "read-load"])
    else if o.res ≠ dbExp then
      if report && excuses.all (· = .stale) then
        (served ++ [s!"stale-pending-delete: read returned {repr o.res}, database holds {repr dbExp} (the DEL of its Exec failed)"], [])
      else (served, ["stale-read-" ++ (excuses.headD .explicit).name])
    else (served, ["excused-read-coherent"])
  | _ => (served, [])

/-- the monitor: clauses evaluated on one observed line; returns new monitor state, violations, cover. -/
def monStep (c : Cfg) (report : Bool) (m : Mon) (op : Op) (n : Nat) (o : ObsLine) : Mon × List String × List String :=
  let cur := o.dump
  let persistent := (cur.filter (·.ttl.isNone)).map fun x => s!"ttl: persistent key {repr x.key}"
  let wr := writtenKeys m.prev cur
  let misplaced := (cur.filter fun x => x.node ≠ c.place x.key).map fun x =>
    s!"dispatch: entry of key {repr x.key} found on node {x.node}, the dispatcher sends the key to node {c.place x.key}"
  -- NX: the not-found marker only ever goes into a FREE slot — an entry that is not the marker can become the
  -- marker only if a DEL of its key on its node succeeded in this very operation (unparsable entry removed)
  let isRaw : Bool := match op with | .raw .. => true | _ => false
  -- (`n = 0` marks the concurrent read `ctake`, whose cache commands are not listed)
  let overwritten := if isRaw || n = 0 then [] else (cur.filter fun x => x.val = .ph && (match m.prev.find (x.node, x.key) with
      | some old => old.val ≠ .ph && !(o.cmds.any fun r => r.cmd = .del && !r.fail && r.node = x.node && r.keys.contains x.key)
      | none => false)).map fun x =>
    s!"marker: the not-found marker replaced an existing entry of key {repr x.key} on node {x.node} (SET NX must leave an occupied slot alone)"
  let firstGetFailed := match o.cmds.head? with
    | some r => r.cmd = .get && r.fail
    | none => false
  let anyCmdFailed := o.cmds.any (·.fail)
  let nowrite (what : String) : List String :=
    if wr ≠ [] then [s!"nowrite: {what} wrote {repr (wr.map (·.key))}"] else []
  let errClauses (mask : List Bool) (dbf : Bool) : List String :=
    (if firstGetFailed && (o.res ≠ .cacheerr || o.q ≠ 0) then ["failfast: GET failed but the operation went on"] else [])
    ++ (if o.res = .cacheerr && !anyCmdFailed then ["spurious: cache error without a failing command"] else [])
    ++ (if o.res = .dberr && !(dbf && o.q ≥ 1) then ["spurious: database error without a failing database call"] else [])
    ++ (if o.res = .dberr && wr ≠ [] then [s!"dberr: something was cached by an operation that returned a database error: {repr (wr.map (·.key))}"] else [])
    ++ (if dbf && o.q ≥ 1 && o.res ≠ .dberr then ["dberr: the database call failed but the error was not returned"] else [])
    ++ (if !anyFault mask dbf && (o.res = .dberr || o.res = .cacheerr) then ["spurious: error without an injected fault"] else [])
  let r : List String × List String × St :=
    match op with
    | .take pk _ mask dbf =>
      let rc := if firstGetFailed then ([], ["read-getfail"]) else
        readClauses c report m (.p pk) [.p pk] (expected m.db (.p pk)) o 0
      let ttl := wr.filterMap fun x => if x.key = .p pk && ttlOk c x none false then none
                                       else some s!"ttl: entry {repr x.key} written with ttl {repr x.ttl}"
      (errClauses mask dbf ++ rc.1 ++ ttl, rc.2, m.db)
    | .qindex a _ mask dbf =>
      let viaIdx : Option Nat := match m.prev.find (c.slot (.x a)) with
        | some e => match e.val with
          | .pk n => some n
          | _ => none
        | none => none
      let rc := if firstGetFailed then ([], ["read-getfail"]) else
        match viaIdx with
        | some n =>
          -- second Take on the primary key: its GET is the second command
          if (match o.cmds[1]? with | some r => r.cmd = Cmd.get && r.fail | none => false : Bool) then
            ((if o.res ≠ .cacheerr || o.q ≠ 0 then ["failfast: GET failed but the operation went on"] else []), ["read-getfail"])
          else
            let live : Bool := match m.prev.find (c.slot (.p n)) with
              | some e => e.val = .ph || parses (.p n) e.val
              | none => false
            let base := readClauses c report m (.p n) [.x a, .p n] (expected m.db (.x a)) o 0
            (base.1, base.2 ++ [if live then "index-hit-primary-hit" else "index-hit-primary-load"])
        | none => readClauses c report m (.x a) [.x a] (expected m.db (.x a)) o 0
      let ttl := wr.filterMap fun x => if ttlOk c x none true then none
                                       else some s!"ttl: entry {repr x.key} written with ttl {repr x.ttl}"
      let gap : List String :=
        match wr.find? (·.key = .x a) with
        | some xi => match xi.val with
          | .pk n => match cur.find (c.slot (.p n)), xi.ttl with
            | some pe, some xt => if pe.ttl = some (xt + safeGapSec * 1000) then []
                                  else [s!"ttl: primary entry {repr pe.key} does not outlive the index entry by 5 s"]
            | _, _ => [s!"ttl: index entry written without its primary entry"]
          | _ => []
        | none => []
      (errClauses mask dbf ++ rc.1 ++ ttl ++ gap, rc.2, m.db)
    | .get _ mask => (errClauses mask false ++ nowrite "GetCache", [], m.db)
    | .exec ks w _ dbf =>
      let left := if !dbf then ks.filter fun k => (cur.find (c.slot k)).isSome && !delFailedFor o.cmds (c.place k) k else []
      (nowrite "Exec" ++ (if dbf && o.res ≠ .dberr then ["dberr: Exec swallowed the database error"] else [])
        ++ (if dbf && o.cmds ≠ [] then ["dberr: Exec touched the cache although the database write failed"] else [])
        ++ (if !dbf && o.res ≠ .ok then ["spurious: Exec failed"] else [])
        ++ (if left ≠ [] then [s!"invalidate: still cached after an Exec although no DEL covering it failed: {repr left}"] else []),
       (if !dbf && left = [] && ks.any (fun k => delFailedFor o.cmds (c.place k) k)
           && ks.any (fun k => !delFailedFor o.cmds (c.place k) k) then ["exec-del-partly-failed"] else []),
       if dbf then m.db else applyWrite m.db w)
    | .del ks _ =>
      let left := ks.filter fun k => (cur.find (c.slot k)).isSome && !delFailedFor o.cmds (c.place k) k
      (nowrite "DelCache"
        ++ (if o.res ≠ .ok then ["spurious: DelCache failed"] else [])
        ++ (if left ≠ [] then [s!"invalidate: still cached after a DelCache although no DEL covering it failed: {repr left}"] else []),
       [], m.db)
    | .set k _ e _ mask =>
      let ttl := wr.filterMap fun x => if x.key = k && ttlOk c x (match e with | some v => some v | none => some 0) false then none
                                       else some s!"ttl: entry {repr x.key} set with ttl {repr x.ttl}"
      (errClauses mask false ++ ttl, [], m.db)
    | .raw _ _ _ => ([], [], m.db)
    | .ft ms => ((if cur ≠ ageDump m.prev ms then ["ttl: entries did not age by the elapsed time"] else []), [], m.db)
    | .tick down =>
      let left := (tickPend (downOf down) n m.pend []).2.filter fun k => (cur.find k).isSome
      (nowrite "cleaner"
        ++ (if left ≠ [] then [s!"retry: a failed DEL was not retried on schedule, still cached: {repr left}"] else []),
       [], m.db)
  let newDb := r.2.2
  let isExplicit (k : CKey) : Bool := match op with
    | .set k' _ _ _ _ => k = k'
    | .raw k' _ _ => k = k'
    | _ => false
  let execKeys : Option (List CKey) := match op with
    | .exec ks _ _ dbf => if dbf then none else some ks
    | _ => none
  let pend' : List Task := match op with
    | .exec _ _ _ dbf => if !dbf then m.pend ++ owed o.cmds else m.pend
    | .del _ _ => m.pend ++ owed o.cmds
    | .tick down => (tickPend (downOf down) n m.pend []).1
    | _ => m.pend
  let excused' : List (CKey × Excuse) := cur.filterMap fun e =>
    let isFt : Bool := match op with | .ft _ => true | _ => false
    if m.prev.find (e.node, e.key) ≠ some e ∧ !isFt then
      (if isExplicit e.key then some (e.key, .explicit) else none)
    else match m.excuse e.key with
      | some x => some (e.key, x)
      | none => match execKeys with
        | some ks => if dbView newDb e.key ≠ dbView m.db e.key then
                       (if e.key ∈ ks then (if delFailedFor o.cmds e.node e.key then some (e.key, .stale) else none)
                        else some (e.key, .unkeyed)) else none
        | none => none
  ({ db := { m.db with rows := newDb.rows, idx := newDb.idx }, prev := cur, excused := excused', pend := pend' },
   persistent ++ misplaced ++ overwritten ++ r.1, r.2.1)

/-! ### round 4: several instances -/

/-- the constructor an instance of a section is built with (section cfg `inst=<kind>/<exp>/<nf>,…`). -/
inductive InstKind where
  | conn            -- sqlc.NewConn / monc.NewModel
  | node            -- sqlc.NewNodeConn / monc.NewNodeModel
  | wc (k : Nat)    -- NewConnWithCache / NewModelWithCache over a cache built with the harness' own barrier k
  deriving DecidableEq, Repr

/-- the model's constructor (named after sqlc; the monc harness builds the three kinds with monc's constructors,
whose barrier structure is the same: `Multi.barrierOf`). -/
def InstKind.ctor : InstKind → Multi.Ctor
  | .conn => .newConn
  | .node => .newNodeConn
  | .wc k => .newConnWithCache k

/-- the barrier the constructors promise for the instance. -/
def InstKind.barrier (k : InstKind) : Multi.Barrier := Multi.barrierOf k.ctor

def barrierName : Multi.Barrier → String
  | .sqlcPkg | .moncPkg => "the package-wide barrier"
  | .custom k => s!"the caller's barrier number {k}"

/-- the barrier object of an instance as observed: the common class number of its nodes (`none`: a node is not
reached by the ring, or two nodes of the instance hold different barriers). -/
def instBarrier (nodes : Nat) (l : List (Option Nat)) : Option Nat :=
  match l with
  | some b :: rest => if l.length = nodes ∧ rest.all (· = some b) then some b else none
  | _ => none

/-- clause `single-loader` on what the constructors built (`insts` op): `obsKinds` = implementation per instance,
`bars` = per instance the barrier class of each node. -/
def instClauses (nodes : Nat) (kinds : List InstKind) (obsKinds : List String) (bars : List (List (Option Nat))) : List String :=
  if obsKinds.length ≠ kinds.length ∨ bars.length ≠ kinds.length then ["single-loader: unreadable instance report"]
  else
    let idx := List.range kinds.length
    let impl : List String := idx.filterMap fun i =>
      let want := if nodes = 1 ∨ kinds[i]? = some .node then "node" else "cluster"
      if obsKinds[i]? ≠ some want then
        some s!"dispatch: instance {i} is a {obsKinds[i]?.getD "?"} although its cache has {nodes} server(s)" else none
    let own : List String := idx.filterMap fun i =>
      if instBarrier nodes (bars[i]?.getD []) = none then
        some s!"single-loader: the nodes of instance {i} do not all hold the barrier handed to cache.New: {repr (bars[i]?.getD [])}" else none
    let pairs : List String := idx.flatMap fun i => (idx.filter (· > i)).filterMap fun j =>
      match kinds[i]?, kinds[j]?, instBarrier nodes (bars[i]?.getD []), instBarrier nodes (bars[j]?.getD []) with
      | some ki, some kj, some bi, some bj =>
        if ki.barrier = kj.barrier ∧ bi ≠ bj then
          some s!"single-loader: instances {i} and {j} are built by constructors that promise the same barrier ({barrierName ki.barrier}) but hold different barrier objects: concurrent reads of one key through them run separate database queries"
        else if ki.barrier ≠ kj.barrier ∧ bi = bj then
          some s!"single-loader: instances {i} and {j} were given different barriers but hold the same barrier object"
        else none
      | _, _, _, _ => none
    impl ++ own ++ pairs

/-! ### round 5: concurrent readers of SEVERAL keys (`cmix`) -/

/-- a read result as the harness prints it (`val:r:<id>:<v>:<a>` / `notfound`), for a cached value. -/
def servedToken : CVal → Option String
  | .ph => some "notfound"
  | .row a b c => some s!"val:r:{a}:{b}:{c}"
  | _ => none

/-- clause `single-loader` for concurrent readers of several keys through one or more barriers, on what the
implementation was seen to do: `reads` = (reader, key, result token) of every read, `loads` = per key what the
database queries of this operation RETURNED (the user-supplied query function's own return value, observed by
the harness), `prev` = the cache dump before the operation.
  * at most one query in flight per key and promised barrier;
  * no reader panics;
  * every reader of a key whose query ran receives exactly what that query returned — not nil, not the result of
    another key's query, not a foreign object;
  * a reader of a key no query ran for was served from the cache entry of THAT key. -/
def cmixClauses (c : Cfg) (prev : Dump) (inflight : Nat) (reads : List (Nat × CKey × String))
    (loads : List (CKey × String)) : List String :=
  (if inflight > 1 then [s!"single-loader: more than one database query in flight for one key among instances that promise one barrier"] else [])
  ++ reads.filterMap fun (r, k, res) =>
    if res.startsWith "PANIC" then
      some s!"single-loader: concurrent reader {r} of key {repr k} panicked instead of receiving the result of its flight: {res}"
    else match loads.find? (·.1 = k) with
      | some (_, l) =>
        if res ≠ l then some s!"single-loader: concurrent reader {r} of key {repr k} received {res}, the query of its flight returned {l}"
        else none
      | none =>
        match (prev.find (c.slot k)).bind (fun e => servedToken e.val) with
        | some tok => if res ≠ tok then some s!"single-loader: concurrent reader {r} of key {repr k} received {res} although no query ran and the cache holds {tok}" else none
        | none => some s!"single-loader: concurrent reader {r} of key {repr k} received {res} although no query ran for the key and no live entry was cached"

/-- the dump after the part of a concurrent mixed read that concerns `slots`: those slots as in `cur`, all others
as in `prev`. -/
def mixDump (prev cur : Dump) (slots : List Slot) : Dump :=
  prev.filter (fun o => !slots.contains (o.node, o.key)) ++ cur.filter (fun o => slots.contains (o.node, o.key))

/-- number of promised barrier classes among the instances `via` reads go through. -/
def classesOf (kinds : List InstKind) (via : List Nat) : Nat :=
  ((via.filterMap fun i => kinds[i]?).map InstKind.barrier).eraseDups.length

end GoZero.C06.Spec
