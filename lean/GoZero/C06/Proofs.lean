/-
C06 — helper lemmas: the coherence invariant and its preservation by every operation.
-/
import GoZero.C06.Spec
namespace GoZero.C06

/-- **Coherence invariant**: an entry whose ghost origin is `loaded` holds exactly what the database holds
for its key (row / primary key / placeholder iff absent). -/
def Coh (s : St) : Prop :=
  ∀ (k : Slot) e, s.cache k = some e → e.origin = .loaded → e.val = dbView s k.2

/-- same database. -/
def SameDb (s s' : St) : Prop := s'.rows = s.rows ∧ s'.idx = s.idx

theorem dbView_of_sameDb {s s' : St} (h : SameDb s s') (k : CKey) : dbView s' k = dbView s k := by
  cases k <;> simp [dbView, dbRow, dbIndex, h.1, h.2]

theorem dbRow_of_sameDb {s s' : St} (h : SameDb s s') (pk : Nat) : dbRow s' pk = dbRow s pk := by
  simp [dbRow, h.1]

theorem dbIndex_of_sameDb {s s' : St} (h : SameDb s s') (a : Nat) : dbIndex s' a = dbIndex s a := by
  simp [dbIndex, h.1, h.2]

theorem SameDb.refl (s : St) : SameDb s s := ⟨rfl, rfl⟩

theorem SameDb.trans {a b c : St} (h1 : SameDb a b) (h2 : SameDb b c) : SameDb a c :=
  ⟨h2.1.trans h1.1, h2.2.trans h1.2⟩

/-- the cache of `s'` is the cache of `s` with some entries removed. -/
def Shrinks (s s' : St) : Prop := ∀ k, s'.cache k = s.cache k ∨ s'.cache k = none

theorem Shrinks.refl (s : St) : Shrinks s s := fun _ => Or.inl rfl

theorem Shrinks.trans {a b c : St} (h1 : Shrinks a b) (h2 : Shrinks b c) : Shrinks a c := by
  intro k
  rcases h2 k with h | h
  · rcases h1 k with h' | h'
    · exact Or.inl (h.trans h')
    · exact Or.inr (h.trans h')
  · exact Or.inr h

theorem coh_of_shrinks {s s' : St} (hc : Coh s) (hd : SameDb s s') (hs : Shrinks s s') : Coh s' := by
  intro k e hk ho
  rw [dbView_of_sameDb hd]
  rcases hs k with h | h
  · exact hc k e (h ▸ hk) ho
  · rw [h] at hk; cases hk

/-! ### getCache -/

theorem getCache_sameDb (s : St) (n : Nat) (k : CKey) (m : List Bool) : SameDb s (getCache s n k m).1 := by
  unfold getCache
  repeat' split
  all_goals exact ⟨rfl, rfl⟩

theorem getCache_shrinks (s : St) (n : Nat) (k : CKey) (m : List Bool) : Shrinks s (getCache s n k m).1 := by
  unfold getCache
  intro k'
  repeat' split
  all_goals simp [upd]
  all_goals (by_cases h : k' = (n, k) <;> simp [h])

theorem getCache_tasks (s : St) (n : Nat) (k : CKey) (m : List Bool) :
    (getCache s n k m).1.tasks = s.tasks ∧ (getCache s n k m).1.gaveUp = s.gaveUp := by
  unfold getCache
  repeat' split
  all_goals exact ⟨rfl, rfl⟩

theorem getCache_coh {s : St} (hc : Coh s) (n : Nat) (k : CKey) (m : List Bool) : Coh (getCache s n k m).1 :=
  coh_of_shrinks hc (getCache_sameDb s n k m) (getCache_shrinks s n k m)

/-- a GET that fails: store error, one command, state untouched. -/
theorem getCache_fail (s : St) (n : Nat) (k : CKey) (m : List Bool) (h : failAt m 0 = true) :
    getCache s n k m = (s, .err, [⟨.get, n, [k], true⟩]) := by
  unfold getCache; simp [h]

/-- a hit comes from the entry stored under the key. -/
theorem getCache_hit {s : St} {n : Nat} {k : CKey} {m : List Bool} {v : CVal} (h : (getCache s n k m).2.1 = .hit v) :
    ∃ e, s.cache (n, k) = some e ∧ e.val = v ∧ parses k v = true ∧ (getCache s n k m).1 = s := by
  unfold getCache at h ⊢
  split at h
  · cases h
  · split at h
    · cases h
    · rename_i e he
      split at h
      · cases h
      · split at h
        · rename_i hp
          simp at h
          subst h
          refine ⟨e, he, rfl, hp, ?_⟩
          split <;> simp_all
        · split at h <;> cases h

theorem getCache_placeholder {s : St} {n : Nat} {k : CKey} {m : List Bool} (h : (getCache s n k m).2.1 = .placeholder) :
    ∃ e, s.cache (n, k) = some e ∧ e.val = .ph ∧ (getCache s n k m).1 = s := by
  unfold getCache at h ⊢
  split at h
  · cases h
  · split at h
    · cases h
    · rename_i e he
      split at h
      · rename_i hv
        exact ⟨e, he, hv, by simp [*]⟩
      · split at h
        · cases h
        · split at h <;> cases h

/-- a miss: either nothing is stored, or what is stored does not unmarshal (and is not the placeholder). -/
theorem getCache_miss {s : St} {n : Nat} {k : CKey} {m : List Bool} (h : (getCache s n k m).2.1 = .miss) :
    failAt m 0 = false ∧ (s.cache (n, k) = none ∨ ∃ e, s.cache (n, k) = some e ∧ e.val ≠ .ph ∧ parses k e.val = false) := by
  unfold getCache at h
  split at h
  · cases h
  · rename_i hf
    refine ⟨by simpa using hf, ?_⟩
    split at h
    · left; assumption
    · rename_i e he
      right
      split at h
      · cases h
      · rename_i hv
        split at h
        · cases h
        · rename_i hp
          exact ⟨e, he, hv, by simpa using hp⟩

/-- a live entry (placeholder or parsable) is found by a GET that does not fail. -/
theorem getCache_live {s : St} {n : Nat} {k : CKey} {m : List Bool} {e : Entry} (he : s.cache (n, k) = some e)
    (hl : e.val = .ph ∨ parses k e.val = true) (hf : failAt m 0 = false) :
    getCache s n k m = (s, (if e.val = .ph then .placeholder else .hit e.val), [⟨.get, n, [k], false⟩]) := by
  unfold getCache
  simp only [hf, he]
  by_cases hv : e.val = .ph
  · simp [hv]
  · rcases hl with h | h
    · exact absurd h hv
    · simp [hv, h]

/-! ### writes -/

theorem setex_sameDb (s : St) (k v t o f) : SameDb s (setex s k v t o f) := by
  unfold setex; split <;> exact ⟨rfl, rfl⟩

theorem setnx_sameDb (s : St) (k t f) : SameDb s (setnx s k t f) := by
  unfold setnx; repeat' split
  all_goals exact ⟨rfl, rfl⟩

theorem setex_coh {s : St} (hc : Coh s) (k : Slot) (v : CVal) (t : Nat) (o : Origin) (f : Bool)
    (hv : o = .loaded → v = dbView s k.2) : Coh (setex s k v t o f) := by
  unfold setex
  split
  · exact hc
  · intro k' e hk ho
    have : dbView { s with cache := upd s.cache k (some ⟨v, t * 1000, o⟩) } k'.2 = dbView s k'.2 :=
      dbView_of_sameDb ⟨rfl, rfl⟩ k'.2
    rw [this]
    simp only [upd] at hk
    by_cases h : k' = k
    · simp [h] at hk
      subst hk
      subst h
      exact hv ho
    · simp [h] at hk
      exact hc k' e hk ho

theorem setnx_coh {s : St} (hc : Coh s) (k : Slot) (t : Nat) (f : Bool) (hv : dbView s k.2 = .ph) :
    Coh (setnx s k t f) := by
  unfold setnx
  split
  · exact hc
  · split
    · exact hc
    · intro k' e hk ho
      have : dbView { s with cache := upd s.cache k (some ⟨.ph, t * 1000, .loaded⟩) } k'.2 = dbView s k'.2 :=
        dbView_of_sameDb ⟨rfl, rfl⟩ k'.2
      rw [this]
      simp only [upd] at hk
      by_cases h : k' = k
      · simp [h] at hk
        subst hk
        subst h
        exact hv.symm
      · simp [h] at hk
        exact hc k' e hk ho

theorem dbView_p_of_row {s : St} {pk : Nat} {r : CVal} (h : dbRow s pk = some r) : dbView s (.p pk) = r := by
  simp [dbView, h]

theorem dbView_p_of_none {s : St} {pk : Nat} (h : dbRow s pk = none) : dbView s (.p pk) = .ph := by
  simp [dbView, h]

theorem dbView_x_of_none {s : St} {a : Nat} (h : dbIndex s a = none) : dbView s (.x a) = .ph := by
  simp [dbView, h]

theorem dbView_x_of_some {s : St} {a : Nat} {r : Nat × CVal} (h : dbIndex s a = some r) :
    dbView s (.x a) = .pk r.1 := by
  simp [dbView, h]

/-- the row an index query returns is the row the primary-key query returns for that primary key. -/
theorem dbIndex_row {s : St} {a : Nat} {r : Nat × CVal} (h : dbIndex s a = some r) : dbRow s r.1 = some r.2 := by
  unfold dbIndex at h
  unfold dbRow
  split at h
  · rename_i pk hp
    split at h
    · rename_i va hv
      cases h
      simp [hv]
    · cases h
  · cases h

/-! ### operations preserve `Coh` -/

theorem takeP_coh (c : Cfg) {s : St} (hc : Coh s) (pk j : Nat) (m : List Bool) (dbf : Bool) :
    Coh (takeP c s pk j m dbf).1 := by
  have hg := getCache_coh hc (c.place (.p pk)) (.p pk) m
  have hd := getCache_sameDb s (c.place (.p pk)) (.p pk) m
  unfold takeP
  simp only []
  split
  · exact hg
  · exact hg
  · exact hg
  · split
    · exact hg
    · split
      · rename_i hr
        exact setnx_coh hg _ _ _ (by rw [dbView_of_sameDb hd]; exact dbView_p_of_none hr)
      · rename_i r hr
        exact setex_coh hg _ _ _ _ _ (fun _ => by rw [dbView_of_sameDb hd]; exact (dbView_p_of_row hr).symm)

theorem qindex_coh (c : Cfg) {s : St} (hc : Coh s) (a j : Nat) (m : List Bool) (dbf : Bool) :
    Coh (qindex c s a j m dbf).1 := by
  have hg := getCache_coh hc (c.place (.x a)) (.x a) m
  have hd := getCache_sameDb s (c.place (.x a)) (.x a) m
  unfold qindex
  simp only []
  split
  · exact hg
  · exact hg
  · exact takeP_coh c hg _ _ _ _
  · exact hg
  · split
    · exact hg
    · split
      · rename_i hr
        exact setnx_coh hg _ _ _ (by rw [dbView_of_sameDb hd]; exact dbView_x_of_none hr)
      · rename_i r hr
        split
        · exact hg
        · have h1 : Coh (setex (getCache s (c.place (.x a)) (.x a) m).1 (c.slot (.p r.1)) r.2 (ttlSec c.exp j + safeGapSec) .loaded false) :=
            setex_coh hg _ _ _ _ _ (fun _ => by
              rw [dbView_of_sameDb hd]; exact (dbView_p_of_row (dbIndex_row hr)).symm)
          exact setex_coh h1 _ _ _ _ _ (fun _ => by
            rw [dbView_of_sameDb (setex_sameDb _ _ _ _ _ _), dbView_of_sameDb hd]
            exact (dbView_x_of_some hr).symm)

theorem getOp_coh (c : Cfg) {s : St} (hc : Coh s) (k : CKey) (m : List Bool) : Coh (getOp c s k m).1 := by
  have hg := getCache_coh hc (c.place k) k m
  unfold getOp
  simp only []
  split <;> exact hg

theorem setOp_coh (c : Cfg) {s : St} (hc : Coh s) (k v e j m) : Coh (setOp c s k v e j m).1 := by
  unfold setOp
  exact setex_coh hc _ _ _ _ _ (fun h => by cases h)

/-! ### DelCtx: every layer only removes entries and only appends tasks -/

/-- same database, entries only removed, tasks only appended, nothing given up. -/
structure DelStep (s s' : St) : Prop where
  db : SameDb s s'
  shr : Shrinks s s'
  tasks : ∃ l, s'.tasks = s.tasks ++ l
  gave : s'.gaveUp = s.gaveUp

theorem DelStep.refl (s : St) : DelStep s s := ⟨SameDb.refl s, Shrinks.refl s, ⟨[], by simp⟩, rfl⟩

theorem DelStep.trans {a b c : St} (h1 : DelStep a b) (h2 : DelStep b c) : DelStep a c := by
  obtain ⟨l1, e1⟩ := h1.tasks
  obtain ⟨l2, e2⟩ := h2.tasks
  exact ⟨h1.db.trans h2.db, h1.shr.trans h2.shr, ⟨l1 ++ l2, by rw [e2, e1, List.append_assoc]⟩, h2.gave.trans h1.gave⟩

theorem delOne_step (s : St) (n : Nat) (ks : List CKey) (f : Bool) : DelStep s (delOne s n ks f) := by
  unfold delOne
  split
  · exact ⟨⟨rfl, rfl⟩, Shrinks.refl _, ⟨_, rfl⟩, rfl⟩
  · refine ⟨⟨rfl, rfl⟩, fun k => ?_, ⟨[], by simp⟩, rfl⟩
    simp only [delKeys]
    split
    · exact Or.inr rfl
    · exact Or.inl rfl

theorem delLoop_step (n : Nat) (ks : List CKey) : ∀ (s : St) (m : List Bool), DelStep s (delLoop s n ks m).1 := by
  induction ks with
  | nil => intro s m; exact DelStep.refl s
  | cons k ks ih =>
    intro s m
    simp only [delLoop]
    exact (delOne_step s n [k] _).trans (ih _ _)

theorem nodeDel_step (cl : Bool) (s : St) (n : Nat) (ks : List CKey) (m : List Bool) :
    DelStep s (nodeDel cl s n ks m).1 := by
  unfold nodeDel
  split
  · exact DelStep.refl s
  · split
    · exact delLoop_step n ks s m
    · exact delOne_step s n ks _

theorem clusterDel_step (c : Cfg) (ks : List CKey) (masks : List (List Bool)) (ns : List Nat) :
    ∀ s : St, DelStep s (clusterDel c ks masks ns s).1 := by
  induction ns with
  | nil => intro s; exact DelStep.refl s
  | cons n ns ih =>
    intro s
    simp only [clusterDel]
    exact (nodeDel_step _ s n _ _).trans (ih _)

theorem delOp_step (c : Cfg) (s : St) (ks : List CKey) (m : List (List Bool)) : DelStep s (delOp c s ks m).1 :=
  clusterDel_step c ks m _ s

theorem delOp_coh (c : Cfg) {s : St} (hc : Coh s) (ks : List CKey) (m : List (List Bool)) : Coh (delOp c s ks m).1 :=
  coh_of_shrinks hc (delOp_step c s ks m).db (delOp_step c s ks m).shr

theorem markChanged_coh (c : Cfg) {s : St} (hc : Coh s) (w : Write) (ks : List CKey) :
    Coh { applyWrite s w with cache := markChanged c s (applyWrite s w) ks } := by
  intro k e hk ho
  have hv : dbView { applyWrite s w with cache := markChanged c s (applyWrite s w) ks } k.2 = dbView (applyWrite s w) k.2 :=
    dbView_of_sameDb ⟨rfl, rfl⟩ k.2
  rw [hv]
  simp only [markChanged] at hk
  split at hk
  · rename_i e0 he0
    split at hk
    · rename_i heq
      cases hk
      rw [heq]
      exact hc k e he0 ho
    · split at hk
      · cases hk
        simp at ho
        split at ho <;> cases ho
      · rename_i hne
        cases hk
        exact absurd ho hne
  · cases hk

theorem execOp_coh (c : Cfg) {s : St} (hc : Coh s) (ks : List CKey) (w : Write) (m : List (List Bool)) (dbf : Bool) :
    Coh (execOp c s ks w m dbf).1 := by
  unfold execOp
  split
  · exact hc
  · exact delOp_coh c (markChanged_coh c hc w ks) ks m

theorem expire_coh {s : St} (hc : Coh s) (ms : Nat) : Coh { s with cache := expire s.cache ms } := by
  intro k e hk ho
  have hv : dbView { s with cache := expire s.cache ms } k.2 = dbView s k.2 := dbView_of_sameDb ⟨rfl, rfl⟩ k.2
  rw [hv]
  simp only [expire] at hk
  split at hk
  · rename_i e0 he0
    split at hk
    · simp only [Option.some.injEq] at hk
      subst hk
      exact hc k e0 he0 ho
    · split at hk
      · cases hk
      · cases hk
        exact hc k e0 he0 ho
  · cases hk

theorem tick_coh {s : St} (hc : Coh s) (down : List Bool) : Coh (tick s down).1 := by
  unfold tick
  refine coh_of_shrinks hc ⟨rfl, rfl⟩ (fun k => ?_)
  simp only [delKeys]
  by_cases h : k ∈ dueSlots (downOf down) s.tasks <;> simp [h]

theorem step_coh (c : Cfg) {s : St} (hc : Coh s) (op : Op) : Coh (step c s op).1 := by
  cases op with
  | take pk j m dbf => exact takeP_coh c hc pk j m dbf
  | qindex a j m dbf => exact qindex_coh c hc a j m dbf
  | get k m => exact getOp_coh c hc k m
  | exec ks w m dbf => exact execOp_coh c hc ks w m dbf
  | del ks m => exact delOp_coh c hc ks m
  | set k v e j m => exact setOp_coh c hc k v e j m
  | raw k v t =>
    simp only [step]
    intro k' e hk ho
    have hv : dbView { s with cache := upd s.cache (c.slot k) (if t = 0 then none else some ⟨v, t, .explicit⟩) } k'.2 = dbView s k'.2 :=
      dbView_of_sameDb ⟨rfl, rfl⟩ k'.2
    rw [hv]
    simp only [upd] at hk
    by_cases h : k' = c.slot k
    · simp [h] at hk
      rcases hk with ⟨_, hk⟩
      subst hk
      cases ho
    · simp [h] at hk
      exact hc k' e hk ho
  | ft ms => exact expire_coh hc ms
  | tick cf => exact tick_coh hc cf

theorem init_coh : Coh St.init := by
  intro k e hk; simp [St.init] at hk

theorem run_coh (c : Cfg) {s : St} (hc : Coh s) (ops : List Op) : Coh (run c s ops) := by
  induction ops generalizing s with
  | nil => exact hc
  | cons op ops ih => exact ih (step_coh c hc op)

end GoZero.C06
