/-
C06 — round 5 property theorems: concurrent readers of SEVERAL keys under one barrier, with the call OBJECTS of
the flight group explicit (Calls.lean).  Clause (3) of the property: "concurrent reads … run at most one query at
a time, and all receive its result" — here: the result of the query OF THEIR OWN KEY, whatever other keys are
being loaded through the same barrier at the same time, for any number of goroutines and keys and every schedule.
-/
import GoZero.C06.Calls
import GoZero.C06.Instances
import GoZero.C06.Decode
namespace GoZero.C06.Calls

variable {α : Type}

/-- every reader that returned holds exactly the answer of the query of the flight of ITS key that it created or
joined (`f` = the number of that flight): never nil, never the answer to another key's query — for any number of
goroutines, any assignment of keys to goroutines, every database answer and every schedule. -/
theorem readers_receive_the_result_of_their_key {key : Nat → Nat} {q : Nat → Nat → α} {s : St α}
    (h : Reachable .fresh key q s) (t : Nat) (ht : s.pc t = 4) :
    (s.heap (s.ref t)).key = key t ∧ s.got t = some (q (key t) (s.heap (s.ref t)).flight) := by
  have hr := (inv_reachable h).ret t ht
  exact ⟨hr.2.1, hr.2.2.2⟩

/-- readers that shared a call object read the same key and received the same result. -/
theorem readers_of_one_call_share_key_and_result {key : Nat → Nat} {q : Nat → Nat → α} {s : St α}
    (h : Reachable .fresh key q s) (t u : Nat) (ht : s.pc t = 4) (hu : s.pc u = 4) (hr : s.ref t = s.ref u) :
    key t = key u ∧ s.got t = s.got u := by
  have a := readers_receive_the_result_of_their_key h t ht
  have b := readers_receive_the_result_of_their_key h u hu
  rw [hr] at a
  have hk : key t = key u := a.1.symm.trans b.1
  exact ⟨hk, by rw [a.2, b.2, hk]⟩

/-- at most one database query in flight per key, however many keys are being loaded at once. -/
theorem one_query_in_flight_per_key_among_many_keys {key : Nat → Nat} {q : Nat → Nat → α} {s : St α}
    (h : Reachable .fresh key q s) (t u : Nat) (ht : s.pc t = 2) (hu : s.pc u = 2) (hk : key t = key u) : t = u := by
  have i := inv_reachable h
  have a := i.lead t (Or.inr ht)
  have b := i.lead u (Or.inr hu)
  rw [hk] at a
  have hr : s.ref t = s.ref u := by
    have := a.1.symm.trans b.1
    injection this
  rw [← a.2, ← b.2, hr]

/-- a parked follower holds an object that is (still, or was) registered for ITS key: loads of other keys never
touch it. -/
theorem follower_holds_a_call_of_its_key {key : Nat → Nat} {q : Nat → Nat → α} {s : St α}
    (h : Reachable .fresh key q s) (t : Nat) (ht : s.pc t = 3) : (s.heap (s.ref t)).key = key t :=
  ((inv_reachable h).wait t ht).2

/-- the witness schedule under `new(call)`: the follower of key 0 receives the answer of flight 0 of key 0. -/
theorem fresh_witness_schedule :
    ((run .fresh wKey wQ St.init wSched).map fun s => (s.pc 1, s.got 1, s.got 2)) = some (4, some (0, 0), some (1, 1)) := by
  decide

/-- WITNESS (what seeded change C06-8 does): if `createCall` takes the object from a pool that `makeCall` fills
right after `wg.Done()`, the very same schedule hands the follower of key 0 the answer to the query of key 1. -/
theorem pooled_witness_schedule :
    ((run .pooled wKey wQ St.init wSched).map fun s => (s.pc 1, s.got 1)) = some (4, some (1, 1)) := by
  decide

/-- … stated as a property: with a recycled call object a reachable state exists in which a reader that returned
holds something that is the answer to NO query of its key. -/
theorem pooled_call_object_hands_a_reader_the_result_of_another_key :
    ∃ (key : Nat → Nat) (q : Nat → Nat → Nat × Nat) (s : St (Nat × Nat)) (t : Nat),
      Reachable .pooled key q s ∧ s.pc t = 4 ∧ ∀ f, s.got t ≠ some (q (key t) f) := by
  have hw := pooled_witness_schedule
  cases hrun : run .pooled wKey wQ St.init wSched with
  | none => rw [hrun] at hw; cases hw
  | some s =>
    rw [hrun] at hw
    simp only [Option.map_some, Option.some.injEq, Prod.mk.injEq] at hw
    refine ⟨wKey, wQ, s, 1, run_reachable .init _ hrun, hw.1, ?_⟩
    intro f hf
    rw [hw.2] at hf
    simp [wQ, wKey] at hf

/-- non-vacuity: the fresh model reaches states with returned readers of two different keys. -/
example : ∃ s : St (Nat × Nat), Reachable .fresh wKey wQ s ∧ s.pc 1 = 4 ∧ s.pc 2 = 4 ∧ wKey 1 ≠ wKey 2 := by
  have hw := fresh_witness_schedule
  cases hrun : run .fresh wKey wQ St.init wSched with
  | none => rw [hrun] at hw; cases hw
  | some s =>
    have h := run_reachable .init _ hrun
    have h1 : s.pc 1 = 4 := by
      rw [hrun] at hw; simp only [Option.map_some, Option.some.injEq, Prod.mk.injEq] at hw; exact hw.1
    refine ⟨s, h, h1, ?_, by decide⟩
    -- goroutine 2 returned as well: it holds a result
    have h2 : s.got 2 = some (1, 1) := by
      rw [hrun] at hw; simp only [Option.map_some, Option.some.injEq, Prod.mk.injEq] at hw; exact hw.2.2
    -- (pc 2 = 4 by evaluation of the same run)
    have : ((run .fresh wKey wQ St.init wSched).map fun s => s.pc 2) = some 4 := by decide
    rw [hrun] at this; simpa using this

/-! ### round 5c: a query function that does not return (panic / runtime.Goexit) — what the model does -/

/-- WITNESS SCHEDULE: goroutines 0, 1 and 3 read key 0, the fn of 0 aborts.  0 registers, 1 joins, 0 starts its
query and aborts (pc 5: its own panic / Goexit), 1 wakes up on the object released WITHOUT a value and panics in
doTake's `val.([]byte)` (pc 6: an interface-conversion error, not 0's panic value), and a later reader 3 finds the
key free again, loads and returns the answer of ITS flight (flight 1): the barrier is released, nothing wrong is
returned to anybody. -/
theorem aborting_leader_witness :
    ((runA (fun t => t = 0) (fun _ => 0) wQ St.init [0, 1, 0, 0, 1, 3, 3, 3]).map
      fun s => (s.pc 0, s.pc 1, s.got 0, s.got 1, s.pc 3, s.got 3, s.calls 0)) = some (5, 6, none, none, 4, some (0, 1), none) := by
  rfl

/-- with a leader that returns, the same schedule hands the follower the leader's answer (flight 0). -/
theorem returning_leader_same_schedule :
    ((runA (fun _ => false) (fun _ => 0) wQ St.init [0, 1, 0, 0, 1, 3, 3, 3]).map
      fun s => (s.pc 0, s.pc 1, s.got 0, s.got 1, s.pc 3, s.got 3)) = some (4, 4, some (0, 0), some (0, 0), 4, some (0, 1)) := by
  rfl

/-! ### round 5e: one decoder on every decode path -/

/-- if the follower path and the hit path decode with UseNumber (the code: Tie.tie_decoders), then for EVERY
integer — however large — the leader, the followers of its flight and later cache hits hold the same value (same
digits, same kind of number): every reader derives the same primary cache key from an index entry. -/
theorem all_paths_yield_the_same_number (dec : Decode.Path → Decode.Decoder)
    (hf : dec .follower = .useNumber) (hh : dec .hit = .useNumber) (n : Int) (p p' : Decode.Path) :
    Decode.valueOn dec p n = Decode.valueOn dec p' n ∧ Decode.valueOn dec p n = .exact n := by
  cases p <;> cases p' <;> simp [Decode.valueOn, Decode.decodeInt, hf, hh]

/-- WITNESS (seeded change C06-10): with encoding/json's plain Unmarshal on the follower path a sharing reader
holds a different value than the leader and than a cache hit, for every integer. -/
theorem plain_decoder_on_the_follower_path_changes_the_value (n : Int) :
    Decode.valueOn (fun p => if p = .follower then .plain else .useNumber) .follower n
      ≠ Decode.valueOn (fun p => if p = .follower then .plain else .useNumber) .leader n
    ∧ Decode.valueOn (fun p => if p = .follower then .plain else .useNumber) .follower n
      ≠ Decode.valueOn (fun p => if p = .follower then .plain else .useNumber) .hit n := by
  simp [Decode.valueOn, Decode.decodeInt]

example : Decode.valueOn (fun _ => .useNumber) .follower 9007199254740993 = .exact 9007199254740993 := by decide

/-! ### the caller's options reach every node (for every constructor and every Options value) -/

/-- if every hop of the table forwards, the nodes of an instance built by ANY constructor are configured with
exactly the options the caller gave — for every options value. -/
theorem options_reach_the_nodes {O : Type} (dflt : O) (table : List (String × List String))
    (hall : ∀ c : Multi.Ctor, (Multi.hops c).all (Multi.hopForwards table) = true) (c : Multi.Ctor) (o : O) :
    Multi.optsAtNode dflt table c o = o := by
  unfold Multi.optsAtNode
  rw [hall c]; simp

/-- WITNESS (what seeded change C06-7 does): a table in which the loop of cache.New calls NewNode without the
options configures the nodes of a NewConn instance with the defaults, whatever the caller asked for. -/
theorem dropped_options_leave_the_defaults :
    Multi.optsAtNode (0 : Nat) [("sqlc.NewConn", ["param", "opts..."]), ("cache.New", ["param", "opts...", "absent"]),
      ("cache.NewNode", ["param", "opts..."])] .newConn 20000 = 0 := by
  decide

example : Multi.optsAtNode (0 : Nat) [("sqlc.NewConn", ["param", "opts..."]), ("cache.New", ["param", "opts...", "param", "opts..."]),
      ("cache.NewNode", ["param", "opts..."])] .newConn 20000 = 20000 := by
  decide

end GoZero.C06.Calls
