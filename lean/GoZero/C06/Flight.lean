/-
C06 — single loader per key: a small-step interleaving model of `doTake`'s load running inside
`barrier.DoEx` (core/syncx/singleflight.go: createCall / makeCall / DoEx), for ONE key and an arbitrary number
of reader goroutines (`Tid := Nat`, any schedule), carrying the RESULT of the call.

  pc 0  createCall under g.lock: no call registered → register mine (leader, pc 1); else → wait on it (pc 3)
  pc 1  leader inside fn: cache miss seen, database query starts                               (pc 2)
  pc 2  database query returns `q id`; fn caches and returns; makeCall stores c.val, c.err;
        deferred: delete(calls,key); wg.Done; DoEx returns c.val                                (pc 4)
  pc 3  follower: c.wg.Wait() returns once the call it joined is done; DoEx returns c.val       (pc 4)
  pc 4  returned
`flight` is `g.calls[key]` (the leader's id), `gen` counts finished calls = the id of the current call,
`joined t` the call goroutine `t` created or joined, `callVal id` is `c.val, c.err` of call `id` once fn has
returned, `got t` what DoEx returned to `t`, `queries` the number of database queries started.
`q : Nat → α` is the environment: what the database answers to the query of call `id` (row, not-found or an
error — anything; the theorems hold for every `q`).
-/
namespace GoZero.C06.Flight

structure Cfg (α : Type) where
  pc      : Nat → Nat
  flight  : Option Nat
  gen     : Nat
  joined  : Nat → Nat
  queries : Nat
  callVal : Nat → Option α
  got     : Nat → Option α

def upd {β : Type} (f : Nat → β) (t : Nat) (v : β) : Nat → β := fun u => if u = t then v else f u

def Cfg.init {α : Type} : Cfg α :=
  { pc := fun _ => 0, flight := none, gen := 0, joined := fun _ => 0, queries := 0,
    callVal := fun _ => none, got := fun _ => none }

variable {α : Type}

def step (q : Nat → α) (s : Cfg α) (t : Nat) : Option (Cfg α) :=
  match s.pc t with
  | 0 => match s.flight with
    | none => some { s with pc := upd s.pc t 1, flight := some t, joined := upd s.joined t s.gen }
    | some _ => some { s with pc := upd s.pc t 3, joined := upd s.joined t s.gen }
  | 1 => some { s with pc := upd s.pc t 2, queries := s.queries + 1 }
  | 2 => some { s with pc := upd s.pc t 4, flight := none, gen := s.gen + 1,
                       callVal := upd s.callVal s.gen (some (q s.gen)), got := upd s.got t (some (q s.gen)) }
  | 3 => if s.joined t < s.gen then some { s with pc := upd s.pc t 4, got := upd s.got t (s.callVal (s.joined t)) } else none
  | _ => none

inductive Reachable (q : Nat → α) : Cfg α → Prop
  | init : Reachable q Cfg.init
  | step {s s' : Cfg α} (t : Nat) : Reachable q s → step q s t = some s' → Reachable q s'

/-- a goroutine in the leader region (pc 1 or 2) is the registered call's owner. -/
def Inv (s : Cfg α) : Prop := ∀ t, (s.pc t = 1 ∨ s.pc t = 2) → s.flight = some t

theorem inv_init : Inv (Cfg.init : Cfg α) := by
  intro t h; simp [Cfg.init] at h

theorem inv_step {q : Nat → α} {s s' : Cfg α} {t : Nat} (h : Inv s) (hs : step q s t = some s') : Inv s' := by
  unfold step at hs
  intro u hu
  have h1 := h u
  have h2 := h t
  split at hs <;> (try split at hs) <;> simp at hs <;> (try subst hs) <;> simp [upd] at * <;> grind

theorem inv_reachable {q : Nat → α} {s : Cfg α} (h : Reachable q s) : Inv s := by
  induction h with
  | init => exact inv_init
  | step t _ hs ih => exact inv_step ih hs

/-! ### the shared result -/

/-- bookkeeping invariant: the registered call's owner is in the leader region and leads the current call;
waiters joined a call that is the current one or finished; finished calls hold the answer of their query;
a goroutine that returned holds the answer of the query of the call it created or joined; one query per call. -/
structure Inv2 (q : Nat → α) (s : Cfg α) : Prop where
  owner   : ∀ l, s.flight = some l → (s.pc l = 1 ∨ s.pc l = 2)
  leader  : ∀ t, (s.pc t = 1 ∨ s.pc t = 2) → s.joined t = s.gen
  waiter  : ∀ t, s.pc t = 3 → s.joined t ≤ s.gen
  done    : ∀ g, g < s.gen → s.callVal g = some (q g)
  ret     : ∀ t, s.pc t = 4 → s.joined t < s.gen ∧ s.got t = some (q (s.joined t))
  count   : s.queries = s.gen + (match s.flight with | some l => if s.pc l = 2 then 1 else 0 | none => 0)

theorem inv2_init (q : Nat → α) : Inv2 q (Cfg.init : Cfg α) := by
  refine ⟨?_, ?_, ?_, ?_, ?_, ?_⟩ <;> simp [Cfg.init]

theorem inv2_step {q : Nat → α} {s s' : Cfg α} {t : Nat} (h1 : Inv s) (h : Inv2 q s)
    (hs : step q s t = some s') : Inv2 q s' := by
  unfold step at hs
  split at hs
  · -- pc 0
    rename_i hpc
    split at hs
    · rename_i hfl
      cases hs
      refine ⟨?_, ?_, ?_, ?_, ?_, ?_⟩
      · intro l hl; simp at hl; subst hl; simp [upd]
      · intro u hu
        by_cases hut : u = t
        · subst hut; simp [upd]
        · simp [upd, hut] at hu ⊢
          have := h1 u hu; rw [hfl] at this; cases this
      · intro u hu
        by_cases hut : u = t
        · subst hut; simp [upd] at hu
        · simp [upd, hut] at hu ⊢; exact h.waiter u hu
      · exact h.done
      · intro u hu
        by_cases hut : u = t
        · subst hut; simp [upd] at hu
        · simp [upd, hut] at hu ⊢; exact h.ret u hu
      · have := h.count; rw [hfl] at this; simp [upd, this]
    · rename_i l hfl
      cases hs
      have hlt : l ≠ t := by
        intro e; subst e
        have := h.owner l hfl
        omega
      refine ⟨?_, ?_, ?_, ?_, ?_, ?_⟩
      · intro l' hl'; simp at hl'; rw [hfl] at hl'; cases hl'
        have := h.owner l hfl
        simp [upd, hlt]; exact this
      · intro u hu
        by_cases hut : u = t
        · subst hut; simp [upd] at hu
        · simp [upd, hut] at hu ⊢; exact h.leader u hu
      · intro u hu
        by_cases hut : u = t
        · subst hut; simp [upd]
        · simp [upd, hut] at hu ⊢; exact h.waiter u hu
      · exact h.done
      · intro u hu
        by_cases hut : u = t
        · subst hut; simp [upd] at hu
        · simp [upd, hut] at hu ⊢; exact h.ret u hu
      · have := h.count; rw [hfl] at this; simp [upd, hfl, hlt, this]
  · -- pc 1: the query starts
    rename_i hpc
    cases hs
    have hfl := h1 t (Or.inl hpc)
    refine ⟨?_, ?_, ?_, ?_, ?_, ?_⟩
    · intro l hl; simp at hl; rw [hfl] at hl; cases hl; simp [upd]
    · intro u hu
      by_cases hut : u = t
      · subst hut; exact h.leader u (Or.inl hpc)
      · simp [upd, hut] at hu ⊢; exact h.leader u hu
    · intro u hu
      by_cases hut : u = t
      · subst hut; simp [upd] at hu
      · simp [upd, hut] at hu ⊢; exact h.waiter u hu
    · exact h.done
    · intro u hu
      by_cases hut : u = t
      · subst hut; simp [upd] at hu
      · simp [upd, hut] at hu ⊢; exact h.ret u hu
    · have := h.count; rw [hfl] at this; simp [hpc] at this; simp [upd, hfl, this]
  · -- pc 2: the query returns, the call is finished
    rename_i hpc
    cases hs
    have hfl := h1 t (Or.inr hpc)
    have hj := h.leader t (Or.inr hpc)
    refine ⟨?_, ?_, ?_, ?_, ?_, ?_⟩
    · intro l hl; simp at hl
    · intro u hu
      by_cases hut : u = t
      · subst hut; simp [upd] at hu
      · simp [upd, hut] at hu
        have := h1 u hu; rw [hfl] at this; cases this; exact absurd rfl hut
    · intro u hu
      by_cases hut : u = t
      · subst hut; simp [upd] at hu
      · simp [upd, hut] at hu ⊢; have := h.waiter u hu; omega
    · intro g hg
      simp only [upd]
      by_cases hgg : g = s.gen
      · subst hgg; simp
      · simp [hgg]; exact h.done g (by simp at hg; omega)
    · intro u hu
      by_cases hut : u = t
      · subst hut; simp [upd, hj]
      · simp [upd, hut] at hu ⊢
        have := h.ret u hu
        exact ⟨by omega, this.2⟩
    · have := h.count; rw [hfl] at this; simp [hpc] at this; simp [this]
  · -- pc 3: a waiter is released
    rename_i hpc
    split at hs
    · rename_i hlt
      cases hs
      have hnl : ∀ l, s.flight = some l → l ≠ t := by
        intro l hl e; subst e
        have := h.owner l hl
        omega
      refine ⟨?_, ?_, ?_, ?_, ?_, ?_⟩
      · intro l hl; simp at hl
        have := h.owner l hl
        simp [upd, hnl l hl]; exact this
      · intro u hu
        by_cases hut : u = t
        · subst hut; simp [upd] at hu
        · simp [upd, hut] at hu ⊢; exact h.leader u hu
      · intro u hu
        by_cases hut : u = t
        · subst hut; simp [upd] at hu
        · simp [upd, hut] at hu ⊢; exact h.waiter u hu
      · exact h.done
      · intro u hu
        by_cases hut : u = t
        · subst hut; simp [upd]; exact ⟨hlt, h.done _ hlt⟩
        · simp [upd, hut] at hu ⊢; exact h.ret u hu
      · have := h.count
        cases hfl : s.flight with
        | none => rw [hfl] at this; simpa using this
        | some l => rw [hfl] at this; simp [upd, hnl l hfl]; exact this
    · cases hs
  · cases hs

theorem inv2_reachable {q : Nat → α} {s : Cfg α} (h : Reachable q s) : Inv2 q s := by
  induction h with
  | init => exact inv2_init q
  | step t hr hs ih => exact inv2_step (inv_reachable hr) ih hs

end GoZero.C06.Flight
