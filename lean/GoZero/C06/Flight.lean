/-
C06 — single loader per key: a small-step interleaving model of `doTake`'s load running inside
`barrier.DoEx` (core/syncx/singleflight.go: createCall / makeCall), for ONE key and an arbitrary number of
reader goroutines (`Tid := Nat`, any schedule).

  pc 0  createCall under g.lock: no call registered → register mine (leader, pc 1); else → wait on it (pc 3)
  pc 1  leader inside fn: cache miss seen, database query starts                               (pc 2)
  pc 2  database query returns; fn caches and returns; deferred: delete(calls,key); wg.Done    (pc 4)
  pc 3  follower: c.wg.Wait() returns once the call it joined is done, takes the call's value  (pc 4)
  pc 4  returned
`flight` is `g.calls[key]` (the leader's id), `gen` counts finished calls, `joined t` the call a follower waits on.
-/
namespace GoZero.C06.Flight

structure Cfg where
  pc     : Nat → Nat
  flight : Option Nat
  gen    : Nat
  joined : Nat → Nat

def upd (f : Nat → Nat) (t v : Nat) : Nat → Nat := fun u => if u = t then v else f u

def Cfg.init : Cfg := { pc := fun _ => 0, flight := none, gen := 0, joined := fun _ => 0 }

def step (s : Cfg) (t : Nat) : Option Cfg :=
  match s.pc t with
  | 0 => match s.flight with
    | none => some { s with pc := upd s.pc t 1, flight := some t }
    | some _ => some { s with pc := upd s.pc t 3, joined := upd s.joined t s.gen }
  | 1 => some { s with pc := upd s.pc t 2 }
  | 2 => some { s with pc := upd s.pc t 4, flight := none, gen := s.gen + 1 }
  | 3 => if s.joined t < s.gen then some { s with pc := upd s.pc t 4 } else none
  | _ => none

inductive Reachable : Cfg → Prop
  | init : Reachable Cfg.init
  | step {s s' : Cfg} (t : Nat) : Reachable s → step s t = some s' → Reachable s'

/-- a goroutine in the leader region (pc 1 or 2) is the registered call's owner. -/
def Inv (s : Cfg) : Prop := ∀ t, (s.pc t = 1 ∨ s.pc t = 2) → s.flight = some t

theorem inv_init : Inv Cfg.init := by
  intro t h; simp [Cfg.init] at h

theorem inv_step {s s' : Cfg} {t : Nat} (h : Inv s) (hs : step s t = some s') : Inv s' := by
  unfold step at hs
  intro u hu
  have h1 := h u
  have h2 := h t
  split at hs <;> (try split at hs) <;> simp at hs <;> (try subst hs) <;> simp [upd] at * <;> grind

theorem inv_reachable {s : Cfg} (h : Reachable s) : Inv s := by
  induction h with
  | init => exact inv_init
  | step t _ hs ih => exact inv_step ih hs

end GoZero.C06.Flight
