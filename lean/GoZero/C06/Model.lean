/-
C06 — cache-aside store.  Executable model (core Lean only) of
  core/stores/cache/cachenode.go   doGetCache / doTake / processCache / setCacheWithNotFound / Set* / DelCtx
                                   (both branches of DelCtx: one DEL for all keys, and — cluster-type Redis
                                   with more than one key — one DEL per key, each failure arming its own retry)
  core/stores/cache/cache.go       cacheCluster: every operation on a key is dispatched to the node the
                                   consistent hash assigns to the key (`Cfg.place`, an input: the ring is built
                                   from pointer values); DelCtx groups the keys by node and runs the node's
                                   DelCtx on every group
  core/stores/cache/cleaner.go     AddCleanTask / clean / nextDelay   (the wheel itself is C12's timer table)
  core/stores/sqlc/cachedsql.go    QueryRowCtx / QueryRowIndexCtx / ExecCtx / DelCacheCtx / SetCache* / GetCacheCtx
  core/mathx/unstable.go           AroundDuration (the draw `j/1000` is an input)
on top of a private model of SEVERAL Redis stores (one per cache node; a slot is a pair (node, key); string
keys with a millisecond TTL, GET / SET EX / SET NX EX / DEL) and an abstract database (rows by primary key +
a unique index), with per-command cache faults and a per-operation database fault as inputs.  A deployment
with one node (`cache.New` with a single-entry ClusterConf, `NewNode`) is `place = fun _ => 0`.

Ghost state (not observable, never influences behaviour): every cache entry carries its `Origin`, the
cleaner counts the tasks it gave up on.
-/
namespace GoZero.C06

/-- cache keys: `p pk` caches the row with primary key `pk`, `x a` caches the primary key of the row whose
unique-index column equals `a`. -/
inductive CKey where
  | p (pk : Nat)
  | x (a : Nat)
  deriving DecidableEq, Repr

/-- a place in the multi-node store: (cache node, key). -/
abbrev Slot := Nat × CKey

/-- what a Redis value decodes to. -/
inductive CVal where
  | ph                       -- the not-found placeholder "*"
  | row (pk v a : Nat)       -- JSON of a row
  | pk (n : Nat)             -- JSON number: an index entry
  | junk (n : Nat)           -- not JSON (only ever written behind the cache's back)
  deriving DecidableEq, Repr

/-- ghost: how an entry came to be what it is. -/
inductive Origin where
  | loaded      -- written by the load path from the database, and no database write changed its key's view since
  | explicit    -- written by SetCache / SetCacheWithExpire / directly into Redis (behind the cache's back)
  | stale       -- a database write changed the view of this key, its Exec named the key, but the DEL failed
  | unkeyed     -- a database write changed the view of this key and its Exec did not name the key
  deriving DecidableEq, Repr

structure Entry where
  val    : CVal
  ttl    : Nat        -- milliseconds left; 0 = PERSISTENT (no TTL: what `SET` / `SETNX` without EX leave behind)
  origin : Origin     -- ghost
  deriving DecidableEq, Repr

/-- a pending retry of a failed DEL in the cleaner's timer table: one DEL of `keys` on cache node `node`. -/
structure Task where
  node  : Nat
  keys  : List CKey
  delay : Nat         -- the delay (seconds = ticks) it was last armed with: 1, 5, 60, 300, 3600
  rem   : Nat         -- ticks until it fires, ≥ 1
  deriving DecidableEq, Repr

def Task.slots (t : Task) : List Slot := t.keys.map fun k => (t.node, k)

structure Cfg where
  exp : Nat                           -- configured expiry, ms (after newOptions' defaulting)
  nf  : Nat                           -- configured not-found expiry, ms
  cluster : Bool := false             -- the nodes' redis.Type is ClusterType
  place : CKey → Nat := fun _ => 0    -- consistent-hash dispatch: the node a key lives on

structure St where
  cache  : Slot → Option Entry
  rows   : Nat → Option (Nat × Nat)      -- pk ↦ (v, a)
  idx    : Nat → Option Nat              -- a ↦ pk
  tasks  : List Task
  gaveUp : Nat                           -- ghost: retries abandoned by the cleaner

def St.init : St := { cache := fun _ => none, rows := fun _ => none, idx := fun _ => none, tasks := [], gaveUp := 0 }

/-- the slot the dispatcher sends operations on `k` to. -/
def Cfg.slot (c : Cfg) (k : CKey) : Slot := (c.place k, k)

/-! ### constants of the code -/

def defaultExpiryMs : Nat := 7 * 24 * 3600 * 1000
def defaultNotFoundExpiryMs : Nat := 60 * 1000
def safeGapSec : Nat := 5

/-- `cache.Options` as the caller configures them: `none` = the option (`WithExpiry` / `WithNotFoundExpiry`)
was not given, `some ms` = given with that value — any integer: zero, negative, sub-second, very large. -/
structure Options where
  expiry   : Option Int := none
  notFound : Option Int := none
  deriving DecidableEq, Repr

/-- the two sanity checks of `newOptions` on the field values (ms): a non-positive value falls back to the
default (7 days / 1 minute).  Tied to the translated source by `Tie.tie_newOptionsTail`. -/
def newOptionsMs (e n : Int) : Nat × Nat :=
  (if e ≤ 0 then defaultExpiryMs else e.toNat, if n ≤ 0 then defaultNotFoundExpiryMs else n.toNat)

/-- `newOptions(opts...)`: `var o Options` (both fields zero), every given option assigns its field, then the
sanity checks. -/
def newOptions (o : Options) : Nat × Nat := newOptionsMs (o.expiry.getD 0) (o.notFound.getD 0)

/-- the configuration of a cache built by `cache.New` / `NewNode` with these options (`NewNode` copies
`o.Expiry` / `o.NotFoundExpiry` into the node: `Tie.tie_newNodeFacts`). -/
def Cfg.ofOptions (o : Options) : Cfg := { exp := (newOptions o).1, nf := (newOptions o).2 }

/-- `nextDelay` (seconds). -/
def nextDelay (d : Nat) : Option Nat :=
  if d = 1 then some 5 else if d = 5 then some 60 else if d = 60 then some 300 else if d = 300 then some 3600 else none

/-- TTL in seconds written for a base expiry of `eMs` milliseconds when the jitter draw is `j/1000`:
`⌈ trunc_ns((1 + 0.05 − 2·0.05·j/1000) · e) / 1 s ⌉ = ⌈(10500 − j)·eMs / 10⁷⌉`. -/
def ttlSec (eMs j : Nat) : Nat := ((10500 - j) * eMs + 9999999) / 10000000

/-- the same computation for a base expiry of `eNs` NANOseconds (the unit of `time.Duration`), in exact
arithmetic: `time.Duration(factor · base)` truncates to whole nanoseconds, `math.Ceil(d.Seconds())` rounds up
to seconds.  Agrees with `ttlSec` on whole milliseconds (`Props.ttlSecNs_whole_ms`); it is 0 for `eNs = 1` and a
draw above 1/2 (`Props.one_nanosecond_expiry_writes_a_persistent_key`). -/
def ttlSecNs (eNs j : Nat) : Nat := ((10500 - j) * eNs / 10000 + 999999999) / 1000000000

/-- the rounding with fix `fixes/C06-ttl-at-least-one-second.patch` (`ttlSeconds`): never below one second. -/
def ttlSecondsFixed (eNs j : Nat) : Nat := if ttlSecNs eNs j > 1 then ttlSecNs eNs j else 1

/-- `mathx.NewUnstable(deviation)`: the deviation is clamped to [0, 1]. -/
def clampDev (d : Rat) : Rat := if d < 0 then 0 else if d > 1 then 1 else d

/-- `Unstable.AroundDuration(base)` for a deviation of `p/qd` (after the clamp: `p ≤ qd`), a base of `base` ns and
the draw `j/1000`: `time.Duration((1 + dev − 2·dev·r) · float64(base))`, truncated to whole nanoseconds — in exact
arithmetic `⌊((qd + p)·1000 − 2·p·j) · base / (qd·1000)⌋`.  `cacheNode` uses `p/qd = 1/20` (`aroundNs_cache`). -/
def aroundNs (p qd base j : Nat) : Nat := ((qd + p) * 1000 - 2 * p * j) * base / (qd * 1000)

/-- `int(math.Ceil(expire.Seconds()))` for an explicit expiry in ms. -/
def ceilSec (ms : Nat) : Nat := (ms + 999) / 1000

/-! ### Redis stores -/

def upd (c : Slot → Option Entry) (k : Slot) (e : Option Entry) : Slot → Option Entry :=
  fun k' => if k' = k then e else c k'

def delKeys (c : Slot → Option Entry) (ks : List Slot) : Slot → Option Entry :=
  fun k => if k ∈ ks then none else c k

/-- `FastForward d` (every node): a persistent entry (`ttl = 0`) never goes. -/
def expire (c : Slot → Option Entry) (d : Nat) : Slot → Option Entry :=
  fun k => match c k with
    | some e => if e.ttl = 0 then some e else if e.ttl ≤ d then none else some { e with ttl := e.ttl - d }
    | none => none

/-- `i`-th cache command of the operation fails? -/
def failAt (m : List Bool) (i : Nat) : Bool := m.getD i false

/-! ### database -/

def dbRow (s : St) (pk : Nat) : Option CVal :=
  match s.rows pk with
  | some va => some (.row pk va.1 va.2)
  | none => none

/-- the index query: the row whose index column is `a`. -/
def dbIndex (s : St) (a : Nat) : Option (Nat × CVal) :=
  match s.idx a with
  | some pk => match s.rows pk with
    | some va => some (pk, .row pk va.1 va.2)
    | none => none
  | none => none

/-- what the database holds for a cache key, in cache terms (placeholder = absent). -/
def dbView (s : St) : CKey → CVal
  | .p pk => (dbRow s pk).getD .ph
  | .x a => match dbIndex s a with
    | some r => .pk r.1
    | none => .ph

inductive Write where
  | put (pk v a : Nat)
  | rm (pk : Nat)
  deriving DecidableEq, Repr

def clearIdx (s : St) (pk : Nat) : Nat → Option Nat :=
  match s.rows pk with
  | some va => fun a => if a = va.2 ∧ s.idx a = some pk then none else s.idx a
  | none => s.idx

def applyWrite (s : St) : Write → St
  | .put pk v a =>
    { s with rows := fun k => if k = pk then some (v, a) else s.rows k,
             idx := fun a' => if a' = a then some pk else clearIdx s pk a' }
  | .rm pk =>
    { s with rows := fun k => if k = pk then none else s.rows k, idx := clearIdx s pk }

/-! ### results -/

inductive Res where
  | ok
  | val (v : CVal)
  | notfound
  | dberr
  | cacheerr
  deriving DecidableEq, Repr

inductive Cmd where
  | get | set | setnx | del
  deriving DecidableEq, Repr

/-- one cache command as the Redis server of node `node` saw it. -/
structure CmdRec where
  cmd  : Cmd
  node : Nat
  keys : List CKey
  fail : Bool
  deriving DecidableEq, Repr

structure Out where
  res  : Res
  q    : Nat := 0                      -- database calls made
  cmds : List CmdRec := []             -- cache commands issued
  deriving DecidableEq, Repr

/-- does the cached value unmarshal into the target of a read of this key? -/
def parses : CKey → CVal → Bool
  | .p _, .row _ _ _ => true
  | .x _, .pk _ => true
  | _, _ => false

/-! ### cacheNode -/

/-- result of `doGetCache` as seen by doTake. -/
inductive Got where
  | err                  -- store error (not a miss)
  | placeholder
  | hit (v : CVal)
  | miss
  deriving DecidableEq, Repr

/-- `doGetCache` + `processCache` on node `n`: returns the state (an unparsable entry is deleted), what was
found, and the commands issued (1 or 2). -/
def getCache (s : St) (n : Nat) (k : CKey) (m : List Bool) : St × Got × List CmdRec :=
  if failAt m 0 then (s, .err, [⟨.get, n, [k], true⟩])
  else match s.cache (n, k) with
    | none => (s, .miss, [⟨.get, n, [k], false⟩])
    | some e =>
      if e.val = .ph then (s, .placeholder, [⟨.get, n, [k], false⟩])
      else if parses k e.val then (s, .hit e.val, [⟨.get, n, [k], false⟩])
      else if failAt m 1 then (s, .miss, [⟨.get, n, [k], false⟩, ⟨.del, n, [k], true⟩])
      else ({ s with cache := upd s.cache (n, k) none }, .miss, [⟨.get, n, [k], false⟩, ⟨.del, n, [k], false⟩])

/-- `SetWithExpireCtx` after marshalling: SET key val EX ttl.  `ttlS = 0` is what go-redis turns into a plain
`SET` (`SetexCtx(…, 0)`; for `SetnxExCtx(…, 0)` a plain `SETNX`): the entry is persistent (`ttl = 0`). -/
def setex (s : St) (k : Slot) (v : CVal) (ttlS : Nat) (o : Origin) (fail : Bool) : St :=
  if fail then s else { s with cache := upd s.cache k (some ⟨v, ttlS * 1000, o⟩) }

/-- `setCacheWithNotFound`: SET key "*" NX EX ttl. -/
def setnx (s : St) (k : Slot) (ttlS : Nat) (fail : Bool) : St :=
  if fail then s
  else match s.cache k with
    | some _ => s
    | none => { s with cache := upd s.cache k (some ⟨.ph, ttlS * 1000, .loaded⟩) }

/-- `Cache.TakeCtx` for a primary key (= `CachedConn.QueryRowCtx`), dispatched to the key's node: `m` is the
fault mask from this Take's first command on. -/
def takeP (c : Cfg) (s : St) (pk j : Nat) (m : List Bool) (dbf : Bool) : St × Out :=
  let g := getCache s (c.place (.p pk)) (.p pk) m
  match g.2.1 with
  | .err => (g.1, { res := .cacheerr, cmds := g.2.2 })
  | .placeholder => (g.1, { res := .notfound, cmds := g.2.2 })
  | .hit v => (g.1, { res := .val v, cmds := g.2.2 })
  | .miss =>
    if dbf then (g.1, { res := .dberr, q := 1, cmds := g.2.2 })
    else match dbRow s pk with
      | none =>
        (setnx g.1 (c.slot (.p pk)) (ttlSec c.nf j) (failAt m g.2.2.length),
         { res := .notfound, q := 1,
           cmds := g.2.2 ++ [⟨.setnx, c.place (.p pk), [.p pk], failAt m g.2.2.length⟩] })
      | some r =>
        (setex g.1 (c.slot (.p pk)) r (ttlSec c.exp j) .loaded (failAt m g.2.2.length),
         { res := .val r, q := 1,
           cmds := g.2.2 ++ [⟨.set, c.place (.p pk), [.p pk], failAt m g.2.2.length⟩] })

/-- `CachedConn.QueryRowIndexCtx`: the index key and the primary key may live on different nodes. -/
def qindex (c : Cfg) (s : St) (a j : Nat) (m : List Bool) (dbf : Bool) : St × Out :=
  let g := getCache s (c.place (.x a)) (.x a) m
  match g.2.1 with
  | .err => (g.1, { res := .cacheerr, cmds := g.2.2 })
  | .placeholder => (g.1, { res := .notfound, cmds := g.2.2 })
  | .hit (.pk pk) =>
    -- index entry cached: the row is read with a second Take on the primary key
    let t := takeP c g.1 pk j (m.drop g.2.2.length) dbf
    (t.1, { t.2 with cmds := g.2.2 ++ t.2.cmds })
  | .hit _ => (g.1, { res := .cacheerr, cmds := g.2.2 })   -- unreachable: `parses (.x a)` admits `.pk` only
  | .miss =>
    if dbf then (g.1, { res := .dberr, q := 1, cmds := g.2.2 })
    else match dbIndex s a with
      | none =>
        (setnx g.1 (c.slot (.x a)) (ttlSec c.nf j) (failAt m g.2.2.length),
         { res := .notfound, q := 1,
           cmds := g.2.2 ++ [⟨.setnx, c.place (.x a), [.x a], failAt m g.2.2.length⟩] })
      | some r =>
        -- the primary entry is written first (on ITS node), with expire + 5 s; if that fails the error is
        -- returned through the query path and nothing is cached under the index key
        if failAt m g.2.2.length then
          (g.1, { res := .cacheerr, q := 1, cmds := g.2.2 ++ [⟨.set, c.place (.p r.1), [.p r.1], true⟩] })
        else
          (setex (setex g.1 (c.slot (.p r.1)) r.2 (ttlSec c.exp j + safeGapSec) .loaded false)
              (c.slot (.x a)) (.pk r.1) (ttlSec c.exp j) .loaded (failAt m (g.2.2.length + 1)),
           { res := .val r.2, q := 1,
             cmds := g.2.2 ++ [⟨.set, c.place (.p r.1), [.p r.1], false⟩,
                               ⟨.set, c.place (.x a), [.x a], failAt m (g.2.2.length + 1)⟩] })

/-- `GetCacheCtx`. -/
def getOp (c : Cfg) (s : St) (k : CKey) (m : List Bool) : St × Out :=
  let g := getCache s (c.place k) k m
  match g.2.1 with
  | .err => (g.1, { res := .cacheerr, cmds := g.2.2 })
  | .placeholder => (g.1, { res := .notfound, cmds := g.2.2 })
  | .hit v => (g.1, { res := .val v, cmds := g.2.2 })
  | .miss => (g.1, { res := .notfound, cmds := g.2.2 })

/-- `SetCacheCtx` (expiry := none) / `SetCacheWithExpireCtx` (some ms, possibly ≤ 0). -/
def setOp (c : Cfg) (s : St) (k : CKey) (v : CVal) (expMs : Option Int) (j : Nat) (m : List Bool) : St × Out :=
  let ttl := match expMs with
    | some e => if e ≤ 0 then ttlSec c.exp j else ceilSec e.toNat
    | none => ttlSec c.exp j
  (setex s (c.slot k) v ttl .explicit (failAt m 0),
   { res := if failAt m 0 then .cacheerr else .ok, cmds := [⟨.set, c.place k, [k], failAt m 0⟩] })

/-! ### DelCtx -/

/-- one DEL of `ks` on node `n`: on failure `asyncRetryDelCache(ks...)` arms a clean task (1 s) for exactly
these keys. -/
def delOne (s : St) (n : Nat) (ks : List CKey) (fail : Bool) : St :=
  if fail then { s with tasks := s.tasks ++ [⟨n, ks, 1, 1⟩] }
  else { s with cache := delKeys s.cache (ks.map fun k => (n, k)) }

/-- the per-key loop of `cacheNode.DelCtx` (cluster-type Redis, more than one key): every key gets its own
DEL, whatever happened to the keys before it; `m` = outcomes of the node's DELs of this operation, in order. -/
def delLoop (s : St) (n : Nat) : List CKey → List Bool → St × List CmdRec
  | [], _ => (s, [])
  | k :: ks, m =>
    let r := delLoop (delOne s n [k] (m.headD false)) n ks m.tail
    (r.1, ⟨.del, n, [k], m.headD false⟩ :: r.2)

/-- `cacheNode.DelCtx` on node `n`. -/
def nodeDel (cluster : Bool) (s : St) (n : Nat) (ks : List CKey) (m : List Bool) : St × List CmdRec :=
  if ks = [] then (s, [])
  else if ks.length > 1 ∧ cluster = true then delLoop s n ks m
  else (delOne s n ks (failAt m 0), [⟨.del, n, ks, failAt m 0⟩])

/-- the nodes the keys are dispatched to (the key set of `cacheCluster.DelCtx`'s `nodes` map). -/
def nodesOf (c : Cfg) : List CKey → List Nat
  | [] => []
  | k :: ks => if c.place k ∈ nodesOf c ks then nodesOf c ks else c.place k :: nodesOf c ks

/-- `cacheCluster.DelCtx`, the loop over the `nodes` map (Go iterates it in random order; the groups touch
different stores and arm independent tasks, the driver compares the commands sorted by node): node `n`
gets the keys dispatched to it, in the order of the call; `masks.getD n []` = outcomes of its DELs. -/
def clusterDel (c : Cfg) (ks : List CKey) (masks : List (List Bool)) : List Nat → St → St × List CmdRec
  | [], s => (s, [])
  | n :: ns, s =>
    let a := nodeDel c.cluster s n (ks.filter fun k => c.place k = n) (masks.getD n [])
    let b := clusterDel c ks masks ns a.1
    (b.1, a.2 ++ b.2)

/-- `Cache.DelCtx` (`cacheCluster.DelCtx`; with a single node — `place` constant — this is
`cacheNode.DelCtx` on all keys, and for a single key it is the `case 1` shortcut: `delOp_single`). -/
def delOp (c : Cfg) (s : St) (ks : List CKey) (masks : List (List Bool)) : St × Out :=
  let r := clusterDel c ks masks (nodesOf c ks) s
  (r.1, { res := .ok, cmds := r.2 })

/-- ghost bookkeeping of a database write: entries whose key's database view changed are no longer `loaded`;
`stale` = the Exec names the key and the entry sits on the node the Exec's DEL for that key goes to. -/
def markChanged (c : Cfg) (old new : St) (ks : List CKey) : Slot → Option Entry :=
  fun sl => match old.cache sl with
    | some e =>
      if dbView new sl.2 = dbView old sl.2 then some e
      else if e.origin = .loaded then
        some { e with origin := if sl.2 ∈ ks ∧ c.place sl.2 = sl.1 then .stale else .unkeyed }
      else some e
    | none => none

/-- `ExecCtx`: database write, then DelCacheCtx of the keys. -/
def execOp (c : Cfg) (s : St) (ks : List CKey) (w : Write) (masks : List (List Bool)) (dbf : Bool) : St × Out :=
  if dbf then (s, { res := .dberr, q := 1 })
  else
    let s1 := applyWrite s w
    let d := delOp c { s1 with cache := markChanged c s s1 ks } ks masks
    (d.1, { d.2 with q := 1 })

/-! ### cleaner -/

/-- one tick of the cleaner: a due task runs its DEL on its node (it fails iff the node is down); a failed
one is re-armed with `nextDelay` or given up. -/
def tickTask (down : Nat → Bool) (t : Task) : Option Task :=
  if t.rem > 1 then some { t with rem := t.rem - 1 }
  else if down t.node then
    match nextDelay t.delay with
    | some d => some { t with delay := d, rem := d }
    | none => none
  else none

/-- the slots whose DEL runs successfully at this tick. -/
def dueSlots (down : Nat → Bool) (ts : List Task) : List Slot :=
  (ts.filter fun t => t.rem ≤ 1 ∧ down t.node = false).flatMap Task.slots

def downOf (down : List Bool) : Nat → Bool := fun n => down.getD n false

def tick (s : St) (down : List Bool) : St × Out :=
  let due := s.tasks.filter (·.rem ≤ 1)
  ({ s with cache := delKeys s.cache (dueSlots (downOf down) s.tasks),
            tasks := s.tasks.filterMap (tickTask (downOf down)),
            gaveUp := s.gaveUp + (due.filter fun t => downOf down t.node && (nextDelay t.delay).isNone).length },
   { res := .ok, cmds := due.map fun t => ⟨.del, t.node, t.keys, downOf down t.node⟩ })

/-! ### operations -/

inductive Op where
  | take (pk j : Nat) (m : List Bool) (dbf : Bool)
  | qindex (a j : Nat) (m : List Bool) (dbf : Bool)
  | get (k : CKey) (m : List Bool)
  | exec (ks : List CKey) (w : Write) (masks : List (List Bool)) (dbf : Bool)
  | del (ks : List CKey) (masks : List (List Bool))
  | set (k : CKey) (v : CVal) (expMs : Option Int) (j : Nat) (m : List Bool)
  | raw (k : CKey) (v : CVal) (ttlMs : Nat)          -- written into the key's Redis directly
  | ft (ms : Nat)
  | tick (down : List Bool)
  deriving Repr

def step (c : Cfg) (s : St) : Op → St × Out
  | .take pk j m dbf => takeP c s pk j m dbf
  | .qindex a j m dbf => qindex c s a j m dbf
  | .get k m => getOp c s k m
  | .exec ks w m dbf => execOp c s ks w m dbf
  | .del ks m => delOp c s ks m
  | .set k v e j m => setOp c s k v e j m
  | .raw k v t => ({ s with cache := upd s.cache (c.slot k) (if t = 0 then none else some ⟨v, t, .explicit⟩) }, { res := .ok })
  | .ft ms => ({ s with cache := expire s.cache ms }, { res := .ok })
  | .tick down => tick s down

def run (c : Cfg) (s : St) : List Op → St
  | [] => s
  | op :: ops => run c (step c s op).1 ops

end GoZero.C06
