/-
C06 — round 5c: ONE theorem about concurrent readers of many keys on many nodes (ManyKeys.lean): the coherence
invariant of the store and the single-loader clause together, for any number of goroutines, any assignment of
keys / instances (each with its own cache.Options) / faults / jitter draws to goroutines, every dispatch function
and Redis type, and EVERY schedule, started after any sequential history `pre` of operations through any instances.
-/
import GoZero.C06.ManyKeys
import GoZero.C06.PropsInstances
namespace GoZero.C06.Many
open GoZero.C06

/-- every reachable state of the concurrent system
  (1) has the store of a SEQUENTIAL history: `pre` followed by one Take per finished flight (`x.hist`);
  (2) hence satisfies the coherence invariant on every node (a loaded entry whose key's view did not change
      equals the database);
  (3) every reader that returned holds the result of a sequential Take OF ITS OWN KEY in that history — the Take
      of the flight it created or joined: "all of them receiving that query's result", never another key's;
  (4) at most one goroutine per key is inside the load (GET … database query … SET). -/
theorem concurrent_readers_of_many_keys_on_many_nodes (cs : Nat → Cfg) (inst key : Nat → Nat) (env : Nat → In)
    (pre : List (Nat × Op)) (x : MSt) (h : MReach cs inst key env (runI cs St.init pre) x) :
    x.store = runI cs St.init (pre ++ x.hist)
    ∧ Coh x.store
    ∧ (∀ t, x.fl.pc t = 4 → ∃ v, x.fl.got t = some v ∧ Expl cs (runI cs St.init pre) x.hist (key t) v)
    ∧ (∀ t u, x.fl.pc t = 2 → x.fl.pc u = 2 → key t = key u → t = u) := by
  have i := minv_reachable h
  have hst : x.store = runI cs St.init (pre ++ x.hist) := by rw [runI_append]; exact i.store
  refine ⟨hst, ?_, ?_, ?_⟩
  · rw [hst]; exact coherence_invariant_instances cs (pre ++ x.hist)
  · intro t ht
    have := i.fl.ret t ht
    cases hg : x.fl.got t with
    | none => rw [hg] at this; exact absurd this (by simp [Calls.GO])
    | some v => rw [hg] at this; exact ⟨v, rfl, this⟩
  · intro t u ht hu hk
    have a := i.fl.lead t (Or.inr ht)
    have b := i.fl.lead u (Or.inr hu)
    rw [hk] at a
    have hr : x.fl.ref t = x.fl.ref u := by
      have := a.1.symm.trans b.1
      injection this
    rw [← a.2, ← b.2, hr]

/-- … in particular a reader's result is what the model's `takeP` returns on a store of the sequential history:
every theorem about sequential Takes (served_from_cache, db_errors_not_cached, cache_failure_fails_fast,
coherent_reads_partial_instances, ttl …) applies to it. -/
theorem concurrent_result_is_a_sequential_take (cs : Nat → Cfg) (inst key : Nat → Nat) (env : Nat → In)
    (pre : List (Nat × Op)) (x : MSt) (h : MReach cs inst key env (runI cs St.init pre) x) (t : Nat) (ht : x.fl.pc t = 4) :
    ∃ (h1 : List (Nat × Op)) (i j : Nat) (m : List Bool) (d : Bool) (v : Res), x.fl.got t = some v ∧
      v = (takeP (cs i) (runI cs St.init (pre ++ h1)) (key t) j m d).2.res := by
  obtain ⟨v, hv, h1, _, i, j, m, d, _, he⟩ := (concurrent_readers_of_many_keys_on_many_nodes cs inst key env pre x h).2.2.1 t ht
  exact ⟨h1, i, j, m, d, v, hv, by rw [he, runI_append]; rfl⟩

/-- executable schedule runner (non-vacuity). -/
def mrun (cs : Nat → Cfg) (inst key : Nat → Nat) (env : Nat → In) : MSt → List Nat → Option MSt
  | x, [] => some x
  | x, t :: ts => match mstep cs inst key env x t with
    | some x' => mrun cs inst key env x' ts
    | none => none

theorem mrun_reachable {cs : Nat → Cfg} {inst key : Nat → Nat} {env : Nat → In} {s0 : St} {x x' : MSt}
    (h : MReach cs inst key env s0 x) (ts : List Nat) (hr : mrun cs inst key env x ts = some x') : MReach cs inst key env s0 x' := by
  induction ts generalizing x with
  | nil => simp [mrun] at hr; subst hr; exact h
  | cons t ts ih =>
    simp only [mrun] at hr
    split at hr
    · rename_i x1 h1; exact ih (.step t h h1) hr
    · cases hr

/-- non-vacuity: two keys on two nodes, three goroutines (0 and 1 read key 0, 2 reads key 1), goroutine 1 joins the
flight of 0; all return. -/
example : ∃ x, MReach (fun _ => { exp := 20000, nf := 3000, place := fun k => if k = .p 1 then 1 else 0 })
      (fun _ => 0) (fun t => if t = 2 then 1 else 0) (fun _ => {}) St.init x
    ∧ x.fl.pc 0 = 4 ∧ x.fl.pc 1 = 4 ∧ x.fl.pc 2 = 4 ∧ x.hist.length = 2 := by
  have hw : ((mrun (fun _ => { exp := 20000, nf := 3000, place := fun k => if k = .p 1 then 1 else 0 })
      (fun _ => 0) (fun t => if t = 2 then 1 else 0) (fun _ => {}) ⟨St.init, Calls.St.init, []⟩ [0, 1, 2, 0, 2, 2, 0, 1]).map
        fun x => (x.fl.pc 0, x.fl.pc 1, x.fl.pc 2, x.hist.length)) = some (4, 4, 4, 2) := by decide
  cases hr : mrun (fun _ => { exp := 20000, nf := 3000, place := fun k => if k = .p 1 then 1 else 0 })
      (fun _ => 0) (fun t => if t = 2 then 1 else 0) (fun _ => {}) ⟨St.init, Calls.St.init, []⟩ [0, 1, 2, 0, 2, 2, 0, 1] with
  | none => rw [hr] at hw; cases hw
  | some x =>
    rw [hr] at hw
    simp only [Option.map_some, Option.some.injEq, Prod.mk.injEq] at hw
    exact ⟨x, mrun_reachable .init _ hr, hw.1, hw.2.1, hw.2.2.1, hw.2.2.2⟩

end GoZero.C06.Many
