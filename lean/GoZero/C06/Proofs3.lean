/-
C06 — helper lemmas: provenance of entries that are not `loaded`.
  Prov      a `stale` entry (failed DEL after a database write) has a retry pending in the cleaner, or the
            cleaner has given up on some task (after 1 s + 5 s + 1 min + 5 min + 1 h of failed retries)
  NoBehind  if nothing is written behind the cache's back and every Exec names the keys whose database view
            it changes, every entry is `loaded` or `stale`
-/
import GoZero.C06.Proofs2
namespace GoZero.C06

/-- a retry of a DEL covering slot `k` (a DEL of its key, on its node) sits in the cleaner's table. -/
def Pending (s : St) (k : Slot) : Prop := ∃ t ∈ s.tasks, t.node = k.1 ∧ k.2 ∈ t.keys

def Prov (s : St) : Prop :=
  ∀ (k : Slot) e, s.cache k = some e → e.origin = .stale → Pending s k ∨ 0 < s.gaveUp

def NoBehind (s : St) : Prop :=
  ∀ (k : Slot) e, s.cache k = some e → e.origin = .loaded ∨ e.origin = .stale

/-- **dispatch invariant** of the multi-node store: an entry of a key sits on the node the dispatcher assigns
to the key, never on another node. -/
def Placed (c : Cfg) (s : St) : Prop :=
  ∀ (k : Slot) e, s.cache k = some e → k.1 = c.place k.2

/-- every entry of `s'` sits where `s` had an entry, or on its key's node. -/
def Fresh (c : Cfg) (s s' : St) : Prop :=
  ∀ (k : Slot) e', s'.cache k = some e' → (∃ e, s.cache k = some e) ∨ k.1 = c.place k.2

theorem Fresh.refl (c : Cfg) (s : St) : Fresh c s s := fun _ e' h => Or.inl ⟨e', h⟩

theorem Fresh.trans {c : Cfg} {a b d : St} (h1 : Fresh c a b) (h2 : Fresh c b d) : Fresh c a d := by
  intro k e' hk
  rcases h2 k e' hk with ⟨e, he⟩ | h
  · exact h1 k e he
  · exact Or.inr h

theorem placed_of_fresh {c : Cfg} {s s' : St} (hp : Placed c s) (hf : Fresh c s s') : Placed c s' := by
  intro k e' hk
  rcases hf k e' hk with ⟨e, he⟩ | h
  · exact hp k e he
  · exact h

theorem fresh_of_shrinks {c : Cfg} {s s' : St} (h : Shrinks s s') : Fresh c s s' := by
  intro k e' hk
  rcases h k with h | h
  · exact Or.inl ⟨e', h ▸ hk⟩
  · rw [h] at hk; cases hk

/-- every entry of `s'` has the origin of the entry of `s` under the same key, or is a fresh `loaded` one. -/
def OriginsFrom (s s' : St) : Prop :=
  ∀ k e', s'.cache k = some e' → (∃ e, s.cache k = some e ∧ e.origin = e'.origin) ∨ e'.origin = .loaded

def SameTasks (s s' : St) : Prop := s'.tasks = s.tasks ∧ s'.gaveUp = s.gaveUp

theorem OriginsFrom.refl (s : St) : OriginsFrom s s := fun _ e' h => Or.inl ⟨e', h, rfl⟩

theorem OriginsFrom.trans {a b c : St} (h1 : OriginsFrom a b) (h2 : OriginsFrom b c) : OriginsFrom a c := by
  intro k e' hk
  rcases h2 k e' hk with ⟨e, he, ho⟩ | h
  · rcases h1 k e he with ⟨e0, he0, ho0⟩ | h
    · exact Or.inl ⟨e0, he0, ho0.trans ho⟩
    · exact Or.inr (ho ▸ h)
  · exact Or.inr h

theorem SameTasks.trans {a b c : St} (h1 : SameTasks a b) (h2 : SameTasks b c) : SameTasks a c :=
  ⟨h2.1.trans h1.1, h2.2.trans h1.2⟩

theorem prov_of_originsFrom {s s' : St} (hp : Prov s) (ho : OriginsFrom s s') (ht : SameTasks s s') : Prov s' := by
  intro k e' hk hs
  rcases ho k e' hk with ⟨e, he, hoe⟩ | h
  · have := hp k e he (hoe.trans hs)
    unfold Pending at *
    rw [ht.1, ht.2]
    exact this
  · rw [hs] at h; cases h

theorem noBehind_of_originsFrom {s s' : St} (hp : NoBehind s) (ho : OriginsFrom s s') : NoBehind s' := by
  intro k e' hk
  rcases ho k e' hk with ⟨e, he, hoe⟩ | h
  · rw [← hoe]; exact hp k e he
  · exact Or.inl h

theorem originsFrom_of_shrinks {s s' : St} (h : Shrinks s s') : OriginsFrom s s' := by
  intro k e' hk
  rcases h k with h | h
  · exact Or.inl ⟨e', h ▸ hk, rfl⟩
  · rw [h] at hk; cases hk

theorem getCache_originsFrom (s : St) (n : Nat) (k : CKey) (m : List Bool) : OriginsFrom s (getCache s n k m).1 :=
  originsFrom_of_shrinks (getCache_shrinks s n k m)

theorem getCache_sameTasks (s : St) (n : Nat) (k : CKey) (m : List Bool) : SameTasks s (getCache s n k m).1 :=
  getCache_tasks s n k m

theorem setex_fresh (c : Cfg) (s : St) (k : CKey) (v t o f) : Fresh c s (setex s (c.slot k) v t o f) := by
  intro k' e' hk
  rcases setex_fail_or s (c.slot k) v t o f k' with h | ⟨h, _⟩
  · exact Or.inl ⟨e', h ▸ hk⟩
  · subst h; exact Or.inr rfl

theorem setnx_fresh (c : Cfg) (s : St) (k : CKey) (t f) : Fresh c s (setnx s (c.slot k) t f) := by
  unfold setnx
  split
  · exact Fresh.refl c s
  · split
    · exact Fresh.refl c s
    · intro k' e' hk
      simp only [upd] at hk
      by_cases h : k' = c.slot k
      · subst h; exact Or.inr rfl
      · simp [h] at hk; exact Or.inl ⟨e', hk⟩

theorem setex_originsFrom (s : St) (k v t f) : OriginsFrom s (setex s k v t .loaded f) := by
  intro k' e' hk
  rcases setex_fail_or s k v t .loaded f k' with h | ⟨_, h⟩
  · exact Or.inl ⟨e', h ▸ hk, rfl⟩
  · rw [h] at hk; cases hk; exact Or.inr rfl

theorem setex_sameTasks (s : St) (k v t o f) : SameTasks s (setex s k v t o f) := by
  unfold setex; split <;> exact ⟨rfl, rfl⟩

theorem setnx_originsFrom (s : St) (k t f) : OriginsFrom s (setnx s k t f) := by
  unfold setnx
  split
  · exact OriginsFrom.refl s
  · split
    · exact OriginsFrom.refl s
    · intro k' e' hk
      simp only [upd] at hk
      by_cases h : k' = k
      · simp [h] at hk; subst hk; exact Or.inr rfl
      · simp [h] at hk; exact Or.inl ⟨e', hk, rfl⟩

theorem setnx_sameTasks (s : St) (k t f) : SameTasks s (setnx s k t f) := by
  unfold setnx; repeat' split
  all_goals exact ⟨rfl, rfl⟩

theorem takeP_origins (c : Cfg) (s : St) (pk j : Nat) (m : List Bool) (dbf : Bool) :
    OriginsFrom s (takeP c s pk j m dbf).1 ∧ SameTasks s (takeP c s pk j m dbf).1 := by
  have ho := getCache_originsFrom s (c.place (.p pk)) (.p pk) m
  have ht := getCache_sameTasks s (c.place (.p pk)) (.p pk) m
  unfold takeP
  simp only []
  repeat' split
  all_goals first
    | exact ⟨ho, ht⟩
    | exact ⟨ho.trans (setnx_originsFrom _ _ _ _), ht.trans (setnx_sameTasks _ _ _ _)⟩
    | exact ⟨ho.trans (setex_originsFrom _ _ _ _ _), ht.trans (setex_sameTasks _ _ _ _ _ _)⟩

theorem qindex_origins (c : Cfg) (s : St) (a j : Nat) (m : List Bool) (dbf : Bool) :
    OriginsFrom s (qindex c s a j m dbf).1 ∧ SameTasks s (qindex c s a j m dbf).1 := by
  have ho := getCache_originsFrom s (c.place (.x a)) (.x a) m
  have ht := getCache_sameTasks s (c.place (.x a)) (.x a) m
  unfold qindex
  simp only []
  split
  · exact ⟨ho, ht⟩
  · exact ⟨ho, ht⟩
  · have := takeP_origins c (getCache s (c.place (.x a)) (.x a) m).1 ‹_› j
      (m.drop (getCache s (c.place (.x a)) (.x a) m).2.2.length) dbf
    exact ⟨ho.trans this.1, ht.trans this.2⟩
  · exact ⟨ho, ht⟩
  · repeat' split
    all_goals first
      | exact ⟨ho, ht⟩
      | exact ⟨ho.trans (setnx_originsFrom _ _ _ _), ht.trans (setnx_sameTasks _ _ _ _)⟩
      | exact ⟨(ho.trans (setex_originsFrom _ _ _ _ _)).trans (setex_originsFrom _ _ _ _ _),
               (ht.trans (setex_sameTasks _ _ _ _ _ _)).trans (setex_sameTasks _ _ _ _ _ _)⟩

theorem getOp_origins (c : Cfg) (s : St) (k : CKey) (m : List Bool) :
    OriginsFrom s (getOp c s k m).1 ∧ SameTasks s (getOp c s k m).1 := by
  have ho := getCache_originsFrom s (c.place k) k m
  have ht := getCache_sameTasks s (c.place k) k m
  unfold getOp
  simp only []
  split <;> exact ⟨ho, ht⟩

/-! ### Prov -/

theorem pending_mono {s s' : St} (h : ∀ t ∈ s.tasks, t ∈ s'.tasks) {k : Slot} (hp : Pending s k) : Pending s' k := by
  obtain ⟨t, ht, hk⟩ := hp
  exact ⟨t, h t ht, hk⟩

theorem pending_of_delStep {s s' : St} (h : DelStep s s') {k : Slot} (hp : Pending s k) : Pending s' k := by
  obtain ⟨l, hl⟩ := h.tasks
  exact pending_mono (fun t ht => by rw [hl]; exact List.mem_append_left _ ht) hp

/-- a DelCtx layer keeps `Prov`: it removes entries and appends tasks. -/
theorem prov_of_delStep {s s' : St} (hp : Prov s) (h : DelStep s s') : Prov s' := by
  intro k e hk hs
  rcases h.shr k with hc | hc
  · rcases hp k e (hc ▸ hk) hs with hpd | hg
    · exact Or.inl (pending_of_delStep h hpd)
    · exact Or.inr (by rw [h.gave]; exact hg)
  · rw [hc] at hk; cases hk

theorem delOp_prov (c : Cfg) {s : St} (hp : Prov s) (ks : List CKey) (m : List (List Bool)) : Prov (delOp c s ks m).1 :=
  prov_of_delStep hp (delOp_step c s ks m)

/-! #### every named key is covered: deleted, or a retry of its DEL is pending -/

/-- the slot is empty, or a retry of a DEL covering it is pending. -/
def Covered (s : St) (k : Slot) : Prop := s.cache k = none ∨ Pending s k

theorem covered_of_delStep {s s' : St} (h : DelStep s s') {k : Slot} (hc : Covered s k) : Covered s' k := by
  rcases hc with hc | hc
  · rcases h.shr k with h' | h'
    · exact Or.inl (h'.trans hc)
    · exact Or.inl h'
  · exact Or.inr (pending_of_delStep h hc)

theorem delOne_covers (s : St) (n : Nat) (ks : List CKey) (f : Bool) {k : CKey} (hk : k ∈ ks) :
    Covered (delOne s n ks f) (n, k) := by
  unfold delOne
  split
  · exact Or.inr ⟨⟨n, ks, 1, 1⟩, List.mem_append_right _ (List.mem_singleton.mpr rfl), rfl, hk⟩
  · left
    simp only [delKeys]
    have : (n, k) ∈ ks.map fun k => (n, k) := List.mem_map.mpr ⟨k, hk, rfl⟩
    simp [this]

/-- the per-key loop covers EVERY key of the list, whatever the outcome of the DELs before it (this is what a
`break` after the first failure would falsify). -/
theorem delLoop_covers (n : Nat) (ks : List CKey) {k : CKey} (hk : k ∈ ks) :
    ∀ (s : St) (m : List Bool), Covered (delLoop s n ks m).1 (n, k) := by
  induction ks with
  | nil => cases hk
  | cons k0 ks ih =>
    intro s m
    simp only [delLoop]
    rcases List.mem_cons.mp hk with h | h
    · subst h
      exact covered_of_delStep (delLoop_step n ks _ _) (delOne_covers s n [k] _ (List.mem_singleton.mpr rfl))
    · exact ih h _ _

theorem nodeDel_covers (cl : Bool) (s : St) (n : Nat) (ks : List CKey) (m : List Bool) {k : CKey} (hk : k ∈ ks) :
    Covered (nodeDel cl s n ks m).1 (n, k) := by
  unfold nodeDel
  split
  · rename_i h; subst h; cases hk
  · split
    · exact delLoop_covers n ks hk s m
    · exact delOne_covers s n ks _ hk

theorem clusterDel_covers (c : Cfg) (ks : List CKey) (masks : List (List Bool)) {k : CKey} (hk : k ∈ ks)
    (ns : List Nat) (hn : c.place k ∈ ns) : ∀ s : St, Covered (clusterDel c ks masks ns s).1 (c.slot k) := by
  induction ns with
  | nil => cases hn
  | cons n ns ih =>
    intro s
    simp only [clusterDel]
    by_cases h : c.place k = n
    · refine covered_of_delStep (clusterDel_step c ks masks ns _) ?_
      have hk' : k ∈ ks.filter fun k => c.place k = n := by simp [List.mem_filter, hk, h]
      have := nodeDel_covers c.cluster s n _ (masks.getD n []) hk'
      simpa [Cfg.slot, h] using this
    · rcases List.mem_cons.mp hn with h' | h'
      · exact absurd h' h
      · exact ih h' _

theorem mem_nodesOf (c : Cfg) {k : CKey} {ks : List CKey} (hk : k ∈ ks) : c.place k ∈ nodesOf c ks := by
  induction ks with
  | nil => cases hk
  | cons k0 ks ih =>
    simp only [nodesOf]
    rcases List.mem_cons.mp hk with h | h
    · subst h
      split
      · assumption
      · exact List.mem_cons_self
    · split
      · exact ih h
      · exact List.mem_cons_of_mem _ (ih h)

/-- **`Cache.DelCtx` covers every key it is given**: after the call the key's slot is empty or a retry of a
DEL of that key on that node is pending — for every number of nodes, node-type and cluster-type Redis, every
placement of the keys and every outcome of every DEL. -/
theorem delOp_covers (c : Cfg) (s : St) (ks : List CKey) (m : List (List Bool)) {k : CKey} (hk : k ∈ ks) :
    Covered (delOp c s ks m).1 (c.slot k) :=
  clusterDel_covers c ks m hk _ (mem_nodesOf c hk) s

/-! #### without a failing DEL every named key is gone -/

theorem failAt_head (m : List Bool) : m.headD false = failAt m 0 := by
  cases m <;> rfl

theorem failAt_tail (m : List Bool) (i : Nat) : failAt m.tail i = failAt m (i + 1) := by
  cases m <;> simp [failAt]

theorem gone_of_delStep {s s' : St} (h : DelStep s s') {k : Slot} (hc : s.cache k = none) : s'.cache k = none := by
  rcases h.shr k with h' | h'
  · exact h'.trans hc
  · exact h'

theorem delOne_gone (s : St) (n : Nat) (ks : List CKey) {k : CKey} (hk : k ∈ ks) :
    (delOne s n ks false).cache (n, k) = none := by
  have : (n, k) ∈ ks.map fun k => (n, k) := List.mem_map.mpr ⟨k, hk, rfl⟩
  simp [delOne, delKeys, this]

theorem delLoop_gone (n : Nat) (ks : List CKey) {k : CKey} (hk : k ∈ ks) :
    ∀ (s : St) (m : List Bool), (∀ i, failAt m i = false) → (delLoop s n ks m).1.cache (n, k) = none := by
  induction ks with
  | nil => cases hk
  | cons k0 ks ih =>
    intro s m hm
    simp only [delLoop]
    have h0 : m.headD false = false := by rw [failAt_head]; exact hm 0
    have ht : ∀ i, failAt m.tail i = false := fun i => by rw [failAt_tail]; exact hm _
    rcases List.mem_cons.mp hk with h | h
    · subst h
      rw [h0]
      exact gone_of_delStep (delLoop_step n ks _ _) (delOne_gone s n [k] (List.mem_singleton.mpr rfl))
    · exact ih h _ _ ht

theorem nodeDel_gone (cl : Bool) (s : St) (n : Nat) (ks : List CKey) (m : List Bool) (hm : ∀ i, failAt m i = false)
    {k : CKey} (hk : k ∈ ks) : (nodeDel cl s n ks m).1.cache (n, k) = none := by
  unfold nodeDel
  split
  · rename_i h; subst h; cases hk
  · split
    · exact delLoop_gone n ks hk s m hm
    · rw [hm 0]; exact delOne_gone s n ks hk

theorem clusterDel_gone (c : Cfg) (ks : List CKey) (masks : List (List Bool))
    (hm : ∀ n i, failAt (masks.getD n []) i = false) {k : CKey} (hk : k ∈ ks)
    (ns : List Nat) (hn : c.place k ∈ ns) : ∀ s : St, (clusterDel c ks masks ns s).1.cache (c.slot k) = none := by
  induction ns with
  | nil => cases hn
  | cons n ns ih =>
    intro s
    simp only [clusterDel]
    by_cases h : c.place k = n
    · refine gone_of_delStep (clusterDel_step c ks masks ns _) ?_
      have hk' : k ∈ ks.filter fun k => c.place k = n := by simp [List.mem_filter, hk, h]
      have := nodeDel_gone c.cluster s n _ (masks.getD n []) (hm n) hk'
      simpa [Cfg.slot, h] using this
    · rcases List.mem_cons.mp hn with h' | h'
      · exact absurd h' h
      · exact ih h' _

theorem delOp_nofault (c : Cfg) (s : St) (ks : List CKey) (m : List (List Bool))
    (hm : ∀ n i, failAt (m.getD n []) i = false) {k : CKey} (hk : k ∈ ks) :
    (delOp c s ks m).1.cache (c.slot k) = none :=
  clusterDel_gone c ks m hm hk _ (mem_nodesOf c hk) s

theorem delLoop_cmds (n : Nat) (ks : List CKey) : ∀ (s : St) (m : List Bool),
    (delLoop s n ks m).2.map (fun r => (r.cmd, r.node, r.keys)) = ks.map fun k => (Cmd.del, n, [k]) := by
  induction ks with
  | nil => intro s m; rfl
  | cons k ks ih => intro s m; simp only [delLoop, List.map_cons]; rw [ih]

theorem markChanged_spec {c : Cfg} {s s1 : St} {ks : List CKey} {k : Slot} {e : Entry}
    (hk : markChanged c s s1 ks k = some e) :
    ∃ e0, s.cache k = some e0 ∧
      (e.origin = e0.origin ∨
       (e0.origin = .loaded ∧ dbView s1 k.2 ≠ dbView s k.2
        ∧ e.origin = (if k.2 ∈ ks ∧ c.place k.2 = k.1 then .stale else .unkeyed))) := by
  simp only [markChanged] at hk
  cases he0 : s.cache k with
  | none => simp [he0] at hk
  | some e0 =>
    simp only [he0] at hk
    refine ⟨e0, rfl, ?_⟩
    by_cases hv : dbView s1 k.2 = dbView s k.2
    · simp [hv] at hk; subst hk; exact Or.inl rfl
    · by_cases hl : e0.origin = .loaded
      · simp [hv, hl] at hk; subst hk; exact Or.inr ⟨hl, hv, rfl⟩
      · simp [hv, hl] at hk; subst hk; exact Or.inl rfl

theorem applyWrite_tasks (s : St) (w : Write) : (applyWrite s w).tasks = s.tasks ∧ (applyWrite s w).gaveUp = s.gaveUp := by
  cases w <;> exact ⟨rfl, rfl⟩

/-- Exec: an entry that becomes `stale` is under a key named by the Exec, on that key's node; the DelCtx that
follows covers it: the entry is gone or a retry of its DEL is pending. -/
theorem execOp_prov (c : Cfg) {s : St} (hp : Prov s) (ks : List CKey) (w : Write) (m : List (List Bool)) (dbf : Bool) :
    Prov (execOp c s ks w m dbf).1 := by
  unfold execOp
  split
  · exact hp
  · have ht := applyWrite_tasks s w
    simp only []
    generalize hs2 : ({ applyWrite s w with cache := markChanged c s (applyWrite s w) ks } : St) = s2
    have hst := delOp_step c s2 ks m
    intro k e hk hs
    rcases hst.shr k with hc | hc
    · rw [hc] at hk
      have hk2 : markChanged c s (applyWrite s w) ks k = some e := by rw [← hs2] at hk; exact hk
      obtain ⟨e0, he0, h | ⟨_, _, h⟩⟩ := markChanged_spec hk2
      · rcases hp k e0 he0 (h ▸ hs) with hpd | hg
        · left
          have : Pending s2 k := by
            obtain ⟨t, htm, hkt⟩ := hpd
            exact ⟨t, by rw [← hs2]; simpa [ht.1] using htm, hkt⟩
          exact pending_of_delStep hst this
        · right
          rw [hst.gave, ← hs2]
          simpa [ht.2] using hg
      · by_cases hin : k.2 ∈ ks ∧ c.place k.2 = k.1
        · have hcov := delOp_covers c s2 ks m hin.1
          have hsl : c.slot k.2 = k := by
            cases k; simp only [Cfg.slot] at hin ⊢; rw [hin.2]
          rw [hsl] at hcov
          rcases hcov with hn | hpd
          · rw [hc, hk] at hn; cases hn
          · exact Or.inl hpd
        · rw [hs] at h; simp [hin] at h
    · rw [hc] at hk; cases hk

theorem tickTask_keys {dn : Nat → Bool} {t t' : Task} (h : tickTask dn t = some t') :
    t'.keys = t.keys ∧ t'.node = t.node := by
  unfold tickTask at h
  repeat' split at h
  all_goals simp at h
  all_goals (subst h; exact ⟨rfl, rfl⟩)

theorem tick_prov {s : St} (hp : Prov s) (down : List Bool) : Prov (tick s down).1 := by
  unfold tick
  intro k e hk hs
  simp only [delKeys] at hk ⊢
  by_cases hin : k ∈ dueSlots (downOf down) s.tasks
  · simp [hin] at hk
  · simp only [hin, if_false] at hk
    rcases hp k e hk hs with ⟨t, ht, htn, hkt⟩ | h
    · cases htt : tickTask (downOf down) t with
      | some t' =>
        left
        refine ⟨t', List.mem_filterMap.mpr ⟨t, ht, htt⟩, ?_, ?_⟩
        · rw [(tickTask_keys htt).2]; exact htn
        · rw [(tickTask_keys htt).1]; exact hkt
      | none =>
        -- the task ran for the last time: its node is down and the schedule is exhausted (given up) —
        -- if the node were up, the slot would have been deleted at this tick
        have hdue : t.rem ≤ 1 := by
          unfold tickTask at htt
          split at htt
          · cases htt
          · omega
        by_cases hd : downOf down t.node = true
        · right
          have hn : (nextDelay t.delay).isNone = true := by
            unfold tickTask at htt
            simp only [show ¬ t.rem > 1 by omega, hd, if_true, if_false] at htt
            split at htt
            · cases htt
            · rename_i hn; simp [hn]
          have : t ∈ (s.tasks.filter (·.rem ≤ 1)).filter
              (fun t => downOf down t.node && (nextDelay t.delay).isNone) := by
            simp [List.mem_filter, ht, hdue, hd, hn]
          have := List.length_pos_of_mem this
          omega
        · exfalso
          apply hin
          unfold dueSlots
          simp only [List.mem_flatMap, List.mem_filter, decide_eq_true_eq]
          refine ⟨t, ⟨ht, hdue, by simpa using hd⟩, ?_⟩
          unfold Task.slots
          exact List.mem_map.mpr ⟨k.2, hkt, by cases k; simp at htn ⊢; exact htn⟩
    · right; omega

theorem expire_origins (s : St) (ms : Nat) : OriginsFrom s { s with cache := expire s.cache ms } := by
  intro k e' hk
  simp only [expire] at hk
  split at hk
  · rename_i e0 he0
    split at hk
    · simp only [Option.some.injEq] at hk
      subst hk
      exact Or.inl ⟨e0, he0, rfl⟩
    · split at hk
      · cases hk
      · cases hk; exact Or.inl ⟨e0, he0, rfl⟩
  · cases hk

theorem step_prov (c : Cfg) {s : St} (hp : Prov s) (op : Op) : Prov (step c s op).1 := by
  cases op with
  | take pk j m dbf => exact prov_of_originsFrom hp (takeP_origins c s pk j m dbf).1 (takeP_origins c s pk j m dbf).2
  | qindex a j m dbf => exact prov_of_originsFrom hp (qindex_origins c s a j m dbf).1 (qindex_origins c s a j m dbf).2
  | get k m => exact prov_of_originsFrom hp (getOp_origins c s k m).1 (getOp_origins c s k m).2
  | exec ks w m dbf => exact execOp_prov c hp ks w m dbf
  | del ks m => exact delOp_prov c hp ks m
  | set k v e j m =>
    simp only [step, setOp]
    intro k' e' hk hs
    rcases setex_fail_or s (c.slot k) v _ .explicit (failAt m 0) k' with h | ⟨_, h⟩
    · rw [h] at hk
      have := hp k' e' hk hs
      rcases this with ⟨t, ht, hkt⟩ | h
      · exact Or.inl ⟨t, by rw [(setex_sameTasks s (c.slot k) v _ .explicit (failAt m 0)).1]; exact ht, hkt⟩
      · exact Or.inr (by rw [(setex_sameTasks s (c.slot k) v _ .explicit (failAt m 0)).2]; exact h)
    · rw [h] at hk; cases hk; cases hs
  | raw k v t =>
    simp only [step]
    intro k' e' hk hs
    simp only [upd] at hk
    by_cases h : k' = c.slot k
    · simp [h] at hk
      rcases hk with ⟨_, hk⟩
      subst hk; cases hs
    · simp [h] at hk
      exact hp k' e' hk hs
  | ft ms => exact prov_of_originsFrom hp (expire_origins s ms) ⟨rfl, rfl⟩
  | tick down => exact tick_prov hp down

/-! ### NoBehind under the property's proviso -/

/-- "every database write goes through Exec with that key": the Exec names every cache key whose database view
the write changes. -/
def WellKeyed (s : St) (ks : List CKey) (w : Write) : Prop :=
  ∀ k, dbView (applyWrite s w) k ≠ dbView s k → k ∈ ks

/-- a first write of row `pk` (index column `a`) into a database that knows neither names its two keys. -/
theorem wellKeyed_put_fresh {s : St} {pk v a : Nat} (hr : s.rows = fun _ => none) (hi : s.idx = fun _ => none) :
    WellKeyed s [.p pk, .x a] (.put pk v a) := by
  intro k hne
  cases k with
  | p n =>
    by_cases h : n = pk
    · subst h; simp
    · exfalso; apply hne; simp [dbView, dbRow, applyWrite, hr, h]
  | x b =>
    by_cases h : b = a
    · subst h; simp
    · exfalso; apply hne; simp [dbView, dbIndex, applyWrite, clearIdx, hr, hi, h]

/-- an update of the only row, keeping its index column, names its two keys. -/
theorem wellKeyed_put_same {s : St} {pk v v0 a : Nat}
    (hr : s.rows = fun k => if k = pk then some (v0, a) else none)
    (hi : s.idx = fun b => if b = a then some pk else (fun _ => none) b) :
    WellKeyed s [.p pk, .x a] (.put pk v a) := by
  intro k hne
  cases k with
  | p n =>
    by_cases h : n = pk
    · subst h; simp
    · exfalso; apply hne; simp [dbView, dbRow, applyWrite, hr, h]
  | x b =>
    by_cases h : b = a
    · subst h; simp
    · exfalso; apply hne; simp [dbView, dbIndex, applyWrite, clearIdx, hr, hi, h]

/-- the proviso of the property for one operation in state `s`. -/
def OpOk (s : St) : Op → Prop
  | .exec ks w _ _ => WellKeyed s ks w
  | .set .. => False          -- explicit cache set: "written behind its back"
  | .raw .. => False
  | _ => True

/-! ### the dispatch invariant -/

theorem takeP_fresh (c : Cfg) (s : St) (pk j : Nat) (m : List Bool) (dbf : Bool) : Fresh c s (takeP c s pk j m dbf).1 := by
  have hg : Fresh c s (getCache s (c.place (.p pk)) (.p pk) m).1 := fresh_of_shrinks (getCache_shrinks s _ _ m)
  unfold takeP
  simp only []
  repeat' split
  all_goals first
    | exact hg
    | exact hg.trans (setnx_fresh c _ _ _ _)
    | exact hg.trans (setex_fresh c _ _ _ _ _ _)

theorem qindex_fresh (c : Cfg) (s : St) (a j : Nat) (m : List Bool) (dbf : Bool) : Fresh c s (qindex c s a j m dbf).1 := by
  have hg : Fresh c s (getCache s (c.place (.x a)) (.x a) m).1 := fresh_of_shrinks (getCache_shrinks s _ _ m)
  unfold qindex
  simp only []
  split
  · exact hg
  · exact hg
  · exact hg.trans (takeP_fresh c _ _ _ _ _)
  · exact hg
  · repeat' split
    all_goals first
      | exact hg
      | exact hg.trans (setnx_fresh c _ _ _ _)
      | exact (hg.trans (setex_fresh c _ _ _ _ _ _)).trans (setex_fresh c _ _ _ _ _ _)

theorem step_placed (c : Cfg) {s : St} (hp : Placed c s) (op : Op) : Placed c (step c s op).1 := by
  cases op with
  | take pk j m dbf => exact placed_of_fresh hp (takeP_fresh c s pk j m dbf)
  | qindex a j m dbf => exact placed_of_fresh hp (qindex_fresh c s a j m dbf)
  | get k m =>
    have hg : Fresh c s (getCache s (c.place k) k m).1 := fresh_of_shrinks (getCache_shrinks s _ _ m)
    simp only [step, getOp]
    split <;> exact placed_of_fresh hp hg
  | exec ks w m dbf =>
    simp only [step, execOp]
    split
    · exact hp
    · refine placed_of_fresh (s := { applyWrite s w with cache := markChanged c s (applyWrite s w) ks }) ?_
        (fresh_of_shrinks (delOp_step c _ ks m).shr)
      intro k e hk
      obtain ⟨e0, he0, _⟩ := markChanged_spec hk
      exact hp k e0 he0
  | del ks m => exact placed_of_fresh hp (fresh_of_shrinks (delOp_step c s ks m).shr)
  | set k v e j m => exact placed_of_fresh hp (setex_fresh c s k v _ _ _)
  | raw k v t =>
    simp only [step]
    intro k' e' hk
    simp only [upd] at hk
    by_cases h : k' = c.slot k
    · subst h; rfl
    · simp [h] at hk; exact hp k' e' hk
  | ft ms =>
    simp only [step]
    intro k e hk
    simp only [expire] at hk
    split at hk
    · rename_i e0 he0; exact hp k e0 he0
    · cases hk
  | tick down =>
    simp only [step, tick]
    intro k e hk
    simp only [delKeys] at hk
    split at hk
    · cases hk
    · exact hp k e hk

theorem init_placed (c : Cfg) : Placed c St.init := fun k e hk => by simp [St.init] at hk

theorem run_placed (c : Cfg) {s : St} (h : Placed c s) (ops : List Op) : Placed c (run c s ops) := by
  induction ops generalizing s with
  | nil => exact h
  | cons op ops ih => exact ih (step_placed c h op)

theorem step_noBehind (c : Cfg) {s : St} (hp : NoBehind s) (hpl : Placed c s) (op : Op) (hok : OpOk s op) :
    NoBehind (step c s op).1 := by
  cases op with
  | take pk j m dbf => exact noBehind_of_originsFrom hp (takeP_origins c s pk j m dbf).1
  | qindex a j m dbf => exact noBehind_of_originsFrom hp (qindex_origins c s a j m dbf).1
  | get k m => exact noBehind_of_originsFrom hp (getOp_origins c s k m).1
  | exec ks w m dbf =>
    simp only [step, execOp]
    split
    · exact hp
    · have hm : NoBehind { applyWrite s w with cache := markChanged c s (applyWrite s w) ks } := by
        intro k e hk
        obtain ⟨e0, he0, h | ⟨_, hne, h⟩⟩ := markChanged_spec hk
        · rw [h]; exact hp k e0 he0
        · have h1 := hok k.2 hne
          have h2 := (hpl k e0 he0).symm
          simp [h1, h2] at h
          exact Or.inr h
      exact noBehind_of_originsFrom hm (originsFrom_of_shrinks (delOp_step c _ ks m).shr)
  | del ks m => exact noBehind_of_originsFrom hp (originsFrom_of_shrinks (delOp_step c s ks m).shr)
  | set k v e j m => exact absurd hok id
  | raw k v t => exact absurd hok id
  | ft ms => exact noBehind_of_originsFrom hp (expire_origins s ms)
  | tick down =>
    simp only [step, tick]
    intro k e hk
    simp only [delKeys] at hk
    split at hk
    · cases hk
    · exact hp k e hk

/-- the proviso along a whole history. -/
def Proviso (c : Cfg) : St → List Op → Prop
  | _, [] => True
  | s, op :: ops => OpOk s op ∧ Proviso c (step c s op).1 ops

structure Inv (s : St) : Prop where
  coh : Coh s
  prov : Prov s

theorem run_inv (c : Cfg) {s : St} (h : Inv s) (ops : List Op) : Inv (run c s ops) := by
  induction ops generalizing s with
  | nil => exact h
  | cons op ops ih => exact ih ⟨step_coh c h.coh op, step_prov c h.prov op⟩

theorem run_noBehind (c : Cfg) {s : St} (h : NoBehind s) (hpl : Placed c s) (ops : List Op) (hp : Proviso c s ops) :
    NoBehind (run c s ops) := by
  induction ops generalizing s with
  | nil => exact h
  | cons op ops ih => exact ih (step_noBehind c h hpl op hp.1) (step_placed c hpl op) hp.2

theorem init_inv : Inv St.init :=
  ⟨init_coh, fun k e hk => by simp [St.init] at hk⟩

theorem init_noBehind : NoBehind St.init := fun k e hk => by simp [St.init] at hk

end GoZero.C06
