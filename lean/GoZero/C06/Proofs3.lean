/-
C06 — helper lemmas: provenance of entries that are not `loaded`.
  Prov      a `stale` entry (failed DEL after a database write) has a retry pending in the cleaner, or the
            cleaner has given up on some task (after 1 s + 5 s + 1 min + 5 min + 1 h of failed retries)
  NoBehind  if nothing is written behind the cache's back and every Exec names the keys whose database view
            it changes, every entry is `loaded` or `stale`
-/
import GoZero.C06.Proofs2
namespace GoZero.C06

def Pending (s : St) (k : CKey) : Prop := ∃ t ∈ s.tasks, k ∈ t.keys

def Prov (s : St) : Prop :=
  ∀ k e, s.cache k = some e → e.origin = .stale → Pending s k ∨ 0 < s.gaveUp

def NoBehind (s : St) : Prop :=
  ∀ k e, s.cache k = some e → e.origin = .loaded ∨ e.origin = .stale

/-- every entry of `s'` has the origin of the entry of `s` under the same key, or is a fresh `loaded` one. -/
def OriginsFrom (s s' : St) : Prop :=
  ∀ k e', s'.cache k = some e' → (∃ e, s.cache k = some e ∧ e.origin = e'.origin) ∨ e'.origin = .loaded

def SameTasks (s s' : St) : Prop := s'.tasks = s.tasks ∧ s'.gaveUp = s.gaveUp

theorem OriginsFrom.refl (s : St) : OriginsFrom s s := fun _ e' h => Or.inl ⟨e', h, rfl⟩

theorem OriginsFrom.trans {a b c : St} (h1 : OriginsFrom a b) (h2 : OriginsFrom b c) : OriginsFrom a c := by
  intro k e' hk
  rcases h2 k e' hk with ⟨e, he, ho⟩ | h
  · rcases h1 k e he with ⟨e0, he0, ho0⟩ | h
    · exact Or.inl ⟨e0, he0, ho0.trans ho⟩
    · exact Or.inr (ho ▸ h)
  · exact Or.inr h

theorem SameTasks.trans {a b c : St} (h1 : SameTasks a b) (h2 : SameTasks b c) : SameTasks a c :=
  ⟨h2.1.trans h1.1, h2.2.trans h1.2⟩

theorem prov_of_originsFrom {s s' : St} (hp : Prov s) (ho : OriginsFrom s s') (ht : SameTasks s s') : Prov s' := by
  intro k e' hk hs
  rcases ho k e' hk with ⟨e, he, hoe⟩ | h
  · have := hp k e he (hoe.trans hs)
    unfold Pending at *
    rw [ht.1, ht.2]
    exact this
  · rw [hs] at h; cases h

theorem noBehind_of_originsFrom {s s' : St} (hp : NoBehind s) (ho : OriginsFrom s s') : NoBehind s' := by
  intro k e' hk
  rcases ho k e' hk with ⟨e, he, hoe⟩ | h
  · rw [← hoe]; exact hp k e he
  · exact Or.inl h

theorem originsFrom_of_shrinks {s s' : St} (h : Shrinks s s') : OriginsFrom s s' := by
  intro k e' hk
  rcases h k with h | h
  · exact Or.inl ⟨e', h ▸ hk, rfl⟩
  · rw [h] at hk; cases hk

theorem getCache_originsFrom (s : St) (k : CKey) (m : List Bool) : OriginsFrom s (getCache s k m).1 :=
  originsFrom_of_shrinks (getCache_shrinks s k m)

theorem getCache_sameTasks (s : St) (k : CKey) (m : List Bool) : SameTasks s (getCache s k m).1 :=
  getCache_tasks s k m

theorem setex_originsFrom (s : St) (k v t f) : OriginsFrom s (setex s k v t .loaded f) := by
  intro k' e' hk
  rcases setex_fail_or s k v t .loaded f k' with h | ⟨_, h⟩
  · exact Or.inl ⟨e', h ▸ hk, rfl⟩
  · rw [h] at hk; cases hk; exact Or.inr rfl

theorem setex_sameTasks (s : St) (k v t o f) : SameTasks s (setex s k v t o f) := by
  unfold setex; split <;> exact ⟨rfl, rfl⟩

theorem setnx_originsFrom (s : St) (k t f) : OriginsFrom s (setnx s k t f) := by
  unfold setnx
  split
  · exact OriginsFrom.refl s
  · split
    · exact OriginsFrom.refl s
    · intro k' e' hk
      simp only [upd] at hk
      by_cases h : k' = k
      · simp [h] at hk; subst hk; exact Or.inr rfl
      · simp [h] at hk; exact Or.inl ⟨e', hk, rfl⟩

theorem setnx_sameTasks (s : St) (k t f) : SameTasks s (setnx s k t f) := by
  unfold setnx; repeat' split
  all_goals exact ⟨rfl, rfl⟩

theorem takeP_origins (c : Cfg) (s : St) (pk j : Nat) (m : List Bool) (dbf : Bool) :
    OriginsFrom s (takeP c s pk j m dbf).1 ∧ SameTasks s (takeP c s pk j m dbf).1 := by
  have ho := getCache_originsFrom s (.p pk) m
  have ht := getCache_sameTasks s (.p pk) m
  unfold takeP
  simp only []
  repeat' split
  all_goals first
    | exact ⟨ho, ht⟩
    | exact ⟨ho.trans (setnx_originsFrom _ _ _ _), ht.trans (setnx_sameTasks _ _ _ _)⟩
    | exact ⟨ho.trans (setex_originsFrom _ _ _ _ _), ht.trans (setex_sameTasks _ _ _ _ _ _)⟩

theorem qindex_origins (c : Cfg) (s : St) (a j : Nat) (m : List Bool) (dbf : Bool) :
    OriginsFrom s (qindex c s a j m dbf).1 ∧ SameTasks s (qindex c s a j m dbf).1 := by
  have ho := getCache_originsFrom s (.x a) m
  have ht := getCache_sameTasks s (.x a) m
  unfold qindex
  simp only []
  split
  · exact ⟨ho, ht⟩
  · exact ⟨ho, ht⟩
  · have := takeP_origins c (getCache s (.x a) m).1 ‹_› j (m.drop (getCache s (.x a) m).2.2.length) dbf
    exact ⟨ho.trans this.1, ht.trans this.2⟩
  · exact ⟨ho, ht⟩
  · repeat' split
    all_goals first
      | exact ⟨ho, ht⟩
      | exact ⟨ho.trans (setnx_originsFrom _ _ _ _), ht.trans (setnx_sameTasks _ _ _ _)⟩
      | exact ⟨(ho.trans (setex_originsFrom _ _ _ _ _)).trans (setex_originsFrom _ _ _ _ _),
               (ht.trans (setex_sameTasks _ _ _ _ _ _)).trans (setex_sameTasks _ _ _ _ _ _)⟩

theorem getOp_origins (s : St) (k : CKey) (m : List Bool) :
    OriginsFrom s (getOp s k m).1 ∧ SameTasks s (getOp s k m).1 := by
  have ho := getCache_originsFrom s k m
  have ht := getCache_sameTasks s k m
  unfold getOp
  simp only []
  split <;> exact ⟨ho, ht⟩

/-! ### Prov -/

theorem pending_mono {s s' : St} (h : ∀ t ∈ s.tasks, t ∈ s'.tasks) {k : CKey} (hp : Pending s k) : Pending s' k := by
  obtain ⟨t, ht, hk⟩ := hp
  exact ⟨t, h t ht, hk⟩

theorem delOp_prov {s : St} (hp : Prov s) (ks : List CKey) (m : List Bool) : Prov (delOp s ks m).1 := by
  unfold delOp
  split
  · exact hp
  · split
    · intro k e hk hs
      rcases hp k e hk hs with h | h
      · exact Or.inl (pending_mono (s' := { s with tasks := s.tasks ++ [⟨ks, 1, 1⟩] })
          (fun t ht => List.mem_append_left _ ht) h)
      · exact Or.inr h
    · intro k e hk hs
      simp only [delKeys] at hk
      by_cases h : k ∈ ks
      · simp [h] at hk
      · simp [h] at hk
        exact hp k e hk hs

theorem markChanged_spec {s s1 : St} {ks : List CKey} {k : CKey} {e : Entry} (hk : markChanged s s1 ks k = some e) :
    ∃ e0, s.cache k = some e0 ∧
      (e.origin = e0.origin ∨
       (e0.origin = .loaded ∧ dbView s1 k ≠ dbView s k ∧ e.origin = (if k ∈ ks then .stale else .unkeyed))) := by
  simp only [markChanged] at hk
  cases he0 : s.cache k with
  | none => simp [he0] at hk
  | some e0 =>
    simp only [he0] at hk
    refine ⟨e0, rfl, ?_⟩
    by_cases hv : dbView s1 k = dbView s k
    · simp [hv] at hk; subst hk; exact Or.inl rfl
    · by_cases hl : e0.origin = .loaded
      · simp [hv, hl] at hk; subst hk; exact Or.inr ⟨hl, hv, rfl⟩
      · simp [hv, hl] at hk; subst hk; exact Or.inl rfl

theorem applyWrite_tasks (s : St) (w : Write) : (applyWrite s w).tasks = s.tasks ∧ (applyWrite s w).gaveUp = s.gaveUp := by
  cases w <;> exact ⟨rfl, rfl⟩

/-- Exec: an entry that becomes `stale` is under a key named by the Exec; if the DEL fails a task holding
those keys is armed, if it succeeds the entry is gone. -/
theorem execOp_prov {s : St} (hp : Prov s) (ks : List CKey) (w : Write) (m : List Bool) (dbf : Bool) :
    Prov (execOp s ks w m dbf).1 := by
  unfold execOp
  split
  · exact hp
  · have ht := applyWrite_tasks s w
    unfold delOp
    simp only []
    split
    · rename_i hks
      intro k e hk hs
      obtain ⟨e0, he0, h | ⟨_, _, h⟩⟩ := markChanged_spec hk
      · have := hp k e0 he0 (h ▸ hs)
        unfold Pending at *
        simpa [ht.1, ht.2] using this
      · subst hks; rw [hs] at h; simp at h
    · split
      · intro k e hk hs
        obtain ⟨e0, he0, h | ⟨_, _, h⟩⟩ := markChanged_spec hk
        · rcases hp k e0 he0 (h ▸ hs) with ⟨t, htm, hkt⟩ | hg
          · exact Or.inl ⟨t, by simp only [ht.1]; exact List.mem_append_left _ htm, hkt⟩
          · exact Or.inr (by simp only [ht.2]; exact hg)
        · by_cases hin : k ∈ ks
          · exact Or.inl ⟨⟨ks, 1, 1⟩, List.mem_append_right _ (List.mem_singleton.mpr rfl), hin⟩
          · rw [hs] at h; simp [hin] at h
      · intro k e hk hs
        simp only [delKeys] at hk
        by_cases hin : k ∈ ks
        · simp [hin] at hk
        · simp only [hin, if_false] at hk
          obtain ⟨e0, he0, h | ⟨_, _, h⟩⟩ := markChanged_spec hk
          · have := hp k e0 he0 (h ▸ hs)
            unfold Pending at *
            simpa [ht.1, ht.2] using this
          · rw [hs] at h; simp [hin] at h

theorem tickTask_keys {cf : Bool} {t t' : Task} (h : tickTask cf t = some t') : t'.keys = t.keys := by
  unfold tickTask at h
  repeat' split at h
  all_goals simp at h
  all_goals (subst h; rfl)

theorem tick_prov {s : St} (hp : Prov s) (cf : Bool) : Prov (tick s cf).1 := by
  unfold tick
  intro k e hk hs
  simp only [] at hk ⊢
  cases cf with
  | true =>
    simp only [if_true] at hk
    rcases hp k e hk hs with ⟨t, ht, hkt⟩ | h
    · -- the task stays (re-armed or not yet due) or is given up
      cases htt : tickTask true t with
      | some t' =>
        left
        refine ⟨t', List.mem_filterMap.mpr ⟨t, ht, htt⟩, ?_⟩
        rw [tickTask_keys htt]; exact hkt
      | none =>
        right
        simp only [if_true]
        have hdue : t.rem ≤ 1 ∧ (nextDelay t.delay).isNone = true := by
          unfold tickTask at htt
          split at htt
          · cases htt
          · simp only [if_true] at htt
            split at htt
            · cases htt
            · rename_i hn; exact ⟨by omega, by simp [hn]⟩
        have : t ∈ (s.tasks.filter (·.rem ≤ 1)).filter (fun t => (nextDelay t.delay).isNone) := by
          simp [List.mem_filter, ht, hdue.1, hdue.2]
        have := List.length_pos_of_mem this
        omega
    · right; simp only [if_true]; omega
  | false =>
    simp only [Bool.false_eq_true, if_false, delKeys] at hk
    by_cases hin : k ∈ dueKeys s.tasks
    · simp [hin] at hk
    · simp only [hin, if_false] at hk
      rcases hp k e hk hs with ⟨t, ht, hkt⟩ | h
      · left
        have hnd : ¬ t.rem ≤ 1 := by
          intro hd
          apply hin
          unfold dueKeys
          simp only [List.mem_flatMap, List.mem_filter, decide_eq_true_eq]
          exact ⟨t, ⟨ht, hd⟩, hkt⟩
        have htt : tickTask false t = some { t with rem := t.rem - 1 } := by
          unfold tickTask; simp [show t.rem > 1 by omega]
        exact ⟨_, List.mem_filterMap.mpr ⟨t, ht, htt⟩, hkt⟩
      · right; simpa using h

theorem expire_origins (s : St) (ms : Nat) : OriginsFrom s { s with cache := expire s.cache ms } := by
  intro k e' hk
  simp only [expire] at hk
  split at hk
  · rename_i e0 he0
    split at hk
    · cases hk
    · cases hk; exact Or.inl ⟨e0, he0, rfl⟩
  · cases hk

theorem step_prov (c : Cfg) {s : St} (hp : Prov s) (op : Op) : Prov (step c s op).1 := by
  cases op with
  | take pk j m dbf => exact prov_of_originsFrom hp (takeP_origins c s pk j m dbf).1 (takeP_origins c s pk j m dbf).2
  | qindex a j m dbf => exact prov_of_originsFrom hp (qindex_origins c s a j m dbf).1 (qindex_origins c s a j m dbf).2
  | get k m => exact prov_of_originsFrom hp (getOp_origins s k m).1 (getOp_origins s k m).2
  | exec ks w m dbf => exact execOp_prov hp ks w m dbf
  | del ks m => exact delOp_prov hp ks m
  | set k v e j m =>
    simp only [step, setOp]
    intro k' e' hk hs
    rcases setex_fail_or s k v _ .explicit (failAt m 0) k' with h | ⟨_, h⟩
    · rw [h] at hk
      have := hp k' e' hk hs
      rcases this with ⟨t, ht, hkt⟩ | h
      · exact Or.inl ⟨t, by rw [(setex_sameTasks s k v _ .explicit (failAt m 0)).1]; exact ht, hkt⟩
      · exact Or.inr (by rw [(setex_sameTasks s k v _ .explicit (failAt m 0)).2]; exact h)
    · rw [h] at hk; cases hk; cases hs
  | raw k v t =>
    simp only [step]
    intro k' e' hk hs
    simp only [upd] at hk
    by_cases h : k' = k
    · simp [h] at hk
      rcases hk with ⟨_, hk⟩
      subst hk; cases hs
    · simp [h] at hk
      exact hp k' e' hk hs
  | ft ms => exact prov_of_originsFrom hp (expire_origins s ms) ⟨rfl, rfl⟩
  | tick cf => exact tick_prov hp cf

/-! ### NoBehind under the property's proviso -/

/-- "every database write goes through Exec with that key": the Exec names every cache key whose database view
the write changes. -/
def WellKeyed (s : St) (ks : List CKey) (w : Write) : Prop :=
  ∀ k, dbView (applyWrite s w) k ≠ dbView s k → k ∈ ks

/-- a first write of row `pk` (index column `a`) into a database that knows neither names its two keys. -/
theorem wellKeyed_put_fresh {s : St} {pk v a : Nat} (hr : s.rows = fun _ => none) (hi : s.idx = fun _ => none) :
    WellKeyed s [.p pk, .x a] (.put pk v a) := by
  intro k hne
  cases k with
  | p n =>
    by_cases h : n = pk
    · subst h; simp
    · exfalso; apply hne; simp [dbView, dbRow, applyWrite, hr, h]
  | x b =>
    by_cases h : b = a
    · subst h; simp
    · exfalso; apply hne; simp [dbView, dbIndex, applyWrite, clearIdx, hr, hi, h]

/-- an update of the only row, keeping its index column, names its two keys. -/
theorem wellKeyed_put_same {s : St} {pk v v0 a : Nat}
    (hr : s.rows = fun k => if k = pk then some (v0, a) else none)
    (hi : s.idx = fun b => if b = a then some pk else (fun _ => none) b) :
    WellKeyed s [.p pk, .x a] (.put pk v a) := by
  intro k hne
  cases k with
  | p n =>
    by_cases h : n = pk
    · subst h; simp
    · exfalso; apply hne; simp [dbView, dbRow, applyWrite, hr, h]
  | x b =>
    by_cases h : b = a
    · subst h; simp
    · exfalso; apply hne; simp [dbView, dbIndex, applyWrite, clearIdx, hr, hi, h]

/-- the proviso of the property for one operation in state `s`. -/
def OpOk (s : St) : Op → Prop
  | .exec ks w _ _ => WellKeyed s ks w
  | .set .. => False          -- explicit cache set: "written behind its back"
  | .raw .. => False
  | _ => True

theorem step_noBehind (c : Cfg) {s : St} (hp : NoBehind s) (op : Op) (hok : OpOk s op) : NoBehind (step c s op).1 := by
  cases op with
  | take pk j m dbf => exact noBehind_of_originsFrom hp (takeP_origins c s pk j m dbf).1
  | qindex a j m dbf => exact noBehind_of_originsFrom hp (qindex_origins c s a j m dbf).1
  | get k m => exact noBehind_of_originsFrom hp (getOp_origins s k m).1
  | exec ks w m dbf =>
    simp only [step, execOp]
    split
    · exact hp
    · have hm : NoBehind { applyWrite s w with cache := markChanged s (applyWrite s w) ks } := by
        intro k e hk
        obtain ⟨e0, he0, h | ⟨_, hne, h⟩⟩ := markChanged_spec hk
        · rw [h]; exact hp k e0 he0
        · have := hok k hne
          simp [this] at h
          exact Or.inr h
      unfold delOp
      simp only []
      split
      · exact hm
      · split
        · exact hm
        · intro k e hk
          simp only [delKeys] at hk
          by_cases hin : k ∈ ks
          · simp [hin] at hk
          · simp only [hin, if_false] at hk; exact hm k e hk
  | del ks m =>
    simp only [step, delOp]
    split
    · exact hp
    · split
      · exact hp
      · intro k e hk
        simp only [delKeys] at hk
        by_cases hin : k ∈ ks
        · simp [hin] at hk
        · simp only [hin, if_false] at hk; exact hp k e hk
  | set k v e j m => exact absurd hok id
  | raw k v t => exact absurd hok id
  | ft ms => exact noBehind_of_originsFrom hp (expire_origins s ms)
  | tick cf =>
    simp only [step, tick]
    intro k e hk
    simp only [] at hk
    split at hk
    · exact hp k e hk
    · simp only [delKeys] at hk
      by_cases hin : k ∈ dueKeys s.tasks
      · simp [hin] at hk
      · simp only [hin, if_false] at hk; exact hp k e hk

/-- the proviso along a whole history. -/
def Proviso (c : Cfg) : St → List Op → Prop
  | _, [] => True
  | s, op :: ops => OpOk s op ∧ Proviso c (step c s op).1 ops

structure Inv (s : St) : Prop where
  coh : Coh s
  prov : Prov s

theorem run_inv (c : Cfg) {s : St} (h : Inv s) (ops : List Op) : Inv (run c s ops) := by
  induction ops generalizing s with
  | nil => exact h
  | cons op ops ih => exact ih ⟨step_coh c h.coh op, step_prov c h.prov op⟩

theorem run_noBehind (c : Cfg) {s : St} (h : NoBehind s) (ops : List Op) (hp : Proviso c s ops) :
    NoBehind (run c s ops) := by
  induction ops generalizing s with
  | nil => exact h
  | cons op ops ih => exact ih (step_noBehind c h op hp.1) hp.2

theorem init_inv : Inv St.init :=
  ⟨init_coh, fun k e hk => by simp [St.init] at hk⟩

theorem init_noBehind : NoBehind St.init := fun k e hk => by simp [St.init] at hk

end GoZero.C06
