/-
C04 — the monitor's streaming semantics against the model (round 5c).

`Spec.completeF` (what a client of the UNWRAPPED handler sees: `Spec.Stream`) is what `Spec.check` compares the real
response with; `runI` + `doneBranch` is what the model's wrapper hands to the client when the handler finished first.

  * `stream_inv_run`              the invariant tying `Spec.Stream` to the model's (real writer, timeoutWriter) pair along every
                                  script that completes — Flush included
  * `complete_is_specF`           EVERY completing script, Flush included: the client view (status, headers, body) of the
                                  model's complete response IS `Spec.completeF script`  (round 5d: full statement; the
                                  monitor's `Stream` keeps the header map as the work set it and canonicalises it with the
                                  same `Spec.canonH` as `Spec.ofRec`)
  * `streamed_prefix_is_flushed`  what `Spec.streamedPrefix script i` says is with the client after i actions IS the client
                                  view of the model's real writer `(runI (script.take i)).1`; `streamed_prefix_none_is_untouched`
-/
import GoZero.C04.Props
namespace GoZero.C04.Props
open GoZero.C04

/-- the monitor's stream state describes the model's (real writer, timeoutWriter) pair -/
structure StreamInv (p : Rec × TW) (st : Spec.Stream) : Prop where
  pend : st.pending = p.2.wbuf
  flu : st.flushed = p.1.body
  code : st.code = (if p.2.wroteHeader then some p.2.code else none)
  c200 : p.2.wroteHeader = false → p.2.code = 200
  nto : p.2.timedOut = false
  sent : st.sent.isSome = p.2.flushed
  wrote : p.1.wrote = p.2.flushed
  scode : ∀ c h, st.sent = some (c, h) → p.1.code = c
  nof : st.sent = none → st.flushed = []
  hd : st.hdrs = p.2.h
  nd : keysNodup p.2.h
  wh : p.2.flushed = false → p.1.hdr = [] ∧ p.1.snap = none
  ss : ∀ c h, st.sent = some (c, h) → p.1.snap = some h

theorem hset_fresh (d : Hdrs) (k v : Nat) (hk : ∀ p ∈ d, p.1 ≠ k) : hset d k v = d ++ [(k, v)] := by
  unfold hset
  congr 1
  apply List.filter_eq_self.mpr
  intro p hp
  simpa using hk p hp

/-- copying a map without duplicate keys into a map that has none of its keys appends it -/
theorem hmerge_fresh (d s : Hdrs) (hs : keysNodup s) (hd : ∀ p ∈ d, ∀ q ∈ s, p.1 ≠ q.1) : hmerge d s = d ++ s := by
  induction s generalizing d with
  | nil => simp [hmerge]
  | cons q qs ih =>
    unfold keysNodup at hs
    simp only [List.map_cons, List.nodup_cons] at hs
    have h1 : hset d q.1 q.2 = d ++ [(q.1, q.2)] := hset_fresh d q.1 q.2 (fun p hp => hd p hp q (by simp))
    have h2 := ih (d ++ [(q.1, q.2)]) hs.2 (by
      intro p hp r hr
      simp only [List.mem_append, List.mem_singleton] at hp
      rcases hp with hp | hp
      · exact hd p hp r (by simp [hr])
      · subst hp
        intro he
        exact hs.1 (by simp only [List.mem_map]; exact ⟨r, hr, he.symm⟩))
    unfold hmerge at h2 ⊢
    simp only [List.foldl_cons]
    rw [h1, h2]
    simp

theorem hmerge_nil (s : Hdrs) (hs : keysNodup s) : hmerge [] s = s := by
  simpa using hmerge_fresh [] s hs (by simp)

theorem streamInv_init : StreamInv (Rec.init, TW.init) {} := by
  constructor <;> simp [Rec.init, TW.init, keysNodup]

theorem streamInv_step (p : Rec × TW) (st : Spec.Stream) (a : Act) (rest : List Act) (hi : StreamInv p st)
    (hc : Spec.completes (a :: rest) p.2.wroteHeader = true) :
    StreamInv (seqStep p a) (st.step a) ∧ Spec.completes rest (seqStep p a).2.wroteHeader = true := by
  obtain ⟨w, t⟩ := p
  obtain ⟨i1, i2, i3, i4, i5, i6, i7, i8, i9, j1, j2, j3, j4⟩ := hi
  simp only at i1 i2 i3 i4 i5 i6 i7 i8 i9 j1 j2 j3 j4 hc
  have hm : hmerge [] t.h = t.h := hmerge_nil t.h j2
  cases a with
  | setHeader k v =>
    simp only [Spec.completes] at hc
    refine ⟨?_, by simpa [seqStep, twStep] using hc⟩
    have hn := keysNodup_hset t.h k v j2
    constructor <;> simp_all [seqStep, twStep, Spec.Stream.step] <;> (try assumption)
  | panic v => simp [Spec.completes] at hc
  | writeHeader c =>
    simp only [Spec.completes, Bool.and_eq_true, Bool.or_eq_true] at hc
    by_cases hw : t.wroteHeader = true
    · refine ⟨?_, by simpa [seqStep, twStep, hw] using hc.2⟩
      constructor <;> simp_all [seqStep, twStep, Spec.Stream.step] <;> (try assumption)
    · have hw' : t.wroteHeader = false := by simpa using hw
      have hv : validCode c = true := by rcases hc.1 with h | h <;> simp_all
      refine ⟨?_, by simpa [seqStep, twStep, hw', hv, TW.writeHeaderLocked, i5] using hc.2⟩
      constructor <;> simp_all [seqStep, twStep, Spec.Stream.step, TW.writeHeaderLocked] <;> (try assumption)
  | write b =>
    simp only [Spec.completes] at hc
    by_cases hw : t.wroteHeader = true
    · refine ⟨?_, by simpa [seqStep, twStep, hw, i5] using hc⟩
      constructor <;> simp_all [seqStep, twStep, Spec.Stream.step] <;> (try assumption)
    · have hw' : t.wroteHeader = false := by simpa using hw
      refine ⟨?_, by simpa [seqStep, twStep, hw', i5, TW.writeHeaderLocked] using hc⟩
      constructor <;> simp_all [seqStep, twStep, Spec.Stream.step, TW.writeHeaderLocked] <;> (try assumption)
  | flush =>
    simp only [Spec.completes] at hc
    refine ⟨?_, by simpa [seqStep, flushNow] using hc⟩
    by_cases hf : t.flushed = true
    · have hs : ∃ c h, st.sent = some (c, h) := by
        cases hsn : st.sent with
        | none => simp [hsn, hf] at i6
        | some v => exact ⟨v.1, v.2, rfl⟩
      obtain ⟨c, h, hs⟩ := hs
      have hwr : w.wrote = true := by rw [i7, hf]
      constructor <;>
        simp_all [seqStep, flushNow, Spec.Stream.step, Rec.write, Rec.writeHeader, Rec.flush]
    · have hf' : t.flushed = false := by simpa using hf
      have hsn : st.sent = none := by
        cases hsn : st.sent with
        | none => rfl
        | some v => simp [hsn, hf'] at i6
      have hwr : w.wrote = false := by rw [i7, hf']
      have hfl : st.flushed = [] := i9 hsn
      by_cases hcode : t.code = 200
      · constructor <;>
          simp_all [seqStep, flushNow, Spec.Stream.step, Rec.write, Rec.writeHeader, Rec.flush] <;>
          (try (split <;> simp_all))
      · by_cases hwh : t.wroteHeader = true
        · constructor <;>
            simp_all [seqStep, flushNow, Spec.Stream.step, Rec.write, Rec.writeHeader, Rec.flush]
        · have : t.code = 200 := i4 (by simpa using hwh)
          exact absurd this hcode

/-- the invariant along every script that completes (Flush included), from any state satisfying it -/
theorem stream_inv_run (acts : List Act) (p : Rec × TW) (st : Spec.Stream) (hi : StreamInv p st)
    (hc : Spec.completes acts p.2.wroteHeader = true) : StreamInv (runF p acts) (acts.foldl Spec.Stream.step st) := by
  induction acts generalizing p st with
  | nil => exact hi
  | cons a rest ih =>
    obtain ⟨h1, h2⟩ := streamInv_step p st a rest hi hc
    simpa [runF] using ih (seqStep p a) (st.step a) h1 h2

/-- **Monitor soundness for streaming handlers — status, headers and body.**  For EVERY script that completes — `Flush`
anywhere, any number of times — the client view of the model's complete response (`case <-done` after the handler's own
run) IS `Spec.completeF`, the monitor's notion of "the work's complete result". -/
theorem complete_is_specF (script : List Act) (hc : Spec.completes script false = true) :
    Spec.ofRec (doneBranch (runI script).1 (runI script).2) = Spec.completeF script := by
  have hi := stream_inv_run script (Rec.init, TW.init) {} streamInv_init (by simpa [TW.init] using hc)
  have hr : runF (Rec.init, TW.init) script = runI script := rfl
  rw [hr] at hi
  obtain ⟨i1, i2, i3, i4, i5, i6, i7, i8, i9, j1, j2, j3, j4⟩ := hi
  generalize runI script = p at *
  obtain ⟨w, t⟩ := p
  simp only at i1 i2 i3 i4 i5 i6 i7 i8 i9 j1 j2 j3 j4
  have hm : hmerge [] t.h = t.h := hmerge_nil t.h j2
  unfold Spec.completeF Spec.stream Spec.ofRec
  generalize List.foldl Spec.Stream.step {} script = st at *
  cases hs : st.sent with
  | some v =>
    obtain ⟨c, h⟩ := v
    have hf : t.flushed = true := by simpa [hs] using i6.symm
    have hwr : w.wrote = true := by rw [i7, hf]
    have hcd := i8 c h hs
    have hsn := j4 c h hs
    simp [doneBranch, hf, Rec.write, Rec.writeHeader, hwr, hcd, hsn, i1, i2, hs]
  | none =>
    have hf : t.flushed = false := by simpa [hs] using i6.symm
    have hwr : w.wrote = false := by rw [i7, hf]
    have hfl := i9 hs
    obtain ⟨hh, hsn⟩ := j3 hf
    by_cases hcode : t.code = 200
    · by_cases hwh : t.wroteHeader = true <;>
        simp_all [doneBranch, Rec.write, Rec.writeHeader]
    · by_cases hwh : t.wroteHeader = true
      · simp_all [doneBranch, Rec.write, Rec.writeHeader]
      · exact absurd (i4 (by simpa using hwh)) hcode

/-- what the monitor says is already with the client after the first `i` actions (`Spec.streamedPrefix`) IS the client
view of the model's real writer at that moment — status, headers and body (for a script prefix that runs without a panic) -/
theorem streamed_prefix_is_flushed (script : List Act) (i : Nat)
    (hc : Spec.completes (script.take i) false = true) (v : Spec.View) (hv : Spec.streamedPrefix script i = some v) :
    Spec.ofRec (runI (script.take i)).1 = v := by
  have hi := stream_inv_run (script.take i) (Rec.init, TW.init) {} streamInv_init (by simpa [TW.init] using hc)
  have hr : runF (Rec.init, TW.init) (script.take i) = runI (script.take i) := rfl
  rw [hr] at hi
  unfold Spec.streamedPrefix Spec.stream at hv
  generalize runI (script.take i) = p at *
  generalize List.foldl Spec.Stream.step {} (script.take i) = st at *
  cases hs : st.sent with
  | none => simp [hs] at hv
  | some c =>
    simp [hs] at hv
    subst hv
    have h1 := hi.scode c.1 c.2 (by rw [hs])
    have h2 := hi.ss c.1 c.2 (by rw [hs])
    simp [Spec.ofRec, h1, h2, hi.flu]

/-- … and nothing is with the client (`Spec.streamedPrefix = none`) only when nothing has been written to the model's real writer -/
theorem streamed_prefix_none_is_untouched (script : List Act) (i : Nat)
    (hc : Spec.completes (script.take i) false = true) (hv : Spec.streamedPrefix script i = none) :
    (runI (script.take i)).1.wrote = false ∧ (runI (script.take i)).1.body = [] ∧ (runI (script.take i)).1.hdr = [] ∧
      (runI (script.take i)).1.snap = none := by
  have hi := stream_inv_run (script.take i) (Rec.init, TW.init) {} streamInv_init (by simpa [TW.init] using hc)
  have hr : runF (Rec.init, TW.init) (script.take i) = runI (script.take i) := rfl
  rw [hr] at hi
  unfold Spec.streamedPrefix Spec.stream at hv
  generalize runI (script.take i) = p at *
  generalize List.foldl Spec.Stream.step {} (script.take i) = st at *
  have hs : st.sent = none := by simpa using hv
  have hf : p.2.flushed = false := by simpa [hs] using hi.sent.symm
  obtain ⟨h1, h2⟩ := hi.wh hf
  have h3 : p.1.wrote = false := by rw [hi.wrote, hf]
  have h4 : p.1.body = [] := by rw [← hi.flu]; exact hi.nof hs
  exact ⟨h3, h4, h1, h2⟩

/-! ### a handler goroutine that ends by `runtime.Goexit` (or blocks for good)

`runtime.Goexit` runs the deferred calls of ServeHTTP's worker goroutine — `recover()` returns nil, so nothing is sent on
`panicChan` — and `close(done)` is never reached: for ServeHTTP such a handler is one that has performed a prefix of its
script and never takes another step.  The transition system has those schedules already; what the property demands of
them: -/

/-- while the handler goroutine has neither returned nor panicked, ServeHTTP cannot come back through `done` or through
`panicChan`: the ONLY way out is the timeout branch (always enabled once the context has ended:
`timeout_branch_always_enabled`), whose response `response_with_flush` describes — never the "complete" result of the
prefix the handler happened to perform -/
theorem stalled_handler_returns_only_by_timeout (reason : List Nat) (script : List Act) (s : St)
    (hr : Reachable reason script s) (hrun : s.hst = .running) :
    step reason s .mDone = none ∧ step reason s .mPanic = none := by
  have hi := inv_reachable hr
  have hd : s.done = false := by
    cases h : s.done with
    | false => rfl
    | true => have := hi.done_fin.mp h; rw [hrun] at this; cases this
  have hp : s.panicChan = none := by
    cases h : s.panicChan with
    | none => rfl
    | some v => have := hi.pan v h; rw [hrun] at this; cases this
  constructor
  · simp only [step]; split <;> simp [hd]
  · simp only [step, hp]; split <;> simp_all

example : step [82] (St.init [.write [97]]) .mDone = none := by decide

/-! ### non-vacuity -/
example : Spec.completes [.writeHeader 404, .write [97], .flush, .write [98], .flush, .setHeader 1 2, .write [99]] false = true := by decide
example :
    let s : List Act := [.writeHeader 404, .write [97], .flush, .write [98], .flush, .setHeader 1 2, .write [99]]
    Spec.ofRec (doneBranch (runI s).1 (runI s).2) = Spec.completeF s := by decide

end GoZero.C04.Props
