/-
C04 — the monitor's streaming semantics against the model (round 5c).

`Spec.completeF` (what a client of the UNWRAPPED handler sees: `Spec.Stream`) is what `Spec.check` compares the real
response with; `runI` + `doneBranch` is what the model's wrapper hands to the client when the handler finished first.

  * `stream_inv_run`              the invariant tying `Spec.Stream` to the model's (real writer, timeoutWriter) pair along every
                                  script that completes — Flush included
  * `complete_is_specF_partial`   EVERY completing script, Flush included: status and body of the model's complete response
                                  are those of `Spec.completeF`.
                                  FULL statement (not proven): `Spec.ofRec (doneBranch (runI script).1 (runI script).2) =
                                  Spec.completeF script`; missing: the header component (the sorted association list of
                                  `Stream.hdrs` / the headers frozen by the first Flush against `hmerge` + `Rec.snap`);
                                  for Flush-free scripts `complete_is_spec` has it (lookup-wise).
  * `streamed_prefix_is_flushed_partial`  what `Spec.streamedPrefix script i` says is with the client after i actions has the
                                  status and body of the model's real writer `(runI (script.take i)).1`
-/
import GoZero.C04.Props
namespace GoZero.C04.Props
open GoZero.C04

/-- the monitor's stream state describes the model's (real writer, timeoutWriter) pair -/
structure StreamInv (p : Rec × TW) (st : Spec.Stream) : Prop where
  pend : st.pending = p.2.wbuf
  flu : st.flushed = p.1.body
  code : st.code = (if p.2.wroteHeader then some p.2.code else none)
  c200 : p.2.wroteHeader = false → p.2.code = 200
  nto : p.2.timedOut = false
  sent : st.sent.isSome = p.2.flushed
  wrote : p.1.wrote = p.2.flushed
  scode : ∀ c h, st.sent = some (c, h) → p.1.code = c
  nof : st.sent = none → st.flushed = []

theorem streamInv_init : StreamInv (Rec.init, TW.init) {} := by
  constructor <;> simp [Rec.init, TW.init]

theorem streamInv_step (p : Rec × TW) (st : Spec.Stream) (a : Act) (rest : List Act) (hi : StreamInv p st)
    (hc : Spec.completes (a :: rest) p.2.wroteHeader = true) :
    StreamInv (seqStep p a) (st.step a) ∧ Spec.completes rest (seqStep p a).2.wroteHeader = true := by
  obtain ⟨w, t⟩ := p
  obtain ⟨i1, i2, i3, i4, i5, i6, i7, i8, i9⟩ := hi
  simp only at i1 i2 i3 i4 i5 i6 i7 i8 i9 hc
  cases a with
  | setHeader k v =>
    simp only [Spec.completes] at hc
    refine ⟨?_, by simpa [seqStep, twStep] using hc⟩
    constructor <;> simp_all [seqStep, twStep, Spec.Stream.step] <;> (try assumption)
  | panic v => simp [Spec.completes] at hc
  | writeHeader c =>
    simp only [Spec.completes, Bool.and_eq_true, Bool.or_eq_true] at hc
    by_cases hw : t.wroteHeader = true
    · refine ⟨?_, by simpa [seqStep, twStep, hw] using hc.2⟩
      constructor <;> simp_all [seqStep, twStep, Spec.Stream.step] <;> (try assumption)
    · have hw' : t.wroteHeader = false := by simpa using hw
      have hv : validCode c = true := by rcases hc.1 with h | h <;> simp_all
      refine ⟨?_, by simpa [seqStep, twStep, hw', hv, TW.writeHeaderLocked, i5] using hc.2⟩
      constructor <;> simp_all [seqStep, twStep, Spec.Stream.step, TW.writeHeaderLocked] <;> (try assumption)
  | write b =>
    simp only [Spec.completes] at hc
    by_cases hw : t.wroteHeader = true
    · refine ⟨?_, by simpa [seqStep, twStep, hw, i5] using hc⟩
      constructor <;> simp_all [seqStep, twStep, Spec.Stream.step] <;> (try assumption)
    · have hw' : t.wroteHeader = false := by simpa using hw
      refine ⟨?_, by simpa [seqStep, twStep, hw', i5, TW.writeHeaderLocked] using hc⟩
      constructor <;> simp_all [seqStep, twStep, Spec.Stream.step, TW.writeHeaderLocked] <;> (try assumption)
  | flush =>
    simp only [Spec.completes] at hc
    refine ⟨?_, by simpa [seqStep, flushNow] using hc⟩
    by_cases hf : t.flushed = true
    · have hs : ∃ c h, st.sent = some (c, h) := by
        cases hsn : st.sent with
        | none => simp [hsn, hf] at i6
        | some v => exact ⟨v.1, v.2, rfl⟩
      obtain ⟨c, h, hs⟩ := hs
      have hwr : w.wrote = true := by rw [i7, hf]
      constructor <;>
        simp_all [seqStep, flushNow, Spec.Stream.step, Rec.write, Rec.writeHeader, Rec.flush]
    · have hf' : t.flushed = false := by simpa using hf
      have hsn : st.sent = none := by
        cases hsn : st.sent with
        | none => rfl
        | some v => simp [hsn, hf'] at i6
      have hwr : w.wrote = false := by rw [i7, hf']
      have hfl : st.flushed = [] := i9 hsn
      by_cases hcode : t.code = 200
      · constructor <;>
          simp_all [seqStep, flushNow, Spec.Stream.step, Rec.write, Rec.writeHeader, Rec.flush] <;>
          (try (split <;> simp_all))
      · by_cases hwh : t.wroteHeader = true
        · constructor <;>
            simp_all [seqStep, flushNow, Spec.Stream.step, Rec.write, Rec.writeHeader, Rec.flush]
        · have : t.code = 200 := i4 (by simpa using hwh)
          exact absurd this hcode

/-- the invariant along every script that completes (Flush included), from any state satisfying it -/
theorem stream_inv_run (acts : List Act) (p : Rec × TW) (st : Spec.Stream) (hi : StreamInv p st)
    (hc : Spec.completes acts p.2.wroteHeader = true) : StreamInv (runF p acts) (acts.foldl Spec.Stream.step st) := by
  induction acts generalizing p st with
  | nil => exact hi
  | cons a rest ih =>
    obtain ⟨h1, h2⟩ := streamInv_step p st a rest hi hc
    simpa [runF] using ih (seqStep p a) (st.step a) h1 h2

/-- **Monitor soundness for streaming handlers, status and body.**  For EVERY script that completes — `Flush` anywhere,
any number of times — the model's complete response (`case <-done` after the handler's own run) has the status and the
body that `Spec.completeF`, the monitor's notion of "the work's complete result", demands. -/
theorem complete_is_specF_partial (script : List Act) (hc : Spec.completes script false = true) :
    (doneBranch (runI script).1 (runI script).2).code = (Spec.completeF script).code ∧
    (doneBranch (runI script).1 (runI script).2).body = (Spec.completeF script).body := by
  have hi := stream_inv_run script (Rec.init, TW.init) {} streamInv_init (by simpa [TW.init] using hc)
  have hr : runF (Rec.init, TW.init) script = runI script := rfl
  rw [hr] at hi
  obtain ⟨i1, i2, i3, i4, i5, i6, i7, i8, i9⟩ := hi
  generalize runI script = p at *
  obtain ⟨w, t⟩ := p
  simp only at i1 i2 i3 i4 i5 i6 i7 i8 i9
  unfold Spec.completeF Spec.stream
  generalize List.foldl Spec.Stream.step {} script = st at *
  cases hs : st.sent with
  | some v =>
    obtain ⟨c, h⟩ := v
    have hf : t.flushed = true := by simpa [hs] using i6.symm
    have hwr : w.wrote = true := by rw [i7, hf]
    have hcd := i8 c h hs
    simp [doneBranch, hf, Rec.write, Rec.writeHeader, hwr, hcd, i1, i2, hs]
  | none =>
    have hf : t.flushed = false := by simpa [hs] using i6.symm
    have hwr : w.wrote = false := by rw [i7, hf]
    have hfl := i9 hs
    by_cases hcode : t.code = 200
    · by_cases hwh : t.wroteHeader = true <;>
        simp_all [doneBranch, Rec.write, Rec.writeHeader]
    · by_cases hwh : t.wroteHeader = true
      · simp_all [doneBranch, Rec.write, Rec.writeHeader]
      · exact absurd (i4 (by simpa using hwh)) hcode

/-- what the monitor says is already with the client after the first `i` actions (`Spec.streamedPrefix`) has the status and
the body of the model's real writer at that moment (for a script prefix that runs without a panic) -/
theorem streamed_prefix_is_flushed_partial (script : List Act) (i : Nat)
    (hc : Spec.completes (script.take i) false = true) (v : Spec.View) (hv : Spec.streamedPrefix script i = some v) :
    (runI (script.take i)).1.code = v.code ∧ (runI (script.take i)).1.body = v.body := by
  have hi := stream_inv_run (script.take i) (Rec.init, TW.init) {} streamInv_init (by simpa [TW.init] using hc)
  have hr : runF (Rec.init, TW.init) (script.take i) = runI (script.take i) := rfl
  rw [hr] at hi
  unfold Spec.streamedPrefix Spec.stream at hv
  generalize runI (script.take i) = p at *
  generalize List.foldl Spec.Stream.step {} (script.take i) = st at *
  cases hs : st.sent with
  | none => simp [hs] at hv
  | some c =>
    simp [hs] at hv
    subst hv
    exact ⟨hi.scode c.1 c.2 (by rw [hs]), hi.flu.symm⟩

/-! ### non-vacuity -/
example : Spec.completes [.writeHeader 404, .write [97], .flush, .write [98], .flush, .setHeader 1 2, .write [99]] false = true := by decide
example :
    let s : List Act := [.writeHeader 404, .write [97], .flush, .write [98], .flush, .setHeader 1 2, .write [99]]
    Spec.ofRec (doneBranch (runI s).1 (runI s).2) = Spec.completeF s := by decide

end GoZero.C04.Props
