/-
C04 — property theorems (timeout control: deadlines only shrink, outcomes are all-or-nothing).
-/
import GoZero.C04.Proofs
namespace GoZero.C04.Props
open GoZero.C04

/-- `context.WithTimeout(parent, t)` at `now`: the work's context has a deadline, no later than the caller's
and no later than `now + t`. -/
theorem withTimeout_shrinks (parent : Deadline) (now t : Int) :
    ∃ d, withTimeout parent now t = some d ∧ d ≤ now + t ∧ (∀ p, parent = some p → d ≤ p) := by
  unfold withTimeout
  cases parent with
  | none => exact ⟨now + t, rfl, Int.le_refl _, by intro p h; cases h⟩
  | some p =>
    refine ⟨if p ≤ now + t then p else now + t, rfl, ?_, ?_⟩
    · split <;> omega
    · intro q h; cases h; split <;> omega

end GoZero.C04.Props
