/-
C04 — property theorems (timeout control: deadlines only shrink, outcomes are all-or-nothing).

  A. deadlines     `deadline_only_shrinks_{rest,srv,cli,fx}` + the enable conditions (exemptions, pass-through)
  B. REST          `response_all_or_nothing`, `complete_is_spec`, `nothing_of_the_work_before_return`,
                   `no_write_after_timeout`, `response_stable_after_return`, `timeout_branch_always_enabled`
                   — for every handler script without `Flush`, every schedule, every moment of expiry;
                   for EVERY script (Flush included, fixed Flush): `response_with_flush`, `no_write_after_timeout`,
                   `response_stable_after_return`, `reraised_panic_is_handlers`, `timeout_taken_never_reraises`
                   `flush_*`, `hijack_*` : witnesses of the pinned behaviour (findings) and the fixed one
  A'. wiring       `route_timeout_wiring`, `route_deadline_only_shrinks`, `engine_timeout_is_max` (rest engine),
                   `deadline_only_shrinks_{srv,cli}_wired` (zrpc configuration)
  C. zRPC / fx     `rpc_result_or_timeout`, `fx_result_or_timeout`, `*_timeout_always_enabled`

PARTIAL (runtime, not provable about a model): that the Go scheduler runs ServeHTTP's goroutine when its
select is enabled and that `context`'s timer fires at the deadline.  The model-level content of "returns at the
deadline without waiting for the work" is `timeout_branch_always_enabled`: the timeout branch is enabled and
runs to completion without any step of the work.
-/
import GoZero.C04.Proofs
import GoZero.C04.ProofsSel
import GoZero.C04.ProofsEng
namespace GoZero.C04.Props
open GoZero.C04

/-! ## A. deadlines -/

/-- `context.WithTimeout(parent, t)` at `now`: the work's context has a deadline, no later than the caller's
and no later than `now + t`. -/
theorem withTimeout_shrinks (parent : Deadline) (now t : Int) :
    ∃ d, withTimeout parent now t = some d ∧ d ≤ now + t ∧ (∀ p, parent = some p → d ≤ p) := by
  unfold withTimeout
  cases parent with
  | none => exact ⟨now + t, rfl, Int.le_refl _, by intro p h; cases h⟩
  | some p =>
    refine ⟨if p ≤ now + t then p else now + t, rfl, ?_, ?_⟩
    · split <;> omega
    · intro q h; cases h; split <;> omega

/-- `d` is a deadline no later than the caller's -/
def NoLaterThan (d parent : Deadline) : Prop :=
  match parent with
  | none => True
  | some p => ∃ x, d = some x ∧ x ≤ p

/-- REST middleware: with `duration > 0` and a request that is neither a websocket upgrade nor an event
stream, the handler's context has a deadline ≤ now + duration and ≤ the caller's; otherwise (exempt, or
`duration ≤ 0`) the handler gets the caller's context itself. -/
theorem deadline_only_shrinks_rest (duration : Int) (h : ReqHdr) (parent : Deadline) (now : Int) :
    (restWraps duration h = true →
      ∃ d, restDeadline duration h parent now = some d ∧ d ≤ now + duration ∧ NoLaterThan (some d) parent) ∧
    (restWraps duration h = false → restDeadline duration h parent now = parent) ∧
    (restWraps duration h = true ↔ (0 < duration ∧ h.upgradeWebsocket = false ∧ h.acceptSSE = false)) := by
  refine ⟨?_, ?_, ?_⟩
  · intro hw
    obtain ⟨d, hd, h1, h2⟩ := withTimeout_shrinks parent now duration
    refine ⟨d, by simp [restDeadline, hw, hd], h1, ?_⟩
    cases parent with
    | none => trivial
    | some p => exact ⟨d, rfl, h2 p rfl⟩
  · intro hw; simp [restDeadline, hw]
  · unfold restWraps; cases h with | mk a b => cases a <;> cases b <;> simp

/-- per-route override of rest/engine.go: the route's timeout if positive, else the configured milliseconds -/
theorem checkedTimeout_law (route confMs : Int) :
    checkedTimeout route confMs = (if 0 < route then route else confMs * 1000000) := by
  unfold checkedTimeout; rfl

/-! ### which timeout reaches the middleware of a route (rest/server.go options, rest/engine.go addRoutes / bindRoute) -/

/-- the options of one `AddRoutes` call are applied in order: the last `WithTimeout` / `WithSSE` decides
(`WithSSE` resets the timeout to 0, i.e. back to the global one), other options leave it alone -/
theorem groupTimeout_last_wins (opts : List RouteOpt) (t : Int) :
    groupTimeout (opts ++ [.timeout t]) = t ∧ groupTimeout (opts ++ [.sse]) = 0 ∧
    groupTimeout (opts ++ [.other]) = groupTimeout opts ∧ groupTimeout [] = 0 := by
  simp [groupTimeout, List.foldl_append]

/-- **route > global.**  On a server with the timeout middleware in its chain, whatever groups were registered
in whatever order, the duration handed to `TimeoutHandler` for the routes of group `g` is that group's own timeout
if it is positive, else the global `RestConf.Timeout` — the property's `Spec.routeTimeout`. -/
theorem route_timeout_wiring (confMs : Int) (groups : List (List RouteOpt)) (g : Nat) :
    (Eng.build confMs .on groups).duration g =
      groups[g]?.map (fun opts => Spec.routeTimeout (groupTimeout opts) confMs) := by
  obtain ⟨h1, h2, h3⟩ := build_fields confMs .on groups
  unfold Eng.duration Eng.bound
  rw [h1, h2, h3]
  simp only [List.getElem?_map, Option.map_map]
  rfl

/-- a route's timeout does not depend on the other groups of the server (their number, order, timeouts) -/
theorem route_timeout_independent_of_other_groups (confMs : Int) (groups groups' : List (List RouteOpt)) (g g' : Nat)
    (h : groups[g]? = groups'[g']?) :
    (Eng.build confMs .on groups).duration g = (Eng.build confMs .on groups').duration g' := by
  rw [route_timeout_wiring, route_timeout_wiring, h]

/-- without the middleware (`Middlewares.Timeout` off, or a user chain) no route has a timeout wrapper -/
theorem no_middleware_no_timeout (confMs : Int) (mw : MwMode) (hmw : mw ≠ .on) (groups : List (List RouteOpt)) (g : Nat) :
    (Eng.build confMs mw groups).duration g = groups[g]?.map (fun _ => 0) := by
  obtain ⟨h1, h2, h3⟩ := build_fields confMs mw groups
  unfold Eng.duration Eng.bound
  rw [h1, h2, h3]
  cases mw <;> simp_all [Function.comp_def]

/-- `ng.timeout` (basis of http.Server's Read/WriteTimeout) is the maximum of the global timeout and every group's
timeout — it is NOT what a route runs under (`route_timeout_wiring`), but it covers every route's duration. -/
theorem engine_timeout_is_max (confMs : Int) (mw : MwMode) (groups : List (List RouteOpt)) :
    let e := Eng.build confMs mw groups
    confMs * 1000000 ≤ e.timeout ∧ (∀ g ∈ groups, groupTimeout g ≤ e.timeout) ∧
    (e.timeout = confMs * 1000000 ∨ ∃ g ∈ groups, e.timeout = groupTimeout g) ∧
    (∀ d ∈ e.bound, d ≤ e.timeout ∨ d ≤ 0) := by
  intro e
  obtain ⟨h1, h2, h3⟩ := foldl_addRoutes_timeout (Eng.new confMs mw) groups
  obtain ⟨f1, f2, f3⟩ := build_fields confMs mw groups
  have hnew : (Eng.new confMs mw).timeout = confMs * 1000000 := rfl
  rw [hnew] at h1 h3
  refine ⟨h1, h2, h3, ?_⟩
  intro d hd
  simp only [e, Eng.bound, f1, f2, f3, List.mem_map] at hd
  obtain ⟨t, ⟨opts, hopts, rfl⟩, rfl⟩ := hd
  have hle := h2 opts hopts
  cases mw
  · left
    show checkedTimeout (groupTimeout opts) confMs ≤ (Eng.build confMs .on groups).timeout
    unfold checkedTimeout
    split
    · exact hle
    · exact h1
  · right; exact Int.le_refl 0
  · right; exact Int.le_refl 0

/-- **End to end.**  A request to a route of group `g` (middleware on, not exempt, the route's timeout positive): the
handler's context has a deadline no later than now + (the route's own timeout if set, else the global one) and no
later than the caller's — whatever else is registered on the server. -/
theorem route_deadline_only_shrinks (confMs : Int) (groups : List (List RouteOpt)) (g : Nat) (opts : List RouteOpt)
    (hg : groups[g]? = some opts) (h : ReqHdr) (parent : Deadline) (now : Int)
    (hw : restWraps (Spec.routeTimeout (groupTimeout opts) confMs) h = true) :
    ∃ dur d, (Eng.build confMs .on groups).duration g = some dur ∧ dur = Spec.routeTimeout (groupTimeout opts) confMs ∧
      restDeadline dur h parent now = some d ∧ d ≤ now + dur ∧ NoLaterThan (some d) parent := by
  refine ⟨Spec.routeTimeout (groupTimeout opts) confMs, ?_⟩
  obtain ⟨d, hd, h1, h2⟩ := (deadline_only_shrinks_rest (Spec.routeTimeout (groupTimeout opts) confMs) h parent now).1 hw
  exact ⟨d, by rw [route_timeout_wiring, hg]; rfl, rfl, hd, h1, h2⟩

/-- the seeded scenario: a route without its own timeout next to a one-hour route still runs under the global 3 s -/
example : (Eng.build 3000 .on [[.timeout 3600000000000], [], [.other, .sse]]).bound = [3600000000000, 3000000000, 3000000000] ∧
    (Eng.build 3000 .on [[.timeout 3600000000000], [], [.other, .sse]]).timeout = 3600000000000 := by decide
example : (Eng.build 3000 .chain [[.timeout 5000000000], []]).bound = [0, 0] := by decide
example : groupTimeout [.timeout 5, .sse] = 0 ∧ groupTimeout [.sse, .other, .timeout 5] = 5 := by decide
example : restDeadline ((Eng.build 3000 .on [[.timeout 3600000000000], []]).duration 1 |>.getD 0) ⟨false, false⟩ none 100
    = some 3000000100 := by decide

/-- zRPC server interceptor: always wraps, with the per-method timeout if one is configured. -/
theorem deadline_only_shrinks_srv (dflt : Int) (mts : List (Nat × Int)) (method : Nat) (parent : Deadline) (now : Int) :
    ∃ d, srvDeadline dflt mts method parent now = some d ∧ d ≤ now + srvTimeout dflt mts method ∧
      NoLaterThan (some d) parent := by
  obtain ⟨d, hd, h1, h2⟩ := withTimeout_shrinks parent now (srvTimeout dflt mts method)
  refine ⟨d, hd, h1, ?_⟩
  cases parent with
  | none => trivial
  | some p => exact ⟨d, rfl, h2 p rfl⟩

/-- the method table: an entry for the method (non-empty name) overrides the default; the last one wins -/
theorem srvTimeout_default (dflt : Int) (mts : List (Nat × Int)) (method : Nat)
    (h : ∀ p ∈ mts, p.1 = 0 ∨ p.1 ≠ method) : srvTimeout dflt mts method = dflt := by
  unfold srvTimeout
  have : mts.reverse.find? (fun p => p.1 != 0 && p.1 == method) = none := by
    rw [List.find?_eq_none]
    intro p hp
    have := h p (List.mem_reverse.mp hp)
    rcases this with h0 | hne <;> simp [*]
  rw [this]

theorem srvTimeout_override (dflt : Int) (mts : List (Nat × Int)) (method : Nat) (t : Int) (hm : method ≠ 0) :
    srvTimeout dflt (mts ++ [(method, t)]) method = t := by
  unfold srvTimeout
  simp [List.reverse_append, List.find?, hm]

/-- zRPC client interceptor: with `t > 0` (per-call option first, else the configured one) the invoker's context
has a deadline ≤ now + t and ≤ the caller's; with `t ≤ 0` the caller's context is passed through. -/
theorem deadline_only_shrinks_cli (dflt : Int) (opts : List (Option Int)) (parent : Deadline) (now : Int) :
    (cliWraps dflt opts = true →
      ∃ d, cliDeadline dflt opts parent now = some d ∧ d ≤ now + cliTimeout dflt opts ∧ NoLaterThan (some d) parent) ∧
    (cliWraps dflt opts = false → cliDeadline dflt opts parent now = parent) ∧
    (cliWraps dflt opts = true ↔ 0 < cliTimeout dflt opts) := by
  refine ⟨?_, ?_, ?_⟩
  · intro hw
    obtain ⟨d, hd, h1, h2⟩ := withTimeout_shrinks parent now (cliTimeout dflt opts)
    refine ⟨d, by simp [cliDeadline, hw, hd], h1, ?_⟩
    cases parent with
    | none => trivial
    | some p => exact ⟨d, rfl, h2 p rfl⟩
  · intro hw; simp [cliDeadline, hw]
  · simp [cliWraps]

/-- a per-call `WithCallTimeout(t)` placed first overrides the configured timeout -/
theorem cliTimeout_callOption (dflt t : Int) (rest : List (Option Int)) : cliTimeout dflt (some t :: rest) = t := by
  simp [cliTimeout, List.find?]

theorem cliTimeout_noOption (dflt : Int) (opts : List (Option Int)) (h : ∀ o ∈ opts, o = none) :
    cliTimeout dflt opts = dflt := by
  unfold cliTimeout
  have : opts.find? (fun o => o.isSome) = none := by
    rw [List.find?_eq_none]; intro o ho; simp [h o ho]
  rw [this]

/-! ### zrpc: from the configuration to the interceptors -/

/-- server: with `RpcServerConf.Timeout > 0` every unary call runs under min(caller's, now + (per-method timeout if
configured, else Timeout)); with `Timeout ≤ 0` no interceptor is installed and the caller's context reaches the
handler as it is (the method table is then ignored). -/
theorem deadline_only_shrinks_srv_wired (confMs : Int) (mts : List (Nat × Int)) (method : Nat) (parent : Deadline) (now : Int) :
    (0 < confMs → ∃ d, srvWiredDeadline confMs mts method parent now = some d ∧
        d ≤ now + srvTimeout (confMs * 1000000) mts method ∧ NoLaterThan (some d) parent) ∧
    (confMs ≤ 0 → srvWiredDeadline confMs mts method parent now = parent) := by
  constructor
  · intro h
    have : srvWiredDeadline confMs mts method parent now = srvDeadline (confMs * 1000000) mts method parent now := by
      simp [srvWiredDeadline, h]
    rw [this]
    exact deadline_only_shrinks_srv _ mts method parent now
  · intro h
    have : ¬ confMs > 0 := by omega
    simp [srvWiredDeadline, this]

/-- client configuration: the last `WithTimeout` client option wins over `RpcClientConf.Timeout`; without one the
configured value counts if positive, else there is no timeout (0) -/
theorem cliConfTimeout_law (confMs : Int) (userTimeouts : List Int) (t : Int) :
    cliConfTimeout confMs (userTimeouts ++ [t]) = t ∧
    cliConfTimeout confMs [] = (if confMs > 0 then confMs * 1000000 else 0) := by
  constructor
  · simp [cliConfTimeout, List.foldl_append]
  · unfold cliConfTimeout; split <;> simp

/-- client: with the timeout middleware and an effective timeout `t > 0` (per-call option, else client option, else
configuration) the invoker's context has a deadline ≤ now + t and ≤ the caller's; otherwise it is the caller's context. -/
theorem deadline_only_shrinks_cli_wired (mw : Bool) (confMs : Int) (userTimeouts : List Int) (callOpts : List (Option Int))
    (parent : Deadline) (now : Int) :
    let t := cliTimeout (cliConfTimeout confMs userTimeouts) callOpts
    (mw = true ∧ 0 < t → ∃ d, cliWiredDeadline mw confMs userTimeouts callOpts parent now = some d ∧ d ≤ now + t ∧
        NoLaterThan (some d) parent) ∧
    (mw = false ∨ t ≤ 0 → cliWiredDeadline mw confMs userTimeouts callOpts parent now = parent) := by
  intro t
  have hlaw := deadline_only_shrinks_cli (cliConfTimeout confMs userTimeouts) callOpts parent now
  constructor
  · rintro ⟨hm, ht⟩
    have hw := hlaw.2.2.mpr ht
    simpa [cliWiredDeadline, hm] using hlaw.1 hw
  · intro h
    cases mw with
    | false => simp [cliWiredDeadline]
    | true =>
      have ht : t ≤ 0 := by
        rcases h with h | h
        · cases h
        · exact h
      have hw : cliWraps (cliConfTimeout confMs userTimeouts) callOpts = false := by
        have := hlaw.2.2
        cases hc : cliWraps (cliConfTimeout confMs userTimeouts) callOpts with
        | false => rfl
        | true => have := this.mp hc; omega
      simpa [cliWiredDeadline] using hlaw.2.1 hw

example : srvWiredDeadline 2000 [(7, 500000000)] 7 (some 5000000000) 100 = some 500000100 := by decide
example : srvWiredDeadline 0 [(7, 500000000)] 7 none 100 = none := by decide
example : cliWiredDeadline true 2000 [] [none, some 300] (some 5000) 100 = some 400 := by decide
example : cliWiredDeadline true 0 [] [none] (some 5000) 100 = some 5000 := by decide
example : cliWiredDeadline true 2000 [7000000000] [] none 100 = some 7000000100 := by decide

/-- fx.DoWithTimeout: always wraps the context of the last `WithContext` option (else Background). -/
theorem deadline_only_shrinks_fx (timeout : Int) (opts : List Deadline) (now : Int) :
    ∃ d, fxDeadline timeout opts now = some d ∧ d ≤ now + timeout ∧ NoLaterThan (some d) (fxParent opts) := by
  obtain ⟨d, hd, h1, h2⟩ := withTimeout_shrinks (fxParent opts) now timeout
  refine ⟨d, hd, h1, ?_⟩
  cases h : fxParent opts with
  | none => trivial
  | some p => exact ⟨d, rfl, h2 p h⟩

example : restDeadline 3000 ⟨false, false⟩ (some 2000) 100 = some 2000 := by decide
example : restDeadline 3000 ⟨false, false⟩ (some 9000) 100 = some 3100 := by decide
example : restDeadline 3000 ⟨true, false⟩ (some 9000) 100 = some 9000 := by decide
example : restDeadline 3000 ⟨false, true⟩ none 100 = none := by decide
example : restDeadline 0 ⟨false, false⟩ none 100 = none := by decide
example : srvDeadline 2000 [(7, 500), (0, 1), (7, 800)] 7 (some 5000) 100 = some 900 := by decide
example : srvDeadline 2000 [(7, 500)] 8 (some 1500) 100 = some 1500 := by decide
example : cliDeadline 2000 [none, some 300, some 900] (some 5000) 100 = some 400 := by decide
example : cliDeadline 0 [none] (some 5000) 100 = some 5000 := by decide
example : fxDeadline 50 [some 10, some 700] 100 = some 150 := by decide

/-! ## B. REST: all-or-nothing response -/

/-- **All or nothing.**  For every handler script without `Flush`, every schedule of handler, ServeHTTP and the
expiry: once ServeHTTP has come back, the real writer holds exactly the script's complete result (the copy of
the timeoutWriter after the *whole* script), or exactly the timeout response (503 / 499 + reason), or nothing
at all (the handler's panic is re-raised). -/
theorem response_all_or_nothing (reason : List Nat) (script : List Act) (hnf : NoFlush script) (s : St)
    (hr : Reachable reason script s) :
    match s.pc with
    | .retDone => s.w = doneBranch Rec.init (runTW TW.init script) ∧ s.hpc = script.length ∧ s.hst = .finished
    | .retTimeout k => s.w = timeoutResp reason k ∧ s.tw.timedOut = true
    | .panicked _ => s.w = Rec.init
    | _ => True := by
  have hi := inv_reachable hr
  have h7 := hi.w_pc
  have h9 := hi.to_pc
  have hscr := hi.scr
  unfold wOfPc at h7
  unfold timedOutOfPc at h9
  split
  · rename_i hpc
    rw [hpc] at h7
    have hfin := hi.rd_fin hpc
    have hall := hi.fin_all hfin
    rw [hscr] at h7 hall
    rw [runI_noFlush script hnf] at h7
    exact ⟨h7, hall, hfin⟩
  · rename_i k hpc
    rw [hpc] at h7 h9
    obtain ⟨j, _, hw⟩ := h7
    rw [hscr, runI_noFlush _ (noFlush_take hnf j)] at hw
    exact ⟨hw, h9⟩
  · rename_i v hpc
    rw [hpc] at h7
    rw [hscr, runI_noFlush _ (noFlush_take hnf _)] at h7
    exact h7
  · trivial
where
  hstep_pc {reason : List Nat} {s s' : St} (h : step reason s .h = some s') : s'.pc = s.pc := by
    simp only [step, hstep] at h
    split at h
    · cases h
    · cases h
    · split at h
      · cases h; rfl
      · split at h
        · cases h
        · split at h <;> (cases h; rfl)
      · cases h; rfl
      · cases h; rfl
      · split at h
        · cases h
        · cases h; unfold lockedAct; split <;> rfl
      · split at h
        · cases h
        · cases h; unfold lockedAct; split <;> rfl

/-- **Every script, `Flush` included** (fixed `Flush`).  `runI l` is the handler's first actions `l` run on their own:
its first component is what the work itself has flushed to the client.  Once ServeHTTP has come back the real writer
holds: the complete streamed result (done branch); or what the work had flushed by some moment `j` followed by the
timeout response (the 503/499 status only takes effect if nothing had been flushed); or, with the panic re-raised,
only what the work had flushed.  Nothing of the *buffered* part of the work is ever mixed with the timeout response. -/
theorem response_with_flush (reason : List Nat) (script : List Act) (s : St) (hr : Reachable reason script s) :
    match s.pc with
    | .retDone => s.w = doneBranch (runI script).1 (runI script).2 ∧ s.hst = .finished
    | .retTimeout k => ∃ j, j ≤ script.length ∧ s.tw.timedOut = true ∧
        s.w = ((runI (script.take j)).1.writeHeader (statusOf k)).write reason
    | .panicked _ => ∃ j, j ≤ script.length ∧ s.w = (runI (script.take j)).1
    | _ => True := by
  have hi := inv_reachable hr
  have h7 := hi.w_pc
  have h9 := hi.to_pc
  have hle := hi.hpc_le
  unfold wOfPc at h7
  unfold timedOutOfPc at h9
  rw [hi.scr] at h7 hle
  split
  · rename_i hpc
    rw [hpc] at h7
    exact ⟨h7, hi.rd_fin hpc⟩
  · rename_i k hpc
    rw [hpc] at h7 h9
    obtain ⟨j, hj, hw⟩ := h7
    exact ⟨j, by omega, h9, hw⟩
  · rename_i v hpc
    rw [hpc] at h7
    exact ⟨s.hpc, hle, h7⟩
  · trivial

/-- what the work has flushed is nothing unless it called `Flush` -/
theorem nothing_flushed_without_flush (l : List Act) (hnf : ∀ a ∈ l, a ≠ Act.flush) : (runI l).1 = Rec.init := by
  rw [runI_noFlush l hnf]

/-- streaming: status 404 + header + first chunk flushed, the deadline comes before the second chunk is flushed:
the client keeps 404/{1:7}/"a" and gets the reason behind it; the buffered "b" is dropped -/
example :
    (runLabels [82, 84] (St.init [.setHeader 1 7, .writeHeader 404, .write [97], .flush, .write [98]])
      [.h, .h, .h, .h, .h, .env .deadline, .mTimeout, .mAdv, .mAdv, .mAdv]).map (fun s => s.w.view) =
    some (404, [(1, 7)], [97, 82, 84]) := by decide
/-- the monitor's streaming semantics (`Spec.completeF`, `Spec.streamedPrefix`) agree with the model on samples -/
example :
    Spec.ofRec (doneBranch (runI [.setHeader 1 7, .writeHeader 404, .write [97], .flush, .setHeader 2 3, .write [98]]).1
      (runI [.setHeader 1 7, .writeHeader 404, .write [97], .flush, .setHeader 2 3, .write [98]]).2) =
    Spec.completeF [.setHeader 1 7, .writeHeader 404, .write [97], .flush, .setHeader 2 3, .write [98]] := by decide
example :
    some (Spec.ofRec (runI [.write [97], .flush, .writeHeader 500, .write [98], .flush, .write [99]]).1) =
    Spec.streamedPrefix [.write [97], .flush, .writeHeader 500, .write [98], .flush, .write [99]] 6 := by decide
example : Spec.completeF [.setHeader 2 1, .setHeader 1 7, .writeHeader 201, .write [97], .write [98]] =
    Spec.complete [.setHeader 2 1, .setHeader 1 7, .writeHeader 201, .write [97], .write [98]] := by decide

/-- the complete result is what the abstract specification says: status = the first `WriteHeader` (200 if a
`Write` comes first or nothing is written), header `k` = the last `Header().Set(k, ·)` of the script, body = all
chunks in order. -/
theorem complete_is_spec (script : List Act) (hc : Spec.completes script false = true) :
    let w := doneBranch Rec.init (runTW TW.init script)
    w.view.1 = Spec.status script ∧ w.view.2.2 = Spec.body script ∧
    ∀ k, hget w.view.2.1 k = Spec.header script k := by
  intro w
  obtain ⟨h1, h2, h3⟩ := doneBranch_init (runTW TW.init script) (by rw [runTW_flushed]; rfl)
  refine ⟨?_, ?_, ?_⟩
  · show w.code = _
    rw [h1, runTW_code _ _ rfl rfl rfl hc]
  · show w.body = _
    rw [h2, runTW_wbuf _ _ rfl]; rfl
  · intro k
    show hget (w.snap.getD w.hdr) k = _
    rw [h3]
    simp only [Option.getD_some]
    rw [hget_hmerge _ _ (runTW_keysNodup _ _ (by simp [keysNodup, TW.init])), runTW_hget]
    simp only [hget_nil]
    have : hget TW.init.h k = none := rfl
    rw [this]
    unfold Spec.header headerFrom
    cases List.foldl _ none script <;> rfl

/-- Before ServeHTTP returns, nothing of the work is visible: the real writer is untouched or holds a prefix of
the timeout response. -/
theorem nothing_of_the_work_before_return (reason : List Nat) (script : List Act) (hnf : NoFlush script) (s : St)
    (hr : Reachable reason script s) :
    match s.pc with
    | .select => s.w = Rec.init
    | .t1 _ => s.w = Rec.init
    | .t2 k => s.w = Rec.init.writeHeader (statusOf k)
    | .t3 k => s.w = timeoutResp reason k
    | _ => True := by
  have hi := inv_reachable hr
  have h7 := hi.w_pc
  have hw : (runI (s.script.take s.hpc)).1 = Rec.init := by
    rw [hi.scr, runI_noFlush _ (noFlush_take hnf _)]
  unfold wOfPc at h7
  rw [hw] at h7
  split <;> simp_all [timeoutResp]

/-- **No write after the timeout.**  Once `timedOut` is set, no step of anybody changes the real writer or the
buffered body/status, and a `Write` of the handler returns `ErrHandlerTimeout`. -/
theorem no_write_after_timeout (reason : List Nat) (script : List Act) (s s' : St)
    (hr : Reachable reason script s) (hto : s.tw.timedOut = true) (l : Label) (hs : step reason s l = some s') :
    s'.w = s.w ∧ s'.tw.wbuf = s.tw.wbuf ∧ s'.tw.code = s.tw.code ∧ s'.tw.timedOut = true ∧
    (∀ b, l = .h → s.script[s.hpc]? = some (.write b) → s'.log = s.log ++ [.errTimeout]) := by
  have hi := inv_reachable hr
  have h9 := hi.to_pc
  have hpc : ∃ k, s.pc = .retTimeout k := by
    unfold timedOutOfPc at h9
    split at h9
    · exact ⟨_, by assumption⟩
    · rw [hto] at h9; cases h9
  obtain ⟨k, hpc⟩ := hpc
  cases l with
  | h =>
    simp only [step, hstep] at hs
    split at hs
    · cases hs
    · cases hs
    · split at hs
      · rename_i hg
        cases hs
        exact ⟨rfl, rfl, rfl, hto, fun b _ hb => by rw [hg] at hb; cases hb⟩
      · -- Flush after the timeout: nothing (it only waits for the lock)
        rename_i hg
        split at hs
        · cases hs
        · first
          | (cases hs
             exact ⟨rfl, rfl, rfl, hto, fun b _ hb => by rw [hg] at hb; cases hb⟩)
          | (split at hs
             · cases hs
               exact ⟨rfl, rfl, rfl, hto, fun b _ hb => by rw [hg] at hb; cases hb⟩
             · rename_i hnto; exact absurd hto hnto)
      · rename_i hg
        cases hs
        exact ⟨rfl, rfl, rfl, hto, fun b _ hb => by rw [hg] at hb; cases hb⟩
      · rename_i hg
        cases hs
        exact ⟨rfl, rfl, rfl, hto, fun b _ hb => by rw [hg] at hb; cases hb⟩
      · rename_i c hg
        split at hs
        · cases hs
        · cases hs
          have htw : (lockedAct s (.writeHeader c)).tw = s.tw := by
            rcases lockedAct_tw s (.writeHeader c) with h | h
            · exact h
            · rw [h, twStep_writeHeader_timedOut _ _ hto]
          refine ⟨(lockedAct_w_pc _ _).1, by rw [htw], by rw [htw], by rw [htw]; exact hto, ?_⟩
          intro b _ hb; rw [hg] at hb; cases hb
      · rename_i b hg
        split at hs
        · cases hs
        · cases hs
          rw [lockedAct_write_timedOut _ _ hto]
          exact ⟨rfl, rfl, rfl, hto, fun _ _ _ => rfl⟩
  | env k' => simp only [step] at hs; split at hs <;> cases hs; simp [hto]
  | mPanic => simp only [step, hpc] at hs; cases hs
  | mDone => simp only [step, hpc] at hs; cases hs
  | mTimeout => simp only [step, hpc] at hs; cases hs
  | mAdv => simp only [step, hpc] at hs; cases hs

/-- ServeHTTP has come back -/
def Returned (s : St) : Prop :=
  match s.pc with
  | .retDone => True
  | .retTimeout _ => True
  | .panicked _ => True
  | _ => False

/-- **Nothing reaches the client after the wrapper returned**: whatever the handler goroutine (or the
context) does later, the response stays what it was. -/
theorem response_stable_after_return (reason : List Nat) (script : List Act) (s : St)
    (hr : Reachable reason script s) (hret : Returned s) (ls : List Label) (s' : St)
    (hrun : runLabels reason s ls = some s') : s'.w = s.w ∧ s'.pc = s.pc := by
  induction ls generalizing s with
  | nil => simp [runLabels] at hrun; subst hrun; exact ⟨rfl, rfl⟩
  | cons l ls ih =>
    simp only [runLabels] at hrun
    split at hrun
    · rename_i s1 hs
      have h1 : s1.w = s.w ∧ s1.pc = s.pc := by
        have hi := inv_reachable hr
        cases l with
        | h =>
          simp only [step, hstep] at hs
          split at hs
          · cases hs
          · cases hs
          · rename_i hrun
            split at hs
            · cases hs; exact ⟨rfl, rfl⟩
            · -- Flush: not while the lock is held; nothing once timed out; and a handler that is still running with
              -- the lock free and no timeout means ServeHTTP is still in its select — it has not returned
              split at hs
              · cases hs
              · rename_i hmu
                split at hs
                · cases hs; exact ⟨rfl, rfl⟩
                · rename_i hto
                  have hsel := pc_select_of_running hi hrun (by simpa using hmu) (by simpa using hto)
                  unfold Returned at hret; rw [hsel] at hret; exact hret.elim
            · cases hs; exact ⟨rfl, rfl⟩
            · cases hs; exact ⟨rfl, rfl⟩
            · split at hs
              · cases hs
              · cases hs; unfold lockedAct; split <;> exact ⟨rfl, rfl⟩
            · split at hs
              · cases hs
              · cases hs; unfold lockedAct; split <;> exact ⟨rfl, rfl⟩
        | env k => simp only [step] at hs; split at hs <;> cases hs; exact ⟨rfl, rfl⟩
        | mPanic => unfold Returned at hret; simp only [step] at hs; split at hs <;> simp_all
        | mDone => unfold Returned at hret; simp only [step] at hs; split at hs <;> simp_all
        | mTimeout => unfold Returned at hret; simp only [step] at hs; split at hs <;> simp_all
        | mAdv => unfold Returned at hret; simp only [step] at hs; split at hs <;> simp_all
      have hret1 : Returned s1 := by unfold Returned at *; rw [h1.2]; exact hret
      have := ih s1 (Reachable.step l hr hs) hret1 hrun
      exact ⟨this.1.trans h1.1, this.2.trans h1.2⟩
    · cases hrun

/-- **The timeout branch never waits for the work.**  Whenever ServeHTTP sits in its select and the context has
ended, the timeout branch is enabled and runs to its end (503/499 written, `timedOut` set, returned) by four
steps of ServeHTTP's goroutine alone — whatever the handler is doing, including nothing, forever. -/
theorem timeout_branch_always_enabled (reason : List Nat) (s : St) (k : Kind)
    (hpc : s.pc = .select) (hctx : s.ctxErr = some k) :
    ∃ s', runLabels reason s [.mTimeout, .mAdv, .mAdv, .mAdv] = some s' ∧ s'.pc = .retTimeout k ∧
      s'.hpc = s.hpc ∧ s'.hst = s.hst ∧ s'.log = s.log ∧
      s'.w = (s.w.writeHeader (statusOf k)).write reason := by
  simp [runLabels, step, hpc, hctx]

/-- the context can end at any moment at which it has not ended yet -/
theorem expiry_always_possible (reason : List Nat) (s : St) (k : Kind) (h : s.ctxErr = none) :
    ∃ s', step reason s (.env k) = some s' ∧ s'.ctxErr = some k := by
  simp [step, h]

/-- the timeout response on a fresh writer, spelled out: status 503/499, no headers, body = reason -/
theorem timeoutResp_view (reason : List Nat) (k : Kind) :
    (timeoutResp reason k).view = (statusOf k, [], reason) ∧ statusOf .deadline = 503 ∧ statusOf .canceled = 499 := by
  cases k <;> simp [timeoutResp, Rec.view, Rec.write, Rec.writeHeader, Rec.init, statusOf]

/-! ### non-vacuity: concrete schedules -/

/-- script: header, status 404, two chunks; the deadline fires between the chunks -/
def exScript : List Act := [.setHeader 1 7, .writeHeader 404, .write [97], .write [98, 99]]

example : NoFlush exScript := by unfold NoFlush exScript; decide

/-- expiry after the first chunk: the client gets exactly 503 + reason, the late chunk is refused -/
example :
    (runLabels [82, 84] (St.init exScript) [.h, .h, .h, .env .deadline, .mTimeout, .mAdv, .mAdv, .mAdv, .h, .h]).map
      (fun s => (s.w.view, s.log, s.pc)) =
    some ((503, [], [82, 84]), [.ok, .ok, .ok, .errTimeout], .retTimeout .deadline) := by decide

/-- the handler squeezes its last chunk in while ServeHTTP already holds the lock: the step is not enabled -/
example : runLabels [82, 84] (St.init exScript) [.h, .h, .h, .env .canceled, .mTimeout, .h] = none := by decide

/-- no expiry: the complete result 404 / {1:7} / abc -/
example :
    (runLabels [82, 84] (St.init exScript) [.h, .h, .h, .h, .h, .mDone]).map (fun s => (s.w.view, s.pc)) =
    some ((404, [(1, 7)], [97, 98, 99]), .retDone) := by decide

/-- done and expiry both ready: the select may take either, each gives a pure result -/
example :
    (runLabels [82, 84] (St.init exScript) [.h, .h, .h, .h, .h, .env .canceled, .mTimeout, .mAdv, .mAdv, .mAdv]).map
      (fun s => s.w.view) = some (499, [], [82, 84]) := by decide

example : Spec.complete exScript = { code := 404, hdrs := [(1, 7)], body := [97, 98, 99] } := by decide

/-! ### `Flush`: witnesses of the pinned behaviour (before fixes/C04-flush-after-timeout.patch), and the fixed one -/

/-- PINNED.  A handler that flushes after the timeout response was sent: bytes buffered before the deadline are
appended behind the 503 body although `timedOut` is set (also replayed on the real code: `rest deadline 1 plain pos w:a f`). -/
theorem flush_after_timeout_reaches_client :
    (runLabelsPinned [82, 84] (St.init [.write [97], .flush])
      [.h, .env .deadline, .mTimeout, .mAdv, .mAdv, .mAdv, .h]).map (fun s => (s.w.view, s.tw.timedOut)) =
    some ((503, [], [82, 84, 97]), true) := by decide

/-- PINNED.  Without any timeout: `WriteHeader(404); Write("a"); Flush()` reaches the client as 200 — the buffered
status is dropped by `Flush` (real code: `rest none 0 plain pos c:404 w:a f`). -/
theorem flush_drops_status_pinned :
    (runLabelsPinned [82, 84] (St.init [.writeHeader 404, .write [97], .flush]) [.h, .h, .h, .h, .mDone]).map
      (fun s => (s.w.view, s.pc)) = some ((200, [], [97]), .retDone) := by decide

/-- FIXED: the same two runs on the model of the fixed code -/
theorem flush_after_timeout_fixed :
    (runLabels [82, 84] (St.init [.write [97], .flush])
      [.h, .env .deadline, .mTimeout, .mAdv, .mAdv, .mAdv, .h]).map (fun s => (s.w.view, s.tw.timedOut)) =
    some ((503, [], [82, 84]), true) ∧
    (runLabels [82, 84] (St.init [.writeHeader 404, .write [97], .flush]) [.h, .h, .h, .h, .mDone]).map
      (fun s => (s.w.view, s.pc)) = some ((404, [], [97]), .retDone) := ⟨by decide, by decide⟩

/-- INHERENT to streaming (pinned and fixed alike, `open` finding flush-streamed-then-timeout): what was flushed before
the deadline is with the client; the timeout branch can only append its reason behind it — status and body are a mixture. -/
theorem flush_before_timeout_mixture :
    (runLabels [82, 84] (St.init [.writeHeader 404, .write [97], .flush, .write [98]])
      [.h, .h, .h, .env .deadline, .mTimeout, .mAdv, .mAdv, .mAdv]).map (fun s => (s.w.view, s.pc)) =
    some ((404, [], [97, 82, 84]), .retTimeout .deadline) ∧
    (runLabelsPinned [82, 84] (St.init [.writeHeader 404, .write [97], .flush, .write [98]])
      [.h, .h, .h, .env .deadline, .mTimeout, .mAdv, .mAdv, .mAdv]).map (fun s => (s.w.view, s.pc)) =
    some ((200, [], [97, 82, 84]), .retTimeout .deadline) := ⟨by decide, by decide⟩

/-- FIXED: `Flush` waits for `tw.mu` — while the timeout branch is writing, the handler's Flush is not enabled -/
example : runLabels [82, 84] (St.init [.write [97], .flush]) [.h, .env .deadline, .mTimeout, .h] = none := by decide

/-! ### the panic path -/

/-- the timeout branch has been taken -/
def TimeoutTaken (s : St) : Prop :=
  match s.pc with
  | .t1 _ => True
  | .t2 _ => True
  | .t3 _ => True
  | .retTimeout _ => True
  | _ => False

/-- the select's panic branch is enabled exactly when ServeHTTP still sits in its select and the handler's goroutine
has panicked (its recover put the value into `panicChan`); taking it re-raises that value. -/
theorem panic_branch_enabled_iff (reason : List Nat) (s : St) :
    ((∃ s', step reason s .mPanic = some s') ↔ (s.pc = .select ∧ ∃ v, s.panicChan = some v)) ∧
    (∀ s', step reason s .mPanic = some s' → ∃ v, s.panicChan = some v ∧ s'.pc = .panicked v ∧ s'.w = s.w) := by
  constructor
  · constructor
    · rintro ⟨s', h⟩
      simp only [step] at h
      split at h
      · rename_i v hpc hp; exact ⟨hpc, v, hp⟩
      · cases h
    · rintro ⟨hpc, v, hp⟩
      exact ⟨{ s with pc := .panicked v, panicChan := none }, by simp [step, hpc, hp]⟩
  · intro s' h
    simp only [step] at h
    split at h
    · rename_i v hpc hp; cases h; exact ⟨v, hp, rfl, rfl⟩
    · cases h

/-- **Once the timeout branch is taken the panic is never re-raised**: whatever happens afterwards — in particular a
handler that panics after (or while) the 503/499 is written, http.ErrAbortHandler included — ServeHTTP does not
panic; the value stays in the buffered `panicChan` (the handler's goroutine ends, nothing leaks). -/
theorem timeout_taken_never_reraises (reason : List Nat) (s : St) (ht : TimeoutTaken s) (ls : List Label) (s' : St)
    (hrun : runLabels reason s ls = some s') : TimeoutTaken s' ∧ ∀ v, s'.pc ≠ .panicked v := by
  induction ls generalizing s with
  | nil =>
    simp [runLabels] at hrun; subst hrun
    refine ⟨ht, ?_⟩
    intro v hv; unfold TimeoutTaken at ht; rw [hv] at ht; exact ht
  | cons l ls ih =>
    simp only [runLabels] at hrun
    split at hrun
    · rename_i s1 hs
      refine ih s1 ?_ hrun
      cases l with
      | h =>
        have := response_all_or_nothing.hstep_pc hs
        unfold TimeoutTaken at *; rw [this]; exact ht
      | env k => simp only [step] at hs; split at hs <;> cases hs; exact ht
      | mPanic => unfold TimeoutTaken at ht; simp only [step] at hs; split at hs <;> simp_all
      | mDone => unfold TimeoutTaken at ht; simp only [step] at hs; split at hs <;> simp_all
      | mTimeout => unfold TimeoutTaken at ht; simp only [step] at hs; split at hs <;> simp_all
      | mAdv =>
        simp only [step] at hs
        split at hs <;> (try cases hs) <;> simp_all [TimeoutTaken]
    · cases hrun

/-- **The re-raised panic is the handler goroutine's own.**  For every script (with or without `Flush`) and every
schedule: if ServeHTTP panics with `v`, the handler's goroutine has ended by a panic and `v` is the value it panicked
with (the last handler-visible result), and the timeout branch was not taken. -/
theorem reraised_panic_is_handlers (reason : List Nat) (script : List Act) (s : St) (hr : Reachable reason script s) :
    (∀ v, s.panicChan = some v → s.hst = .panicked ∧ s.log.getLast? = some (.panicked v)) ∧
    (∀ v, s.pc = .panicked v → s.hst = .panicked ∧ s.log.getLast? = some (.panicked v) ∧ ¬ TimeoutTaken s) := by
  induction hr with
  | init => simp [St.init]
  | step l hprev hs ih =>
    rename_i s0 s1
    obtain ⟨ih1, ih2⟩ := ih
    cases l with
    | h =>
      have hpc := response_all_or_nothing.hstep_pc hs
      simp only [step, hstep] at hs
      have hrun : s0.hst = .running := by
        cases hh : s0.hst <;> simp [hh] at hs; rfl
      have hno : s0.panicChan = none := by
        cases hp : s0.panicChan with
        | none => rfl
        | some v => have := (ih1 v hp).1; rw [hrun] at this; cases this
      have hnp : ∀ v, s0.pc ≠ .panicked v := by
        intro v hv; have := (ih2 v hv).1; rw [hrun] at this; cases this
      refine ⟨?_, fun v hv => absurd (hpc ▸ hv) (hnp v)⟩
      simp only [hrun] at hs
      split at hs
      · cases hs; intro v hv; simp [hno] at hv
      · split at hs
        · cases hs
        · split at hs <;> (cases hs; intro v hv; simp [hno] at hv)
      · cases hs; intro v hv; simp [hno] at hv
      · cases hs; intro v hv; simp at hv; subst hv; simp
      · split at hs
        · cases hs
        · cases hs; unfold lockedAct; split
          · intro v hv; simp at hv; subst hv; simp
          · intro v hv; simp [hno] at hv
      · split at hs
        · cases hs
        · cases hs; unfold lockedAct; split
          · intro v hv; simp at hv; subst hv; simp
          · intro v hv; simp [hno] at hv
    | env k =>
      simp only [step] at hs; split at hs <;> cases hs
      exact ⟨ih1, ih2⟩
    | mPanic =>
      simp only [step] at hs
      split at hs
      · rename_i v hpc hp
        cases hs
        refine ⟨(by intro v' hv'; cases hv'), ?_⟩
        intro v' hv'
        simp at hv'; subst hv'
        exact ⟨(ih1 _ hp).1, (ih1 _ hp).2, by simp [TimeoutTaken]⟩
      · cases hs
    | mDone =>
      simp only [step] at hs
      split at hs
      · split at hs
        · cases hs; exact ⟨ih1, by intro v hv; cases hv⟩
        · cases hs
      · cases hs
    | mTimeout =>
      simp only [step] at hs
      split at hs
      · cases hs; exact ⟨ih1, by intro v hv; cases hv⟩
      · cases hs
    | mAdv =>
      simp only [step] at hs
      split at hs <;> (try cases hs) <;> exact ⟨ih1, by intro v hv; cases hv⟩

/-- the handler panics with 7 before the deadline: re-raised, nothing written; the same panic after the timeout branch
was taken: swallowed, the client has the pure 503 -/
example :
    (runLabels [82, 84] (St.init [.write [97], .panic 7]) [.h, .h, .mPanic]).map (fun s => (s.pc, s.w.view)) =
      some (.panicked 7, (200, [], [])) := by decide
example :
    (runLabels [82, 84] (St.init [.write [97], .panic 7]) [.h, .env .deadline, .mTimeout, .h, .mAdv, .mAdv, .mAdv]).map
      (fun s => (s.pc, s.w.view)) = some (.retTimeout .deadline, (503, [], [82, 84])) := by decide
example :
    (runLabels [82, 84] (St.init [.write [97], .panic 7]) [.h, .env .deadline, .mTimeout, .h, .mAdv, .mAdv, .mAdv]).map
      (fun s => s.panicChan) = some (some 7) := by decide
/-- both ready: the select may also take the timeout branch although the handler has already panicked -/
example :
    (runLabels [82, 84] (St.init [.panic 7]) [.h, .env .canceled, .mTimeout, .mAdv, .mAdv, .mAdv]).map
      (fun s => (s.pc, s.w.view)) = some (.retTimeout .canceled, (499, [], [82, 84])) := by decide

/-! ### `Hijack` -/

/-- FIXED (fixes/C04-hijack-after-timeout.patch): once the timeout branch has set `timedOut`, `Hijack` never hands the
connection to the work; before that it is a pass-through. -/
theorem hijack_refused_after_timeout (t : TW) (supported : Bool) :
    (t.timedOut = true → hijack t supported = .refused) ∧
    (t.timedOut = false → hijack t supported = (if supported then .ok else .unsupported)) := by
  unfold hijack
  cases t.timedOut <;> simp

/-- in every reachable state in which ServeHTTP has returned through the timeout branch, `Hijack` is refused -/
theorem hijack_refused_after_timeout_return (reason : List Nat) (script : List Act) (s : St)
    (hr : Reachable reason script s) (k : Kind) (hpc : s.pc = .retTimeout k) (supported : Bool) :
    hijack s.tw supported = .refused := by
  have h := (inv_reachable hr).to_pc
  unfold timedOutOfPc at h
  rw [hpc] at h
  exact (hijack_refused_after_timeout s.tw supported).1 h

/-- PINNED witness (real code: `hij sup deadline after => hijack=ok`): after the timeout the connection is handed over -/
theorem hijack_after_timeout_pinned :
    ((runLabels [82, 84] (St.init []) [.env .deadline, .mTimeout, .mAdv, .mAdv, .mAdv]).map
      (fun s => (s.tw.timedOut, hijackPinned s.tw true, hijack s.tw true))) = some (true, .ok, .refused) := by decide

/-! ## C. zRPC server interceptor and fx.DoWithTimeout -/

/-- the outcome law: the work's own (resp, err) | the timeout result of the expiry that happened | the work's panic -/
def OutcomeOK (work : Work) (ctxErr : Option Kind) : Outcome → Prop
  | .result r e => work = .ret r e
  | .timeout k => ctxErr = some k
  | .panic v => work = .panic v

/-- fx: only the error travels -/
def FxOutcomeOK (work : Work) (ctxErr : Option Kind) : Outcome → Prop
  | .result r e => r = 0 ∧ ∃ r', work = .ret r' e
  | .timeout k => ctxErr = some k
  | .panic v => work = .panic v

/-- **UnaryTimeoutInterceptor returns the work's own (resp, err), or (nil, DeadlineExceeded/Canceled) for the
expiry that happened, or re-raises the work's panic — never a half-assigned pair.** -/
theorem rpc_result_or_timeout (work : Work) (s : SelSt) (hr : SelReach srvStep work s) (o : Outcome)
    (ho : s.out = some o) : OutcomeOK work s.ctxErr o := by
  have := (srvInv_reach hr).2.2.2 o ho
  cases o <;> simpa [OutcomeOK] using this

/-- fx.DoWithTimeout returns fn's error, or ctx.Err() of the expiry that happened, or re-raises fn's panic. -/
theorem fx_result_or_timeout (work : Work) (s : SelSt) (hr : SelReach fxStep work s) (o : Outcome)
    (ho : s.out = some o) : FxOutcomeOK work s.ctxErr o := by
  have := (fxInv_reach hr).2.2 o ho
  cases o <;> simpa [FxOutcomeOK] using this

/-- the timeout branch of the interceptor is enabled whenever the context has ended and the select has not
been left — in particular while the work never returns (and holds the result lock). -/
theorem rpc_timeout_always_enabled (s : SelSt) (k : Kind) (h1 : s.out = none) (h2 : s.mwait = false)
    (h3 : s.ctxErr = some k) : ∃ s', srvStep s .mTimeout = some s' ∧ s'.out = some (.timeout k) := by
  simp [srvStep, h1, h2, h3]

theorem fx_timeout_always_enabled (s : SelSt) (k : Kind) (h1 : s.out = none)
    (h3 : s.ctxErr = some k) : ∃ s', fxStep s .mTimeout = some s' ∧ s'.out = some (.timeout k) := by
  simp [fxStep, h1, h3]

/-- once the interceptor has chosen `case <-done` it gets the lock after finitely many worker steps (one):
the worker closes `done` only after both assignments, and then only unlocks. -/
theorem rpc_done_branch_completes (work : Work) (s : SelSt) (hr : SelReach srvStep work s) (hw : s.mwait = true)
    (ho : s.out = none) :
    (∃ s', srvStep s .mDoneLocked = some s') ∨
    (∃ s1 s', srvStep s .w = some s1 ∧ srvStep s1 .mDoneLocked = some s') := by
  obtain ⟨hwk, hwork, hmw, _⟩ := srvInv_reach hr
  have hd := hmw hw
  cases hl : s.lock with
  | none => left; simp [srvStep, ho, hw, hl]
  | some b =>
    right
    cases work with
    | ret r e =>
      simp only [hd] at hwork
      rcases hwork.2.2.1 trivial with hc | he
      · simp [srvStep, hc, hwk, ho, hw]
      · -- the worker has ended: it released the lock … unless main holds it, which it never does
        exact absurd ⟨b, hl⟩ (ended_lock_free hr he)
    | panic v => simp [hd] at hwork
    | never => simp [hd] at hwork
where
  ended_lock_free {work : Work} {s : SelSt} (hr : SelReach srvStep work s) (he : s.wpc = .ended) : ¬ ∃ b, s.lock = some b := by
    have : (s.wpc = .ended ∨ s.wpc = .start) → s.lock = none := by
      clear he
      induction hr with
      | init => intro _; rfl
      | step l _ hs ih =>
        rename_i s0 s1
        cases l <;> simp only [srvStep] at hs <;> (repeat' split at hs) <;> simp at hs <;> subst hs <;> simp_all
    intro ⟨b, hb⟩
    rw [this (Or.inl he)] at hb
    cases hb

example : (runSel srvStep { work := .ret 5 0 } [.w, .w, .w, .w, .mDone, .w, .mDoneLocked]).map (·.out) =
    some (some (.result 5 0)) := by decide
/-- the expiry lands between the two assignments: the caller gets the pure timeout result -/
example : (runSel srvStep { work := .ret 5 9 } [.w, .w, .env .deadline, .mTimeout, .w, .w, .w]).map (fun s => (s.out, s.resp, s.err)) =
    some (some (.timeout .deadline), 5, 9) := by decide
example : (runSel srvStep { work := .never } [.w, .env .canceled, .mTimeout]).map (·.out) =
    some (some (.timeout .canceled)) := by decide
example : (runSel fxStep { work := .ret 0 3 } [.w, .env .deadline, .mDone]).map (·.out) =
    some (some (.result 0 3)) := by decide
example : (runSel fxStep { work := .panic 4 } [.w, .mPanic]).map (·.out) = some (some (.panic 4)) := by decide

end GoZero.C04.Props
