/-
C04 — helper lemmas for the engine wiring model (`Eng.build` = fold of `addRoutes` over the groups).
-/
import GoZero.C04.Spec
namespace GoZero.C04

theorem foldl_addRoutes (e : Eng) (groups : List (List RouteOpt)) :
    (groups.foldl Eng.addRoutes e).routes = e.routes ++ groups.map groupTimeout ∧
    (groups.foldl Eng.addRoutes e).confMs = e.confMs ∧ (groups.foldl Eng.addRoutes e).mw = e.mw := by
  induction groups generalizing e with
  | nil => simp
  | cons g gs ih =>
    simp only [List.foldl_cons, List.map_cons]
    obtain ⟨h1, h2, h3⟩ := ih (e.addRoutes g)
    refine ⟨?_, ?_, ?_⟩
    · rw [h1]; simp [Eng.addRoutes]
    · rw [h2]; rfl
    · rw [h3]; rfl

theorem build_fields (c : Int) (mw : MwMode) (groups : List (List RouteOpt)) :
    (Eng.build c mw groups).routes = groups.map groupTimeout ∧
    (Eng.build c mw groups).confMs = c ∧ (Eng.build c mw groups).mw = mw := by
  have := foldl_addRoutes (Eng.new c mw) groups
  simpa [Eng.build, Eng.new] using this

/-- `ng.timeout` after a fold: at least what it was, at least every group's timeout, and one of those values -/
theorem foldl_addRoutes_timeout (e : Eng) (groups : List (List RouteOpt)) :
    e.timeout ≤ (groups.foldl Eng.addRoutes e).timeout ∧
    (∀ g ∈ groups, groupTimeout g ≤ (groups.foldl Eng.addRoutes e).timeout) ∧
    ((groups.foldl Eng.addRoutes e).timeout = e.timeout ∨
      ∃ g ∈ groups, (groups.foldl Eng.addRoutes e).timeout = groupTimeout g) := by
  induction groups generalizing e with
  | nil => simp
  | cons g gs ih =>
    simp only [List.foldl_cons]
    obtain ⟨h1, h2, h3⟩ := ih (e.addRoutes g)
    have hstep : e.timeout ≤ (e.addRoutes g).timeout ∧ groupTimeout g ≤ (e.addRoutes g).timeout ∧
        ((e.addRoutes g).timeout = e.timeout ∨ (e.addRoutes g).timeout = groupTimeout g) := by
      simp only [Eng.addRoutes]
      split <;> omega
    refine ⟨by omega, ?_, ?_⟩
    · intro g' hg'
      rcases List.mem_cons.mp hg' with rfl | hm
      · omega
      · exact h2 g' hm
    · rcases h3 with h3 | ⟨g', hg', h3⟩
      · rcases hstep.2.2 with h4 | h4
        · left; omega
        · right; exact ⟨g, List.mem_cons_self, by omega⟩
      · right; exact ⟨g', List.mem_cons_of_mem _ hg', h3⟩

end GoZero.C04
