/-
C04 — Tie: what the extractor read from the go-zero tree *now* equals what the model was written against.
-/
import GoZero.Extracted.C04
import GoZero.C04.Driver
namespace GoZero.C04.Tie
open GoZero.C04
open GoZero.Extracted.C04

theorem extraction_clean : extractionErrors = [] := by decide

end GoZero.C04.Tie
