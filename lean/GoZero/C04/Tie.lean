/-
C04 — Tie: what the extractor read from the go-zero tree *now* equals what the model was written against.
A failing obligation here means the code moved away from the model (see the note at each list for the model
rows that correspond to it).
-/
import GoZero.Extracted.C04
import GoZero.C04.Driver
namespace GoZero.C04.Tie
open GoZero.C04
open GoZero.Extracted.C04

theorem extraction_clean : extractionErrors = [] := by decide

/-! ### constants of rest/handler/timeouthandler.go, with the property's literal values -/

theorem tie_status499 : statusClientClosedRequest = 499 ∧ (statusOf .canceled : Int) = statusClientClosedRequest := by decide
theorem tie_status503 : statusOf .deadline = 503 := by decide
theorem tie_reason : Extracted.C04.reason = "Request Timeout" ∧ Extracted.C04.reason = GoZero.C04.reason := by decide
theorem tie_exemption_headers :
    headerUpgrade = "Upgrade" ∧ valueWebsocket = "websocket" ∧ headerAccept = "Accept" ∧ valueSSE = "text/event-stream" := by
  decide

/-- rest/engine.go `checkedTimeout` (translated from the source) is the model's, for all arguments -/
theorem tie_checkedTimeout (route confMs : Int) :
    Extracted.C04.checkedTimeout route confMs = GoZero.C04.checkedTimeout route confMs := by
  unfold Extracted.C04.checkedTimeout GoZero.C04.checkedTimeout
  by_cases h : route > 0 <;> simp [h]

/-! ### which duration reaches `TimeoutHandler` for a route: rest/server.go options, rest/engine.go wiring -/

/-- `WithTimeout(t)` stores `t`; `WithSSE()` resets the timeout to 0 (model: `RouteOpt`, `groupTimeout`) -/
theorem tie_routeOptions :
    withTimeoutOpt = ["r.timeout = timeout"] ∧ withSSEOpt = ["r.sse = true", "r.timeout = 0"] := by decide

/-- `AddRoutes`: the options are applied in order on a zero `featuredRoutes`, which is then handed to the engine
(model: `groupTimeout` as a left fold from 0, `Eng.addRoutes`) -/
theorem tie_serverAddRoutes :
    serverAddRoutes = ["r := featuredRoutes{ routes: rs, }", "range opts {", "opt(&r)", "}", "s.ngin.addRoutes(r)"] := by decide

/-- `AddRoute(r, opts...)` delegates to `AddRoutes` with the one route and ALL its options, in order -/
theorem tie_serverAddRoute : serverAddRoute = ["s.AddRoutes([]Route{r}, opts...)"] := by decide

/-- `addRoutes`: append the group; `ng.timeout` becomes the maximum (model: `Eng.addRoutes`) -/
theorem tie_engAddRoutes :
    engAddRoutes = ["if r.sse {", "r.routes = buildSSERoutes(r.routes)", "}", "ng.routes = append(ng.routes, r)",
      "if r.timeout > ng.timeout {", "ng.timeout = r.timeout", "}"] := by decide

/-- `newEngine`: `ng.timeout` starts as the global timeout in ms (model: `Eng.new`) -/
theorem tie_engNew :
    engNewTimeout = ["svr := &engine{ conf: c, timeout: time.Duration(c.Timeout) * time.Millisecond, }"] := by decide

/-- the middleware is appended only under `Middlewares.Timeout`, with `checkedTimeout` of the *group's* timeout
(model: `Eng.bound`, mode `on` / `off`) -/
theorem tie_engTimeoutWiring :
    engTimeoutWiring =
      ["if ng.conf.Middlewares.Timeout { chn = chn.Append(handler.TimeoutHandler(ng.checkedTimeout(fr.timeout)))"] := by decide

/-- `bindRoute`: a user chain replaces the native middlewares altogether (model: mode `chain`); every route of a group is
bound with the group's `fr`; every group of `ng.routes` is bound -/
theorem tie_engBind :
    engBindRouteChain = ["chn := ng.chain",
      "if chn == nil { chn = ng.buildChainWithNativeMiddlewares(fr, route, metrics)",
      "chn = ng.appendAuthHandler(fr, chn, verifier)",
      "range ng.middlewares { chn = chn.Append(convertMiddleware(middleware))",
      "handle := chn.ThenFunc(route.Handler)"] ∧
    engBindFeatured = ["range fr.routes { err := ng.bindRoute(fr, router, metrics, route, verifier)"] ∧
    engBindRoutes = ["range ng.routes { err := ng.bindFeaturedRoutes(router, fr, metrics)"] := by decide

/-! ### statement skeletons and context/result flow -/

/-- `TimeoutHandler(duration)`: no wrapper at all when `duration <= 0` (model: `restWraps`) -/
def expected_timeoutHandlerCtorShape : List String := [
  "func{",
  "if duration <= 0 {",
  "return",
  "}",
  "return",
  "}",
  "return"]

theorem tie_timeoutHandlerCtorShape : timeoutHandlerCtorShape = expected_timeoutHandlerCtorShape := by decide

/-- ServeHTTP.  Model rows: exemption test first (`restWraps`); `context.WithTimeout` on `r.Context()`; the
handler goroutine (`hstep`: ServeHTTP(tw, r) then `close done`; recover → `send panicChan`); the select with its three
branches: `mPanic` (re-panic), `mDone` (lock, copy headers, status if ≠ 200, body), `mTimeout`/`mAdv` (lock,
ErrorCtx → WriteHeader 499/503 + reason, `store tw.timedOut`, deferred unlock) -/
def expected_serveHTTPShape (statusCond : String) : List String := [
  "if r.Header.Get(headerUpgrade) == valueWebsocket || r.Header.Get(headerAccept) == valueSSE {",
  "call h.handler.ServeHTTP",
  "return",
  "}",
  "call r.Context",
  "call context.WithTimeout",
  "defer{",
  "call cancelCtx",
  "}",
  "call r.WithContext",
  "go{",
  "func{",
  "defer{",
  "func{",
  "recover",
  "if p != nil {",
  "send panicChan",
  "}",
  "}",
  "call func",
  "}",
  "call h.handler.ServeHTTP",
  "close done",
  "}",
  "call func",
  "}",
  "select{",
  "case recv panicChan:",
  "panic",
  "case recv done:",
  "call tw.mu.Lock",
  "defer{",
  "call tw.mu.Unlock",
  "}",
  "call w.Header",
  "range tw.h {",
  "mapset dst",
  "}",
  statusCond,
  "call w.WriteHeader",
  "}",
  "call tw.wbuf.Bytes",
  "call w.Write",
  "case recv ctx.Done(); call ctx.Done:",
  "call tw.mu.Lock",
  "defer{",
  "call tw.mu.Unlock",
  "}",
  "call r.Context",
  "call ctx.Err",
  "func{",
  "if errors.Is(err, context.Canceled) {",
  "call w.WriteHeader",
  "}",
  "else{",
  "call w.WriteHeader",
  "}",
  "call h.errorBody",
  "call io.WriteString",
  "}",
  "call httpx.ErrorCtx",
  "store tw.timedOut",
  "}"]

def statusCondPinned : String := "if tw.code != http.StatusOK {"
def statusCondFixed : String := "if tw.code != http.StatusOK && !tw.flushed {"

/-- the done branch writes the buffered status unless it is 200 — and (fixed code) unless a `Flush` has sent it already -/
theorem tie_serveHTTPShape :
    serveHTTPShape = expected_serveHTTPShape statusCondPinned ∨
    serveHTTPShape = expected_serveHTTPShape statusCondFixed := by decide

/-- the context handed to the work is the one returned by `context.WithTimeout(r.Context(), h.dt)`; the work writes
to `tw`, not `w`; exempt requests get `w, r` untouched; the timeout branch writes 499 for Canceled else 503, then the reason,
then sets `timedOut`; `panicChan` is buffered (capacity 1: a handler that panics after the select has been left
does not block, model: `panicChan : Option Nat`), `done` is closed (not sent on), the re-raised value is the received one -/
def expected_serveHTTPFlow : List String := [
  "h.handler.ServeHTTP(w, r)",
  "ctx, cancelCtx := context.WithTimeout(r.Context(), h.dt)",
  "r = r.WithContext(ctx)",
  "done := make(chan struct{})",
  "tw := &timeoutWriter{ w: w, h: make(http.Header), req: r, code: http.StatusOK, }",
  "panicChan := make(chan any, 1)",
  "panicChan <- p",
  "h.handler.ServeHTTP(tw, r)",
  "close(done)",
  "panic(p)",
  "dst[k] = vv",
  "w.WriteHeader(tw.code)",
  "w.Write(tw.wbuf.Bytes())",
  "w.WriteHeader(statusClientClosedRequest)",
  "w.WriteHeader(http.StatusServiceUnavailable)",
  "_, _ = io.WriteString(w, h.errorBody())",
  "tw.timedOut = true"]

theorem tie_serveHTTPFlow : serveHTTPFlow = expected_serveHTTPFlow := by decide

/-- `Write`: under `mu`; `timedOut` → ErrHandlerTimeout before anything is buffered (model: `twStep .write`) -/
def expected_twWriteShape : List String := [
  "call tw.mu.Lock",
  "defer{",
  "call tw.mu.Unlock",
  "}",
  "if tw.timedOut {",
  "return",
  "}",
  "if !tw.wroteHeader {",
  "call tw.writeHeaderLocked",
  "}",
  "call tw.wbuf.Write",
  "return"]

theorem tie_twWriteShape : twWriteShape = expected_twWriteShape := by decide

/-- `WriteHeader`: under `mu`, only the first call counts (model: `twStep .writeHeader`) -/
def expected_twWriteHeaderShape : List String := [
  "call tw.mu.Lock",
  "defer{",
  "call tw.mu.Unlock",
  "}",
  "if !tw.wroteHeader {",
  "call tw.writeHeaderLocked",
  "}"]

theorem tie_twWriteHeaderShape : twWriteHeaderShape = expected_twWriteHeaderShape := by decide

/-- `writeHeaderLocked`: code check first (panic), then `timedOut` → nothing, `wroteHeader` → log only, else store -/
def expected_twWriteHeaderLockedShape : List String := [
  "call checkWriteHeaderCode",
  "switch {",
  "case tw.timedOut:",
  "return",
  "case tw.wroteHeader:",
  "if tw.req != nil {",
  "call relevantCaller",
  "call path.Base",
  "}",
  "default:",
  "store tw.wroteHeader",
  "store tw.code",
  "}"]

theorem tie_twWriteHeaderLockedShape : twWriteHeaderLockedShape = expected_twWriteHeaderLockedShape := by decide

/-- `Flush` PINNED: no `mu`, no `timedOut` test, copies headers, writes and resets the buffer (model: `flushNowPinned`,
`stepPinned`; findings flush-after-timeout / flush-drops-status) -/
def expected_twFlushPinned : List String := [
  "flusher, ok := tw.w.(http.Flusher)",
  "if !ok {",
  "return",
  "}",
  "header := tw.w.Header()",
  "range tw.h {",
  "header[k] = v",
  "}",
  "tw.w.Write(tw.wbuf.Bytes())",
  "tw.wbuf.Reset()",
  "flusher.Flush()"]

/-- `Flush` FIXED (fixes/C04-flush-after-timeout.patch): under `mu` (deferred unlock), nothing once `timedOut`, the
first flush sends the buffered status (model: `hstep` flush case, `flushNow`) -/
def expected_twFlushFixed : List String := [
  "flusher, ok := tw.w.(http.Flusher)",
  "if !ok {",
  "return",
  "}",
  "tw.mu.Lock()",
  "defer tw.mu.Unlock()",
  "if tw.timedOut {",
  "return",
  "}",
  "header := tw.w.Header()",
  "range tw.h {",
  "header[k] = v",
  "}",
  "if !tw.flushed && tw.code != http.StatusOK {",
  "tw.w.WriteHeader(tw.code)",
  "}",
  "tw.flushed = true",
  "tw.w.Write(tw.wbuf.Bytes())",
  "tw.wbuf.Reset()",
  "flusher.Flush()"]

/-- `Flush` and the done branch are both in the pinned form or both in the fixed form — never half.  (The
correspondence run accepts, per line with a `Flush`, the pinned or the fixed model and counts which one explained it;
the monitor reports the pinned behaviour as the recorded findings flush-after-timeout / flush-drops-status.) -/
theorem tie_twFlush :
    (twFlushDetail = expected_twFlushPinned ∧ serveHTTPShape = expected_serveHTTPShape statusCondPinned) ∨
    (twFlushDetail = expected_twFlushFixed ∧ serveHTTPShape = expected_serveHTTPShape statusCondFixed) := by decide

/-- `Hijack` PINNED: straight pass-through (model: `hijackPinned`; finding hijack-after-timeout) or FIXED
(fixes/C04-hijack-after-timeout.patch): under `mu`, ErrHandlerTimeout once `timedOut` (model: `hijack`) -/
theorem tie_twHijack :
    twHijackDetail = ["if hijacked, ok := tw.w.(http.Hijacker); ok {", "return hijacked.Hijack()", "}",
      "return nil, nil, errors.New(\"server doesn't support hijacking\")"] ∨
    twHijackDetail = ["tw.mu.Lock()", "defer tw.mu.Unlock()", "if tw.timedOut {", "return nil, nil, http.ErrHandlerTimeout", "}",
      "if hijacked, ok := tw.w.(http.Hijacker); ok {", "return hijacked.Hijack()", "}",
      "return nil, nil, errors.New(\"server doesn't support hijacking\")"] := by decide

/-- `Push` is a pass-through to the underlying writer (HTTP/2 push promises are not part of this response; not modelled) -/
theorem tie_twPush :
    twPushDetail = ["if pusher, ok := tw.w.(http.Pusher); ok {", "return pusher.Push(target, opts)", "}",
      "return http.ErrNotSupported"] := by decide

/-- the timeout branch's `httpx.ErrorCtx(…, fn)`: without a user-installed error handler (`handler == nil`) exactly the
functions passed are called — our closure writing 499/503 + reason, no header (model: `mAdv` rows t1→t3) -/
theorem tie_httpxDefault :
    httpxErrorCtx = ["doHandleError(w, err, buildErrorHandler(ctx), writeJson, fns...)"] ∧
    httpxDefaultError = ["if handler == nil { if len(fns) > 0 { range fns { fn(w, err)"] := by decide

/-! ### zrpc: configuration → interceptors (model: `srvWiredDeadline`, `cliConfTimeout`, `cliWiredDeadline`) -/

theorem tie_zrpcSrvWiring :
    zrpcSrvWiring = ["if c.Timeout > 0 { svr.AddUnaryInterceptors(serverinterceptors.UnaryTimeoutInterceptor( time.Duration(c.Timeout)*time.Millisecond, c.MethodTimeouts...))"] := rfl

theorem tie_zrpcCliWiring :
    zrpcCliConf = ["if c.Timeout > 0 { opts = append(opts, WithTimeout(time.Duration(c.Timeout)*time.Millisecond))",
      "opts = append(opts, options...)"] ∧
    zrpcCliWithTimeoutOpt = ["options.Timeout = timeout"] ∧
    zrpcCliDialOptions = ["var cliOpts ClientOptions", "range opts { opt(&cliOpts)",
      "options = append(options, grpc.WithChainUnaryInterceptor(c.buildUnaryInterceptors(cliOpts.Timeout)...), grpc.WithChainStreamInterceptor(c.buildStreamInterceptors()...), )",
      "return append(options, cliOpts.DialOptions...)"] ∧
    zrpcCliWiring = ["if c.middlewares.Timeout { interceptors = append(interceptors, clientinterceptors.TimeoutInterceptor(timeout))"] ∧
    zrpcWithCallTimeout = ["return clientinterceptors.WithCallTimeout(timeout)"] := ⟨rfl, rfl, rfl, rfl, rfl⟩

/-- `Header()` hands out the map without locking (model: `setHeader` needs no lock) -/
def expected_twHeaderShape : List String := [
  "return"]

theorem tie_twHeaderShape : twHeaderShape = expected_twHeaderShape := by decide

/-- UnaryTimeoutInterceptor closure.  Model rows (`srvStep`): worker = lock; `resp, err = handler(ctx, req)`; close(done);
deferred unlock / recover → send panicChan.  Main = select: panic | done → lock → return resp, err | ctx.Done → status error -/
def expected_srvShape : List String := [
  "call getTimeoutByUnaryServerInfo",
  "call context.WithTimeout",
  "defer{",
  "call cancel",
  "}",
  "go{",
  "func{",
  "defer{",
  "func{",
  "recover",
  "if p != nil {",
  "call debug.Stack",
  "send panicChan",
  "}",
  "}",
  "call func",
  "}",
  "call lock.Lock",
  "defer{",
  "call lock.Unlock",
  "}",
  "call handler",
  "close done",
  "}",
  "call func",
  "}",
  "select{",
  "case recv panicChan:",
  "panic",
  "case recv done:",
  "call lock.Lock",
  "defer{",
  "call lock.Unlock",
  "}",
  "return",
  "case recv ctx.Done(); call ctx.Done:",
  "call ctx.Err",
  "if errors.Is(err, context.Canceled) {",
  "call err.Error",
  "call status.Error",
  "}",
  "else{",
  "if errors.Is(err, context.DeadlineExceeded) {",
  "call err.Error",
  "call status.Error",
  "}",
  "}",
  "return",
  "}"]

theorem tie_srvShape : srvShape = expected_srvShape := by decide

/-- the handler gets the derived ctx; the timeout result is `nil` + Canceled/DeadlineExceeded status -/
def expected_srvFlow : List String := [
  "t := getTimeoutByUnaryServerInfo(info.FullMethod, timeouts, timeout)",
  "ctx, cancel := context.WithTimeout(ctx, t)",
  "resp, err = handler(ctx, req)",
  "return resp, err",
  "err := ctx.Err()",
  "err = status.Error(codes.Canceled, err.Error())",
  "err = status.Error(codes.DeadlineExceeded, err.Error())",
  "return nil, err"]

theorem tie_srvFlow : srvFlow = expected_srvFlow := by decide

/-- per-method timeout if present else the default (model: `srvTimeout`) -/
def expected_srvMethodTimeoutShape : List String := [
  "if ok {",
  "return",
  "}",
  "return"]

theorem tie_srvMethodTimeoutShape : srvMethodTimeoutShape = expected_srvMethodTimeoutShape := by decide

/-- method table: entries with an empty method name are skipped, later entries overwrite (model: `srvTimeout`) -/
def expected_srvBuildMethodTimeoutsShape : List String := [
  "range timeouts {",
  "if st.FullMethod != \"\" {",
  "mapset mt",
  "}",
  "}",
  "return"]

theorem tie_srvBuildMethodTimeoutsShape : srvBuildMethodTimeoutsShape = expected_srvBuildMethodTimeoutsShape := by decide

/-- client interceptor: `t <= 0` → pass through; else WithTimeout + deferred cancel (model: `cliWraps`, `cliDeadline`) -/
def expected_cliShape : List String := [
  "call getTimeoutFromCallOptions",
  "if t <= 0 {",
  "call invoker",
  "return",
  "}",
  "call context.WithTimeout",
  "defer{",
  "call cancel",
  "}",
  "call invoker",
  "return"]

theorem tie_cliShape : cliShape = expected_cliShape := by decide

/-- the invoker gets the derived ctx (second call) or the caller's (pass-through); its error is returned as is -/
def expected_cliFlow : List String := [
  "t := getTimeoutFromCallOptions(opts, timeout)",
  "return invoker(ctx, method, req, reply, cc, opts...)",
  "ctx, cancel := context.WithTimeout(ctx, t)",
  "return invoker(ctx, method, req, reply, cc, opts...)"]

theorem tie_cliFlow : cliFlow = expected_cliFlow := by decide

/-- first `TimeoutCallOption` wins (model: `cliTimeout`) -/
def expected_cliCallOptionShape : List String := [
  "range opts {",
  "if ok {",
  "return",
  "}",
  "}",
  "return"]

theorem tie_cliCallOptionShape : cliCallOptionShape = expected_cliCallOptionShape := by decide

/-- fx.DoWithTimeout.  Model rows (`fxStep`): worker = `done <- fn()` / recover → send panicChan; main = select panic | done | ctx.Done -/
def expected_fxShape : List String := [
  "call context.Background",
  "range opts {",
  "call opt",
  "}",
  "call context.WithTimeout",
  "defer{",
  "call cancel",
  "}",
  "go{",
  "func{",
  "defer{",
  "func{",
  "recover",
  "if p != nil {",
  "call debug.Stack",
  "send panicChan",
  "}",
  "}",
  "call func",
  "}",
  "call fn",
  "send done",
  "}",
  "call func",
  "}",
  "select{",
  "case recv panicChan:",
  "panic",
  "case recv done:",
  "return",
  "case recv ctx.Done(); call ctx.Done:",
  "call ctx.Err",
  "return",
  "}"]

theorem tie_fxShape : fxShape = expected_fxShape := by decide

/-- parent = Background, overridden by each option in turn (last wins); result = fn's error or ctx.Err() -/
def expected_fxFlow : List String := [
  "parentCtx := context.Background()",
  "parentCtx = opt()",
  "ctx, cancel := context.WithTimeout(parentCtx, timeout)",
  "done <- fn()",
  "return err",
  "return ctx.Err()"]

theorem tie_fxFlow : fxFlow = expected_fxFlow := by decide

end GoZero.C04.Tie
