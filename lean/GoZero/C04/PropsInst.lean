/-
C04 — property theorems about the interceptors AS CLOSURES and about sequences of calls (round 4).

The closure-level model (`SrvInst`, `CliInst`, `fxParentLoop`; Model.lean) follows the source statement by statement and
is what `TieSem.lean` proves equal to the translation of the Go code.  Here:

  * `srv_selection_is_table_lookup`, `cli_selection_is_first_option`, `fx_parent_is_last_option`:
      the statement-level selection equals the declarative `srvTimeout` / `cliTimeout` / `fxParent` of Props.lean
  * `srv_call_keeps_closure`, `cli_call_keeps_closure`: a call changes none of the captured variables
  * `srv_every_call_own_deadline`, `cli_every_call_own_deadline`: for EVERY sequence of calls through one closure (any
      methods / call options / caller deadlines / times, any length) the k-th call's work runs under
      min(caller's deadline, now + the timeout of ITS OWN method / call options) — independent of the calls before it
  * `zrpc_server_deadline_clause`, `zrpc_client_deadline_clause`: configuration → wiring → closure → sequence, end to end
  * `deadline_clause_all_wrappers`: the property's first clause for the four wrappers in one statement
-/
import GoZero.C04.Props
import GoZero.C04.ProofsInst
namespace GoZero.C04.Props
open GoZero.C04

/-- zRPC server: `getTimeoutByUnaryServerInfo(method, buildMethodTimeouts(conf), dflt)` is the last configured entry with
that (non-empty) method name, else the default — for every configuration list and method. -/
theorem srv_selection_is_table_lookup (dflt : Int) (mts : List (Nat × Int)) (method : Nat) :
    getTimeoutByUnaryServerInfo method (buildMethodTimeouts mts) dflt = srvTimeout dflt mts method :=
  getTimeout_build dflt mts method

/-- zRPC client: the option scan returns the first `TimeoutCallOption`, else the default -/
theorem cli_selection_is_first_option (dflt : Int) (opts : List (Option Int)) :
    getTimeoutFromCallOptions opts dflt = cliTimeout dflt opts ∧
    cliTimeout dflt opts = Spec.callTimeout dflt opts := by
  refine ⟨getTimeoutFromCallOptions_eq opts dflt, ?_⟩
  induction opts with
  | nil => rfl
  | cons o os ih =>
    cases o with
    | none => simpa [cliTimeout, List.find?, Spec.callTimeout] using ih
    | some t => simp [cliTimeout, List.find?, Spec.callTimeout]

/-- fx: the option loop leaves the context of the LAST option (Background without options) -/
theorem fx_parent_is_last_option (opts : List Deadline) : fxParentLoop opts = fxParent opts := fxParentLoop_eq opts

/-- a call through the server closure changes none of its captured variables -/
theorem srv_call_keeps_closure (i : SrvInst) (method : Nat) (parent : Deadline) (now : Int) :
    (i.call method parent now).2 = i := rfl

theorem cli_call_keeps_closure (i : CliInst) (opts : List (Option Int)) (parent : Deadline) (now : Int) :
    (i.call opts parent now).2 = i := rfl

/-- one call through the server closure is `srvDeadline` -/
theorem srv_call_deadline (dflt : Int) (mts : List (Nat × Int)) (method : Nat) (parent : Deadline) (now : Int) :
    ((SrvInst.new dflt mts).call method parent now).1 = srvDeadline dflt mts method parent now := by
  simp [SrvInst.call, SrvInst.new, srvDeadline, getTimeout_build]

/-- one call through the client closure is `cliDeadline` -/
theorem cli_call_deadline (dflt : Int) (opts : List (Option Int)) (parent : Deadline) (now : Int) :
    ((CliInst.mk dflt).call opts parent now).1 = cliDeadline dflt opts parent now := by
  simp only [CliInst.call, cliDeadline, cliWraps, getTimeoutFromCallOptions_eq]
  by_cases h : cliTimeout dflt opts ≤ 0
  · have : ¬ cliTimeout dflt opts > 0 := by omega
    simp [h, this]
  · have : cliTimeout dflt opts > 0 := by omega
    simp [h, this]

/-- **Sequences, server.**  For every configuration and EVERY sequence of calls through one interceptor closure, the
k-th handler's context has a deadline ≤ now_k + (timeout of the k-th call's own method, else the default) and ≤ the k-th
caller's deadline — whatever was called before. -/
theorem srv_every_call_own_deadline (dflt : Int) (mts : List (Nat × Int)) (calls : List Call) :
    (SrvInst.new dflt mts).run calls = calls.map (fun c => srvDeadline dflt mts c.method c.parent c.now) ∧
    ∀ (k : Nat) (c : Call), calls[k]? = some c →
      ∃ d, ((SrvInst.new dflt mts).run calls)[k]? = some (some d) ∧
        d ≤ c.now + srvTimeout dflt mts c.method ∧ NoLaterThan (some d) c.parent := by
  have hrun : (SrvInst.new dflt mts).run calls = calls.map (fun c => srvDeadline dflt mts c.method c.parent c.now) := by
    rw [SrvInst.run_eq]
    apply List.map_congr_left
    intro c _
    exact srv_call_deadline dflt mts c.method c.parent c.now
  refine ⟨hrun, ?_⟩
  intro k c hk
  obtain ⟨d, hd, h1, h2⟩ := deadline_only_shrinks_srv dflt mts c.method c.parent c.now
  refine ⟨d, ?_, h1, h2⟩
  rw [hrun, List.getElem?_map, hk]
  simp [hd]

/-- **Sequences, client.**  For every default and EVERY sequence of calls through one client interceptor closure, the
k-th invoker's context is: with an effective timeout t_k > 0 (first `WithCallTimeout` of THAT call, else the default) a
deadline ≤ now_k + t_k and ≤ the caller's; with t_k ≤ 0 the caller's context itself. -/
theorem cli_every_call_own_deadline (dflt : Int) (calls : List Call) :
    (CliInst.mk dflt).run calls = calls.map (fun c => cliDeadline dflt c.opts c.parent c.now) ∧
    ∀ (k : Nat) (c : Call), calls[k]? = some c →
      (0 < cliTimeout dflt c.opts →
        ∃ d, ((CliInst.mk dflt).run calls)[k]? = some (some d) ∧
          d ≤ c.now + cliTimeout dflt c.opts ∧ NoLaterThan (some d) c.parent) ∧
      (cliTimeout dflt c.opts ≤ 0 → ((CliInst.mk dflt).run calls)[k]? = some c.parent) := by
  have hrun : (CliInst.mk dflt).run calls = calls.map (fun c => cliDeadline dflt c.opts c.parent c.now) := by
    rw [CliInst.run_eq]
    apply List.map_congr_left
    intro c _
    exact cli_call_deadline dflt c.opts c.parent c.now
  refine ⟨hrun, ?_⟩
  intro k c hk
  have hlaw := deadline_only_shrinks_cli dflt c.opts c.parent c.now
  constructor
  · intro ht
    obtain ⟨d, hd, h1, h2⟩ := hlaw.1 (hlaw.2.2.mpr ht)
    refine ⟨d, ?_, h1, h2⟩
    rw [hrun, List.getElem?_map, hk]
    simp [hd]
  · intro ht
    have hw : cliWraps dflt c.opts = false := by
      cases hc : cliWraps dflt c.opts with
      | false => rfl
      | true => have := hlaw.2.2.mp hc; omega
    rw [hrun, List.getElem?_map, hk]
    simp [hlaw.2.1 hw]

/-- **zRPC server, end to end** (RpcServerConf → setupUnaryInterceptors → UnaryTimeoutInterceptor closure → calls): with
`Timeout > 0` every call of every sequence runs under min(caller's, now + (its method's entry, else Timeout ms)); with
`Timeout ≤ 0` no interceptor is installed and every handler gets its caller's context. -/
theorem zrpc_server_deadline_clause (confMs : Int) (mts : List (Nat × Int)) (calls : List Call) :
    (0 < confMs → ∀ (k : Nat) (c : Call), calls[k]? = some c →
      ∃ d, ((SrvInst.new (confMs * 1000000) mts).run calls)[k]? = some (some d) ∧
        srvWiredDeadline confMs mts c.method c.parent c.now = some d ∧
        d ≤ c.now + srvTimeout (confMs * 1000000) mts c.method ∧ NoLaterThan (some d) c.parent) ∧
    (confMs ≤ 0 → ∀ c : Call, srvWiredDeadline confMs mts c.method c.parent c.now = c.parent) := by
  constructor
  · intro hpos k c hk
    obtain ⟨d, hd, h1, h2⟩ := (srv_every_call_own_deadline (confMs * 1000000) mts calls).2 k c hk
    refine ⟨d, hd, ?_, h1, h2⟩
    have hrun := (srv_every_call_own_deadline (confMs * 1000000) mts calls).1
    rw [hrun, List.getElem?_map, hk] at hd
    simp at hd
    simp [srvWiredDeadline, hpos, hd]
  · intro h c
    exact (deadline_only_shrinks_srv_wired confMs mts c.method c.parent c.now).2 h

/-- **zRPC client, end to end** (RpcClientConf / WithTimeout options → buildDialOptions → TimeoutInterceptor closure →
calls with their own `WithCallTimeout`): the closure built from the configuration serves every sequence of calls with
`cliWiredDeadline`, i.e. (theorem `deadline_only_shrinks_cli_wired`) min(caller's, now + effective timeout) or the
caller's context. -/
theorem zrpc_client_deadline_clause (confMs : Int) (userTimeouts : List Int) (calls : List Call) :
    (CliInst.mk (cliConfTimeout confMs userTimeouts)).run calls =
      calls.map (fun c => cliWiredDeadline true confMs userTimeouts c.opts c.parent c.now) ∧
    ∀ c ∈ calls,
      let t := cliTimeout (cliConfTimeout confMs userTimeouts) c.opts
      (0 < t → ∃ d, cliWiredDeadline true confMs userTimeouts c.opts c.parent c.now = some d ∧ d ≤ c.now + t ∧
          NoLaterThan (some d) c.parent) ∧
      (t ≤ 0 → cliWiredDeadline true confMs userTimeouts c.opts c.parent c.now = c.parent) := by
  constructor
  · rw [(cli_every_call_own_deadline _ calls).1]
    apply List.map_congr_left
    intro c _
    simp [cliWiredDeadline]
  · intro c _
    have h := deadline_only_shrinks_cli_wired true confMs userTimeouts c.opts c.parent c.now
    exact ⟨fun ht => h.1 ⟨rfl, ht⟩, fun ht => h.2 (Or.inr ht)⟩

/-- fx.DoWithTimeout with the option loop of the source: deadline ≤ now + timeout and ≤ the LAST option's -/
theorem fx_deadline_clause (timeout : Int) (opts : List Deadline) (now : Int) :
    ∃ d, withTimeout (fxParentLoop opts) now timeout = some d ∧ d ≤ now + timeout ∧
      NoLaterThan (some d) (fxParent opts) := by
  rw [fx_parent_is_last_option]
  exact deadline_only_shrinks_fx timeout opts now

/-- **Clause 1 of the property for the four wrappers**: whenever a wrapper wraps (REST: duration > 0 and the request not
exempt; zRPC server: always; zRPC client: effective timeout > 0; fx: always) the work's context has a deadline that is
≤ now + timeout and ≤ the caller's; whenever it does not, the work gets the caller's context unchanged. -/
theorem deadline_clause_all_wrappers (parent : Deadline) (now : Int) :
    (∀ duration h, restWraps duration h = true →
      ∃ d, restDeadline duration h parent now = some d ∧ d ≤ now + duration ∧ NoLaterThan (some d) parent) ∧
    (∀ duration h, restWraps duration h = false → restDeadline duration h parent now = parent) ∧
    (∀ dflt mts method, ∃ d, ((SrvInst.new dflt mts).call method parent now).1 = some d ∧
      d ≤ now + srvTimeout dflt mts method ∧ NoLaterThan (some d) parent) ∧
    (∀ dflt opts, 0 < cliTimeout dflt opts →
      ∃ d, ((CliInst.mk dflt).call opts parent now).1 = some d ∧ d ≤ now + cliTimeout dflt opts ∧
        NoLaterThan (some d) parent) ∧
    (∀ dflt opts, cliTimeout dflt opts ≤ 0 → ((CliInst.mk dflt).call opts parent now).1 = parent) ∧
    (∀ timeout opts, fxParent opts = parent →
      ∃ d, withTimeout (fxParentLoop opts) now timeout = some d ∧ d ≤ now + timeout ∧ NoLaterThan (some d) parent) := by
  refine ⟨?_, ?_, ?_, ?_, ?_, ?_⟩
  · intro duration h hw; exact (deadline_only_shrinks_rest duration h parent now).1 hw
  · intro duration h hw; exact (deadline_only_shrinks_rest duration h parent now).2.1 hw
  · intro dflt mts method
    rw [srv_call_deadline]
    exact deadline_only_shrinks_srv dflt mts method parent now
  · intro dflt opts ht
    rw [cli_call_deadline]
    have h := deadline_only_shrinks_cli dflt opts parent now
    exact h.1 (h.2.2.mpr ht)
  · intro dflt opts ht
    rw [cli_call_deadline]
    have h := deadline_only_shrinks_cli dflt opts parent now
    have hw : cliWraps dflt opts = false := by
      cases hc : cliWraps dflt opts with
      | false => rfl
      | true => have := h.2.2.mp hc; omega
    exact h.2.1 hw
  · intro timeout opts hp
    have := fx_deadline_clause timeout opts now
    rw [hp] at this
    exact this

/-! ### non-vacuity -/

/-- a call of method 1 (own timeout 120 s), then one of method 3 (no entry: default 2 s) through the SAME closure: the second
runs under the default, not under the first call's timeout; then the empty method name and a caller with an earlier deadline -/
example : (SrvInst.new 2000 [(1, 120000), (0, 7), (2, 240000), (1, 180000)]).run
    [{ method := 1, parent := none, now := 10 }, { method := 3, parent := none, now := 20 },
     { method := 0, parent := some 500, now := 30 }, { method := 2, parent := some 900000, now := 40 }] =
    [some 180010, some 2020, some 500, some 240040] := by decide

example : (CliInst.mk 60000).run
    [{ method := 1, opts := [none, some 15000], parent := some 20500, now := 10 },
     { method := 1, opts := [], parent := some 20500, now := 20 },
     { method := 1, opts := [some 0, some 15000], parent := some 20500, now := 30 },
     { method := 1, opts := [some (-5)], parent := none, now := 40 }] =
    [some 15010, some 20500, some 20500, none] := by decide

example : buildMethodTimeouts [(1, 5), (0, 7), (2, 9), (1, 6)] = [(2, 9), (1, 6)] := by decide
example : fxParentLoop [some 3, none, some 9] = some 9 ∧ fxParentLoop [] = none := by decide

end GoZero.C04.Props
