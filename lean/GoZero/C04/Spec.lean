/-
C04 — abstract specification (independent of the transition system of `Model.lean`) and the executable
monitor evaluated on the implementation's observations.

"The caller observes either the work's complete result (status, headers, whole body) or the timeout
result (503/499 + `Request Timeout`), never a mixture, and nothing the work writes after the timeout
reaches the client."
-/
import GoZero.C04.Model
namespace GoZero.C04
namespace Spec

/-- the property's timeout of a route: its own (`WithTimeout`) if positive, else the global one (ms → ns) -/
def routeTimeout (own globalMs : Int) : Int := if own > 0 then own else globalMs * 1000000

/-- what a client sees -/
structure View where
  code : Nat
  hdrs : List (Nat × Nat)     -- sorted by key, one entry per key
  body : List Nat
  deriving Repr, DecidableEq

/-- the handler's script runs to its end on its own (no panic, no invalid status) -/
def completes : List Act → Bool → Bool
  | [], _ => true
  | .panic _ :: _, _ => false
  | .writeHeader c :: rest, wrote => (wrote || validCode c) && completes rest true
  | .write _ :: rest, _ => completes rest true
  | _ :: rest, wrote => completes rest wrote

/-- status of the complete result: the first `WriteHeader(c)`, or 200 if a `Write` comes first / nothing is written -/
def status : List Act → Nat
  | [] => 200
  | .writeHeader c :: _ => c
  | .write _ :: _ => 200
  | _ :: rest => status rest

/-- value of header `k` in the complete result: the last `Header().Set(k, v)` of the script -/
def header (script : List Act) (k : Nat) : Option Nat :=
  script.foldl (fun acc a => match a with
    | .setHeader k' v => if k' = k then some v else acc
    | _ => acc) none

/-- body of the complete result: all chunks in order -/
def body : List Act → List Nat
  | [] => []
  | .write b :: rest => b ++ body rest
  | _ :: rest => body rest

def keysOf (script : List Act) : List Nat :=
  script.filterMap fun a => match a with | .setHeader k _ => some k | _ => none

def insertKey (x : Nat) : List Nat → List Nat
  | [] => [x]
  | y :: ys => if x < y then x :: y :: ys else if x = y then y :: ys else y :: insertKey x ys

def sortedKeys (l : List Nat) : List Nat := l.foldr insertKey []

/-- the work's complete result -/
def complete (script : List Act) : View :=
  { code := status script,
    hdrs := (sortedKeys (keysOf script)).filterMap (fun k => (header script k).map (fun v => (k, v))),
    body := body script }

/-- the timeout result -/
def timeout (reason : List Nat) (k : Kind) : View := { code := statusOf k, hdrs := [], body := reason }

/-- nothing written at all (the panic is re-raised) -/
def untouched : View := { code := 200, hdrs := [], body := [] }

/-- a header map as the client sees it: one entry per key, sorted by key -/
def canonH (h : Hdrs) : List (Nat × Nat) :=
  (sortedKeys (h.map (·.1))).filterMap (fun k => (hget h k).map (fun v => (k, v)))

/-- canonical view of a model writer -/
def ofRec (r : Rec) : View :=
  { code := r.code, hdrs := canonH (r.snap.getD r.hdr), body := r.body }

/-- first panic the script runs into on its own (value), if any -/
def firstPanic : List Act → Bool → Option Nat
  | [], _ => none
  | .panic v :: _, _ => some v
  | .writeHeader c :: rest, wrote =>
    if !wrote && !validCode c then some (invalidCodePanic c) else firstPanic rest true
  | .write _ :: rest, _ => firstPanic rest true
  | _ :: rest, wrote => firstPanic rest wrote

def hasFlush (script : List Act) : Bool := script.any (fun a => a == .flush)

/-! ### scripts with `Flush` (streaming): what the work has handed to the client so far

`Flush` sends what the work has produced up to now: the status (the first `WriteHeader`, else 200) and the headers
are fixed by the first `Flush`, every `Flush` sends the chunks written since the previous one.  This is what a client
of the *unwrapped* handler sees; the wrapper must be transparent to it. -/

structure Stream where
  sent    : Option (Nat × Hdrs) := none               -- status and header map fixed by the first Flush
  code    : Option Nat := none                         -- first WriteHeader / implicit 200 of the first Write
  hdrs    : Hdrs := []                                 -- the header map as the work has set it (last Set per key)
  flushed : List Nat := []                             -- chunks already with the client
  pending : List Nat := []                             -- chunks written since the last Flush
  deriving Repr, DecidableEq

def Stream.step (st : Stream) : Act → Stream
  | .setHeader k v => { st with hdrs := hset st.hdrs k v }
  | .writeHeader c => if st.code.isNone then { st with code := some c } else st
  | .write b => { st with code := some (st.code.getD 200), pending := st.pending ++ b }
  | .flush => { st with sent := some (st.sent.getD (st.code.getD 200, st.hdrs)),
                        flushed := st.flushed ++ st.pending, pending := [] }
  | .panic _ => st

def stream (script : List Act) : Stream := script.foldl Stream.step {}

/-- the work's complete result, streaming included (for a script without `Flush` this is `complete`) -/
def completeF (script : List Act) : View :=
  let st := stream script
  match st.sent with
  | some (c, h) => { code := c, hdrs := canonH h, body := st.flushed ++ st.pending }
  | none => { code := st.code.getD 200, hdrs := canonH st.hdrs, body := st.pending }

/-- what is already with the client after the first `i` actions (`none`: nothing was flushed) -/
def streamedPrefix (script : List Act) (i : Nat) : Option View :=
  let st := stream (script.take i)
  st.sent.map fun p => { code := p.1, hdrs := canonH p.2, body := st.flushed }

/-- how ServeHTTP came back, as observed by the harness -/
inductive SRet where
  | done | panic (v : Nat) | blocked | stuck
  deriving Repr, DecidableEq

/-- one observed request through the *wrapped* path (duration > 0, not exempt) -/
structure Obs where
  script  : List Act
  kind    : Option Kind      -- the expiry the harness fired (none: never)
  firedLo : Nat              -- the expiry came after at least / at most that many handler steps
  firedHi : Nat
  gated   : Bool             -- the expiry was placed exactly (firedLo = firedHi)
  sret    : SRet
  atRet   : View             -- client view when ServeHTTP returned
  final   : View             -- client view after the handler finished everything
  results : List Res         -- handler-visible results of its actions (prefix of the script)
  deriving Repr

/-- results of `Write`s from position `i` on are all ErrHandlerTimeout -/
def writesFailFrom (script : List Act) (results : List Res) (i : Nat) : Bool :=
  ((script.zip results).drop i).all fun p => match p.1, p.2 with
    | .write _, .errTimeout => true
    | .write _, _ => false
    | _, _ => true

/-- once a `Write` failed with ErrHandlerTimeout every later one fails -/
def writesMonotone (script : List Act) (results : List Res) : Bool :=
  match (script.zip results).findIdx? (fun p => p.2 == .errTimeout) with
  | some i => writesFailFrom script results i
  | none => true

def positions (o : Obs) : List Nat := (List.range (o.firedHi + 1)).filter (fun i => o.firedLo ≤ i)

/-- ignoring the status (the pinned `Flush` sends 200 whatever the work has set) -/
def sameButStatus (a b : View) : Bool := a.hdrs == b.hdrs && a.body == b.body && a.code != b.code && a.code == 200

def knownStreamed : String := "[known-class flush-streamed-then-timeout] the work had flushed part of its response before the deadline; the timeout reason follows it (inherent to streaming)"
def knownStatus : String := "[known-class flush-drops-status] Flush sent status 200 instead of the status the work had set"
def knownLate : String := "[known-class flush-after-timeout] a Flush after the timeout sent bytes the work had buffered before it behind the timeout response"

/-- The property, on one observed request.  Returns the list of violated clauses (empty = holds).  Messages that
start with `[known-class …]` are the recorded findings about `Flush`. -/
def check (reason : List Nat) (o : Obs) : List String :=
  let c := completeF o.script
  let comp := completes o.script false
  let okComplete := comp && o.atRet = c
  let okCompleteButStatus := comp && hasFlush o.script && sameButStatus o.atRet c
  let pos := positions o
  -- the pure timeout result: nothing had been flushed when the deadline came
  let isTimeout := match o.kind with
    | some k => o.atRet = timeout reason k && pos.any (fun i => (streamedPrefix o.script i).isNone)
    | none => false
  -- streamed prefix + reason
  let mixAt (i : Nat) : Option View := (streamedPrefix o.script i).map fun v => { v with body := v.body ++ reason }
  let isStreamMix := o.kind.isSome && pos.any (fun i => mixAt i == some o.atRet)
  let isStreamMixButStatus := o.kind.isSome && pos.any (fun i => match mixAt i with
    | some v => sameButStatus o.atRet v
    | none => false)
  let tookTimeout := isTimeout || isStreamMix || isStreamMixButStatus
  let e1 := match o.sret with
    | .stuck => ["wrapper did not return at the deadline while the work ignored it"]
    | .blocked => ["wrapper did not return"]
    | .panic v =>
      -- nothing but what the work itself had flushed may be with the client
      let flushedOnly := (List.range (o.script.length + 1)).any fun i =>
        match streamedPrefix o.script i with
        | some p => o.atRet = p || sameButStatus o.atRet p
        | none => false
      (if o.atRet = untouched || flushedOnly then [] else ["panic re-raised after something reached the client"]) ++
      (if firstPanic o.script false = some v then [] else ["re-raised panic is not the work's panic"])
    | .done =>
      if okComplete || isTimeout then []
      else if isStreamMix then [knownStreamed]
      else if okCompleteButStatus then [knownStatus]
      else if isStreamMixButStatus then [knownStreamed, knownStatus]
      else ["response is neither the work's complete result nor the timeout result (mixture)"]
  let e2 :=
    if o.final = o.atRet then []
    else if hasFlush o.script && tookTimeout && o.final.code = o.atRet.code && o.final.hdrs = o.atRet.hdrs
            && o.atRet.body.isPrefixOf o.final.body then [knownLate]
    else ["the response changed after the wrapper returned (late write reached the client)"]
  let e3 :=
    if tookTimeout && !okComplete then
      (if o.gated then (if writesFailFrom o.script o.results o.firedHi then [] else ["a Write after the timeout did not return ErrHandlerTimeout"])
        else []) ++
      (if writesMonotone o.script o.results then [] else ["a Write succeeded after an earlier one had failed with ErrHandlerTimeout"])
    else if okComplete && !tookTimeout then
      (if o.results.all (fun r => r == .ok) then [] else ["complete result although a Write was refused"])
    else []
  let e4 := match o.kind, o.sret with
    | none, .done => if okComplete || okCompleteButStatus then [] else ["no expiry but not the complete result"]
    | _, _ => []
  e1 ++ e2 ++ e3 ++ e4

/-- The outcome law of the zRPC server interceptor / fx.DoWithTimeout on one observed call. -/
def checkSel (work : Work) (fired : Option Kind) (out : Outcome) : List String :=
  match out with
  | .result r e =>
    (match work with
      | .ret r' e' => if r = r' ∧ e = e' then [] else ["result is not the work's (resp, err)"]
      | _ => ["a result although the work did not return"])
  | .timeout k => if fired = some k then [] else ["timeout result without / with another expiry"]
  | .panic v =>
    (match work with
      | .panic v' => if v = v' then [] else ["re-raised panic is not the work's panic"]
      | _ => ["panic although the work did not panic"])

/-- fx.DoWithTimeout under real deadlines (ms, harness clock now = 0): the call must end by itself iff the timeout or the
deadline of the LAST `WithContext` option (the caller's context) is at most 3 ms away -/
def fxFires (timeoutMs : Int) (parents : List (Option Int)) : Bool :=
  decide (timeoutMs ≤ 3) || (match parents.getLast? with | some (some p) => decide (p ≤ 3) | _ => false)

/-- the property's per-call timeout of the zRPC client: the first `WithCallTimeout` among the options, else the default -/
def callTimeout (dflt : Int) : List (Option Int) → Int
  | [] => dflt
  | some t :: _ => t
  | none :: rest => callTimeout dflt rest

/-- the property's timeout of a zRPC client call from the CONFIGURATION: the first `WithCallTimeout` of the call, else the
last `zrpc.WithTimeout` client option, else `RpcClientConf.Timeout` (ms) if positive, else none (0) -/
def clientTimeout (confMs : Int) (userTimeouts : List Int) (callOpts : List (Option Int)) : Int :=
  callTimeout (match userTimeouts.getLast? with
    | some u => u
    | none => if confMs > 0 then confMs * 1000000 else 0) callOpts

end Spec
end GoZero.C04
