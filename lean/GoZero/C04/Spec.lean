/-
C04 — abstract specification (independent of the transition system of `Model.lean`) and the executable
monitor evaluated on the implementation's observations.

"The caller observes either the work's complete result (status, headers, whole body) or the timeout
result (503/499 + `Request Timeout`), never a mixture, and nothing the work writes after the timeout
reaches the client."
-/
import GoZero.C04.Model
namespace GoZero.C04
namespace Spec

/-- the property's timeout of a route: its own (`WithTimeout`) if positive, else the global one (ms → ns) -/
def routeTimeout (own globalMs : Int) : Int := if own > 0 then own else globalMs * 1000000

/-- what a client sees -/
structure View where
  code : Nat
  hdrs : List (Nat × Nat)     -- sorted by key, one entry per key
  body : List Nat
  deriving Repr, DecidableEq

/-- the handler's script runs to its end on its own (no panic, no invalid status) -/
def completes : List Act → Bool → Bool
  | [], _ => true
  | .panic _ :: _, _ => false
  | .writeHeader c :: rest, wrote => (wrote || validCode c) && completes rest true
  | .write _ :: rest, _ => completes rest true
  | _ :: rest, wrote => completes rest wrote

/-- status of the complete result: the first `WriteHeader(c)`, or 200 if a `Write` comes first / nothing is written -/
def status : List Act → Nat
  | [] => 200
  | .writeHeader c :: _ => c
  | .write _ :: _ => 200
  | _ :: rest => status rest

/-- value of header `k` in the complete result: the last `Header().Set(k, v)` of the script -/
def header (script : List Act) (k : Nat) : Option Nat :=
  script.foldl (fun acc a => match a with
    | .setHeader k' v => if k' = k then some v else acc
    | _ => acc) none

/-- body of the complete result: all chunks in order -/
def body : List Act → List Nat
  | [] => []
  | .write b :: rest => b ++ body rest
  | _ :: rest => body rest

def keysOf (script : List Act) : List Nat :=
  script.filterMap fun a => match a with | .setHeader k _ => some k | _ => none

def insertKey (x : Nat) : List Nat → List Nat
  | [] => [x]
  | y :: ys => if x < y then x :: y :: ys else if x = y then y :: ys else y :: insertKey x ys

def sortedKeys (l : List Nat) : List Nat := l.foldr insertKey []

/-- the work's complete result -/
def complete (script : List Act) : View :=
  { code := status script,
    hdrs := (sortedKeys (keysOf script)).filterMap (fun k => (header script k).map (fun v => (k, v))),
    body := body script }

/-- the timeout result -/
def timeout (reason : List Nat) (k : Kind) : View := { code := statusOf k, hdrs := [], body := reason }

/-- nothing written at all (the panic is re-raised) -/
def untouched : View := { code := 200, hdrs := [], body := [] }

/-- canonical view of a model writer -/
def ofRec (r : Rec) : View :=
  let h := r.snap.getD r.hdr
  { code := r.code,
    hdrs := (sortedKeys (h.map (·.1))).filterMap (fun k => (hget h k).map (fun v => (k, v))),
    body := r.body }

/-- first panic the script runs into on its own (value), if any -/
def firstPanic : List Act → Bool → Option Nat
  | [], _ => none
  | .panic v :: _, _ => some v
  | .writeHeader c :: rest, wrote =>
    if !wrote && !validCode c then some (invalidCodePanic c) else firstPanic rest true
  | .write _ :: rest, _ => firstPanic rest true
  | _ :: rest, wrote => firstPanic rest wrote

def hasFlush (script : List Act) : Bool := script.any (fun a => a == .flush)

/-- how ServeHTTP came back, as observed by the harness -/
inductive SRet where
  | done | panic (v : Nat) | blocked | stuck
  deriving Repr, DecidableEq

/-- one observed request through the *wrapped* path (duration > 0, not exempt, no Flush in the script) -/
structure Obs where
  script  : List Act
  kind    : Option Kind      -- the expiry the harness fired (none: never)
  firedAt : Option Nat       -- number of handler steps released before the expiry (gated runs)
  sret    : SRet
  atRet   : View             -- client view when ServeHTTP returned
  final   : View             -- client view after the handler finished everything
  results : List Res         -- handler-visible results of its actions (prefix of the script)
  deriving Repr

/-- results of `Write`s from position `i` on are all ErrHandlerTimeout -/
def writesFailFrom (script : List Act) (results : List Res) (i : Nat) : Bool :=
  ((script.zip results).drop i).all fun p => match p.1, p.2 with
    | .write _, .errTimeout => true
    | .write _, _ => false
    | _, _ => true

/-- once a `Write` failed with ErrHandlerTimeout every later one fails -/
def writesMonotone (script : List Act) (results : List Res) : Bool :=
  match (script.zip results).findIdx? (fun p => p.2 == .errTimeout) with
  | some i => writesFailFrom script results i
  | none => true

/-- The property, on one observed request.  Returns the list of violated clauses (empty = holds). -/
def check (reason : List Nat) (o : Obs) : List String :=
  let c := complete o.script
  let okComplete := completes o.script false && o.atRet = c
  let isTimeout := match o.kind with
    | some k => o.atRet = timeout reason k
    | none => false
  let e1 := match o.sret with
    | .stuck => ["wrapper did not return at the deadline while the work ignored it"]
    | .blocked => ["wrapper did not return"]
    | .panic v =>
      (if o.atRet = untouched then [] else ["panic re-raised after something reached the client"]) ++
      (if firstPanic o.script false = some v then [] else ["re-raised panic is not the work's panic"])
    | .done =>
      if okComplete || isTimeout then [] else ["response is neither the work's complete result nor the timeout result (mixture)"]
  let e2 := if o.final = o.atRet then [] else ["the response changed after the wrapper returned (late write reached the client)"]
  let e3 :=
    if isTimeout && !okComplete then
      (match o.firedAt with
        | some i => if writesFailFrom o.script o.results i then [] else ["a Write after the timeout did not return ErrHandlerTimeout"]
        | none => []) ++
      (if writesMonotone o.script o.results then [] else ["a Write succeeded after an earlier one had failed with ErrHandlerTimeout"])
    else if okComplete && !isTimeout then
      (if o.results.all (fun r => r == .ok) then [] else ["complete result although a Write was refused"])
    else []
  let e4 := match o.kind, o.sret with
    | none, .done => if okComplete then [] else ["no expiry but not the complete result"]
    | _, _ => []
  e1 ++ e2 ++ e3 ++ e4

/-- The outcome law of the zRPC server interceptor / fx.DoWithTimeout on one observed call. -/
def checkSel (work : Work) (fired : Option Kind) (out : Outcome) : List String :=
  match out with
  | .result r e =>
    (match work with
      | .ret r' e' => if r = r' ∧ e = e' then [] else ["result is not the work's (resp, err)"]
      | _ => ["a result although the work did not return"])
  | .timeout k => if fired = some k then [] else ["timeout result without / with another expiry"]
  | .panic v =>
    (match work with
      | .panic v' => if v = v' then [] else ["re-raised panic is not the work's panic"]
      | _ => ["panic although the work did not panic"])

end Spec
end GoZero.C04
