/-
C04 — driver: replays the implementation's trace through the model (correspondence) and evaluates the
property monitor `Spec.check` / `Spec.checkSel` on the implementation's own observations.

Line formats: see harness/overlay/rest/handler/zz_verif_c04_test.go (rest / race / dl) and the
zrpc / fx harnesses (sel / dl lines).
-/
import GoZero.Base.Trace
import GoZero.C04.Spec
namespace GoZero.C04

open GoZero

/-- `reason` of rest/handler/timeouthandler.go (tied in Tie.lean) -/
def reason : String := "Request Timeout"

def bytesOf (s : String) : List Nat := s.toList.map Char.toNat
def reasonBytes : List Nat := bytesOf reason

/-! ### parsing -/

def parseAct (t : String) : Option Act :=
  match t.splitOn ":" with
  | ["h", k, v] => do pure (.setHeader (← k.toNat?) (← v.toNat?))
  | ["c", c] => do pure (.writeHeader (← c.toNat?))
  | ["w", b] => some (.write (bytesOf b))
  | ["f"] => some .flush
  | ["p", v] => do pure (.panic (← v.toNat?))
  | _ => none

def parseActs (ts : List String) : Option (List Act) := ts.mapM parseAct

def parseKind : String → Option (Option Kind)
  | "none" => some none
  | "deadline" => some (some .deadline)
  | "timer" => some (some .deadline)
  | "cancel" => some (some .canceled)
  | _ => none

def parseHdr : String → Option ReqHdr
  | "plain" => some ⟨false, false⟩
  | "ws" => some ⟨true, false⟩
  | "sse" => some ⟨false, true⟩
  | "both" => some ⟨true, true⟩
  | "wsx" => some ⟨false, false⟩     -- `Upgrade: WebSocket` ≠ "websocket"
  | "ssex" => some ⟨false, false⟩    -- `Accept: text/event-stream, text/html` ≠ "text/event-stream"
  | _ => none

def parseDur : String → Option Int
  | "pos" => some 3600000000000
  | "zero" => some 0
  | "neg" => some (-1000000000)
  | _ => none

/-! ### printing (same canonical form as the harness) -/

def showBody (b : List Nat) : String :=
  if b.isEmpty then "-" else String.ofList (b.map fun n => if n = 32 then '_' else Char.ofNat n)

def showHdrs (h : List (Nat × Nat)) : String :=
  if h.isEmpty then "-" else ";".intercalate (h.map fun p => s!"{p.1}:{p.2}")

def showView (v : Spec.View) : String := s!"{v.code}/{showHdrs v.hdrs}/{showBody v.body}"

def showRes : Res → String
  | .ok => "ok"
  | .errTimeout => "err"
  | .panicked v => s!"p{v}"

def showResults (log : List Res) (returned : Bool) : String :=
  ",".intercalate (log.map showRes ++ (if returned then ["ret"] else []))

def parseView (s : String) : Option Spec.View :=
  match s.splitOn "/" with
  | [c, h, b] => do
    let code ← c.toNat?
    let hdrs ← if h = "-" then some [] else
      (h.splitOn ";").mapM fun kv => match kv.splitOn ":" with
        | [k, v] => do pure ((← k.toNat?), (← v.toNat?))
        | _ => none
    let body := if b = "-" then [] else b.toList.map fun ch => if ch = '_' then 32 else ch.toNat
    pure { code := code, hdrs := hdrs, body := body }
  | _ => none

def parseRes (s : String) : Option Res :=
  if s = "ok" then some .ok
  else if s = "err" then some .errTimeout
  else if s.startsWith "p" then (s.drop 1).toNat?.map .panicked
  else none

/-- results token → (results of actions, handler returned) -/
def parseResults (s : String) : Option (List Res × Bool) :=
  let toks := (s.splitOn ",").filter (· ≠ "")
  let ret := toks.getLast? = some "ret"
  let toks := if ret || toks.getLast? = some "gx" then toks.dropLast else toks
  (toks.mapM parseRes).map (·, ret)

def parseSRet (s : String) : Option Spec.SRet :=
  if s = "done" then some .done
  else if s = "blocked" then some .blocked
  else if s = "stuck" then some .stuck
  else if s.startsWith "panic:" then (s.drop 6).toNat?.map .panic
  else none

/-! ### the harness's schedules, run on the model -/

def iter (n : Nat) (f : α → α) (a : α) : α := Nat.rec a (fun _ x => f x) n

/-- handler steps while it is running, at most `n` (`pinned`: the `Flush` of the code before the fix) -/
def hsteps (n : Nat) (s : St) (pinned : Bool := false) : St :=
  iter n (fun s => if s.hst = .running then
    ((if pinned then stepPinned reasonBytes s .h else hstep s)).getD s else s) s

/-- handler steps of a handler whose goroutine ends by `runtime.Goexit` after its script: it performs its actions but never
takes the return step (`close(done)` is not reached, nothing is sent on `panicChan`) -/
def hstepsStall (n : Nat) (s : St) (pinned : Bool := false) : St :=
  iter n (fun s => if s.hst = .running && decide (s.hpc < s.script.length) then
    ((if pinned then stepPinned reasonBytes s .h else hstep s)).getD s else s) s

def stepD (s : St) (l : Label) : St := (step reasonBytes s l).getD s

structure RestOut where
  sret : String
  atRet : Rec
  final : Rec
  log : List Res
  returned : Bool
  fin : String := "same"
  branch : String := ""
  pinned : Bool := false
  goexit : Bool := false

def RestOut.render (o : RestOut) (withFin : Bool) : String :=
  s!"sret={o.sret} atret={showView (Spec.ofRec o.atRet)} results={showResults o.log o.returned}{if o.goexit then (if o.log.isEmpty then "gx" else ",gx") else ""} final={showView (Spec.ofRec o.final)}"
    ++ (if withFin then s!" fin={o.fin} leak=0" else "")

/-- wrapped path: `j` handler steps, then (if the handler is still running) the expiry and the timeout
branch, else the done / panic branch; then the rest of the handler. -/
def simWrapped (script : List Act) (kind : Option Kind) (j : Nat) (pinned : Bool := false) (stall : Bool := false) : RestOut :=
  let s0 := St.init script
  let n := script.length + 1
  let hs : Nat → St → Bool → St := fun n s p => if stall then hstepsStall n s p else hsteps n s p
  let s1 := hs (match kind with | none => n | some _ => j) s0 pinned
  let s2 : St × String × String :=
    match s1.hst with
    | .running =>
      match kind with
      | some k =>
        let s := stepD (stepD (stepD (stepD (stepD s1 (.env k)) .mTimeout) .mAdv) .mAdv) .mAdv
        (s, "done", "timeout-branch")
      | none => (s1, "stuck", "impossible")
    | .finished =>
      let s := stepD s1 .mDone
      let s := match kind with | some k => stepD s (.env k) | none => s
      (s, "done", "done-branch")
    | .panicked =>
      let s := stepD s1 .mPanic
      let s := match kind with | some k => stepD s (.env k) | none => s
      (s, (match s.pc with | .panicked v => s!"panic:{v}" | _ => "?"), "panic-branch")
  let s3 := hs n s2.1 pinned
  { sret := s2.2.1, atRet := s2.1.w, final := s3.w, log := s3.log, returned := s3.hst = .finished, branch := s2.2.2,
    pinned := pinned, goexit := stall && s3.hst = .running }

/-- unwrapped path (exempt request or duration ≤ 0): the handler runs on ServeHTTP's goroutine, straight on
the real writer; the expiry has no effect. -/
def simDirect (script : List Act) (kind : Option Kind) (j : Nat) : RestOut :=
  let run (w : Rec × List Res × Bool) (acts : List Act) : Rec × List Res × Bool :=
    acts.foldl (fun (st : Rec × List Res × Bool) a =>
      if st.2.2 then st else
        let r := directStep st.1 a
        (r.1, st.2.1 ++ [r.2], match r.2 with | .panicked _ => true | _ => false)) w
  let j := match kind with | none => script.length + 1 | some _ => j
  let a := run (Rec.init, [], false) (script.take j)
  let endedEarly := a.2.2 || j > script.length
  let b := run a (script.drop j)
  let pan := match b.2.1.getLast? with | some (.panicked v) => some v | _ => none
  let how := match pan with | some v => s!"panic:{v}" | none => "done"
  { sret := if endedEarly then how else "blocked", atRet := a.1, final := b.1, log := b.2.1,
    returned := pan.isNone, fin := if endedEarly then "same" else how, branch := "direct" }

def simRest (script : List Act) (kind : Option Kind) (j : Nat) (hdr : ReqHdr) (dur : Int) (pinned : Bool := false) (stall : Bool := false) : RestOut :=
  if restWraps dur hdr then simWrapped script kind j pinned stall else simDirect script kind j

/-! ### deadlines -/

/-- class of the deadline the work sees (harness clock: now = 0, offsets in ms) -/
def dlClass (parent : Deadline) (d : Deadline) : String :=
  match d with
  | none => "none"
  | some x => if parent = some x then "parent" else "window"

def parseParent (s : String) : Option Deadline :=
  if s = "none" then some none else s.toInt?.map some

/-! ### sections -/

def obsOf (l : Line) (k : String) : String := kvStr l.obs k "?"

/-- `eng`: the engine of the section for `erest` lines (duration of the route's middleware from the engine model) -/
def runRestLine (r : Report) (sec : Nat) (l0 : Line) (gated : Bool) (eng : Option Eng := none) : Report := Id.run do
  let mut r := r
  -- `g`: the handler's goroutine ends by runtime.Goexit there; the model's handler performs the actions before it and stalls
  let goexit := l0.op.contains "g"
  let l : Line := { l0 with op := l0.op.takeWhile (· ≠ "g") }
  let parsed : Option (Option Kind × Nat × ReqHdr × Int × List Act × Bool) :=
    match eng with
    | some e =>
      match l.op with
      | _ :: g :: kind :: k :: hdr :: acts => do
        pure ((← parseKind kind), (← k.toNat?), (← parseHdr hdr), (← e.duration (← g.toNat?)), (← parseActs acts), kind = "timer")
      | _ => none
    | none =>
    if gated then
      match l.op with
      | _ :: kind :: k :: hdr :: dur :: acts => do
        pure ((← parseKind kind), (← k.toNat?), (← parseHdr hdr), (← parseDur dur), (← parseActs acts), kind = "timer")
      | _ => none
    else
      match l.op with
      | _ :: kind :: _spin :: acts => do
        pure ((← parseKind kind), 0, ⟨false, false⟩, 3600000000000, (← parseActs acts), false)
      | _ => none
  match parsed with
  | none => return r.mismatch sec l.idx "bad-op" (joinSp l.op)
  | some (kind, k, hdr, dur, script, timer) =>
    let impl := joinSp l.obs
    let wrapped := restWraps dur hdr
    let n := script.length + 1
    -- correspondence.  For scripts with `Flush` the model of the pinned `Flush` (before
    -- fixes/C04-flush-after-timeout.patch) is accepted next to the fixed one; which one matched is counted.
    let js : List Nat :=
      if gated && !timer then [k]
      else if gated then (List.range (min k n + 1)).reverse
      else List.range (n + 1)
    let candsOf (pinned : Bool) : List RestOut := js.map (fun j => simRest script kind j hdr dur pinned goexit)
    let cands : List RestOut := candsOf false ++ (if Spec.hasFlush script && wrapped then candsOf true else [])
    let pfx := if eng.isSome then "eng-" else if gated then "rest-" else "race-"
    match cands.find? (fun c => c.render gated = impl) with
    | some c =>
      r := r.addCover (pfx ++ c.branch)
      if goexit then r := r.addCover (pfx ++ "handler-Goexit-" ++ c.branch)
      if c.log.any (fun x => match x with | .panicked v => decide (100 ≤ v ∧ v < 200) | _ => false) then
        r := r.addCover (pfx ++ "panic-with-error-value-" ++ c.branch)
      if timer then r := r.addCover (pfx ++ "real-timer")
      let panicked := c.log.any (fun x => match x with | .panicked _ => true | _ => false)
      if panicked && c.branch = "timeout-branch" then r := r.addCover "panic-after-timeout-branch-swallowed"
      if panicked && c.branch = "panic-branch" then r := r.addCover "panic-before-timeout-reraised"
      if c.log.any (fun x => x == .panicked 999999) then r := r.addCover "panic-ErrAbortHandler"
      if panicked && c.branch = "panic-branch" && kind.isSome then r := r.addCover "panic-then-expiry-harmless"
      if !gated then r := r.addCover s!"race-expiry-at-{((candsOf false).findIdx? (fun c => c.render gated = impl)).getD 0}"
      if Spec.hasFlush script && wrapped then
        let f := (candsOf false).any (fun c => c.render gated = impl)
        let p := (candsOf true).any (fun c => c.render gated = impl)
        if f && !p then r := r.addCover "flush-only-explained-by-fixed-Flush"
        if p && !f then r := r.addCover "flush-only-explained-by-pinned-Flush"
    | none =>
      let m := match cands.head? with | some c => c.render gated | none => "?"
      r := r.mismatch sec l.idx m impl
    if Spec.hasFlush script then r := r.addCover "script-with-flush"
    if (Spec.firstPanic script false).isSome then r := r.addCover "script-panics"
    if !wrapped then r := r.addCover (if dur ≤ 0 then "unwrapped-duration<=0" else "exempt-request")
    -- monitor: the property on the implementation's own observation (wrapped path)
    if wrapped then
      match parseSRet (obsOf l "sret"), parseView (obsOf l "atret"), parseView (obsOf l "final"),
            parseResults (obsOf l "results") with
      | some sret, some atRet, some final, some (results, _) =>
        let o : Spec.Obs := { script := script, kind := kind,
                              firedLo := if gated && !timer then k else 0, firedHi := if gated then k else n,
                              gated := gated && !timer,
                              sret := sret, atRet := atRet, final := final, results := results }
        if goexit && kind.isNone then
          r := r.mismatch sec l.idx "bad-op (a handler that ends by Goexit needs an expiry)" (joinSp l0.op)
        -- a handler whose goroutine ended by Goexit never completed: only the timeout result may reach the client
        if goexit && sret = .done && !Spec.hasFlush script && (match kind with | some k => atRet.code ≠ statusOf k | none => false) then
          r := r.violation sec l.idx s!"the handler's goroutine ended by runtime.Goexit without returning, yet the client got a response that is not the timeout result: op=[{joinSp l0.op}] impl=[{impl}]"
        for e in Spec.check reasonBytes o do
          r := r.violation sec l.idx s!"{e}: op=[{joinSp l0.op}] impl=[{impl}]"
          if e.startsWith "[known-class " then r := r.addCover ("known-" ++ (((e.splitOn "]").headD "").splitOn " ").getLastD "")
        if gated && obsOf l "leak" ≠ "0" then
          r := r.violation sec l.idx s!"a goroutine of the wrapper is left behind after the request and the work have ended (leak): op=[{joinSp l.op}] impl=[{impl}]"
        if atRet = Spec.timeout reasonBytes .deadline then r := r.addCover "saw-503"
        if atRet = Spec.timeout reasonBytes .canceled then r := r.addCover "saw-499"
        if results.any (· == .errTimeout) then r := r.addCover "saw-ErrHandlerTimeout"
        if Spec.hasFlush script && atRet = Spec.completeF script && Spec.completes script false then
          r := r.addCover "flush-complete-streamed-result"
      | _, _, _, _ =>
        r := r.mismatch sec l.idx "parsable-observation" impl
        if (obsOf l "sret").startsWith "panic:" && (parseSRet (obsOf l "sret")).isNone then
          r := r.violation sec l.idx s!"re-raised panic is not the work's panic (the value reaching the caller's goroutine is not the value the handler panicked with): op=[{joinSp l0.op}] impl=[{impl}]"
    else
      -- exempt request (websocket upgrade / event stream) or TimeoutHandler(duration <= 0) = no timeout: nothing may cut it off
      let what := if dur > 0 then "exempt request (websocket/event-stream)" else "TimeoutHandler(duration <= 0) is no timeout at all, but the request"
      let expected := (simRest script kind k hdr dur).sret
      let refused : Bool := match parseResults (obsOf l "results") with
        | some (rs, _) => rs.any (· == .errTimeout)
        | none => true
      if refused then
        r := r.violation sec l.idx s!"{what} had a Write refused with ErrHandlerTimeout: op=[{joinSp l.op}] impl=[{impl}]"
      if expected = "blocked" && obsOf l "sret" ≠ "blocked" then
        r := r.violation sec l.idx s!"{what} was cut off by the timeout: op=[{joinSp l.op}] impl=[{impl}]"
    return r

/-! ### two requests in flight together: `pair <same|own> <kindA> <ka> <kindB> <kb> <la> <actA>* / <actB>*`

The model has no state shared between requests (`mstep`: a step of one request leaves the others alone; Props
`multi_request_independent`), so each half of the line must be explained by the single-request model on its own schedule,
and the property (`Spec.check`) must hold for each half on its own — whatever the other request did in between. -/

def splitAt (sep : String) (l : List String) : List String × List String :=
  (l.takeWhile (· ≠ sep), (l.dropWhile (· ≠ sep)).drop 1)

def runPairHalf (r : Report) (sec : Nat) (l : Line) (who other : String) (pfx : String) (script : List Act) (kind : Option Kind) (k : Nat)
    (lateDuringOther : Bool) : Report := Id.run do
  let mut r := r
  let o (key : String) : String := obsOf l (pfx ++ key)
  let impl := s!"sret={o "sret"} atret={o "atret"} results={o "results"} final={o "final"}"
  let cands : List RestOut := [simWrapped script kind k false] ++ (if Spec.hasFlush script then [simWrapped script kind k true] else [])
  match cands.find? (fun c => c.render false = impl) with
  | some c =>
    r := r.addCover s!"pair-{who}-{c.branch}"
    if lateDuringOther && c.branch = "timeout-branch" then
      r := r.addCover s!"pair-{who}-late-actions-while-{other}-in-flight"
      if (script.drop k).any (fun a => match a with | .write _ => true | _ => false) then
        r := r.addCover s!"pair-{who}-late-Write-while-{other}-in-flight"
      if (script.drop k).any (fun a => match a with | .setHeader _ _ => true | .writeHeader _ => true | _ => false) then
        r := r.addCover s!"pair-{who}-late-header-or-status-while-{other}-in-flight"
      if (script.drop k).any (fun a => a == .flush) then r := r.addCover s!"pair-{who}-late-Flush-while-{other}-in-flight"
  | none =>
    r := r.mismatch sec l.idx (s!"{who}: " ++ (match cands.head? with | some c => c.render false | none => "?")) (s!"{who}: " ++ impl)
  match parseSRet (o "sret"), parseView (o "atret"), parseView (o "final"), parseResults (o "results") with
  | some sret, some atRet, some final, some (results, _) =>
    let ob : Spec.Obs := { script := script, kind := kind, firedLo := (match kind with | some _ => k | none => script.length + 1),
                           firedHi := (match kind with | some _ => k | none => script.length + 1), gated := true,
                           sret := sret, atRet := atRet, final := final, results := results }
    for e in Spec.check reasonBytes ob do
      r := r.violation sec l.idx s!"{e} [request {who} of two requests in flight together; the other one is {other}]: op=[{joinSp l.op}] impl=[{joinSp l.obs}]"
      if e.startsWith "[known-class " then r := r.addCover ("known-" ++ (((e.splitOn "]").headD "").splitOn " ").getLastD "")
  | _, _, _, _ => r := r.mismatch sec l.idx "parsable-observation" (joinSp l.obs)
  return r

def runPairLine (r : Report) (sec : Nat) (l : Line) : Report :=
  match l.op with
  | "pair" :: inst :: kindA :: ka :: kindB :: kb :: la :: rest =>
    let (ta, tb) := splitAt "/" rest
    match parseKind kindA, ka.toNat?, parseKind kindB, kb.toNat?, la.toNat?, parseActs ta, parseActs tb with
    | some kA, some a, some kB, some b, some late, some sa, some sb =>
      if (inst ≠ "same" && inst ≠ "own") || kindA = "timer" || kindB = "timer" then r.mismatch sec l.idx "bad-op" (joinSp l.op) else
      let r := r.addCover s!"pair-{inst}-instance" |>.addCover s!"pair-A-{kindA}-B-{kindB}"
      let r := runPairHalf r sec l "A" "B" "a" sa kA a (late > 0)
      let r := runPairHalf r sec l "B" "A" "b" sb kB b false
      if obsOf l "leak" ≠ "0" then
        r.violation sec l.idx s!"a goroutine of the wrapper is left behind after both requests and their work have ended (leak): op=[{joinSp l.op}] impl=[{joinSp l.obs}]"
      else r
    | _, _, _, _, _, _, _ => r.mismatch sec l.idx "bad-op" (joinSp l.op)
  | _ => r.mismatch sec l.idx "bad-op" (joinSp l.op)

/-- `tbw <kind> <act>` => `during=<blocked|res> after=<res> final=<view>`: the handler acts while the timeout branch is
between taking `tw.mu` and `timedOut = true` (model: pc = t1, `mu = true`) -/
def runTbwLine (r : Report) (sec : Nat) (l : Line) : Report :=
  match l.op with
  | ["tbw", kindTok, actTok] =>
    match parseKind kindTok, parseAct actTok with
    | some (some k), some a =>
      let s1 := stepD (stepD (St.init [a]) (.env k)) .mTimeout
      let during := match step reasonBytes s1 .h with
        | none => "blocked"
        | some s' => (s'.log.getLast?.map showRes).getD "?"
      let s2 := stepD (stepD (stepD (match step reasonBytes s1 .h with | some s' => s' | none => s1) .mAdv) .mAdv) .mAdv
      let s3 := hsteps 1 s2
      let after := (s3.log.head?.map showRes).getD "?"
      let model := s!"during={during} after={after} final={showView (Spec.ofRec s3.w)}"
      let impl := joinSp l.obs
      let r := r.addCover s!"tbw-{(actTok.splitOn ":").headD ""}-during-{during}"
      let r := if model ≠ impl then r.mismatch sec l.idx model impl else r
      let locked := match a with | .setHeader _ _ => false | _ => true
      let r := if locked && obsOf l "during" ≠ "blocked" then
        r.violation sec l.idx s!"an action of the work went through while the timeout response was being written (the timeout branch must hold the writer's lock until timedOut is set: complete result or timeout result, never a mixture): op=[{joinSp l.op}] impl=[{impl}]"
      else r
      let isWrite : Bool := match a with | .write _ => true | _ => false
      let r := if isWrite && obsOf l "after" != "err" then
        r.violation sec l.idx s!"a Write after the timeout did not return ErrHandlerTimeout: op=[{joinSp l.op}] impl=[{impl}]" else r
      if parseView (obsOf l "final") ≠ some (Spec.timeout reasonBytes k) then
        r.violation sec l.idx s!"response is neither the work's complete result nor the timeout result (mixture): op=[{joinSp l.op}] impl=[{impl}]"
      else r
    | _, _ => r.mismatch sec l.idx "bad-op" (joinSp l.op)
  | _ => r.mismatch sec l.idx "bad-op" (joinSp l.op)

def runDlLine (r : Report) (sec : Nat) (l : Line) : Report :=
  match l.op with
  | ["dl", p, d, hdr] =>
    match parseParent p, d.toInt?, parseHdr hdr with
    | some parent, some dur, some h =>
      let dl := restDeadline (dur * 1000000) h (parent.map (· * 1000000)) 0
      let m := "dl=" ++ dlClass (parent.map (· * 1000000)) dl
      let impl := joinSp l.obs
      let r := r.addCover ("rest-" ++ m ++ (if restWraps (dur * 1000000) h then "-wrapped" else "-unwrapped"))
      let r := if m ≠ impl then r.mismatch sec l.idx m impl else r
      -- monitor: deadline no later than the caller's and no later than now + timeout
      let parentLater : Bool := match parent with | some p => decide (p > dur + 4000) | none => false
      let r := if restWraps (dur * 1000000) h && parentLater then r.addCover "rest-dl-caller-deadline-later-than-timeout" else r
      if impl = "dl=late" ∨ (restWraps (dur * 1000000) h ∧ impl = "dl=none") ∨ (parent.isSome ∧ impl = "dl=none")
          ∨ (restWraps (dur * 1000000) h ∧ parentLater ∧ impl = "dl=parent") then
        r.violation sec l.idx s!"deadline seen by the work is later than min(caller's deadline, now+timeout): op=[{joinSp l.op}] impl=[{impl}]"
      else r
    | _, _, _ => r.mismatch sec l.idx "bad-op" (joinSp l.op)
  | _ => r.mismatch sec l.idx "bad-op" (joinSp l.op)

/-! ### select skeletons (zRPC server interceptor, fx.DoWithTimeout) -/

def parseWork (t : String) : Option Work :=
  match t.splitOn ":" with
  | ["ret", r, e] => do pure (.ret (← r.toNat?) (← e.toNat?))
  | ["panic", v] => do pure (.panic (← v.toNat?))
  | ["never"] => some .never
  | ["goexit"] => some .never     -- runtime.Goexit in the work: its goroutine ends without result or panic; the wrapper never hears from it
  | _ => none

def showKind : Kind → String
  | .deadline => "deadline"
  | .canceled => "cancel"

def showOutcome : Outcome → String
  | .result r e => s!"result:{r}:{e}"
  | .timeout k => s!"timeout:{showKind k}"
  | .panic v => s!"panic:{v}"

def parseOutcome (t : String) : Option Outcome :=
  match t.splitOn ":" with
  | ["result", r, e] => do pure (.result (← r.toNat?) (← e.toNat?))
  | ["timeout", "deadline"] => some (.timeout .deadline)
  | ["timeout", "cancel"] => some (.timeout .canceled)
  | ["panic", v] => do pure (.panic (← v.toNat?))
  | _ => none

/-- the worker runs as far as it can -/
def workerRuns (stepf : SelSt → SelLabel → Option SelSt) (s : SelSt) : SelSt :=
  iter 8 (fun s => (stepf s .w).getD s) s

/-- the select takes the panic / done branch if it can -/
def mainTakesWork (stepf : SelSt → SelLabel → Option SelSt) (s : SelSt) : SelSt :=
  match stepf s .mPanic with
  | some s' => s'
  | none =>
    match stepf s .mDone with
    | some s1 => (match stepf s1 .mDoneLocked with | some s2 => s2 | none => s1)
    | none => s

def mainTakesTimeout (stepf : SelSt → SelLabel → Option SelSt) (s : SelSt) (k : Kind) : SelSt :=
  let s1 := (stepf s (.env k)).getD s
  (stepf s1 .mTimeout).getD s1

def outStr (s : SelSt) : String :=
  match s.out with
  | some o => showOutcome o
  | none => "blocked"

def stepOf (wrapper : String) : Option (SelSt → SelLabel → Option SelSt) :=
  if wrapper = "srv" then some srvStep else if wrapper = "fx" then some fxStep else none

/-- is the context that ends the one the wrapper listens to?  (fx: the context of the *last* option) -/
def expiryEffective (wrapper : String) (nopts fire : Nat) : Bool :=
  if wrapper = "fx" then fxParent ((List.range nopts).map (fun (i : Nat) => some (Int.ofNat i))) == some (Int.ofNat fire)
  else true

def runSelLineOp (r : Report) (sec : Nat) (l : Line) (op : List String) (pfx : String := "sel") : Report := Id.run do
  let mut r := r
  let parsed : Option (String × (SelSt → SelLabel → Option SelSt) × String × String × Work × Nat × Nat) :=
    match op with
    | ["sel", w, kind, at', work] => do pure (w, (← stepOf w), kind, at', (← parseWork work), 1, 0)
    | ["sel", w, kind, at', work, n, f] => do pure (w, (← stepOf w), kind, at', (← parseWork work), (← n.toNat?), (← f.toNat?))
    | _ => none
  match parsed with
  | none => return r.mismatch sec l.idx "bad-op" (joinSp l.op)
  | some (w, stepf, kindTok, at', work, nopts, fire) =>
    match parseKind kindTok with
    | none => return r.mismatch sec l.idx "bad-op" (joinSp l.op)
    | some kind =>
      let eff := kind.isSome && (kindTok = "timer" || expiryEffective w nopts fire)
      let s0 : SelSt := { work := work }
      let impl := joinSp l.obs
      let model : String :=
        if at' = "before" && kind.isSome then
          if eff then "out=" ++ outStr (mainTakesTimeout stepf s0 (kind.getD .deadline))
          else
            let s1 := mainTakesWork stepf (workerRuns stepf s0)
            "out=blocked" ++ (if s1.out.isSome then " then=" ++ outStr s1 else "")
        else
          let s1 := mainTakesWork stepf (workerRuns stepf s0)
          if s1.out.isSome then "out=" ++ outStr s1
          else "out=blocked" ++ (if eff then " then=" ++ outStr (mainTakesTimeout stepf s1 (kind.getD .deadline)) else "")
      r := r.addCover s!"{pfx}-{w}-{kindTok}-{at'}" |>.addCover s!"{pfx}-{w}-work-{(joinSp [toString (repr work)]).takeWhile (· != ' ')}"
      if kind.isSome && !eff then r := r.addCover "fx-expiry-of-non-last-option-ignored"
      if model ≠ impl then r := r.mismatch sec l.idx model impl
      -- monitor on the implementation's observation
      let last := (kv? l.obs "then").getD (obsOf l "out")
      if obsOf l "out" = "stuck" || last = "stuck" then
        r := r.violation sec l.idx s!"wrapper did not return at the deadline while the work ignored it: op=[{joinSp l.op}] impl=[{impl}]"
      else if last = "blocked" then pure ()
      else
        match parseOutcome last with
        | some o =>
          let o' := match w, o with | "fx", .result _ e => Outcome.result (match work with | .ret r' _ => r' | _ => 0) e | _, o => o
          for e in Spec.checkSel work (if eff then kind else none) o' do
            r := r.violation sec l.idx s!"{e}: op=[{joinSp l.op}] impl=[{impl}]"
        | none => r := r.violation sec l.idx s!"outcome is neither the work's result nor a timeout result: op=[{joinSp l.op}] impl=[{impl}]"
      return r

def runSelLine (r : Report) (sec : Nat) (l : Line) : Report := runSelLineOp r sec l l.op

def runSelRaceLine (r : Report) (sec : Nat) (l : Line) : Report :=
  match l.op with
  | ["selrace", w, kindTok, _spin, workTok] =>
    match stepOf w, parseKind kindTok, parseWork workTok with
    | some stepf, some (some k), some work =>
      let s0 : SelSt := { work := work }
      let a := outStr (mainTakesTimeout stepf s0 k)
      let s1 := mainTakesWork stepf (workerRuns stepf s0)
      let cands := [a] ++ (if s1.out.isSome then [outStr s1] else [])
      let impl := obsOf l "out"
      let r := r.addCover (if impl = a then s!"selrace-{w}-timeout" else s!"selrace-{w}-work")
      let r := if cands.contains impl then r else r.mismatch sec l.idx (" | ".intercalate cands) impl
      match parseOutcome impl with
      | some o =>
        let o' := match w, o with | "fx", .result _ e => Outcome.result (match work with | .ret r' _ => r' | _ => 0) e | _, o => o
        (Spec.checkSel work (some k) o').foldl (fun r e => r.violation sec l.idx s!"{e}: op=[{joinSp l.op}] impl=[{joinSp l.obs}]") r
      | none => r.violation sec l.idx s!"outcome is neither the work's result nor a timeout result: op=[{joinSp l.op}] impl=[{joinSp l.obs}]"
    | _, _, _ => r.mismatch sec l.idx "bad-op" (joinSp l.op)
  | _ => r.mismatch sec l.idx "bad-op" (joinSp l.op)

/-- `pairsel <kindA> <workA> <kindB> <atB> <workB>` => `aout=… afin=… out=… [then=…]`: two calls through one interceptor; the
model has no state between calls (`SrvInst.call` returns the closure unchanged; each call has its own `SelSt`), so A must
be the timeout result of ITS expiry and B must be explained — and satisfy the outcome law — on its own. -/
def runPairSelLine (r : Report) (sec : Nat) (l : Line) : Report :=
  match l.op with
  | ["pairsel", kindA, workA, kindB, atB, workB] =>
    match parseKind kindA, parseWork workA with
    | some (some kA), some wA =>
      let aModel := outStr (mainTakesTimeout srvStep { work := wA } kA)
      let aImpl := obsOf l "aout"
      let r := r.addCover s!"pairsel-A-late-{(workA.splitOn ":").headD ""}-while-B-in-flight"
      let r := if aModel ≠ aImpl then r.mismatch sec l.idx s!"aout={aModel}" s!"aout={aImpl}" else r
      let r := if obsOf l "afin" ≠ "1" then r.mismatch sec l.idx "afin=1" (joinSp l.obs) else r
      let r := match parseOutcome aImpl with
        | some o => (Spec.checkSel wA (some kA) o).foldl (fun r e =>
            r.violation sec l.idx s!"{e} [call A of two calls through one interceptor]: op=[{joinSp l.op}] impl=[{joinSp l.obs}]") r
        | none => r.violation sec l.idx s!"wrapper did not return at the deadline while the work ignored it [call A of two calls through one interceptor]: op=[{joinSp l.op}] impl=[{joinSp l.obs}]"
      let lB : Line := { l with obs := l.obs.filter (fun t => !(t.startsWith "aout=" || t.startsWith "afin=")) }
      runSelLineOp r sec lB ["sel", "srv", kindB, atB, workB] "pairsel-B"
    | _, _ => r.mismatch sec l.idx "bad-op" (joinSp l.op)
  | _ => r.mismatch sec l.idx "bad-op" (joinSp l.op)

def msInt (s : String) : Option Int := s.toInt?

def dlClassT (parent d : Deadline) (tMs : Int) : String :=
  match d with
  | none => "none"
  | some x => if parent = some x then "parent" else s!"window@{tMs}"

/-- monitor: the observed deadline class is no later than min(caller's, now + t) -/
def dlViolates (impl : String) (parentMs : Option Int) (wraps : Bool) (tMs : Int) : Bool :=
  if impl = "other" || impl = "late" then true
  else if impl = "none" then wraps || parentMs.isSome
  else if impl = "parent" then
    -- exactly the caller's deadline: fine unless that is LATER than now + t (the harness's caller deadlines are at least
    -- 5 s away from every timeout in play, or equal to one)
    (match parentMs with | some p => wraps && p > tMs + 4000 | none => true)
  else match (impl.splitOn "@") with
    | ["window", x] => match x.toInt? with
      | some xm => !wraps || xm > tMs || (match parentMs with | some p => p < xm | none => false)
      | none => true
    | _ => true

def msI (x : Int) : Int := x * 1000000

def parseMts (mts : List String) : Option (List (Nat × Int)) :=
  mts.mapM fun m => match m.splitOn ":" with
    | [a, b] => do pure ((← a.toNat?), msI (← b.toInt?))
    | _ => none

def parseCallOpts (opts : List String) : Option (List (Option Int)) :=
  opts.mapM fun o => if o = "o" then some (none : Option Int) else
    match o.splitOn ":" with
    | ["t", b] => do pure (some (msI (← b.toInt?)))
    | _ => none

/-- the configuration a line's interceptor was built from (lines with the same key share it under `inst=shared`) -/
def instKey (l : Line) : Option String :=
  match l.op with
  | "dl" :: "srv" :: _ :: dflt :: _ :: mts => some ("srv|" ++ dflt ++ "|" ++ joinSp mts)
  | "tsel" :: dflt :: _ :: _ :: _ :: _ :: mts => some ("srv|" ++ dflt ++ "|" ++ joinSp mts)
  | "dl" :: "cli" :: _ :: dflt :: _ => some ("cli|" ++ dflt)
  | _ => none

/-- the call a line makes, as the interceptor sees it (harness clock: now = 0) -/
def callOf (l : Line) : Option Call :=
  match l.op with
  | "dl" :: "srv" :: p :: _ :: method :: _ => do pure { method := (← method.toNat?), parent := (← parseParent p).map msI, now := 0 }
  | "tsel" :: _ :: method :: _ => do pure { method := (← method.toNat?), parent := none, now := 0 }
  | "dl" :: "cli" :: p :: _ :: _ :: opts => do pure { method := 1, opts := (← parseCallOpts opts), parent := (← parseParent p).map msI, now := 0 }
  | _ => none

/-- earlier calls of the section through the same interceptor (`hist`: the section's lines if `inst=shared`) -/
def earlierCalls (hist : List Line) (l : Line) : List Call :=
  (hist.filter (fun h => h.idx < l.idx && instKey h == instKey l)).filterMap callOf

/-- `dl srv …`, `dl cli …`: the deadline the work sees.  `hist`: the lines of the section when its interceptors are shared
(the model then runs the whole sequence of calls through ONE closure state). -/
def runDlSelLine (r : Report) (sec : Nat) (l : Line) (hist : List Line := []) : Report :=
  let ms := msI
  match l.op with
  | "dl" :: "srv" :: p :: dflt :: method :: mts =>
    match parseParent p, dflt.toInt?, method.toNat?, parseMts mts, callOf l with
    | some parent, some d, some m, some tbl, some call =>
      let t := srvTimeout (ms d) tbl m
      let prev := earlierCalls hist l
      let dl := (((SrvInst.new (ms d) tbl).run (prev ++ [call])).getLast?).getD none
      let model := "dl=" ++ dlClassT (parent.map ms) dl (t / 1000000)
      let impl := joinSp l.obs
      let r := r.addCover (if t = ms d then "srv-default-timeout" else "srv-method-timeout")
      let r := r.addCover ("srv-" ++ (model.splitOn "@").headD "")
      let r := if t ≤ 0 then r.addCover "srv-timeout<=0-born-expired" else r
      let r := if m = 0 then r.addCover "srv-empty-method-name" else r
      let prevT := prev.map (fun c => srvTimeout (ms d) tbl c.method)
      let r := if !prev.isEmpty then r.addCover "srv-shared-instance-later-call" else r
      let r := if prevT.any (· > t) then r.addCover "srv-shared-after-call-with-longer-timeout" else r
      let r := if prevT.any (· < t) then r.addCover "srv-shared-after-call-with-shorter-timeout" else r
      let r := if prevT.any (· ≠ ms d) && t = ms d then r.addCover "srv-shared-default-after-method-timeout" else r
      let r := if model ≠ impl then r.mismatch sec l.idx model impl else r
      if dlViolates (obsOf l "dl") parent true (t / 1000000) then
        r.violation sec l.idx s!"deadline seen by the work is later than min(caller's deadline, now+timeout) of its own method: op=[{joinSp l.op}] impl=[{impl}]{if prev.isEmpty then "" else s!" after {prev.length} earlier call(s) through the same interceptor"}"
      else r
    | _, _, _, _, _ => r.mismatch sec l.idx "bad-op" (joinSp l.op)
  | "dl" :: "cli" :: p :: dflt :: e :: opts =>
    match parseParent p, dflt.toInt?, e.toNat?, parseCallOpts opts, callOf l with
    | some parent, some d, some ev, some os, some call =>
      let t := cliTimeout (ms d) os
      let prev := earlierCalls hist l
      let dl := (((CliInst.mk (ms d)).run (prev ++ [call])).getLast?).getD none
      let model := "dl=" ++ dlClassT (parent.map ms) dl (t / 1000000) ++ s!" err={ev} fwd=ok"
      let impl := joinSp l.obs
      let wraps := cliWraps (ms d) os
      let r := r.addCover (if wraps then (if t = ms d then "cli-default-timeout" else "cli-call-option-timeout") else "cli-pass-through")
      let r := if wraps && t < ms d then r.addCover "cli-option-shorter-than-default" else r
      let r := if wraps && t > ms d then r.addCover "cli-option-longer-than-default" else r
      let r := if !wraps && t ≠ ms d then r.addCover "cli-option<=0-disables-timeout" else r
      let r := if wraps && d ≤ 0 then r.addCover "cli-option-enables-timeout-default<=0" else r
      let r := match parent with
        | none => r.addCover "cli-caller-no-deadline"
        | some pm =>
          let r := if pm < 0 then r.addCover "cli-caller-already-expired" else r
          let r := if wraps && ms pm < t then r.addCover "cli-caller-earlier-than-timeout" else r
          let r := if wraps && ms pm > t then r.addCover "cli-caller-later-than-timeout" else r
          if wraps && t < ms pm && ms pm ≤ ms d then r.addCover "cli-option<caller<=default" else r
      let r := if (os.filter (·.isSome)).length > 1 then r.addCover "cli-several-call-timeouts-first-wins" else r
      let prevT := prev.map (fun c => cliTimeout (ms d) c.opts)
      let r := if !prev.isEmpty then r.addCover "cli-shared-instance-later-call" else r
      let r := if prevT.any (· ≠ t) then r.addCover "cli-shared-after-call-with-other-timeout" else r
      let r := if model ≠ impl then r.mismatch sec l.idx model impl else r
      let r := if dlViolates (obsOf l "dl") parent wraps (t / 1000000) then
        r.violation sec l.idx s!"deadline seen by the invoker is later than min(caller's deadline, now+effective timeout): op=[{joinSp l.op}] impl=[{impl}]"
      else r
      let r := if obsOf l "err" ≠ toString ev then
        r.violation sec l.idx s!"the invoker's error did not reach the caller unchanged: op=[{joinSp l.op}] impl=[{impl}]"
      else r
      if obsOf l "fwd" ≠ "ok" then
        r.violation sec l.idx s!"the call (method, request, reply, connection, options) did not reach the invoker unchanged: op=[{joinSp l.op}] impl=[{impl}]"
      else r
    | _, _, _, _, _ => r.mismatch sec l.idx "bad-op" (joinSp l.op)
  | _ => runDlLine r sec l

/-- `tsel <dfltMs> <method> <kind> <at> <work> <m:ms>*`: the outcome law through an interceptor with a method table; the
method's own timeout is either the wrapper's real 3 ms timer (`kind = timer`) or long -/
def runTSelLine (r : Report) (sec : Nat) (l : Line) (hist : List Line) : Report :=
  match l.op with
  | "tsel" :: dflt :: method :: kind :: at' :: work :: mts =>
    match dflt.toInt?, method.toNat?, parseMts mts with
    | some d, some m, some tbl =>
      let prev := earlierCalls hist l
      -- the timeout in force for this call: the model's closure after the earlier calls
      let inst := prev.foldl (fun (i : SrvInst) c => (i.call c.method c.parent c.now).2) (SrvInst.new (msI d) tbl)
      let t := getTimeoutByUnaryServerInfo m inst.timeouts inst.timeout
      let short := decide (t ≤ msI 3)
      if short != (kind == "timer") || (!short && t < msI 60000) then
        r.mismatch sec l.idx "bad-op (kind=timer iff the method's timeout is the 3 ms one, else >= 1 min)" (joinSp l.op)
      else
        let prevT := prev.map (fun c => srvTimeout (msI d) tbl c.method)
        let r := if prevT.any (· > t) then r.addCover "tsel-short-timeout-after-call-with-long-one" else r
        let r := if prevT.any (· < t) then r.addCover "tsel-long-timeout-after-call-with-short-one" else r
        let r := r.addCover (if srvTimeout (msI d) tbl m = msI d then "tsel-default-timeout" else "tsel-method-timeout")
        runSelLineOp r sec l ["sel", "srv", kind, at', work] "tsel"
    | _, _, _ => r.mismatch sec l.idx "bad-op" (joinSp l.op)
  | _ => r.mismatch sec l.idx "bad-op" (joinSp l.op)

/-- `fxt <fire|hold> <timeoutMs> <work> <parentMs|none>*`: fx.DoWithTimeout under real deadlines -/
def runFxtLine (r : Report) (sec : Nat) (l : Line) : Report :=
  match l.op with
  | "fxt" :: expect :: timeout :: work :: parents =>
    match timeout.toInt?, parseWork work, parents.mapM parseParent with
    | some t, some w, some ps =>
      let dl := fxDeadline (msI t) (ps.map (·.map msI)) 0
      let fires := match dl with | some x => decide (x ≤ msI 3) | none => false
      if (expect ≠ "fire" && expect ≠ "hold") || fires != (expect == "fire") then
        r.mismatch sec l.idx "bad-op (fire iff min(last parent, now+timeout) <= 3 ms)" (joinSp l.op)
      else
        let s0 : SelSt := { work := w }
        let model :=
          if fires then "out=" ++ outStr (mainTakesTimeout fxStep s0 .deadline)
          else
            let s1 := mainTakesWork fxStep (workerRuns fxStep s0)
            "out=blocked" ++ (if s1.out.isSome then " then=" ++ outStr s1 else "")
        let impl := joinSp l.obs
        let r := r.addCover s!"fxt-{expect}-timeout{if t ≤ 0 then "<=0" else if t ≤ 3 then "-short" else "-long"}"
        let r := r.addCover s!"fxt-{ps.length}-options"
        let r := match ps.getLast? with
          | some (some p) => r.addCover (if p ≤ 3 && t > 3 then "fxt-parent-deadline-earlier-than-timeout" else if p > 3 && t ≤ 3 then "fxt-timeout-earlier-than-parent-deadline" else "fxt-parent-deadline")
          | some none => r.addCover "fxt-last-option-without-deadline"
          | none => r.addCover "fxt-background"
        let r := if ps.dropLast.any (fun p => match p with | some x => x ≤ 3 | none => false) && !fires then
          r.addCover "fxt-early-deadline-of-non-last-option-ignored" else r
        let r := if model ≠ impl then r.mismatch sec l.idx model impl else r
        -- monitor: the spec's own reading: the call ends by itself iff timeout or the LAST option's deadline is (almost) now
        let specFires := Spec.fxFires t ps
        let last := (kv? l.obs "then").getD (obsOf l "out")
        if obsOf l "out" = "stuck" || last = "stuck" then
          r.violation sec l.idx s!"wrapper did not return at the deadline while the work ignored it: op=[{joinSp l.op}] impl=[{impl}]"
        else if last = "blocked" then
          (if specFires then r.violation sec l.idx s!"wrapper did not return at the deadline while the work ignored it: op=[{joinSp l.op}] impl=[{impl}]" else r)
        else
          match parseOutcome last with
          | some o =>
            let o' := match o with | .result _ e => Outcome.result (match w with | .ret r' _ => r' | _ => 0) e | o => o
            let r := (Spec.checkSel w (if specFires then some .deadline else none) o').foldl
              (fun r e => r.violation sec l.idx s!"{e}: op=[{joinSp l.op}] impl=[{impl}]") r
            if specFires && obsOf l "out" ≠ "timeout:deadline" then
              r.violation sec l.idx s!"the deadline (min of the caller's and now+timeout) had passed but the wrapper waited for the work: op=[{joinSp l.op}] impl=[{impl}]"
            else r
          | none => r.violation sec l.idx s!"outcome is neither the work's result nor a timeout result: op=[{joinSp l.op}] impl=[{impl}]"
    | _, _, _ => r.mismatch sec l.idx "bad-op" (joinSp l.op)
  | _ => r.mismatch sec l.idx "bad-op" (joinSp l.op)

/-- `gt <dfltMs> <o|t:ms>*` => `t=<ms>` (getTimeoutFromCallOptions);  `wct <ms>` => `t=<ms>` (WithCallTimeout) -/
def runCliOptLine (r : Report) (sec : Nat) (l : Line) : Report :=
  match l.op with
  | "gt" :: dflt :: opts =>
    match dflt.toInt?, parseCallOpts opts with
    | some d, some os =>
      let model := s!"t={getTimeoutFromCallOptions os (msI d) / 1000000}"
      let impl := joinSp l.obs
      let r := r.addCover (if os.any (·.isSome) then "gt-call-option" else "gt-default")
      let r := if model ≠ impl then r.mismatch sec l.idx model impl else r
      if obsOf l "t" ≠ toString (Spec.callTimeout d (os.map (·.map (· / 1000000)))) then
        r.violation sec l.idx s!"the per-call timeout is neither the first WithCallTimeout option nor (without one) the default: op=[{joinSp l.op}] impl=[{impl}]"
      else r
    | _, _ => r.mismatch sec l.idx "bad-op" (joinSp l.op)
  | ["wct", x] =>
    match x.toInt? with
    | some v =>
      let model := s!"t={v}"
      let impl := joinSp l.obs
      let r := r.addCover "wct"
      if model ≠ impl then (r.mismatch sec l.idx model impl).violation sec l.idx s!"WithCallTimeout(t) does not carry t: op=[{joinSp l.op}] impl=[{impl}]" else r
    | none => r.mismatch sec l.idx "bad-op" (joinSp l.op)
  | _ => r.mismatch sec l.idx "bad-op" (joinSp l.op)

/-! ### zrpc configuration glue, run on the real code (sections `wrapper=glue`)

`gsrv <confMs> <method> <parentMs|none> <m:ms>*`  => `dl=… n=<interceptors installed>`   (zrpc/server.go setupUnaryInterceptors)
`gcli <on|off> <confMs> <parentMs|none> <u:ms|c:ms|o>*` => `dl=… err=ok`  (zrpc.NewClient → internal.NewClient →
buildDialOptions → buildUnaryInterceptors → TimeoutInterceptor, over an in-memory grpc connection) -/

def parseGcliOpts (toks : List String) : Option (List Int × List (Option Int)) :=
  toks.foldlM (fun (acc : List Int × List (Option Int)) o =>
    if o = "o" then some (acc.1, acc.2 ++ [none]) else
    match o.splitOn ":" with
    | ["u", b] => b.toInt?.map (fun v => (acc.1 ++ [msI v], acc.2))
    | ["c", b] => b.toInt?.map (fun v => (acc.1, acc.2 ++ [some (msI v)]))
    | _ => none) ([], [])

def runGlueLine (r : Report) (sec : Nat) (l : Line) : Report :=
  match l.op with
  | "gsrv" :: conf :: method :: p :: mts =>
    match conf.toInt?, method.toNat?, parseParent p, parseMts mts with
    | some c, some m, some parent, some tbl =>
      let parent' := parent.map msI
      let wired := decide (c > 0)
      let t := srvTimeout (msI c) tbl m
      let dl := srvWiredDeadline c tbl m parent' 0
      let model := s!"dl={dlClassT parent' dl (t / 1000000)} n={if wired then 1 else 0}"
      let impl := joinSp l.obs
      let r := r.addCover (if !wired then "glue-srv-conf-timeout<=0-no-interceptor" else if t = msI c then "glue-srv-default-timeout" else "glue-srv-method-timeout")
      let r := if wired && t ≤ 0 then r.addCover "glue-srv-method-timeout<=0-born-expired" else r
      let r := match parent with
        | some pm => if wired && msI pm < t then r.addCover "glue-srv-caller-earlier" else if wired then r.addCover "glue-srv-caller-later" else r
        | none => r
      let r := if model ≠ impl then r.mismatch sec l.idx model impl else r
      let r := if wired && obsOf l "n" = "0" then
        r.violation sec l.idx s!"RpcServerConf.Timeout > 0 but no timeout interceptor is installed: the work runs without the deadline: op=[{joinSp l.op}] impl=[{impl}]"
      else r
      if wired && dlViolates (obsOf l "dl") parent true (t / 1000000) then
        r.violation sec l.idx s!"deadline seen by the work is later than min(caller's deadline, now+timeout) of its own method as configured (RpcServerConf.Timeout ms / MethodTimeouts through setupUnaryInterceptors): op=[{joinSp l.op}] impl=[{impl}]"
      else r
    | _, _, _, _ => r.mismatch sec l.idx "bad-op" (joinSp l.op)
  | "gcli" :: mw :: conf :: p :: opts =>
    match conf.toInt?, parseParent p, parseGcliOpts opts with
    | some c, some parent, some (users, callOpts) =>
      if mw ≠ "on" && mw ≠ "off" then r.mismatch sec l.idx "bad-op" (joinSp l.op) else
      let on := mw = "on"
      let parent' := parent.map msI
      let t := cliTimeout (cliConfTimeout c users) callOpts
      let dl := cliWiredDeadline on c users callOpts parent' 0
      let model := s!"dl={dlClassT parent' dl (t / 1000000)} err=ok"
      let impl := joinSp l.obs
      let specT := Spec.clientTimeout c users callOpts
      let wraps := on && decide (specT > 0)
      let r := r.addCover (if !on then "glue-cli-middleware-off" else if !wraps then "glue-cli-pass-through"
        else if callOpts.any (·.isSome) then "glue-cli-call-option" else if !users.isEmpty then "glue-cli-WithTimeout-option" else "glue-cli-conf-timeout")
      let r := if users.length > 1 then r.addCover "glue-cli-several-WithTimeout-last-wins" else r
      let r := if on && !users.isEmpty && c > 0 then r.addCover "glue-cli-WithTimeout-overrides-conf" else r
      let r := if on && users.getLast?.any (· ≤ 0) && !callOpts.any (·.isSome) then r.addCover "glue-cli-WithTimeout<=0-disables" else r
      let r := match parent with
        | some pm => if wraps && msI pm < specT then r.addCover "glue-cli-caller-earlier" else if wraps then r.addCover "glue-cli-caller-later" else r
        | none => r
      let r := if model ≠ impl then r.mismatch sec l.idx model impl else r
      let r := if wraps && on && !users.isEmpty && c > 0 && (match users.getLast? with | some u => decide (u < msI c) | none => false)
          && !callOpts.any (·.isSome) then r.addCover "glue-cli-WithTimeout-shorter-than-conf" else r
      if !wraps && (obsOf l "dl").startsWith "window" then
        r.violation sec l.idx s!"the call runs under a timeout although none is in force (effective timeout <= 0 — first WithCallTimeout, else last zrpc.WithTimeout, else RpcClientConf.Timeout — or the Timeout middleware off): the caller's context must reach the work untouched: op=[{joinSp l.op}] impl=[{impl}]"
      else if dlViolates (obsOf l "dl") parent wraps (specT / 1000000) then
        r.violation sec l.idx s!"deadline that travels with the call is later than min(caller's deadline, now+effective timeout) as configured (first WithCallTimeout, else last zrpc.WithTimeout, else RpcClientConf.Timeout) through NewClient / buildDialOptions / buildUnaryInterceptors: op=[{joinSp l.op}] impl=[{impl}]"
      else r
    | _, _, _ => r.mismatch sec l.idx "bad-op" (joinSp l.op)
  | _ => r.mismatch sec l.idx "bad-op" (joinSp l.op)

/-! ### Hijack lines: `hij <sup|nosup> <kind> <before|after>` => `hijack=<ok|refused|unsupported>` -/

def showHij : HijRes → String
  | .ok => "ok"
  | .refused => "refused"
  | .unsupported => "unsupported"

def runHijLine (r : Report) (sec : Nat) (l : Line) : Report :=
  match l.op with
  | ["hij", sup, kindTok, whenTok] =>
    match parseKind kindTok with
    | some (some k) =>
      if (sup ≠ "sup" && sup ≠ "nosup") || (whenTok ≠ "before" && whenTok ≠ "after") then
        r.mismatch sec l.idx "bad-op" (joinSp l.op)
      else
        let supported := sup = "sup"
        -- the state of the timeoutWriter at the moment of the Hijack: the timeout branch has run or not
        let s0 := St.init []
        let s1 := if whenTok = "after" then
          stepD (stepD (stepD (stepD (stepD s0 (.env k)) .mTimeout) .mAdv) .mAdv) .mAdv else s0
        let fixed := "hijack=" ++ showHij (hijack s1.tw supported)
        let pinned := "hijack=" ++ showHij (hijackPinned s1.tw supported)
        let impl := joinSp l.obs
        let r := r.addCover s!"hijack-{sup}-{whenTok}"
        let r := if impl = fixed then (if fixed ≠ pinned then r.addCover "hijack-only-explained-by-fixed-Hijack" else r)
          else if impl = pinned then r.addCover "hijack-only-explained-by-pinned-Hijack"
          else r.mismatch sec l.idx fixed impl
        -- monitor: after the timeout the connection must not be handed to the work
        if whenTok = "after" && obsOf l "hijack" = "ok" then
          r.violation sec l.idx s!"[known-class hijack-after-timeout] Hijack after the timeout handed the connection to the work: op=[{joinSp l.op}] impl=[{impl}]"
        else if whenTok = "after" && obsOf l "hijack" ≠ "refused" && obsOf l "hijack" ≠ "unsupported" then
          r.violation sec l.idx s!"Hijack after the timeout neither refused nor unsupported: op=[{joinSp l.op}] impl=[{impl}]"
        else r
    | _ => r.mismatch sec l.idx "bad-op" (joinSp l.op)
  | _ => r.mismatch sec l.idx "bad-op" (joinSp l.op)

/-! ### rest engine wiring (sections `wrapper=eng`) -/

def parseRouteOpt (s : String) : Option RouteOpt :=
  if s = "sse" then some .sse
  else if s = "prio" || s = "mb" then some .other
  else if s.startsWith "t" then (s.drop 1).toInt?.map (fun ms => RouteOpt.timeout (ms * 1000000))
  else none

def parseGroups (s : String) : Option (List (List RouteOpt)) :=
  (s.splitOn ",").mapM fun g => if g = "-" then some [] else (g.splitOn "+").mapM parseRouteOpt

def parseMw : String → Option MwMode
  | "on" => some .on
  | "off" => some .off
  | "chain" => some .chain
  | _ => none

structure EngSec where
  eng    : Eng
  groups : List (List RouteOpt)
  global : Int
  cfg    : String

def parseEng (cfg : List String) : Option EngSec := do
  let global ← (← kv? cfg "global").toInt?
  let mw ← parseMw (← kv? cfg "mw")
  let groups ← parseGroups (← kv? cfg "groups")
  pure { eng := Eng.build global mw groups, groups := groups, global := global, cfg := joinSp cfg }

def groupClass (opts : List RouteOpt) : String :=
  let hasT := opts.any (fun o => match o with | .timeout _ => true | _ => false)
  let hasS := opts.any (fun o => o == .sse)
  if hasT && hasS then (if groupTimeout opts = 0 then "timeout-then-sse" else "sse-then-timeout")
  else if hasS then "sse-only"
  else if hasT then (if groupTimeout opts > 0 then "own-timeout" else "own-timeout<=0")
  else "no-option"

def runEngLine (r : Report) (sec : Nat) (l : Line) (es : EngSec) : Report :=
  let ms (x : Int) : Int := x * 1000000
  match l.op with
  | ["edl", g, p, hdr] =>
    match g.toNat?, parseParent p, parseHdr hdr with
    | some gi, some parent, some h =>
      match es.eng.duration gi, es.groups[gi]? with
      | some dur, some opts =>
        let own := groupTimeout opts
        let dl := restDeadline dur h (parent.map ms) 0
        let model := "dl=" ++ dlClassT (parent.map ms) dl (dur / 1000000)
        let impl := joinSp l.obs
        let wraps := restWraps dur h
        let others := (es.groups.zipIdx.filter (fun p => p.2 ≠ gi)).map (fun p => groupTimeout p.1)
        let r := r.addCover ("eng-group-" ++ groupClass opts)
        let r := if gi % 3 = 2 then r.addCover ("eng-route-through-AddRoute-" ++ groupClass opts) else r
        let r := r.addCover ("eng-" ++ (model.splitOn "@").headD "" ++ (if wraps then "-wrapped" else "-unwrapped"))
        let r := if es.eng.mw ≠ .on then r.addCover "eng-middleware-off-or-custom-chain" else r
        let r := if wraps && own ≤ 0 && others.any (fun t => t > ms es.global) then r.addCover "eng-global-next-to-longer-route" else r
        let r := if wraps && own > 0 && own < ms es.global then r.addCover "eng-route-shorter-than-global" else r
        let r := if wraps && own > ms es.global then r.addCover "eng-route-longer-than-global" else r
        let r := if wraps && others.any (fun t => t > 0 && t < dur) then r.addCover "eng-next-to-shorter-route" else r
        let r := if model ≠ impl then r.mismatch sec l.idx model impl else r
        -- monitor: the property's timeout of this route is its own if positive, else the global one
        let specT := Spec.routeTimeout own es.global
        let specWraps := es.eng.mw == .on && restWraps specT h
        if dlViolates (obsOf l "dl") parent specWraps (specT / 1000000) then
          r.violation sec l.idx s!"deadline seen by the work is later than min(caller's deadline, now+timeout) of its route (own timeout if set, else the global one): cfg=[{es.cfg}] op=[{joinSp l.op}] impl=[{impl}]"
        else r
      | _, _ => r.mismatch sec l.idx "bad-op(no such group)" (joinSp l.op)
    | _, _, _ => r.mismatch sec l.idx "bad-op" (joinSp l.op)
  | ["emax"] =>
    let model := s!"max={es.eng.timeout / 1000000}"
    let impl := joinSp l.obs
    let r := r.addCover "eng-max"
    if model ≠ impl then r.mismatch sec l.idx model impl else r
  | _ => r.mismatch sec l.idx "bad-op" (joinSp l.op)

def runSection (r : Report) (s : Section) : Report :=
  s.lines.foldl (fun r l =>
    let r := { r with ops := r.ops + 1 }
    -- outcome kinds of the user-supplied work (every entry point that takes a work token)
    let r := l.op.foldl (fun r t =>
      if t = "goexit" then r.addCover s!"work-Goexit-{l.op.headD ""}"
      else if t.startsWith "ret:" && t.endsWith ":999" then r.addCover s!"work-typed-nil-error-{l.op.headD ""}"
      else if t.startsWith "ret:" && t.endsWith ":0" then r.addCover s!"work-nil-error-{l.op.headD ""}"
      else if t.startsWith "panic:" && t.length = 9 then r.addCover s!"work-panic-with-error-value-{l.op.headD ""}"
      else if t.startsWith "panic:" then r.addCover s!"work-panic-with-non-error-value-{l.op.headD ""}"
      else r) r
    match l.op.head? with
    | some "rest" => runRestLine r s.idx l true
    | some "race" => runRestLine r s.idx l false
    | some "dl" => runDlSelLine r s.idx l (if kv? s.cfg "inst" = some "shared" then s.lines else [])
    | some "tsel" => runTSelLine r s.idx l (if kv? s.cfg "inst" = some "shared" then s.lines else [])
    | some "fxt" => runFxtLine r s.idx l
    | some "gt" | some "wct" => runCliOptLine r s.idx l
    | some "hij" => runHijLine r s.idx l
    | some "pair" => runPairLine r s.idx l
    | some "tbw" => runTbwLine r s.idx l
    | some "gsrv" | some "gcli" => runGlueLine r s.idx l
    | some "edl" | some "emax" =>
      (match parseEng s.cfg with
        | some es => runEngLine r s.idx l es
        | none => r.mismatch s.idx l.idx "bad-cfg" (joinSp s.cfg))
    | some "erest" =>
      (match parseEng s.cfg with
        | some es => runRestLine r s.idx l true (some es.eng)
        | none => r.mismatch s.idx l.idx "bad-cfg" (joinSp s.cfg))
    | some "sel" => runSelLine r s.idx l
    | some "selrace" => runSelRaceLine r s.idx l
    | some "pairsel" => runPairSelLine r s.idx l
    | _ => r.mismatch s.idx l.idx "bad-op" (joinSp l.op)) r

def driver (secs : List Section) : Report := secs.foldl runSection {}

end GoZero.C04
