/-
C04 — timeout control.  Executable model of the code that exists (core Lean only):

  rest/handler/timeouthandler.go   TimeoutHandler / timeoutHandler.ServeHTTP / timeoutWriter
  rest/engine.go                   checkedTimeout (per-route override of the global timeout)
  zrpc/internal/serverinterceptors/timeoutinterceptor.go   UnaryTimeoutInterceptor
  zrpc/internal/clientinterceptors/timeoutinterceptor.go   TimeoutInterceptor / WithCallTimeout
  core/fx/timeout.go               DoWithTimeout

Part 1: deadlines (`context.WithTimeout(parent, t)` = min(parent, now+t)) and the enable conditions of the
        four wrappers.
Part 2: the REST wrapper as a two-thread transition system (handler goroutine ‖ ServeHTTP's select) plus an
        environment step that expires/cancels the context at any moment.
Part 3: the same skeleton with a simpler payload for the zRPC server interceptor and fx.DoWithTimeout.

Bytes, header keys/values and panic values are natural numbers (the harness maps its tokens to numbers).
-/
namespace GoZero.C04

/-! ## Part 1 — deadlines -/

/-- A context deadline: `none` = no deadline.  Times are integers (ns), timeouts may be ≤ 0. -/
abbrev Deadline := Option Int

/-- `context.WithTimeout(parent, t)` evaluated at time `now`: the child has a deadline, and it is the
earlier of the parent's and `now + t` (WithDeadline keeps the parent's deadline when it is earlier). -/
def withTimeout (parent : Deadline) (now t : Int) : Deadline :=
  match parent with
  | none => some (now + t)
  | some p => some (if p ≤ now + t then p else now + t)

/-- rest/engine.go `checkedTimeout`: per-route timeout if positive, else the configured one (milliseconds). -/
def checkedTimeout (routeTimeout confTimeoutMs : Int) : Int :=
  if routeTimeout > 0 then routeTimeout else confTimeoutMs * 1000000

/-! ### rest/server.go + rest/engine.go: which duration reaches `TimeoutHandler` for a route -/

/-- a `RouteOption` as far as the timeout is concerned -/
inductive RouteOpt where
  | timeout (t : Int)   -- WithTimeout(t):  r.timeout = t
  | sse                 -- WithSSE():       r.sse = true; r.timeout = 0
  | other               -- WithPriority / WithMaxBytes / WithJwt / …: leave `timeout` alone
  deriving Repr, DecidableEq

/-- `AddRoutes`: `for _, opt := range opts { opt(&r) }` on a zero `featuredRoutes`; its `timeout` field afterwards. -/
def groupTimeout (opts : List RouteOpt) : Int :=
  opts.foldl (fun t o => match o with | .timeout x => x | .sse => 0 | .other => t) 0

/-- is the timeout middleware in the chain?  `on`: `Middlewares.Timeout`; `off`: not; `chain`: a user chain
(`WithChain`) replaces the native middlewares altogether. -/
inductive MwMode where
  | on | off | chain
  deriving Repr, DecidableEq

/-- the engine: `conf.Timeout` (ms), the groups' `timeout` fields in registration order, and `ng.timeout`
(the running maximum that only feeds http.Server's Read/WriteTimeout). -/
structure Eng where
  confMs  : Int
  mw      : MwMode
  routes  : List Int
  timeout : Int
  deriving Repr, DecidableEq

/-- `newEngine(c)` -/
def Eng.new (confMs : Int) (mw : MwMode) : Eng :=
  { confMs := confMs, mw := mw, routes := [], timeout := confMs * 1000000 }

/-- `addRoutes(r)`: append, and `if r.timeout > ng.timeout { ng.timeout = r.timeout }` -/
def Eng.addRoutes (e : Eng) (opts : List RouteOpt) : Eng :=
  { e with routes := e.routes ++ [groupTimeout opts],
           timeout := if groupTimeout opts > e.timeout then groupTimeout opts else e.timeout }

def Eng.build (confMs : Int) (mw : MwMode) (groups : List (List RouteOpt)) : Eng :=
  groups.foldl Eng.addRoutes (Eng.new confMs mw)

/-- `bindRoutes`: per group (in order) the duration handed to `handler.TimeoutHandler` —
`ng.checkedTimeout(fr.timeout)` if the middleware is in the chain; 0 stands for "no timeout middleware". -/
def Eng.bound (e : Eng) : List Int :=
  e.routes.map fun t => match e.mw with
    | .on => checkedTimeout t e.confMs
    | _ => 0

/-- duration of the timeout middleware in front of the routes of group `g` (`none`: no such group) -/
def Eng.duration (e : Eng) (g : Nat) : Option Int := e.bound[g]?

/-- What a request looks like to the REST timeout middleware. -/
structure ReqHdr where
  upgradeWebsocket : Bool   -- r.Header.Get("Upgrade") == "websocket"
  acceptSSE        : Bool   -- r.Header.Get("Accept") == "text/event-stream"
  deriving Repr, DecidableEq

/-- `TimeoutHandler(duration)` wraps only when `duration > 0`, and the wrapper steps aside for
websocket upgrades and event streams. -/
def restWraps (duration : Int) (h : ReqHdr) : Bool :=
  decide (duration > 0) && !(h.upgradeWebsocket || h.acceptSSE)

/-- deadline of the context handed to the REST handler. -/
def restDeadline (duration : Int) (h : ReqHdr) (parent : Deadline) (now : Int) : Deadline :=
  if restWraps duration h then withTimeout parent now duration else parent

/-- `buildMethodTimeouts` + `getTimeoutByUnaryServerInfo`: the last non-empty-named entry for the method wins,
else the default.  Method names are numbers; 0 is the empty name. -/
def srvTimeout (dflt : Int) (methodTimeouts : List (Nat × Int)) (method : Nat) : Int :=
  match (methodTimeouts.reverse.find? (fun p => p.1 != 0 && p.1 == method)) with
  | some p => p.2
  | none => dflt

/-- the server interceptor always wraps (also for `t ≤ 0`: the context is then born expired). -/
def srvDeadline (dflt : Int) (mts : List (Nat × Int)) (method : Nat) (parent : Deadline) (now : Int) : Deadline :=
  withTimeout parent now (srvTimeout dflt mts method)

/-- `getTimeoutFromCallOptions`: the first `TimeoutCallOption` among the call options wins, else the default.
Call options are `some t` (a TimeoutCallOption) or `none` (any other option). -/
def cliTimeout (dflt : Int) (opts : List (Option Int)) : Int :=
  match opts.find? (fun o => o.isSome) with
  | some (some t) => t
  | _ => dflt

/-- the client interceptor passes the caller's context through when `t ≤ 0`. -/
def cliWraps (dflt : Int) (opts : List (Option Int)) : Bool := decide (cliTimeout dflt opts > 0)

def cliDeadline (dflt : Int) (opts : List (Option Int)) (parent : Deadline) (now : Int) : Deadline :=
  if cliWraps dflt opts then withTimeout parent now (cliTimeout dflt opts) else parent

/-! ### zrpc wiring: which timeout reaches the interceptors (zrpc/server.go, zrpc/client.go, zrpc/internal/client.go) -/

/-- `setupUnaryInterceptors`: the timeout interceptor is installed only `if c.Timeout > 0`, with
`time.Duration(c.Timeout)*time.Millisecond` and `c.MethodTimeouts` — with `Timeout ≤ 0` ("no timeout") the method
table is not consulted at all. -/
def srvWiredDeadline (confMs : Int) (mts : List (Nat × Int)) (method : Nat) (parent : Deadline) (now : Int) : Deadline :=
  if confMs > 0 then srvDeadline (confMs * 1000000) mts method parent now else parent

/-- `NewClient`: `WithTimeout(c.Timeout ms)` is put in front of the user's `ClientOption`s only `if c.Timeout > 0`;
`buildDialOptions` applies the options in order on a zero `ClientOptions` (the last `WithTimeout` wins). -/
def cliConfTimeout (confMs : Int) (userTimeouts : List Int) : Int :=
  ((if confMs > 0 then [confMs * 1000000] else []) ++ userTimeouts).foldl (fun _ t => t) 0

/-- `buildUnaryInterceptors`: `TimeoutInterceptor(cliOpts.Timeout)` only under `middlewares.Timeout`; per call the
first `WithCallTimeout` option overrides it (`cliTimeout`). -/
def cliWiredDeadline (mwTimeout : Bool) (confMs : Int) (userTimeouts : List Int) (callOpts : List (Option Int))
    (parent : Deadline) (now : Int) : Deadline :=
  if mwTimeout then cliDeadline (cliConfTimeout confMs userTimeouts) callOpts parent now else parent

/-- `fx.DoWithTimeout(fn, timeout, opts…)`: parent = context of the *last* option, else Background. -/
def fxParent (opts : List Deadline) : Deadline :=
  match opts.getLast? with
  | some d => d
  | none => none

def fxDeadline (timeout : Int) (opts : List Deadline) (now : Int) : Deadline :=
  withTimeout (fxParent opts) now timeout

/-! ### the interceptors as closures: captured variables, the per-call selection of the timeout, sequences of calls

The definitions below follow the source statement by statement (they are what `Tie` proves equal to the translation of
the Go code); `Props` proves them equal to the declarative `srvTimeout` / `cliTimeout` / `fxParent` above. -/

/-- a Go `map[string]time.Duration` (method names are numbers, 0 = "") as an association list without duplicate keys -/
abbrev MTable := List (Nat × Int)

/-- `v, ok := m[k]` -/
def tableGet (m : MTable) (k : Nat) : Option Int := (m.find? (fun p => p.1 == k)).map (·.2)

/-- `m[k] = v` -/
def tableSet (m : MTable) (k : Nat) (v : Int) : MTable := m.filter (fun p => p.1 != k) ++ [(k, v)]

/-- `buildMethodTimeouts`: `for _, st := range timeouts { if st.FullMethod != "" { mt[st.FullMethod] = st.Timeout } }` -/
def buildMethodTimeouts (timeouts : List (Nat × Int)) : MTable :=
  timeouts.foldl (fun mt st => if st.1 != 0 then tableSet mt st.1 st.2 else mt) []

/-- `getTimeoutByUnaryServerInfo`: `if v, ok := timeouts[method]; ok { return v }; return defaultTimeout` -/
def getTimeoutByUnaryServerInfo (method : Nat) (timeouts : MTable) (defaultTimeout : Int) : Int :=
  match tableGet timeouts method with
  | some v => v
  | none => defaultTimeout

/-- what the closure returned by `UnaryTimeoutInterceptor(timeout, methodTimeouts...)` has captured -/
structure SrvInst where
  timeout  : Int
  timeouts : MTable
  deriving Repr, DecidableEq

def SrvInst.new (timeout : Int) (methodTimeouts : List (Nat × Int)) : SrvInst :=
  { timeout := timeout, timeouts := buildMethodTimeouts methodTimeouts }

/-- one call through the closure: the deadline of the context handed to the handler, and the captured variables
afterwards (the closure assigns to none of them: `t` is a per-call local). -/
def SrvInst.call (i : SrvInst) (method : Nat) (parent : Deadline) (now : Int) : Deadline × SrvInst :=
  (withTimeout parent now (getTimeoutByUnaryServerInfo method i.timeouts i.timeout), i)

/-- a call as the interceptor sees it -/
structure Call where
  method : Nat
  opts   : List (Option Int) := []     -- client only: the call options
  parent : Deadline
  now    : Int
  deriving Repr, DecidableEq

/-- a sequence of calls through ONE closure: the deadlines handed to the handlers, in order -/
def SrvInst.run (i : SrvInst) : List Call → List Deadline
  | [] => []
  | c :: cs => (i.call c.method c.parent c.now).1 :: (i.call c.method c.parent c.now).2.run cs

/-- `getTimeoutFromCallOptions`: `for _, opt := range opts { if o, ok := opt.(TimeoutCallOption); ok { return o.timeout } };
return defaultTimeout` -/
def getTimeoutFromCallOptions (opts : List (Option Int)) (defaultTimeout : Int) : Int :=
  match opts.findSome? (fun opt => opt) with
  | some t => t
  | none => defaultTimeout

/-- what the closure returned by the client's `TimeoutInterceptor(timeout)` has captured -/
structure CliInst where
  timeout : Int
  deriving Repr, DecidableEq

/-- `t := getTimeoutFromCallOptions(opts, timeout); if t <= 0 { return invoker(ctx, …) };
ctx, cancel := context.WithTimeout(ctx, t); return invoker(ctx, …)` -/
def CliInst.call (i : CliInst) (opts : List (Option Int)) (parent : Deadline) (now : Int) : Deadline × CliInst :=
  let t := getTimeoutFromCallOptions opts i.timeout
  (if t ≤ 0 then parent else withTimeout parent now t, i)

def CliInst.run (i : CliInst) : List Call → List Deadline
  | [] => []
  | c :: cs => (i.call c.opts c.parent c.now).1 :: (i.call c.opts c.parent c.now).2.run cs

/-! ### the zrpc configuration glue as decision functions (round 5c; `TieSem` proves them equal to the translation of
zrpc/server.go `setupUnaryInterceptors`, zrpc/client.go `NewClient`, zrpc/internal/client.go `WithTimeout`,
`buildDialOptions`, `buildUnaryInterceptors` for all arguments).  A `ClientOption` is `some t` (= `WithTimeout(t)`) or
`none` (any other option: it does not touch `ClientOptions.Timeout`). -/

/-- `setupUnaryInterceptors`: `if c.Timeout > 0 { AddUnaryInterceptors(UnaryTimeoutInterceptor(c.Timeout ms, c.MethodTimeouts...)) }`:
the arguments of the installed interceptor, `none` = not installed -/
def srvGlueIcpt (confMs : Int) (mts : List (Nat × Int)) : Option (Int × List (Nat × Int)) :=
  if confMs > 0 then some (confMs * 1000000, mts) else none

/-- `buildUnaryInterceptors(timeout)`: `if c.middlewares.Timeout { append(TimeoutInterceptor(timeout)) }` — also for
`timeout ≤ 0` (the interceptor is what honours `WithCallTimeout`) -/
def cliGlueIcpt (mwTimeout : Bool) (timeout : Int) : Option Int := if mwTimeout then some timeout else none

/-- zrpc.NewClient: the option list handed to internal.NewClient.  `other k`: the k-th condition that guards an option which
does not touch the timeout (credentials, NonBlock, keepalive) — arbitrary -/
def cliGlueConfOpts (confMs : Int) (options : List (Option Int)) (other : Nat → Bool) : List (Option Int) :=
  ([] : List (Option Int)) ++ (if other 0 then [none] else []) ++ (if other 1 then [none] else []) ++
    (if confMs > 0 then [some (confMs * 1000000)] else []) ++ (if other 2 then [none] else []) ++ options

/-- `opt(&cliOpts)` as far as `cliOpts.Timeout` is concerned (`WithTimeout`: `options.Timeout = timeout`) -/
def applyClientOpt (t : Int) : Option Int → Int
  | some x => x
  | none => t

/-- `buildDialOptions`: `var cliOpts ClientOptions; for _, opt := range opts { opt(&cliOpts) }`; the argument of
`buildUnaryInterceptors` is `cliOpts.Timeout` -/
def cliGlueDialTimeout (opts : List (Option Int)) : Int := opts.foldl applyClientOpt 0

/-- the whole client path for one call: zrpc.NewClient → internal.NewClient (the balancer option in front) → dial →
buildDialOptions → buildUnaryInterceptors → the interceptor closure → the context handed to the invoker -/
def cliConfigDeadline (mw : Bool) (confMs : Int) (options : List (Option Int)) (other : Nat → Bool)
    (callOpts : List (Option Int)) (parent : Deadline) (now : Int) : Deadline :=
  match cliGlueIcpt mw (cliGlueDialTimeout (none :: cliGlueConfOpts confMs options other)) with
  | some t => ((CliInst.mk t).call callOpts parent now).1
  | none => parent

/-- the whole server path for one call: RpcServerConf → setupUnaryInterceptors → the interceptor closure → the handler's context -/
def srvConfigDeadline (confMs : Int) (mts : List (Nat × Int)) (method : Nat) (parent : Deadline) (now : Int) : Deadline :=
  match srvGlueIcpt confMs mts with
  | some a => ((SrvInst.new a.1 a.2).call method parent now).1
  | none => parent


/-- fx.DoWithTimeout: `parentCtx := context.Background(); for _, opt := range opts { parentCtx = opt() }` -/
def fxParentLoop (opts : List Deadline) : Deadline := opts.foldl (fun _ opt => opt) none

/-- `TimeoutHandler(duration)`: `if duration <= 0 { return next }` and ServeHTTP's exemption test on the two request
headers -/
def restExempt (upgrade accept : String) : Bool := upgrade == "websocket" || accept == "text/event-stream"

/-! ## Part 2 — REST: timeoutWriter and the two threads -/

abbrev Hdrs := List (Nat × Nat)

/-- `m[k] = v` on a Go map (kept as an association list without duplicate keys). -/
def hset (h : Hdrs) (k v : Nat) : Hdrs := h.filter (fun p => p.1 != k) ++ [(k, v)]

/-- `for k, v := range src { dst[k] = v }`. -/
def hmerge (dst src : Hdrs) : Hdrs := src.foldl (fun d p => hset d p.1 p.2) dst

def hget (h : Hdrs) (k : Nat) : Option Nat := (h.find? (fun p => p.1 == k)).map (·.2)

/-- why the context ended: deadline (own timer or the caller's deadline) or cancellation. -/
inductive Kind where
  | deadline | canceled
  deriving Repr, DecidableEq

/-- status written by the timeout branch: 499 for `context.Canceled`, else 503. -/
def statusOf : Kind → Nat
  | .deadline => 503
  | .canceled => 499

/-- The client-visible writer (`httptest.ResponseRecorder` / net/http's response): headers are frozen
(snapshot) by the first `WriteHeader`, a `Write` implies `WriteHeader(200)`. -/
structure Rec where
  hdr   : Hdrs := []
  snap  : Option Hdrs := none
  code  : Nat := 200
  wrote : Bool := false
  body  : List Nat := []
  deriving Repr, DecidableEq

def Rec.init : Rec := {}

def Rec.writeHeader (r : Rec) (c : Nat) : Rec :=
  if r.wrote then r else { r with code := c, wrote := true, snap := some r.hdr }

def Rec.write (r : Rec) (b : List Nat) : Rec :=
  let r1 := r.writeHeader 200
  { r1 with body := r1.body ++ b }

/-- `Flusher.Flush` of the recorder: writes the header if nothing was written. -/
def Rec.flush (r : Rec) : Rec := r.writeHeader 200

/-- what the client sees: status, frozen headers (the live map if nothing was written), body. -/
def Rec.view (r : Rec) : Nat × Hdrs × List Nat := (r.code, r.snap.getD r.hdr, r.body)

/-- `timeoutWriter` (fields `h, wbuf, code, wroteHeader, timedOut`; `mu` is in the thread state). -/
structure TW where
  h           : Hdrs := []
  code        : Nat := 200
  wbuf        : List Nat := []
  wroteHeader : Bool := false
  timedOut    : Bool := false
  flushed     : Bool := false   -- (fix C04-flush-after-timeout) the status line went out with a Flush
  deriving Repr, DecidableEq

def TW.init : TW := {}

/-- one action of the wrapped handler -/
inductive Act where
  | setHeader (k v : Nat)       -- w.Header().Set(k, v)        (no lock: Header() hands out the map)
  | writeHeader (code : Nat)    -- w.WriteHeader(code)         (under tw.mu)
  | write (b : List Nat)        -- w.Write(b)                  (under tw.mu)
  | flush                       -- w.(http.Flusher).Flush()    (under tw.mu, nothing once timedOut; pinned code: no lock)
  | panic (v : Nat)             -- panic(v)
  deriving Repr, DecidableEq

/-- what the handler sees as the result of its action -/
inductive Res where
  | ok | errTimeout | panicked (v : Nat)
  deriving Repr, DecidableEq

def validCode (c : Nat) : Bool := decide (100 ≤ c) && decide (c ≤ 599)

/-- panic value of `checkWriteHeaderCode` ("invalid WriteHeader code c") -/
def invalidCodePanic (c : Nat) : Nat := 1000000 + c

/-- `writeHeaderLocked(code)` after `checkWriteHeaderCode` passed: `switch { case timedOut: ; case wroteHeader: log ;
default: wroteHeader = true; code = code }`. -/
def TW.writeHeaderLocked (t : TW) (c : Nat) : TW :=
  if t.timedOut then t else if t.wroteHeader then t else { t with wroteHeader := true, code := c }

/-- The effect of a lock-protected / header action on the timeoutWriter alone, with the handler-visible
result.  `flush` and `panic` do not touch `tw` here (flush is handled in `hstep`, it also writes to `w`). -/
def twStep (t : TW) : Act → TW × Res
  | .setHeader k v => ({ t with h := hset t.h k v }, .ok)
  | .writeHeader c =>
    if t.wroteHeader then (t, .ok)
    else if !validCode c then (t, .panicked (invalidCodePanic c))
    else (t.writeHeaderLocked c, .ok)
  | .write b =>
    if t.timedOut then (t, .errTimeout)
    else
      let t1 := if t.wroteHeader then t else t.writeHeaderLocked 200
      ({ t1 with wbuf := t1.wbuf ++ b }, .ok)
  | .flush => (t, .ok)
  | .panic v => (t, .panicked v)

/-- the handler run to the end of a list of actions on its own (no timeout) -/
def runTW (t : TW) (acts : List Act) : TW := acts.foldl (fun t a => (twStep t a).1) t

/-- `case <-done:` of ServeHTTP: copy the buffered headers, status (only if ≠ 200 and not already sent by a Flush)
and body to the real writer. -/
def doneBranch (w : Rec) (t : TW) : Rec :=
  let w1 : Rec := { w with hdr := hmerge w.hdr t.h }
  let w2 := if t.code != 200 && !t.flushed then w1.writeHeader t.code else w1
  w2.write t.wbuf

/-- the body of `Flush()` (fixed code, run under `mu` when not `timedOut`): copy headers, send the buffered status with
the first flush, write the buffer straight to the real writer, reset the buffer, flush. -/
def flushNow (w : Rec) (t : TW) : Rec × TW :=
  let w1 : Rec := { w with hdr := hmerge w.hdr t.h }
  let w2 := if !t.flushed && t.code != 200 then w1.writeHeader t.code else w1
  ((w2.write t.wbuf).flush, { t with wbuf := [], flushed := true })

/-- `Flush()` as pinned (before fixes/C04-flush-after-timeout.patch): without `mu`, without looking at `timedOut`,
without the buffered status. -/
def flushNowPinned (w : Rec) (t : TW) : Rec × TW :=
  let w1 : Rec := { w with hdr := hmerge w.hdr t.h }
  ((w1.write t.wbuf).flush, { t with wbuf := [] })

/-- result of `tw.Hijack()` as the handler sees it -/
inductive HijRes where
  | ok            -- the underlying writer handed the connection over
  | refused       -- ErrHandlerTimeout
  | unsupported   -- "server doesn't support hijacking"
  deriving Repr, DecidableEq

/-- `timeoutWriter.Hijack` (fixed code, fixes/C04-hijack-after-timeout.patch): under `mu`; once `timedOut` the connection
is not the handler's any more; else pass through to the underlying writer if it is a Hijacker. -/
def hijack (t : TW) (supported : Bool) : HijRes :=
  if t.timedOut then .refused else if supported then .ok else .unsupported

/-- `Hijack` as pinned: no lock, no `timedOut` test -/
def hijackPinned (_t : TW) (supported : Bool) : HijRes :=
  if supported then .ok else .unsupported

/-- the response of the timeout branch on a fresh writer -/
def timeoutResp (reason : List Nat) (k : Kind) : Rec := (Rec.init.writeHeader (statusOf k)).write reason

/-- program counter of ServeHTTP's goroutine -/
inductive MPc where
  | select                   -- blocked in `select { panicChan, done, ctx.Done() }`
  | t1 (k : Kind)            -- timeout branch: holds tw.mu
  | t2 (k : Kind)            -- … wrote the status
  | t3 (k : Kind)            -- … wrote the body
  | retDone                  -- returned through `case <-done`
  | retTimeout (k : Kind)    -- returned through `case <-ctx.Done()` (timedOut set, mu released)
  | panicked (v : Nat)       -- re-raised the handler's panic
  deriving Repr, DecidableEq

inductive HSt where
  | running | finished | panicked
  deriving Repr, DecidableEq

structure St where
  script    : List Act
  hpc       : Nat := 0              -- next action of the handler
  hst       : HSt := .running
  tw        : TW := {}
  w         : Rec := {}
  mu        : Bool := false         -- tw.mu is held by ServeHTTP's goroutine
  done      : Bool := false         -- `close(done)` happened
  panicChan : Option Nat := none    -- buffered channel of capacity 1
  ctxErr    : Option Kind := none   -- ctx.Done() is closed, with this ctx.Err()
  pc        : MPc := .select
  log       : List Res := []        -- results of the handler's actions so far
  deriving Repr, DecidableEq

def St.init (script : List Act) : St := { script := script }

/-- who moves -/
inductive Label where
  | h                    -- the handler goroutine performs its next action (or returns: `close(done)`)
  | env (k : Kind)       -- the context expires / is cancelled
  | mPanic | mDone | mTimeout   -- the select takes that branch
  | mAdv                 -- next statement of the timeout branch
  deriving Repr, DecidableEq

/-- `WriteHeader` / `Write` of the handler, tw.mu being free: the whole critical section is one step
(a panic of `checkWriteHeaderCode` ends the handler; the deferred unlock and the recover run) -/
def lockedAct (s : St) (a : Act) : St :=
  match (twStep s.tw a).2 with
  | .panicked v => { s with hst := .panicked, panicChan := some v, log := s.log ++ [.panicked v] }
  | r => { s with tw := (twStep s.tw a).1, hpc := s.hpc + 1, log := s.log ++ [r] }

/-- next step of the handler goroutine -/
def hstep (s : St) : Option St :=
  match s.hst with
  | .finished => none
  | .panicked => none
  | .running =>
    match s.script[s.hpc]? with
    | none => some { s with hst := .finished, done := true }
    | some .flush =>
      if s.mu then none
      else if s.tw.timedOut then some { s with hpc := s.hpc + 1, log := s.log ++ [.ok] }
      else some { s with w := (flushNow s.w s.tw).1, tw := (flushNow s.w s.tw).2, hpc := s.hpc + 1, log := s.log ++ [.ok] }
    | some (.setHeader k v) =>
      some { s with tw := (twStep s.tw (.setHeader k v)).1, hpc := s.hpc + 1, log := s.log ++ [.ok] }
    | some (.panic v) =>
      some { s with hst := .panicked, panicChan := some v, log := s.log ++ [.panicked v] }
    | some (.writeHeader c) => if s.mu then none else some (lockedAct s (.writeHeader c))
    | some (.write b) => if s.mu then none else some (lockedAct s (.write b))

def step (reason : List Nat) (s : St) : Label → Option St
  | .h => hstep s
  | .env k => if s.ctxErr.isNone then some { s with ctxErr := some k } else none
  | .mPanic =>
    match s.pc, s.panicChan with
    | .select, some v => some { s with pc := .panicked v, panicChan := none }
    | _, _ => none
  | .mDone =>
    match s.pc with
    | .select => if s.done then some { s with w := doneBranch s.w s.tw, pc := .retDone } else none
    | _ => none
  | .mTimeout =>
    match s.pc, s.ctxErr with
    | .select, some k => some { s with pc := .t1 k, mu := true }
    | _, _ => none
  | .mAdv =>
    match s.pc with
    | .t1 k => some { s with w := s.w.writeHeader (statusOf k), pc := .t2 k }
    | .t2 k => some { s with w := s.w.write reason, pc := .t3 k }
    | .t3 k => some { s with tw := { s.tw with timedOut := true }, mu := false, pc := .retTimeout k }
    | _ => none

/-- the pinned code (before the fix): `Flush` needs no lock and ignores `timedOut`; everything else as `step` -/
def stepPinned (reason : List Nat) (s : St) : Label → Option St
  | .h =>
    match s.hst, s.script[s.hpc]? with
    | .running, some .flush =>
      some { s with w := (flushNowPinned s.w s.tw).1, tw := (flushNowPinned s.w s.tw).2, hpc := s.hpc + 1, log := s.log ++ [.ok] }
    | _, _ => hstep s
  | l => step reason s l

def runLabelsPinned (reason : List Nat) (s : St) : List Label → Option St
  | [] => some s
  | l :: ls => match stepPinned reason s l with
    | some s' => runLabelsPinned reason s' ls
    | none => none

/-- run a schedule; `none` if some step is not enabled -/
def runLabels (reason : List Nat) (s : St) : List Label → Option St
  | [] => some s
  | l :: ls => match step reason s l with
    | some s' => runLabels reason s' ls
    | none => none

inductive Reachable (reason : List Nat) (script : List Act) : St → Prop where
  | init : Reachable reason script (St.init script)
  | step {s s' : St} (l : Label) : Reachable reason script s → step reason s l = some s' → Reachable reason script s'

/-! ### several requests in flight together

`ServeHTTP` builds, per request, its own `timeoutWriter` (`tw := &timeoutWriter{…}`), its own `done` / `panicChan`
channels and its own derived context; the file has no package-level variable and `ServeHTTP` assigns to nothing declared
outside it (Tie: `tie_serveHTTPFlow`, `tie_sem_no_state_between_calls`, `tie_sem_no_package_state`).  So a server with any
number of requests in flight — through one `timeoutHandler` or several — is the free product of single-request systems:
a step of request `i` changes the state of request `i` only. -/

/-- the state of all requests (request id → its `St`; a request that has not started yet is in `St.init`) -/
abbrev MSt := Nat → St

def MSt.init (scripts : Nat → List Act) : MSt := fun i => St.init (scripts i)

/-- request `i` (its handler goroutine, its context, or its ServeHTTP goroutine) makes the step `l` -/
def mstep (reason : List Nat) (m : MSt) (i : Nat) (l : Label) : Option MSt :=
  match step reason (m i) l with
  | some s' => some (fun j => if j = i then s' else m j)
  | none => none

inductive MReachable (reason : List Nat) (scripts : Nat → List Act) : MSt → Prop where
  | init : MReachable reason scripts (MSt.init scripts)
  | step {m m' : MSt} (i : Nat) (l : Label) : MReachable reason scripts m → mstep reason m i l = some m' →
      MReachable reason scripts m'

/-- run an interleaved schedule of several requests -/
def runMulti (reason : List Nat) (m : MSt) : List (Nat × Label) → Option MSt
  | [] => some m
  | (i, l) :: ls => match mstep reason m i l with
    | some m' => runMulti reason m' ls
    | none => none

/-- exempt requests (websocket / SSE) and `duration ≤ 0`: the handler writes straight to the real writer -/
def directStep (w : Rec) : Act → Rec × Res
  | .setHeader k v => ({ w with hdr := hset w.hdr k v }, .ok)
  | .writeHeader c =>
    if w.wrote then (w, .ok)
    else if !(decide (100 ≤ c) && decide (c ≤ 999)) then (w, .panicked (invalidCodePanic c))   -- net/http's own check
    else (w.writeHeader c, .ok)
  | .write b => (w.write b, .ok)
  | .flush => (w.flush, .ok)
  | .panic v => (w, .panicked v)

/-! ## Part 3 — zRPC server interceptor and fx.DoWithTimeout: select skeleton with a result payload -/

/-- what the wrapped work does when it is left alone -/
inductive Work where
  | ret (resp err : Nat)     -- returns (resp, err)   (fx: only err is used)
  | panic (v : Nat)
  | never                    -- ignores the context and never returns
  deriving Repr, DecidableEq

/-- what the caller of the wrapper observes -/
inductive Outcome where
  | result (resp err : Nat)      -- the work's own (resp, err)
  | timeout (k : Kind)           -- (nil, DeadlineExceeded / Canceled)
  | panic (v : Nat)
  deriving Repr, DecidableEq

/-- program counter of the worker goroutine (server interceptor: lock; assign resp, err; close(done); unlock) -/
inductive WPc where
  | start | locked | gotResp | gotErr | closed | ended
  deriving Repr, DecidableEq

structure SelSt where
  work      : Work
  wpc       : WPc := .start
  lock      : Option Bool := none   -- none = free, some false = worker, some true = main
  resp      : Nat := 0              -- the shared variables `resp`, `err` (0 = nil)
  err       : Nat := 0
  done      : Bool := false
  panicChan : Option Nat := none
  ctxErr    : Option Kind := none
  mwait     : Bool := false         -- main chose `case <-done` and waits for the lock
  out       : Option Outcome := none
  deriving Repr, DecidableEq

inductive SelLabel where
  | w | env (k : Kind) | mPanic | mDone | mDoneLocked | mTimeout
  deriving Repr, DecidableEq

/-- UnaryTimeoutInterceptor -/
def srvStep (s : SelSt) : SelLabel → Option SelSt
  | .w =>
    match s.wpc, s.work with
    | .start, _ => if s.lock.isNone then some { s with lock := some false, wpc := .locked } else none
    | .locked, .ret r _ => some { s with resp := r, wpc := .gotResp }
    | .locked, .panic v => some { s with lock := none, panicChan := some v, wpc := .ended }
    | .locked, .never => none
    | .gotResp, .ret _ e => some { s with err := e, wpc := .gotErr }
    | .gotErr, .ret _ _ => some { s with done := true, wpc := .closed }
    | .closed, .ret _ _ => some { s with lock := none, wpc := .ended }
    | _, _ => none
  | .env k => if s.ctxErr.isNone then some { s with ctxErr := some k } else none
  | .mPanic =>
    match s.out, s.mwait, s.panicChan with
    | none, false, some v => some { s with out := some (.panic v), panicChan := none }
    | _, _, _ => none
  | .mDone =>
    match s.out, s.mwait with
    | none, false => if s.done then some { s with mwait := true } else none
    | _, _ => none
  | .mDoneLocked =>
    match s.out, s.mwait with
    | none, true => if s.lock.isNone then some { s with out := some (.result s.resp s.err), mwait := false } else none
    | _, _ => none
  | .mTimeout =>
    match s.out, s.mwait, s.ctxErr with
    | none, false, some k => some { s with out := some (.timeout k) }
    | _, _, _ => none

/-- fx.DoWithTimeout: `done <- fn()` on a buffered channel, no lock, only the error travels -/
def fxStep (s : SelSt) : SelLabel → Option SelSt
  | .w =>
    match s.wpc, s.work with
    | .start, .ret _ e => some { s with err := e, done := true, wpc := .ended }
    | .start, .panic v => some { s with panicChan := some v, wpc := .ended }
    | _, _ => none
  | .env k => if s.ctxErr.isNone then some { s with ctxErr := some k } else none
  | .mPanic =>
    match s.out, s.panicChan with
    | none, some v => some { s with out := some (.panic v), panicChan := none }
    | _, _ => none
  | .mDone =>
    match s.out with
    | none => if s.done then some { s with out := some (.result 0 s.err), done := false } else none
    | _ => none
  | .mDoneLocked => none
  | .mTimeout =>
    match s.out, s.ctxErr with
    | none, some k => some { s with out := some (.timeout k) }
    | _, _ => none

inductive SelReach (stepf : SelSt → SelLabel → Option SelSt) (work : Work) : SelSt → Prop where
  | init : SelReach stepf work { work := work }
  | step {s s' : SelSt} (l : SelLabel) : SelReach stepf work s → stepf s l = some s' → SelReach stepf work s'

def runSel (stepf : SelSt → SelLabel → Option SelSt) (s : SelSt) : List SelLabel → Option SelSt
  | [] => some s
  | l :: ls => match stepf s l with
    | some s' => runSel stepf s' ls
    | none => none

/-! ### several calls in flight through one interceptor / several `DoWithTimeout` calls: each call has its own `done`,
`panicChan`, lock and result variables (declared inside the per-call closure; Tie `tie_sem_no_state_between_calls`,
`tie_sem_no_package_state`), so the calls form the free product of single-call systems. -/

abbrev MSel := Nat → SelSt

def MSel.init (works : Nat → Work) : MSel := fun i => { work := works i }

def mselStep (stepf : SelSt → SelLabel → Option SelSt) (m : MSel) (i : Nat) (l : SelLabel) : Option MSel :=
  match stepf (m i) l with
  | some s' => some (fun j => if j = i then s' else m j)
  | none => none

inductive MSelReach (stepf : SelSt → SelLabel → Option SelSt) (works : Nat → Work) : MSel → Prop where
  | init : MSelReach stepf works (MSel.init works)
  | step {m m' : MSel} (i : Nat) (l : SelLabel) : MSelReach stepf works m → mselStep stepf m i l = some m' →
      MSelReach stepf works m'

end GoZero.C04
