/-
C04 — semantic Tie (round 4): the DECISION-MAKING part of the four wrappers, translated from the Go source by the `c04sem`
translator of extract/c04.go (`Extracted.C04.*`), is equal to the model's definitions FOR ALL ARGUMENTS.

What is pinned here (and would break with a changed operator / constant / argument / order in the source):
  * which timeout is selected: `getTimeoutByUnaryServerInfo`, `buildMethodTimeouts` (skip "", later entry wins),
    `getTimeoutFromCallOptions` (first TimeoutCallOption wins), fx's option loop (last WithContext wins);
  * when the wrapper wraps: client `t <= 0`, REST `duration <= 0` and the exemption test on the Upgrade / Accept headers;
  * which context reaches the work and which one the select listens to: `context.WithTimeout(<caller's>, <selected>)`;
  * that the per-call body of each wrapper assigns to NO name declared outside it (`*CapturedWrites = []`): the closures keep
    no state between calls (model: `SrvInst.call` / `CliInst.call` return the closure unchanged).
-/
import GoZero.Extracted.C04
import GoZero.C04.ProofsInst
namespace GoZero.C04.TieSem
open GoZero.C04

/-- the translator's meaning of `context.WithTimeout` is the model's -/
theorem tie_sem_withTimeout (parent : Option Int) (now t : Int) :
    Extracted.C04.wt parent now t = withTimeout parent now t := by
  cases parent <;> rfl

theorem tie_sem_map (m : List (Nat × Int)) (k : Nat) (v : Int) :
    Extracted.C04.mapGet m k = tableGet m k ∧ Extracted.C04.mapSet m k v = tableSet m k v := ⟨rfl, rfl⟩

/-- `getTimeoutByUnaryServerInfo`: the method's entry if the map has one, else the default -/
theorem tie_sem_getTimeoutByUnaryServerInfo (method : Nat) (timeouts : List (Nat × Int)) (dflt : Int) :
    Extracted.C04.getTimeoutByUnaryServerInfo method timeouts dflt = getTimeoutByUnaryServerInfo method timeouts dflt := rfl

/-- `buildMethodTimeouts`: in order, entries with the empty method name skipped, later entries overwrite -/
theorem tie_sem_buildMethodTimeouts (conf : List (Nat × Int)) :
    Extracted.C04.buildMethodTimeouts conf = buildMethodTimeouts conf := rfl

/-- the context handed to the zRPC handler, and the one the interceptor's select listens to, is
`WithTimeout(caller's ctx, getTimeoutByUnaryServerInfo(info.FullMethod, buildMethodTimeouts(conf), timeout))` — the closure
model's call, and (declaratively) `srvDeadline` -/
theorem tie_sem_srvHandlerCtx (timeout : Int) (conf : List (Nat × Int)) (ctx : Option Int) (now : Int) (method : Nat) :
    Extracted.C04.srvHandlerCtx timeout conf ctx now method = ((SrvInst.new timeout conf).call method ctx now).1 ∧
    Extracted.C04.srvSelectCtx timeout conf ctx now method = ((SrvInst.new timeout conf).call method ctx now).1 ∧
    Extracted.C04.srvHandlerCtx timeout conf ctx now method = srvDeadline timeout conf method ctx now := by
  have h : Extracted.C04.srvHandlerCtx timeout conf ctx now method = ((SrvInst.new timeout conf).call method ctx now).1 := by
    simp only [Extracted.C04.srvHandlerCtx, SrvInst.call, SrvInst.new, tie_sem_withTimeout]
    rfl
  refine ⟨h, ?_, ?_⟩
  · simp only [Extracted.C04.srvSelectCtx, SrvInst.call, SrvInst.new, tie_sem_withTimeout]
    rfl
  · rw [h]
    simp [SrvInst.call, SrvInst.new, srvDeadline, getTimeout_build]

/-- `getTimeoutFromCallOptions`: the first TimeoutCallOption's timeout, else the default -/
theorem tie_sem_getTimeoutFromCallOptions (opts : List (Option Int)) (dflt : Int) :
    Extracted.C04.getTimeoutFromCallOptions opts dflt = getTimeoutFromCallOptions opts dflt := by
  unfold Extracted.C04.getTimeoutFromCallOptions getTimeoutFromCallOptions
  induction opts with
  | nil => rfl
  | cons o os ih =>
    cases o with
    | none => simpa [List.findSome?] using ih
    | some t => simp [List.findSome?]

/-- the context handed to the zRPC client's invoker: the caller's when `t <= 0`, else `WithTimeout(caller's, t)` with
`t := getTimeoutFromCallOptions(opts, timeout)` — the closure model's call, and `cliDeadline` -/
theorem tie_sem_cliInvokerCtx (timeout : Int) (ctx : Option Int) (now : Int) (opts : List (Option Int)) :
    Extracted.C04.cliInvokerCtx timeout ctx now opts = ((CliInst.mk timeout).call opts ctx now).1 ∧
    Extracted.C04.cliInvokerCtx timeout ctx now opts = cliDeadline timeout opts ctx now := by
  have h : Extracted.C04.cliInvokerCtx timeout ctx now opts = ((CliInst.mk timeout).call opts ctx now).1 := by
    simp only [Extracted.C04.cliInvokerCtx, CliInst.call, tie_sem_withTimeout, tie_sem_getTimeoutFromCallOptions]
    by_cases ht : getTimeoutFromCallOptions opts timeout ≤ 0 <;> simp [ht]
  refine ⟨h, ?_⟩
  rw [h]
  simp only [CliInst.call, cliDeadline, cliWraps, getTimeoutFromCallOptions_eq]
  by_cases ht : cliTimeout timeout opts ≤ 0
  · have : ¬ cliTimeout timeout opts > 0 := by omega
    simp [ht, this]
  · have : cliTimeout timeout opts > 0 := by omega
    simp [ht, this]

/-- `WithCallTimeout(t)` is a `TimeoutCallOption` carrying `t`; fx's `WithContext(ctx)` is an option returning `ctx` -/
theorem tie_sem_optionCtors :
    Extracted.C04.cliWithCallTimeout = ["return TimeoutCallOption{ timeout: timeout, }"] ∧
    Extracted.C04.fxWithContext = ["return ctx"] := by decide

/-- the context fx.DoWithTimeout's select listens to: `WithTimeout(<context of the last option, else Background>, timeout)` -/
theorem tie_sem_fxSelectCtx (timeout : Int) (opts : List (Option Int)) (now : Int) :
    Extracted.C04.fxSelectCtx timeout opts now = withTimeout (fxParentLoop opts) now timeout ∧
    Extracted.C04.fxSelectCtx timeout opts now = fxDeadline timeout opts now := by
  have h : Extracted.C04.fxSelectCtx timeout opts now = withTimeout (fxParentLoop opts) now timeout := by
    simp only [Extracted.C04.fxSelectCtx, tie_sem_withTimeout]
    rfl
  exact ⟨h, by rw [h, fxParentLoop_eq]; rfl⟩

/-- REST: `TimeoutHandler(duration)` installs no wrapper iff `duration <= 0`, else one with `dt = duration`; ServeHTTP hands the
request on untouched iff `Upgrade == "websocket" || Accept == "text/event-stream"`, else with
`WithTimeout(r.Context(), h.dt)` — together: the model's `restDeadline` for every duration, headers, caller deadline, time -/
theorem tie_sem_restHandlerCtx (duration : Int) (hdr : String → String) (parent : Option Int) (now : Int) :
    (match Extracted.C04.timeoutHandlerDt duration with
      | none => parent
      | some dt => Extracted.C04.restHandlerCtx dt hdr parent now) =
    restDeadline duration ⟨hdr "Upgrade" == "websocket", hdr "Accept" == "text/event-stream"⟩ parent now := by
  simp only [Extracted.C04.timeoutHandlerDt, Extracted.C04.restHandlerCtx, restDeadline, restWraps, tie_sem_withTimeout,
    Extracted.C04.headerUpgrade, Extracted.C04.valueWebsocket, Extracted.C04.headerAccept, Extracted.C04.valueSSE]
  by_cases hd : duration ≤ 0
  · have : ¬ duration > 0 := by omega
    simp [hd, this]
  · have : duration > 0 := by omega
    simp only [hd, this, decide_false, decide_true, Bool.true_and]
    cases (hdr "Upgrade" == "websocket") <;> cases (hdr "Accept" == "text/event-stream") <;> simp

/-- `restExempt` of the model is that test -/
theorem tie_sem_restExempt (u a : String) :
    restExempt u a = ((u == Extracted.C04.valueWebsocket) || (a == Extracted.C04.valueSSE)) := rfl

/-- no wrapper's per-call body assigns to a name declared outside it: nothing survives a call (model: the closure models
return themselves unchanged; the REST handler's only fields `handler`, `dt` are never written) -/
theorem tie_sem_no_state_between_calls :
    Extracted.C04.srvCapturedWrites = [] ∧ Extracted.C04.cliCapturedWrites = [] ∧
    Extracted.C04.fxCapturedWrites = [] ∧ Extracted.C04.restCapturedWrites = [] := by decide

/-- no package-level variable in any of the four files: nothing (a pool of writers, a cached context, a shared buffer)
outlives a request / a call; with `tie_sem_no_state_between_calls` this is what makes several requests in flight the free
product of single-request systems (`Model.mstep`, Props `multi_request_independent`) -/
theorem tie_sem_no_package_state :
    Extracted.C04.restPackageVars = [] ∧ Extracted.C04.srvPackageVars = [] ∧
    Extracted.C04.cliPackageVars = [] ∧
    -- fx: only the two exported error aliases (values of `context`, assigned nowhere in the file: `fxCapturedWrites = []`)
    Extracted.C04.fxPackageVars = ["ErrCanceled = context.Canceled", "ErrTimeout = context.DeadlineExceeded"] := by decide

/-! ### c04glue: the zrpc configuration glue (round 5c) -/

/-- zrpc/server.go `setupUnaryInterceptors`: guard `c.Timeout > 0`, unit (ms), and the method table forwarded whole -/
theorem tie_sem_srvGlue (confMs : Int) (mts : List (Nat × Int)) :
    Extracted.C04.srvGlueTimeoutIcpt confMs mts = srvGlueIcpt confMs mts := by
  unfold Extracted.C04.srvGlueTimeoutIcpt srvGlueIcpt
  by_cases h : confMs > 0 <;> simp [h]

/-- zrpc/internal/client.go `buildUnaryInterceptors`: installed exactly under `middlewares.Timeout`, with the timeout it was
given — for EVERY timeout, `≤ 0` included (seeded C04-9: `&& timeout > 0`) -/
theorem tie_sem_cliGlueIcpt (mw : Bool) (timeout : Int) :
    Extracted.C04.cliGlueTimeoutIcpt mw timeout = cliGlueIcpt mw timeout := by
  unfold Extracted.C04.cliGlueTimeoutIcpt cliGlueIcpt; rfl

/-- zrpc/client.go `NewClient`: the configured timeout (if positive, in ms) goes IN FRONT of the caller's options -/
theorem tie_sem_cliGlueConfOpts (confMs : Int) (options : List (Option Int)) (other : Nat → Bool) :
    Extracted.C04.cliGlueConfOpts confMs options other = cliGlueConfOpts confMs options other := by
  unfold Extracted.C04.cliGlueConfOpts cliGlueConfOpts
  by_cases h : confMs > 0 <;> simp [h]

/-- `WithTimeout(t)` stores `t`; `buildDialOptions` applies the options in order on a zero `ClientOptions` and hands
`cliOpts.Timeout` to `buildUnaryInterceptors` -/
theorem tie_sem_cliGlueDial (opts : List (Option Int)) :
    (∀ t o, Extracted.C04.cliGlueApplyOpt t o = applyClientOpt t o) ∧
    Extracted.C04.cliGlueDialTimeout opts = cliGlueDialTimeout opts := by
  have h : ∀ t o, Extracted.C04.cliGlueApplyOpt t o = applyClientOpt t o := by
    intro t o; cases o <;> rfl
  refine ⟨h, ?_⟩
  unfold Extracted.C04.cliGlueDialTimeout cliGlueDialTimeout
  have : (fun cliOpts_Timeout opt => Extracted.C04.cliGlueApplyOpt cliOpts_Timeout opt) = applyClientOpt := by
    funext t o; exact h t o
  simp [this]

/-- the delegations between them forward the option list whole: internal.NewClient puts the balancer option in front,
`dial` hands `opts...` to `buildDialOptions` (model: `none :: …` in `cliConfigDeadline`) -/
theorem tie_cliGlueForwarding :
    Extracted.C04.zrpcCliInternalNew = ["opts = append([]ClientOption{balancerOpt}, opts...)", "err := cli.dial(target, opts...)"] ∧
    Extracted.C04.zrpcCliDial = ["options := c.buildDialOptions(opts...)", "conn, err := grpc.DialContext(timeCtx, server, options...)"] := by
  decide

/-- the delegating entry points as a TYPED forwarding list (function, callee, argument list): zrpc.NewClient hands
`c.Middlewares` and the whole option list to internal.NewClient, which puts exactly one (balancer) option in front and hands
`opts...` to `dial`, which hands `opts...` to `buildDialOptions` and its result to grpc; zrpc.WithCallTimeout and
Server.AddRoute forward all their arguments (model: `none :: …` in `cliConfigDeadline`; one group per AddRoute) -/
theorem tie_forwarding :
    Extracted.C04.zrpcForwarding = [
      ("NewClient", "internal.NewClient", ["target", "c.Middlewares", "opts..."]),
      ("NewClient", "append", ["[]ClientOption{balancerOpt}", "opts..."]),
      ("NewClient", "cli.dial", ["target", "opts..."]),
      ("client.dial", "c.buildDialOptions", ["opts..."]),
      ("client.dial", "grpc.DialContext", ["timeCtx", "server", "options..."]),
      ("WithCallTimeout", "clientinterceptors.WithCallTimeout", ["timeout"]),
      ("Server.AddRoute", "s.AddRoutes", ["[]Route{r}", "opts..."])] := by decide

example : Extracted.C04.cliGlueDialTimeout (none :: Extracted.C04.cliGlueConfOpts 2000 [none, some 7, none] (fun _ => true)) = 7 := by decide
example : Extracted.C04.cliGlueTimeoutIcpt true 0 = some 0 := by decide

example : Extracted.C04.srvHandlerCtx 2000 [(1, 120000), (0, 7), (1, 180000)] (some 500000) 10 1 = some 180010 := by decide
example : Extracted.C04.cliInvokerCtx 60000 (some 20500) 10 [none, some 15000] = some 15010 := by decide
example : Extracted.C04.fxSelectCtx 50 [some 10, some 700] 100 = some 150 := by decide
example : Extracted.C04.timeoutHandlerDt 0 = none ∧ Extracted.C04.timeoutHandlerDt 7 = some 7 := by decide

end GoZero.C04.TieSem
